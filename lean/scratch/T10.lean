import RF.Lemmas.TokEquiv
namespace RF.Tok

instance (ts : List Tok) : Decidable (NoR ts) := by unfold NoR; infer_instance

/-! ## the first half of the pipeline (`mid`): what it can touch -/

def isLit (t : Tok) : Bool := match t.cls with | 'L' :: _ => true | _ => false

theorem canonTok_other (cfg : Cfg) (t : Tok) (h1 : t.isDoc = false) (h2 : isLit t = false) : canonTok cfg t = t := by
  obtain ⟨cls, text⟩ := t
  unfold canonTok
  simp only [Tok.isDoc, isLit] at h1 h2
  have hd : (cls == ['d']) = false := h1
  have hl : ∀ r, cls ≠ 'L' :: r := by
    intro r hr; subst hr; simp at h2
  simp only [hd, Bool.false_eq_true, if_false]
  have e1 : (cls == ['L','s'] || cls == ['L','B'] || cls == ['L','C']) = false := by
    simp [hl]
  have e2 : (cls == ['L','r'] || cls == ['L','R'] || cls == ['L','q']) = false := by
    simp [hl]
  have e3 : (cls == ['L','i']) = false := by simp [hl]
  have e4 : (cls == ['L','f']) = false := by simp [hl]
  simp only [e1, e2, e3, e4, Bool.false_eq_true, if_false]

theorem canonTok_isDoc (cfg : Cfg) (t : Tok) : (canonTok cfg t).isDoc = t.isDoc := by
  rcases canonTok_cls cfg t with h | ⟨h1, h2⟩
  · simp [Tok.isDoc, h]
  · simp [Tok.isDoc, h1, h2]

theorem canonTok_isLit (cfg : Cfg) (t : Tok) : isLit (canonTok cfg t) = isLit t := by
  rcases canonTok_cls cfg t with h | ⟨h1, h2⟩
  · simp [isLit, h]
  · simp [isLit, h1, h2]

/-- literals and doc comments: the tokens `canonTok` may re-spell -/
def clsSpell (t : Tok) : Bool := t.isDoc || isLit t

theorem map_canonTok_outside (cfg : Cfg) (S : Tok → Bool) (hS : ∀ t, clsSpell t = true → S t = true)
    (hS' : ∀ t, S (canonTok cfg t) = S t) :
    ∀ ts : List Tok, outside S (ts.map (canonTok cfg)) = outside S ts := by
  intro ts
  induction ts with
  | nil => rfl
  | cons t ts ih =>
    simp only [List.map_cons, outside_cons, ih, hS']
    split
    · rfl
    · rename_i h
      have : clsSpell t = false := by
        cases hc : clsSpell t
        · rfl
        · exact absurd (hS t hc) h
      simp only [clsSpell, Bool.or_eq_false_iff] at this
      rw [canonTok_other cfg t this.1 this.2]

theorem splitTupleIdx_text {cs a b : List Char} (h : splitTupleIdx cs = some (a, b)) : a ++ '.' :: b = cs := by
  unfold splitTupleIdx at h
  simp only [] at h
  split at h
  · rename_i b' hb
    split at h
    · cases h
      have := List.takeWhile_append_dropWhile (p := isDigit) (l := cs)
      rw [hb] at this
      exact this
    · cases h
  · cases h

theorem resplitAux_text : ∀ (ts : List Tok) (dots : Nat),
    (resplitAux dots ts).flatMap (·.text) = ts.flatMap (·.text) := by
  intro ts
  induction ts with
  | nil => intro _; rfl
  | cons t ts ih =>
    intro dots
    unfold resplitAux
    split
    · simp [ih]
    · split
      · split
        · rename_i a b h
          simp only [List.flatMap_cons, ih, mkP]
          rw [← splitTupleIdx_text h]; simp
        · simp [ih]
      · simp [ih]

/-- numeric literals and `.`: the tokens `resplit` may touch -/
def clsNum (t : Tok) : Bool := isNumLit t || t.isP '.'

theorem resplitAux_outside : ∀ (ts : List Tok) (dots : Nat),
    outside clsNum (resplitAux dots ts) = outside clsNum ts := by
  intro ts
  induction ts with
  | nil => intro _; rfl
  | cons t ts ih =>
    intro dots
    unfold resplitAux
    split
    · simp only [outside_cons, ih]
    · split
      · split
        · rename_i hc _ a b h
          simp only [Bool.and_eq_true] at hc
          have ht : clsNum t = true := by
            have := hc.2; simp only [beq_iff_eq] at this
            simp [clsNum, isNumLit, this]
          have h1 : clsNum ⟨['L','i'], a⟩ = true := by simp [clsNum, isNumLit]
          have h2 : clsNum ⟨['L','i'], b⟩ = true := by simp [clsNum, isNumLit]
          have h3 : clsNum (mkP '.') = true := by decide
          simp only [outside_cons, ih, ht, h1, h2, h3, if_true]
        · simp only [outside_cons, ih]
      · simp only [outside_cons, ih]

/-- the tokens of a `#[doc = "…"]` / `#![doc = "…"]` attribute and doc comments: what `docAttr` may touch -/
def clsDocAttr (t : Tok) : Bool :=
  t.isP '#' || t.isP '!' || t.isO '[' || t.isC ']' || t.isI kwDoc || t.isP '=' || t.cls == ['L','s'] || t.isDoc

theorem docAttrToks_cls {inner : Bool} {o d e s c : Tok} {x : List Tok}
    (h : docAttrToks inner o d e s c = some x) :
    (clsDocAttr o = true ∧ clsDocAttr d = true ∧ clsDocAttr e = true ∧ clsDocAttr s = true ∧ clsDocAttr c = true) ∧
    ∀ t ∈ x, clsDocAttr t = true := by
  unfold docAttrToks at h
  split at h
  · rename_i hc
    simp only [Bool.and_eq_true, beq_iff_eq] at hc
    refine ⟨⟨by simp [clsDocAttr, hc.1.1.1.1], by simp [clsDocAttr, hc.1.1.1.2], by simp [clsDocAttr, hc.1.1.2],
      by simp [clsDocAttr, hc.1.2], by simp [clsDocAttr, hc.2]⟩, ?_⟩
    simp only [Option.map_eq_some_iff] at h
    obtain ⟨v, _, rfl⟩ := h
    intro t ht
    simp only [List.mem_map] at ht
    obtain ⟨l, _, rfl⟩ := ht
    simp [clsDocAttr, Tok.isDoc]
  · cases h

theorem docAttrAt_cls {ts : List Tok} {x : List Tok} {n : Nat} (h : docAttrAt ts = some (x, n)) :
    (∀ t ∈ ts.take (n + 1), clsDocAttr t = true) ∧ ∀ t ∈ x, clsDocAttr t = true := by
  unfold docAttrAt at h
  split at h
  · rename_i hd o d e s c r
    split at h
    · rename_i hh
      have hhd : clsDocAttr hd = true := by simp [clsDocAttr, hh]
      split at h
      · rename_i y hy
        cases h
        obtain ⟨⟨h1, h2, h3, h4, h5⟩, h6⟩ := docAttrToks_cls hy
        refine ⟨?_, h6⟩
        intro t ht
        simp only [List.take_succ_cons, List.take_zero, List.mem_cons, List.not_mem_nil, or_false] at ht
        rcases ht with rfl | rfl | rfl | rfl | rfl | rfl <;> assumption
      · split at h
        · rename_i hb
          split at h
          · rename_i c' r'
            simp only [Option.map_eq_some_iff] at h
            obtain ⟨y, hy, hh2⟩ := h
            cases hh2
            obtain ⟨⟨h1, h2, h3, h4, h5⟩, h6⟩ := docAttrToks_cls hy
            refine ⟨?_, h6⟩
            have ho : clsDocAttr o = true := by simp [clsDocAttr, hb]
            intro t ht
            simp only [List.take_succ_cons, List.take_zero, List.mem_cons, List.not_mem_nil, or_false] at ht
            rcases ht with rfl | rfl | rfl | rfl | rfl | rfl | rfl <;> assumption
          · cases h
        · cases h
    · cases h
  · cases h

theorem docAttrAux_outside : ∀ (ts : List Tok) (n : Nat), (∀ t ∈ ts.take n, clsDocAttr t = true) →
    outside clsDocAttr (docAttrAux n ts) = outside clsDocAttr (ts.drop n) := by
  intro ts
  induction ts with
  | nil => intro n _; simp [docAttrAux]
  | cons t ts ih =>
    intro n h
    cases n with
    | succ n =>
      simp only [docAttrAux, List.drop_succ_cons]
      exact ih n (fun u hu => h u (by simp [List.take_succ_cons, hu]))
    | zero =>
      simp only [docAttrAux, List.drop_zero]
      split
      · rename_i x n hx
        obtain ⟨h1, h2⟩ := docAttrAt_cls hx
        have ht : clsDocAttr t = true := h1 t (by simp [List.take_succ_cons])
        have hts : ∀ u ∈ ts.take n, clsDocAttr u = true := fun u hu => h1 u (by simp [List.take_succ_cons, hu])
        rw [outside_append, outside_eq_nil_of_all _ _ h2, ih n hts, outside_cons]
        simp only [ht, if_true, List.nil_append]
        conv => rhs; rw [← List.take_append_drop n ts, outside_append, outside_eq_nil_of_all _ _ hts]
        simp
      · rw [outside_cons, outside_cons, ih 0 (by simp)]; simp

theorem docAttr_outside (ts : List Tok) : outside clsDocAttr (docAttr ts) = outside clsDocAttr ts := by
  simpa [docAttr] using docAttrAux_outside ts 0 (by simp)

theorem docMergeAux_outside (code : Bool) : ∀ (ts : List Tok) (cur : Option (Bool × List (List Char))),
    outside Tok.isDoc (docMergeAux code cur ts) = outside Tok.isDoc ts := by
  intro ts
  have hf : ∀ i acc, Tok.isDoc (docFlush code i acc) = true := fun _ _ => rfl
  induction ts with
  | nil =>
    intro cur
    cases cur with
    | none => simp [docMergeAux]
    | some x => obtain ⟨i, acc⟩ := x; simp [docMergeAux, outside_cons, hf]
  | cons t ts ih =>
    intro cur
    cases cur with
    | none =>
      simp only [docMergeAux]
      split
      · rename_i h; rw [ih, outside_cons, h]; simp
      · rename_i h; rw [outside_cons, outside_cons, ih]
    | some x =>
      obtain ⟨j, acc⟩ := x
      simp only [docMergeAux]
      split
      · rename_i h
        split
        · rw [ih, outside_cons, h]; simp
        · rw [outside_cons, hf, ih, outside_cons, h]; simp
      · rename_i h
        rw [outside_cons, hf, outside_cons, outside_cons, ih]; simp

/-- everything `mid` may touch under `cfg` -/
def clsMid (cfg : Cfg) (t : Tok) : Bool := clsSpell t || clsNum t || (cfg.docattr && clsDocAttr t)

theorem clsMid_canonTok (cfg : Cfg) (t : Tok) : clsMid cfg (canonTok cfg t) = clsMid cfg t := by
  by_cases h : clsSpell t = true
  · have : clsSpell (canonTok cfg t) = true := by
      simp only [clsSpell, canonTok_isDoc, canonTok_isLit] at h ⊢; exact h
    simp [clsMid, h, this]
  · have h' : clsSpell t = false := by simpa using h
    simp only [clsSpell, Bool.or_eq_false_iff] at h'
    rw [canonTok_other cfg t h'.1 h'.2]

theorem mid_outside (cfg : Cfg) (ts : List Tok) : outside (clsMid cfg) (mid cfg ts) = outside (clsMid cfg) ts := by
  unfold mid
  simp only []
  have h1 : outside (clsMid cfg) (resplit ts) = outside (clsMid cfg) ts :=
    outside_mono (fun t ht => by simp [clsMid, ht]) (resplitAux_outside ts 0)
  have h2 : outside (clsMid cfg) (onlyIf cfg.docattr docAttr (resplit ts)) = outside (clsMid cfg) ts := by
    unfold onlyIf; split
    · rename_i h
      rw [outside_mono (fun t ht => by simp [clsMid, h, ht]) (docAttr_outside (resplit ts))]; exact h1
    · exact h1
  have h3 := map_canonTok_outside cfg (clsMid cfg) (fun t ht => by simp [clsMid, ht]) (clsMid_canonTok cfg)
    (onlyIf cfg.docattr docAttr (resplit ts))
  cases hr : cfg.reflow
  · simp only [onlyIf, Bool.false_eq_true, if_false] at h3 h2 ⊢
    rw [h3]; exact h2
  · simp only [onlyIf, if_true] at h3 h2 ⊢
    rw [docMerge, outside_mono (S := Tok.isDoc) (fun t ht => by simp [clsMid, clsSpell, ht]) (docMergeAux_outside _ _ none)]
    rw [h3]; exact h2

theorem mid_eq_map (cfg : Cfg) (h1 : cfg.docattr = false) (h2 : cfg.reflow = false) (ts : List Tok) :
    mid cfg ts = (resplit ts).map (canonTok cfg) := by
  simp [mid, onlyIf, h1, h2]

end RF.Tok
