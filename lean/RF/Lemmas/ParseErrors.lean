import RF.Model.ParseErrors
import RF.Lemmas.Project
/-! Lemmas about `RF.ParseErrors` that do not depend on the generated tables (C05). -/
namespace RF.Lemmas.ParseErrors
open RF.ParseErrors RF.Gen.ParseErrs RF.Project

/-- What the two blocks of an emitter program are required to do, as a finite check: the block for a
diagnostic that cannot be ignored raises `has_non_ignorable_parser_errors`, clears `can_reset` and shows the
diagnostic once; the block for an ignored file leaves the private flag alone, shows nothing, and may raise
`can_reset` only if no non-ignorable diagnostic has been seen. -/
def blockSpec (p : EmitProg) (hn cr : Bool) : Bool :=
  let s : Sess := ⟨hn, cr, 0, 0⟩
  let h := runStmts p.handle s
  let i := runStmts p.ignored s
  h.hasNonIgn && !h.canReset && h.shown == 1 && h.errCount == 0 &&
  (i.hasNonIgn == hn) && (i.canReset == (if hn then cr else true)) && i.shown == 0 && i.errCount == 0

def emitProgOk (p : EmitProg) : Bool :=
  blockSpec p false false && blockSpec p false true && blockSpec p true false && blockSpec p true true

/-- a block's effect does not depend on the two counters, and it moves them by a fixed amount -/
theorem runStmts_counters (l : List Stmt) : ∀ (s : Sess),
    (runStmts l s).hasNonIgn = (runStmts l ⟨s.hasNonIgn, s.canReset, 0, 0⟩).hasNonIgn ∧
    (runStmts l s).canReset = (runStmts l ⟨s.hasNonIgn, s.canReset, 0, 0⟩).canReset ∧
    (runStmts l s).errCount = s.errCount + (runStmts l ⟨s.hasNonIgn, s.canReset, 0, 0⟩).errCount ∧
    (runStmts l s).shown = s.shown + (runStmts l ⟨s.hasNonIgn, s.canReset, 0, 0⟩).shown := by
  induction l with
  | nil => intro s; simp [runStmts]
  | cons st r ih =>
    intro s
    simp only [runStmts]
    have h1 := ih (runStmt st s)
    have h2 := ih (runStmt st ⟨s.hasNonIgn, s.canReset, 0, 0⟩)
    cases st with
    | setHasNonIgn v => simp only [runStmt] at h1 h2 ⊢; simp only [Nat.zero_add] at h2; exact h1
    | storeCanReset v => simp only [runStmt] at h1 h2 ⊢; exact h1
    | storeCanResetUnlessHasNonIgn v =>
      simp only [runStmt] at h1 h2 ⊢
      cases hh : s.hasNonIgn <;> simp only [hh, Bool.false_eq_true, if_false, if_true] at h1 h2 ⊢ <;> (try exact h1)
    | forward =>
      simp only [runStmt] at h1 h2 ⊢
      obtain ⟨a1, a2, a3, a4⟩ := h1
      obtain ⟨b1, b2, b3, b4⟩ := h2
      simp only [Nat.zero_add] at b3 b4
      refine ⟨?_, ?_, ?_, ?_⟩
      · rw [a1, b1]
      · rw [a2, b2]
      · rw [a3, b3]
      · rw [a4, b4]; omega

theorem sess_eq {a b : Sess} (h1 : a.hasNonIgn = b.hasNonIgn) (h2 : a.canReset = b.canReset)
    (h3 : a.errCount = b.errCount) (h4 : a.shown = b.shown) : a = b := by
  cases a; cases b; simp_all

/-- the two blocks of a program that passes the check, on any state -/
theorem blocks_of_ok (p : EmitProg) (hp : emitProgOk p = true) (s : Sess) :
    runStmts p.handle s = { s with hasNonIgn := true, canReset := false, shown := s.shown + 1 } ∧
    runStmts p.ignored s = { s with canReset := if s.hasNonIgn then s.canReset else true } := by
  obtain ⟨hn, cr, ec, sh⟩ := s
  obtain ⟨a1, a2, a3, a4⟩ := runStmts_counters p.handle ⟨hn, cr, ec, sh⟩
  obtain ⟨b1, b2, b3, b4⟩ := runStmts_counters p.ignored ⟨hn, cr, ec, sh⟩
  simp only [emitProgOk, blockSpec, Bool.and_eq_true, beq_iff_eq, Bool.not_eq_true'] at hp
  simp only at a1 a2 a3 a4 b1 b2 b3 b4
  constructor
  · apply sess_eq <;> simp only
    · rw [a1]; cases hn <;> cases cr <;> simp_all
    · rw [a2]; cases hn <;> cases cr <;> simp_all
    · rw [a3]; cases hn <;> cases cr <;> simp_all
    · rw [a4]; cases hn <;> cases cr <;> simp_all
  · apply sess_eq <;> simp only
    · rw [b1]; cases hn <;> cases cr <;> simp_all
    · rw [b2]; cases hn <;> cases cr <;> simp_all
    · rw [b3]; cases hn <;> cases cr <;> simp_all
    · rw [b4]; cases hn <;> cases cr <;> simp_all

/-- closed form of one emitter call for a program that passes the check -/
theorem emitterStep_of_ok (p : EmitProg) (hp : emitProgOk p = true) (s : Sess) (d : Diag) :
    emitterStep p s d =
      if d.ignorable then { s with canReset := if s.hasNonIgn then s.canReset else true }
      else { s with hasNonIgn := true, canReset := false, shown := s.shown + 1 } := by
  obtain ⟨h1, h2⟩ := blocks_of_ok p hp s
  unfold emitterStep Diag.ignorable
  rw [h1, h2]
  obtain ⟨lv, lc⟩ := d
  cases lv <;> cases lc <;> (try rename_i b; cases b) <;> simp

/-- one diagnostic through `DiagCtxt`, field by field -/
theorem dcxEmit_of_ok (p : EmitProg) (hp : emitProgOk p = true) (s : Sess) (d : Diag) :
    (dcxEmit p s d).hasNonIgn = (s.hasNonIgn || !d.ignorable) ∧
    (dcxEmit p s d).canReset = (if d.ignorable then (if s.hasNonIgn then s.canReset else true) else false) ∧
    (dcxEmit p s d).errCount = s.errCount + (if d.isError then 1 else 0) ∧
    (dcxEmit p s d).shown = s.shown + (if d.ignorable then 0 else 1) := by
  unfold dcxEmit
  rw [emitterStep_of_ok p hp]
  cases hi : d.ignorable <;> cases he : d.isError <;> simp

/-- **closed form of a whole sequence of diagnostics**, from any state -/
theorem emitAll_of_ok (p : EmitProg) (hp : emitProgOk p = true) : ∀ (ds : List Diag) (s : Sess),
    (emitAll p s ds).hasNonIgn = (s.hasNonIgn || ds.any (fun d => !d.ignorable)) ∧
    (emitAll p s ds).canReset =
      (if ds.any (fun d => !d.ignorable) then false else (s.canReset || (!s.hasNonIgn && !ds.isEmpty))) ∧
    (emitAll p s ds).errCount = s.errCount + ds.countP Diag.isError ∧
    (emitAll p s ds).shown = s.shown + ds.countP (fun d => !d.ignorable) := by
  intro ds
  induction ds with
  | nil => intro s; simp [emitAll]
  | cons d r ih =>
    intro s
    obtain ⟨h1, h2, h3, h4⟩ := ih (dcxEmit p s d)
    obtain ⟨g1, g2, g3, g4⟩ := dcxEmit_of_ok p hp s d
    simp only [emitAll]
    rw [h1, h2, h3, h4, g1, g2, g3, g4]
    simp only [List.any_cons, List.countP_cons, List.isEmpty_cons]
    refine ⟨?_, ?_, ?_, ?_⟩
    · by_cases hi : d.ignorable = true <;> by_cases hn : s.hasNonIgn = true <;> simp [hi, hn]
    · by_cases hi : d.ignorable = true <;> by_cases hn : s.hasNonIgn = true <;> by_cases hc : s.canReset = true <;>
        by_cases ha : r.any (fun d => !d.ignorable) = true <;> simp [hi, hn, hc, ha]
    · by_cases he : d.isError = true <;> simp [he] <;> omega
    · by_cases hi : d.ignorable = true <;> simp [hi] <;> omega

/-! ### the lift: a fault that is reached makes the annotated crate faulty -/

/-- what the lift needs of a table set: a file with a fault is never accepted, in whatever state the session is -/
def NeverAccepts (pp : ParseProg) : Prop :=
  (∀ (s : Sess) (fp : FileParse), fp.fault = true → (parseFile pp s fp).2 ≠ some .ok) ∧
  (∀ (s : Sess) (fp : FileParse), fp.fault = true → (parseCrate pp s fp).2 ≠ some .ok)

theorem retToParse_ok (r : Option Ret) : retToParse r = .ok ↔ r = some .ok := by
  cases r with
  | none => simp [retToParse]
  | some x => cases x <;> simp [retToParse]

mutual
theorem annT_fault (pp : ParseProg) (h : NeverAccepts pp) (pi : Nat → FileParse) :
    ∀ (t : Tree) (s : Sess), faultET pi t = true → faultT (annT pp pi t s).1 = true
  | .node f mods, s => by
    intro hf
    unfold annT
    simp only [faultET, Bool.or_eq_true, Bool.and_eq_true, Bool.not_eq_true'] at hf
    by_cases hc : (parseFile pp s (pi f.path)).2 = some .ok ∧ f.skipAttr = false
    · simp only [hc, and_self, if_true]
      rcases hf with hf | ⟨_, hf⟩
      · exact absurd hc.1 (h.1 s _ hf)
      · have := annM_fault pp h pi mods (parseFile pp s (pi f.path)).1 hf
        simp [faultT, this]
    · simp only [hc, if_false]
      by_cases hr : (parseFile pp s (pi f.path)).2 = some .ok
      · have hs : f.skipAttr = true := by
          cases hsk : f.skipAttr with
          | true => rfl
          | false => exact absurd ⟨hr, hsk⟩ hc
        rcases hf with hf | ⟨hf, _⟩
        · exact absurd hr (h.1 s _ hf)
        · rw [hs] at hf; cases hf
      · have : retToParse (parseFile pp s (pi f.path)).2 ≠ .ok := fun e => hr ((retToParse_ok _).1 e)
        simp [faultT, this]
theorem annM_fault (pp : ParseProg) (h : NeverAccepts pp) (pi : Nat → FileParse) :
    ∀ (m : Mods) (s : Sess), faultEM pi m = true → faultM (annM pp pi m s).1 = true
  | .nil, s => by simp [faultEM]
  | .found t rest, s => by
    intro hf
    unfold annM
    simp only [faultEM, Bool.or_eq_true] at hf
    by_cases hc : faultT (annT pp pi t s).1 = true
    · simp [hc, faultM]
    · simp only [hc, Bool.false_eq_true, if_false]
      rcases hf with hf | hf
      · exact absurd (annT_fault pp h pi t s hf) hc
      · simp [faultM, annM_fault pp h pi rest _ hf]
  | .skipped rest, s => by
    intro hf
    unfold annM
    simp only [faultEM] at hf
    simp [faultM, annM_fault pp h pi rest s hf]
  | .notFound rest, s => by simp [annM, faultM]
  | .multiple rest, s => by simp [annM, faultM]
end

theorem annotateRoot_node (pp : ParseProg) (pi : Nat → FileParse) (cfg : Cfg) (f : File) (mods : Mods) :
    annotateRoot pp pi cfg (.node f mods) =
      if (parseCrate pp Sess.init (pi f.path)).2 = some .ok ∧ cfg.skipChildren = false then
        .node { f with parse := retToParse (parseCrate pp Sess.init (pi f.path)).2 }
          (annM pp pi mods (parseCrate pp Sess.init (pi f.path)).1).1
      else .node { f with parse := retToParse (parseCrate pp Sess.init (pi f.path)).2 } mods := rfl

theorem annotateRoot_file (pp : ParseProg) (pi : Nat → FileParse) (cfg : Cfg) (root : Tree) :
    (annotateRoot pp pi cfg root).file.ignored = root.file.ignored ∧
    (annotateRoot pp pi cfg root).file.path = root.file.path := by
  cases root with
  | node f mods =>
    rw [annotateRoot_node]
    split <;> simp [Tree.file]

/-- **the lift**: if the crate cannot be processed in the sense of `faultyE` (a reachable file with a fault,
or a `mod` without a file or with two), the crate annotated by the bookkeeping is `faulty` in the sense of
`RF.Project`, whatever the diagnostics of the other files are and in whatever order they are met. -/
theorem annotateRoot_faulty (pp : ParseProg) (h : NeverAccepts pp) (pi : Nat → FileParse) (cfg : Cfg) (root : Tree)
    (hf : faultyE pi cfg root = true) : faulty cfg (annotateRoot pp pi cfg root) = true := by
  cases root with
  | node f mods =>
    simp only [faultyE, Tree.file, Tree.mods, Bool.or_eq_true, Bool.and_eq_true, Bool.not_eq_true'] at hf
    rw [annotateRoot_node]
    by_cases hc : (parseCrate pp Sess.init (pi f.path)).2 = some .ok ∧ cfg.skipChildren = false
    · rw [if_pos hc]
      rcases hf with hf | ⟨_, hf⟩
      · exact absurd hc.1 (h.2 _ _ hf)
      · have := annM_fault pp h pi mods (parseCrate pp Sess.init (pi f.path)).1 hf
        simp [faulty, Tree.file, Tree.mods, this, hc.2]
    · rw [if_neg hc]
      by_cases hr : (parseCrate pp Sess.init (pi f.path)).2 = some .ok
      · have hs : cfg.skipChildren = true := by
          cases hsk : cfg.skipChildren with
          | true => rfl
          | false => exact absurd ⟨hr, hsk⟩ hc
        rcases hf with hf | ⟨hf, _⟩
        · exact absurd hr (h.2 _ _ hf)
        · rw [hs] at hf; cases hf
      · have : retToParse (parseCrate pp Sess.init (pi f.path)).2 ≠ .ok := fun e => hr ((retToParse_ok _).1 e)
        simp [faulty, Tree.file, this]

end RF.Lemmas.ParseErrors
