import RF.Model.OptRewrites
/-
The DECISIONS (not the layout) of `src/matches.rs` and `src/closures.rs` about the braces of a match-arm body and of a
closure body.

  §1 the expression tree the decisions look at
  §2 `src/expr.rs`   `is_simple_block`, `is_empty_block`; `src/utils.rs` `left_most_sub_expr`, `semicolon_for_expr`
  §3 `src/matches.rs` `can_flatten_block_around_this`, `block_can_be_flattened`, `flatten_arm_body`, `arm_comma`,
                      `rewrite_match_body` (which attempt wins, when braces are added), the width `rewrite_match_arm`
                      keeps behind the pattern
  §4 `src/closures.rs` `needs_block`, `get_inner_expr`, `veto_block`, `expr_requires_semi_to_be_stmt`,
                      `is_block_closure_forced`, `rewrite_closure_expr` (`allow_multi_line`), `rewrite_closure_with_block`,
                      `try_rewrite_without_block`, `rewrite_closure`; the variant of the pinned tree
  §5 the denotation `strip`: the body without its redundant single-expression blocks

The rewriters the decisions call (`format_expr`, `rewrite_cond`, `Rewrite for ast::Expr`, `rewrite_block_with_visitor`,
`prefer_next_line`) enter as ORACLES: functions of the expression they are run on (the shape is fixed for one arm / one
closure).  Theorems quantify over all of them.
-/
namespace RF.Braces
open RF.Opt

/-! ## §1 the tree -/

/-- expressions none of the decisions looks into -/
inductive Leaf
  | if_ | while_ | forLoop | loop_ | match_ | array | methodCall | macCall | struct_ | tup | gen | tryBlock | constBlock
  | ret | break_ | continue_
  /-- a range without a left operand -/
  | rangeOpen
  | other
  deriving DecidableEq, Repr

/-- expressions with a first operand that some decision follows -/
inductive UKind
  | addrOf | try_ | unary | index | cast | call | binary | type_ | assign | assignOp | field | range
  deriving DecidableEq, Repr

/-- what the decisions read off a block expression apart from its statements -/
structure Hdr where
  /-- `BlockCheckMode::Unsafe` -/
  unsafe_ : Bool
  /-- the length of the label's name (`label.ident.as_str().len()`) -/
  label : Option Nat
  /-- `contains_comment(context.snippet(block.span))` -/
  comment : Bool
  /-- outer attributes on the block expression (`#[a] { .. }`) -/
  outer : Nat
  /-- inner attributes (`{ #![a] .. }`); both kinds are `expr.attrs` -/
  inner : Nat
  deriving DecidableEq, Repr

/-- a statement the decisions do not look into: `let`, an item, a macro statement, `;`, or (behind the first
statement) anything -/
inductive NStmt | let_ | item | mac | empty | opaque
  deriving DecidableEq, Repr

inductive Expr
  | leaf (k : Leaf) (attrs : Nat)
  | un (k : UKind) (attrs : Nat) (e : Expr)
  /-- a closure, whether it has an explicit return type, its body -/
  | closure (ret : Bool) (attrs : Nat) (body : Expr)
  /-- a block whose first statement is the expression `e` without a semicolon -/
  | blockE (h : Hdr) (e : Expr) (rest : List NStmt)
  /-- a block whose first statement is `e;` -/
  | blockS (h : Hdr) (e : Expr) (rest : List NStmt)
  /-- any other block (no statement, or a first statement that is not an expression) -/
  | blockO (h : Hdr) (stmts : List NStmt)
  deriving DecidableEq, Repr

/-- the header of a block the formatter makes: `BlockCheckMode::Default`, no label, nothing else -/
def plainHdr : Hdr := ⟨false, none, false, 0, 0⟩

def Hdr.attrs (h : Hdr) : Nat := h.outer + h.inner

/-- `expr.attrs.len()` -/
def Expr.attrs : Expr → Nat
  | .leaf _ a => a
  | .un _ a _ => a
  | .closure _ a _ => a
  | .blockE h _ _ => h.attrs
  | .blockS h _ _ => h.attrs
  | .blockO h _ => h.attrs

def Expr.isBlock : Expr → Bool
  | .blockE .. => true
  | .blockS .. => true
  | .blockO .. => true
  | _ => false

def Expr.hdr? : Expr → Option Hdr
  | .blockE h _ _ => some h
  | .blockS h _ _ => some h
  | .blockO h _ => some h
  | _ => none

/-- `block.stmts.len()` -/
def Expr.stmtsLen : Expr → Nat
  | .blockE _ _ r => 1 + r.length
  | .blockS _ _ r => 1 + r.length
  | .blockO _ s => s.length
  | _ => 0

/-! ## §2 the block tests of `expr.rs`, `utils.rs` -/

/-- `is_simple_block(context, block, Some(&expr.attrs))`: one statement, an expression without a semicolon, no comment
in the block's text, no attribute on the block -/
def Expr.isSimpleBlock : Expr → Bool
  | .blockE h _ rest => rest.isEmpty && !h.comment && h.attrs == 0
  | _ => false

/-- `is_empty_block(context, block, Some(&expr.attrs))`: only `;` statements, no comment, no inner attribute -/
def Expr.isEmptyBlock : Expr → Bool
  | .blockO h stmts => stmts.all (· == .empty) && !h.comment && h.inner == 0
  | _ => false

/-- the class `semicolon_for_expr` distinguishes -/
def Expr.cls : Expr → ExprClass
  | .leaf .ret _ => .jump
  | .leaf .break_ _ => .jump
  | .leaf .continue_ _ => .jump
  | .leaf .while_ _ => .loop_
  | .leaf .loop_ _ => .loop_
  | .leaf .forLoop _ => .loop_
  | _ => .other

/-- the class `arm_comma` distinguishes -/
def Expr.bodyClass : Expr → BodyClass
  | .blockE h _ _ => if h.unsafe_ then .unsafeBlock else .block
  | .blockS h _ _ => if h.unsafe_ then .unsafeBlock else .block
  | .blockO h _ => if h.unsafe_ then .unsafeBlock else .block
  | _ => .expr

/-- `left_most_sub_expr` -/
def leftMost : Expr → Expr
  | x@(.un k _ e) =>
    match k with
    | .addrOf => x
    | .unary => x
    | _ => leftMost e
  | x => x

/-! ## §3 `matches.rs` -/

/-- `can_flatten_block_around_this` -/
def canFlattenAround : Expr → Bool
  | .leaf k _ =>
    match k with
    | .loop_ | .match_ | .array | .methodCall | .macCall | .struct_ | .tup => true
    | _ => false
  | .un k _ e =>
    match k with
    | .addrOf | .try_ | .unary | .index | .cast => canFlattenAround e
    | .call => true
    | _ => false
  | .closure .. => true
  | .blockE .. => true
  | .blockS .. => true
  | .blockO .. => true

/-- `stmt_is_expr_mac(&block.stmts[0])` -/
def firstIsExprMac : Expr → Bool
  | .blockE _ (.leaf .macCall _) _ => true
  | _ => false

/-- `block_can_be_flattened(context, expr).is_some()` -/
def canBeFlattened (insideMacro : Bool) (e : Expr) : Bool :=
  match e.hdr? with
  | some h => h.label.isNone && !h.unsafe_ && !insideMacro && e.isSimpleBlock && !firstIsExprMac e
  | none => false

/-- the closure `can_extend` of `flatten_arm_body` -/
def canExtend (forceMultiline : Bool) (e : Expr) : Bool := !forceMultiline && canFlattenAround e

/-- `flatten_arm_body(context, body, opt_shape)`: (extend, body).  `condMulti` = `opt_shape` is given and
`rewrite_cond` of the single expression of the block returns a text of more than one line; the recursive call passes no
shape. -/
def flattenArmBody (forceMultiline insideMacro : Bool) (condMulti : Bool) : Expr → Bool × Expr
  | .blockE h e rest =>
    if canBeFlattened insideMacro (.blockE h e rest) then
      if e.isBlock then
        if e.attrs == 0 then flattenArmBody forceMultiline insideMacro false e
        else (true, .blockE h e rest)
      else if condMulti then (false, .blockE h e rest)
      else (canExtend forceMultiline e, e)
    else (canExtend forceMultiline (.blockE h e rest), .blockE h e rest)
  | body => (canExtend forceMultiline body, body)

structure ArmCfg where
  matchArmBlocks : Bool
  forceMultilineBlocks : Bool
  /-- `style_edition > Edition2021` -/
  style2024 : Bool
  trailingSemicolon : Bool
  /-- `context.is_macro_def` -/
  isMacroDef : Bool
  /-- `context.inside_macro()` -/
  insideMacro : Bool
  /-- `trailing_comma == Never` -/
  trailingCommaNever : Bool
  matchBlockTrailingComma : Bool
  deriving DecidableEq, Repr

/-- what `rewrite_match_body` is told about the rest of the arm -/
structure ArmCtx where
  /-- `has_guard` (the guard's text has a line break) `&& pats_str.contains('\n')` -/
  guardMl : Bool
  /-- there is a comment between `=>` and the body -/
  arrowComment : Bool
  isLast : Bool
  deriving DecidableEq, Repr

/-- one attempt of `format_expr` on the body -/
inductive Rw
  | err
  /-- the text has a line break; it is at most as wide as the shape; its first line is within the budget -/
  | ok (multi fits firstFits : Bool)
  deriving DecidableEq, Repr

/-- the rewriters `rewrite_match_body` consults, as functions of the expression they are run on -/
structure ArmOrc where
  /-- `rewrite_cond(context, e, shape)` of the first attempt's shape is a text of more than one line -/
  condMulti : Expr → Bool
  /-- the shape of the first attempt exists (`offset_left_opt`, `sub_width_opt`) -/
  shapeOk : Bool
  /-- `format_expr(body, orig_body_shape)` after `nop_block_collapse` -/
  orig : Expr → Rw
  /-- `format_expr(body, next_line_body_shape)` succeeds -/
  next : Expr → Bool
  /-- `prefer_next_line(orig_str, next_line_str, RhsTactics::Default)` -/
  prefer : Expr → Bool

inductive ArmBranch
  /-- `combine_orig_body` -/
  | sameLine
  /-- `combine_next_line_body` without new braces -/
  | nextLine
  /-- `combine_next_line_body`, the body wrapped in `{` `}` -/
  | nextLineBlock
  deriving DecidableEq, Repr

structure ArmOut where
  branch : ArmBranch
  /-- the body as it is printed -/
  tree : Expr
  /-- is a `,` printed behind it -/
  comma : Bool
  /-- what follows `=>` (the body, or the `{` added in front of it) starts a line of its own (under the default
  `control_brace_style`) -/
  ownLine : Bool
  deriving DecidableEq, Repr

/-- the block `combine_next_line_body` prints around a body that is not a block: under the 2024 style edition with a
`;` behind a `return` / `break` / `continue` (`semicolon_for_expr`) -/
def wrapArm (c : ArmCfg) (body : Expr) : Expr :=
  if c.style2024 && semicolonForExpr c.trailingSemicolon c.isMacroDef body.cls then .blockS plainHdr body []
  else .blockE plainHdr body []

/-- `arm_comma(config, body, is_last)` -/
def armCommaOf (c : ArmCfg) (body : Expr) (isLast : Bool) : Bool :=
  armComma c.trailingCommaNever c.matchBlockTrailingComma body.bodyClass isLast

/-- the `,` behind the `}` `combine_next_line_body` adds: what `arm_comma` gives a block body (the repaired code) -/
def wrapComma (c : ArmCfg) (isLast : Bool) : Bool :=
  armComma c.trailingCommaNever c.matchBlockTrailingComma .block isLast

/-- the pinned tree: `match_block_trailing_comma` alone -/
def wrapCommaPinned (c : ArmCfg) (_isLast : Bool) : Bool := c.matchBlockTrailingComma

/-- `rewrite_match_body`: which text is returned (`none`: an error), parametrised by the comma behind an added block -/
def rewriteMatchBodyWith (wc : ArmCfg → Bool → Bool) (c : ArmCfg) (x : ArmCtx) (o : ArmOrc) (body0 : Expr) :
    Option ArmOut :=
  let fl := flattenArmBody c.forceMultilineBlocks c.insideMacro (o.shapeOk && o.condMulti body0) body0
  let extend := fl.1
  let body := fl.2
  let isBlock := body.isBlock
  let comma := armCommaOf c body x.isLast
  let forbid := (x.guardMl && !body.isEmptyBlock) || body.attrs != 0
  let same : ArmOut := ⟨.sameLine, body, comma, false⟩
  let next : ArmOut :=
    if isBlock then ⟨.nextLine, body, comma, true⟩
    else if c.matchArmBlocks && !c.insideMacro then ⟨.nextLineBlock, wrapArm c body, wc c x.isLast, forbid || x.arrowComment⟩
    else ⟨.nextLine, body, true, true⟩
  let orig : Rw := if forbid || x.arrowComment then .err else if o.shapeOk then o.orig body else .err
  match orig with
  | .ok multi fits firstFits =>
    if isBlock || (!multi && fits) then some same
    else if o.next body then
      if o.prefer body then some next
      else if extend && firstFits then some same
      else if multi then some next
      else some same
    else some same
  | .err => if o.next body then some next else none

def rewriteMatchBody := rewriteMatchBodyWith wrapComma
def rewriteMatchBodyPinned := rewriteMatchBodyWith wrapCommaPinned

/-- the width `rewrite_match_arm` takes off the pattern's shape for what follows the pattern: ` => {` or
` => 'label: {` -/
def patShapeOverhead : Expr → Nat
  | .blockE h _ _ => match h.label with | some n => 7 + n | none => 5
  | .blockS h _ _ => match h.label with | some n => 7 + n | none => 5
  | .blockO h _ => match h.label with | some n => 7 + n | none => 5
  | _ => 5

/-- the repaired `rewrite_match_arm`: the overhead of the body as it is going to be printed
(`flatten_arm_body(context, body, None)`); the pinned tree took `patShapeOverhead` of the body as written -/
def patOverhead (forceMultiline insideMacro : Bool) (body : Expr) : Nat :=
  patShapeOverhead (flattenArmBody forceMultiline insideMacro false body).2

/-! ## §4 `closures.rs` -/

/-- `needs_block(block, label, prefix, context)`; `firstAttrs` = the attributes of the first statement -/
def needsBlock (h : Hdr) (len : Nat) (firstAttrs : Nat) (prefixMl : Bool) : Bool :=
  h.unsafe_ || decide (len > 1) || firstAttrs != 0 || h.comment || prefixMl || h.label.isSome

/-- `get_inner_expr`: blocks are peeled while `needs_block` is false and the first statement is an expression without a
semicolon.  (The attributes ON the block expression are not looked at by `needs_block`; `getInnerExpr` is the repaired
code, `getInnerExprPinned` below the pinned tree.) -/
def getInnerExpr (prefixMl : Bool) : Expr → Expr
  | .blockE h e rest =>
    if h.attrs == 0 && !needsBlock h (1 + rest.length) e.attrs prefixMl then getInnerExpr prefixMl e
    else .blockE h e rest
  | x => x

/-- the pinned tree: `#[a] { e }` and `{ #![a] e }` are peeled like `{ e }` -/
def getInnerExprPinned (prefixMl : Bool) : Expr → Expr
  | .blockE h e rest =>
    if !needsBlock h (1 + rest.length) e.attrs prefixMl then getInnerExprPinned prefixMl e
    else .blockE h e rest
  | x => x

/-- `veto_block` -/
def vetoBlock : Expr → Bool
  | .un k _ _ =>
    match k with
    | .addrOf | .unary => false
    | _ => true
  | .leaf .rangeOpen _ => true
  | _ => false

/-- `expr_requires_semi_to_be_stmt` -/
def requiresSemi : Expr → Bool
  | .leaf k _ =>
    match k with
    | .if_ | .match_ | .while_ | .loop_ | .forLoop | .tryBlock => false
    | _ => true
  | .blockE .. => false
  | .blockS .. => false
  | .blockO .. => false
  | _ => true

/-- `is_block_closure_forced_inner(expr, style_edition)` -/
def forcedInner (style2024 : Bool) : Expr → Bool
  | .leaf k _ =>
    match k with
    | .if_ | .while_ | .forLoop => true
    | .loop_ => style2024
    | _ => false
  | .un k _ e =>
    match k with
    | .addrOf | .try_ | .unary | .cast => forcedInner style2024 e
    | _ => false
  | _ => false

/-- `is_block_closure_forced(context, expr)` -/
def isBlockClosureForced (insideMacro style2024 : Bool) (e : Expr) : Bool :=
  if insideMacro then false else forcedInner style2024 e

/-- `allow_multi_line` of `rewrite_closure_expr` -/
def allowMultiLine : Expr → Bool
  | .leaf k _ =>
    match k with
    | .match_ | .gen | .tryBlock | .loop_ | .struct_ => true
    | _ => false
  | .un k _ e =>
    match k with
    | .addrOf | .try_ | .unary | .cast => allowMultiLine e
    | _ => false
  | .closure .. => false
  | .blockE .. => true
  | .blockS .. => true
  | .blockO .. => true

structure CloCfg where
  forceMultilineBlocks : Bool
  style2024 : Bool
  insideMacro : Bool
  deriving DecidableEq, Repr

/-- `expr.rewrite_result(context, shape)` -/
inductive Rw1 | err | oneLine | multi
  deriving DecidableEq, Repr

structure CloOrc where
  /-- the text in front of the body has a line break -/
  prefixMl : Bool
  /-- `expr.rewrite_result(context, body_shape)` inside `rewrite_closure_expr` -/
  exprRw : Expr → Rw1
  /-- `rewrite_block_with_visitor` on the block made around the expression succeeds: at the closure's shape (the call
  of `try_rewrite_without_block`) and at the body's shape (the call for a body that is not a block) -/
  wrapOuterOk : Expr → Bool
  wrapBodyOk : Expr → Bool
  /-- `block.rewrite_result(context, body_shape)` (`rewrite_closure_block`, the empty-block path) succeeds -/
  blockOk : Expr → Bool

inductive CloBranch
  /-- the body is `{}` -/
  | emptyBlock
  /-- `rewrite_closure_expr` on what `get_inner_expr` found (or on a body that is not a block) -/
  | expr
  /-- `rewrite_closure_with_block`: a new block around the expression -/
  | withBlock
  /-- `rewrite_closure_block`: the body as it is -/
  | keepBlock
  deriving DecidableEq, Repr

structure CloOut where
  branch : CloBranch
  /-- the body as it is printed -/
  tree : Expr
  deriving DecidableEq, Repr

/-- `rewrite_closure_expr(expr, ..)` succeeds -/
def closureExprOk (c : CloCfg) (o : CloOrc) (e : Expr) : Bool :=
  let vetoMultiline := (!allowMultiLine e && !c.insideMacro) || c.forceMultilineBlocks
  match o.exprRw e with
  | .err => false
  | .oneLine => true
  | .multi => !vetoMultiline

/-- `rewrite_closure_with_block(body, ..)` succeeds; `wrapOk` = the block rewriter's answer at the shape of the call -/
def withBlockOk (wrapOk : Expr → Bool) (e : Expr) : Bool :=
  if vetoBlock e && !requiresSemi (leftMost e) then false else wrapOk e

/-- the block `rewrite_closure_with_block` prints -/
def wrapClosure (e : Expr) : Expr := .blockE plainHdr e []

/-- `rewrite_closure` behind its prefix, parametrised by `get_inner_expr` (`none`: an error) -/
def rewriteClosureWith (inner : Bool → Expr → Expr) (c : CloCfg) (o : CloOrc) (ret : Bool) (body : Expr) :
    Option CloOut :=
  if body.isBlock then
    if body.stmtsLen == 0 && !(body.hdr?.map (·.comment)).getD false then
      if o.blockOk body then some ⟨.emptyBlock, body⟩ else none
    else
      let keep : Option CloOut := if o.blockOk body then some ⟨.keepBlock, body⟩ else none
      if !ret && !c.insideMacro then
        let e := inner o.prefixMl body
        if isBlockClosureForced c.insideMacro c.style2024 e then
          if withBlockOk o.wrapOuterOk e then some ⟨.withBlock, wrapClosure e⟩ else keep
        else if closureExprOk c o e then some ⟨.expr, e⟩ else keep
      else keep
  else if closureExprOk c o body then some ⟨.expr, body⟩
  else if withBlockOk o.wrapBodyOk body then some ⟨.withBlock, wrapClosure body⟩
  else none

def rewriteClosure := rewriteClosureWith getInnerExpr
def rewriteClosurePinned := rewriteClosureWith getInnerExprPinned

/-! ## §5 the denotation -/

/-- a plain single-expression block: `BlockCheckMode::Default`, no label, no attribute on it, no comment in it -/
def Hdr.plain (h : Hdr) : Bool := !h.unsafe_ && h.label.isNone && !h.comment && h.outer == 0 && h.inner == 0

def Expr.isJump (e : Expr) : Bool := e.cls == .jump

/-- The body of a match arm or of a closure without its redundant braces: a plain block whose only statement is an
expression without a semicolon stands for that expression, and so does a plain block whose only statement is
`return ..;` / `break ..;` / `continue ..;` (the property's "redundant semicolons"; the block diverges either way).
Nothing else is removed: not a block with an attribute, a comment, `unsafe`, a label, a second statement, a `let`. -/
def strip : Expr → Expr
  | .blockE h e rest => if h.plain && rest.isEmpty then strip e else .blockE h e rest
  | .blockS h e rest => if h.plain && rest.isEmpty && e.isJump then e else .blockS h e rest
  | x => x

/-- the property's "redundant semicolons" as the statement printer (`format_stmt`, `semicolon_for_stmt`,
`semicolon_for_expr`; OptRewrites §7) leaves them: empty statements are dropped, there is no `;` behind a `while` /
`loop` / `for` statement, and a `return` / `break` / `continue` that ends a block has one or not according to
`trailing_semicolon` (normalised to none).  What is compared with the printed text read back. -/
def dropEmpty : Expr → Expr
  | .leaf k a => .leaf k a
  | .un k a e => .un k a (dropEmpty e)
  | .closure r a b => .closure r a (dropEmpty b)
  | .blockE h e rest => .blockE h (dropEmpty e) (rest.filter (· != .empty))
  | .blockS h e rest =>
    let rest' := rest.filter (· != .empty)
    if e.cls == .loop_ || (e.cls == .jump && rest'.isEmpty) then .blockE h (dropEmpty e) rest'
    else .blockS h (dropEmpty e) rest'
  | .blockO h stmts => .blockO h (stmts.filter (· != .empty))

/-- `strip` applied to the body of every closure inside the expression as well -/
def deep : Expr → Expr
  | .leaf k a => .leaf k a
  | .un k a e => .un k a (deep e)
  | .closure r a b => .closure r a (strip (deep b))
  | .blockE h e rest => .blockE h (deep e) rest
  | .blockS h e rest => .blockS h (deep e) rest
  | .blockO h stmts => .blockO h stmts

/-- what a match-arm body or a closure body denotes once every redundant brace in it is gone -/
def stripDeep (e : Expr) : Expr := strip (deep (dropEmpty e))

end RF.Braces
