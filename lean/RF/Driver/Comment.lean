import RF.Model.Proto
import RF.Model.Comment
import RF.Model.LexSpec
/-!
Line-protocol operations of C03 (`RF.Comment`).  Texts are hex strings (`-` = empty), lists of
texts are `,`-joined (`_` = empty list), positions are byte offsets.

  cm.ungrouped <code>            -> panic | slices      `UngroupedCommentCodeSlices::new(code)`
  cm.slices <code>               -> panic | slices      `CommentCodeSlices::new(code)`
        slices = `_` or `<N|C>:<start>:<text>` joined by `;`
  cm.lexcomments <code>          -> panic | slices      the comment slices of `cm.ungrouped`, a line
                                    comment without its final newline (= the lexer's comment tokens)
  cm.payload <comment>           -> panic | text        `CommentReducer::new(comment).collect()`
  cm.changed <orig> <new>        -> panic | 0 | 1       `changed_comment_content`
  cm.recover <new> <snippet> <error_on_unformatted:0|1> -> panic | `<text> <lost:0|1>`
  cm.filter <code>               -> text                `filter_normal_code`
  cm.find <s> <pat>              -> none | n            `find_uncommented`
  cm.findlast <s> <pat>          -> panic | none | n    `find_last_uncommented`
  cm.cend <s>                    -> none | n            `find_comment_end`
  cm.contains <s>                -> 0 | 1               `contains_comment`
  cm.pre <pre_snippet>           -> `<none|text> <D|S|N>`           `extract_pre_comment`
  cm.post <post> <comment_end> <separator> <is_last:0|1> -> panic | none | text
  cm.getend <post> <separator> <terminator> <is_last:0|1> -> panic | n
  cm.extranl <post> <comment_end> -> panic | 0 | 1      `has_extra_newline`
  cm.preserved <o|m> <ins> <outs> -> ok | diff:<index>:<in|->:<out|->    oracle `commentsPreserved` (o: in
                                    order) / `commentsPreservedUnordered` (m: as multisets, index in sorted order)
  cm.words <o|m> <ins> <outs>     -> ok | missing:<index>:<word>          oracle `wordsPreserved` (o: the input's
                                    words are a subsequence of the output's) / `wordsPreservedUnordered` (m)
  lex.check <kinds> <texts>       -> bad | quirk | flags
        the tokens of a lexer run as tokens of `RF.LexSpec`: `kinds` has one letter per text:
        `c` code characters, `l` line comment followed by a newline (text without it), `L` line
        comment at the end of the input, `b` block comment, `s` string literal `"…"`, `r` raw string
        `r#"…"#`, `h` character literal `'…'`.  `bad`: a text does not have the shape of its kind;
        `quirk`: the token list is not well-formed (`LexSpec.WF`), i.e. one of the shapes excluded
        from the agreement theorem; otherwise one `0|1` per character: `commentFlags`.
  cm.mustchange <comment> <changed:0|1> -> ok | payload-ignores-comment:<comment>
        oracle `dropIsNoticed` on the real `changed_comment_content(comment, "")`: a comment with text
        (a character that is neither white space nor `/ * !`) must make a difference when it is dropped
  cm.payloads <ins> <outs>       -> ok | diff | panic   equal `CommentReducer` payload, concatenated
-/
namespace RF.Driver.Comment
open RF.Proto RF.Comment RF.CharClasses

def bit (b : Bool) : String := if b then "1" else "0"

def decBit (s : String) : Option Bool :=
  if s == "1" then some true else if s == "0" then some false else none

def encSlices : Option (List Slice) → String
  | none => "panic"
  | some [] => "_"
  | some l => String.intercalate ";" (l.map fun s =>
      (if s.kind == .comment then "C:" else "N:") ++ toString s.start ++ ":" ++ encChars s.text)

def encOptNat : Option Nat → String
  | none => "none"
  | some n => toString n

def decTexts (s : String) : Option (List (List Char)) := (decList s).map (·.map String.toList)

def encOptChars : Option (List Char) → String
  | none => "-"
  | some c => encChars c

/-- first differing word of two word lists -/
def firstWordDiff : Nat → List (List Char) → List (List Char) →
    Option (Nat × Option (List Char) × Option (List Char))
  | _, [], [] => none
  | i, a :: _, [] => some (i, some a, none)
  | i, [], b :: _ => some (i, none, some b)
  | i, a :: as, b :: bs => if a == b then firstWordDiff (i + 1) as bs else some (i, some a, some b)

/-- greedy subsequence walk: the first word of `a` (index, word) that is not found in what is left of `b` -/
def firstMissing (a b : List (List Char)) : Option (Nat × List Char) :=
  let rec go : Nat → List (List Char) → List (List Char) → Option (Nat × List Char)
    | _, [], _ => none
    | i, w :: _, [] => some (i, w)
    | i, w :: ws, x :: xs => if w == x then go (i + 1) ws xs else go i (w :: ws) xs
  go 0 a b

def allPayload (cs : List (List Char)) : Option (List Char) :=
  cs.foldr (fun c acc => match payload? c, acc with
    | some p, some r => some (p ++ r)
    | _, _ => none) (some [])

/-- `text` of kind `k` as tokens of the specification; `none` = not of that shape. -/
def specTokens (k : Char) (text : List Char) : Option (List LexSpec.Token) :=
  match k with
  | 'c' => some (text.map .code)
  | 'l' | 'L' =>
    match text with
    | '/' :: '/' :: body => some [.lineComment body (k == 'l')]
    | _ => none
  | 'b' =>
    match text with
    | '/' :: '*' :: rest => some [.blockComment (LexSpec.scanEvents rest)]
    | _ => none
  | 's' =>
    match text with
    | '"' :: rest =>
      if rest.getLast? == some '"' then some [.str (LexSpec.scanItems rest.dropLast)] else none
    | _ => none
  | 'r' =>
    match text with
    | 'r' :: rest =>
      let n := (rest.takeWhile (· == '#')).length
      match rest.drop n with
      | '"' :: more =>
        -- more = body ++ '"' :: hashes n
        if more.length < n + 1 then none
        else
          let body := more.take (more.length - (n + 1))
          if more.drop (more.length - (n + 1)) == '"' :: LexSpec.hashes n then some [.rawStr n body]
          else none
      | _ => none
    | _ => none
  | 'h' =>
    match text with
    | ['\'', c, '\''] => if c == '\\' then none else some [.chr c]
    | '\'' :: '\\' :: e :: more =>
      if more.getLast? == some '\'' then some [.chrEsc e more.dropLast] else none
    | _ => none
  | _ => none

def handle (op : String) (args : List String) : Option String :=
  match op, args with
  | "cm.ungrouped", [t] => do
    let t ← decChars t
    pure (encSlices (ungrouped? t))
  | "cm.lexcomments", [t] => do
    let t ← decChars t
    match ungrouped? t with
    | none => pure "panic"
    | some sl =>
      let cs := (sl.filter (·.kind == .comment)).map fun s =>
        -- a line comment slice contains its '\n'; the lexer's token does not
        if startsWith s.text ['/', '/'] && s.text.getLast? == some '\n' then { s with text := s.text.dropLast } else s
      pure (encSlices (some cs))
  | "cm.slices", [t] => do
    let t ← decChars t
    pure (encSlices (commentCodeSlices? t))
  | "cm.payload", [t] => do
    let t ← decChars t
    match payload? t with
    | none => pure "panic"
    | some p => pure (encChars p)
  | "cm.changed", [a, b] => do
    let a ← decChars a
    let b ← decChars b
    match changedCommentContent? a b with
    | none => pure "panic"
    | some r => pure (bit r)
  | "cm.recover", [n, s, e] => do
    let n ← decChars n
    let s ← decChars s
    let e ← decBit e
    match recoverCommentRemoved? n s e with
    | none => pure "panic"
    | some (t, lost) => pure s!"{encChars t} {bit lost}"
  | "cm.filter", [t] => do
    let t ← decChars t
    pure (encChars (filterNormalCode t))
  | "cm.find", [s, p] => do
    let s ← decChars s
    let p ← decChars p
    pure (encOptNat (findUncommented s p))
  | "cm.findlast", [s, p] => do
    let s ← decChars s
    let p ← decChars p
    match findLastUncommented? s p with
    | none => pure "panic"
    | some r => pure (encOptNat r)
  | "cm.cend", [s] => do
    let s ← decChars s
    pure (encOptNat (findCommentEnd s))
  | "cm.contains", [s] => do
    let s ← decChars s
    pure (bit (containsComment s))
  | "cm.pre", [s] => do
    let s ← decChars s
    let (c, st) := extractPreComment s
    let stl := match st with | .differentLine => "D" | .sameLine => "S" | .none => "N"
    pure s!"{match c with | none => "none" | some c => encChars c} {stl}"
  | "cm.post", [p, ce, sep, l] => do
    let p ← decChars p
    let ce ← ce.toNat?
    let sep ← decChars sep
    let l ← decBit l
    match extractPostComment? p ce sep l with
    | none => pure "panic"
    | some none => pure "none"
    | some (some c) => pure (encChars c)
  | "cm.getend", [p, sep, term, l] => do
    let p ← decChars p
    let sep ← decChars sep
    let term ← decChars term
    let l ← decBit l
    match getCommentEnd? p sep term l with
    | none => pure "panic"
    | some n => pure (toString n)
  | "cm.extranl", [p, ce] => do
    let p ← decChars p
    let ce ← ce.toNat?
    match hasExtraNewline? p ce with
    | none => pure "panic"
    | some b => pure (bit b)
  | "cm.preserved", [m, a, b] => do
    let a ← decTexts a
    let b ← decTexts b
    if m == "o" then
      if commentsPreserved a b then pure "ok"
      else match firstCommentDiff 0 a b with
        | none => pure "diff:?:-:-"
        | some (i, x, y) => pure s!"diff:{i}:{encOptChars x}:{encOptChars y}"
    else if m == "m" then
      if commentsPreservedUnordered a b then pure "ok"
      else
        let sa := sortTexts (a.map flatComment)
        let sb := sortTexts (b.map flatComment)
        match firstWordDiff 0 sa sb with
        | none => pure "diff:?:-:-"
        | some (i, x, y) => pure s!"diff:{i}:{encOptChars x}:{encOptChars y}"
    else none
  | "cm.words", [m, a, b] => do
    let a ← decTexts a
    let b ← decTexts b
    if m == "o" then
      if wordsPreserved a b then pure "ok"
      else match firstMissing (a.flatMap commentWords) (b.flatMap commentWords) with
        | none => pure "diff:?:-"
        | some (i, w) => pure s!"missing:{i}:{encChars w}"
    else if m == "m" then
      if wordsPreservedUnordered a b then pure "ok"
      else match firstMissing (sortTexts (a.flatMap commentWords)) (sortTexts (b.flatMap commentWords)) with
        | none => pure "diff:?:-"
        | some (i, w) => pure s!"missing:{i}:{encChars w}"
    else none
  | "lex.check", [ks, ts] => do
    let texts ← decTexts ts
    let kinds := ks.toList
    if kinds.length != texts.length then none
    else
      match (kinds.zip texts).mapM (fun (k, t) => specTokens k t) with
      | none => pure "bad"
      | some tss =>
        let toks := tss.flatten
        -- the tokens must render to the text they were read from
        let source := (kinds.zip texts).flatMap fun (k, t) => if k == 'l' then t ++ ['\n'] else t
        if LexSpec.render toks != source then pure "bad"
        else if !LexSpec.WF toks then pure "quirk"
        else pure (String.ofList ((LexSpec.commentFlags toks).map fun b => if b then '1' else '0'))
  | "cm.mustchange", [c, ch] => do
    let c ← decChars c
    let ch ← decBit ch
    if dropIsNoticed c ch then pure "ok" else pure s!"payload-ignores-comment:{encChars c}"
  | "cm.payloads", [a, b] => do
    let a ← decTexts a
    let b ← decTexts b
    match allPayload a, allPayload b with
    | some x, some y => pure (if x == y then "ok" else "diff")
    | _, _ => pure "panic"
  | _, _ => none

end RF.Driver.Comment
