//! Driving the real `rustfmt` binaries on scratch directories (C20, C06): the hook-free binary and
//! the one built with `--features verif-hooks` (crash points), both built from the working tree at
//! the start of every run; process runner that keeps the terminating signal; directory snapshots
//! (bytes + mtime); a pool of (unformatted, formatted) sources.
use std::collections::BTreeMap;
use std::io::Write;
use std::os::unix::fs::MetadataExt;
use std::os::unix::process::ExitStatusExt;
use std::path::{Path, PathBuf};
use std::process::{Command, Stdio};
use std::time::Duration;

use crate::corpus;
use crate::gen::relayout;
use crate::util::*;

/// `<verif>/.build`: the directory that holds `target/debug/rfverif` (this executable).
pub fn build_dir() -> PathBuf {
    let exe = std::env::current_exe().expect("current_exe");
    // <build>/target/debug/rfverif
    exe.parent().and_then(|p| p.parent()).and_then(|p| p.parent()).map(|p| p.to_path_buf()).unwrap_or_else(|| PathBuf::from("/verif/.build"))
}

/// `cargo build --bin rustfmt` of the working tree (incremental; a no-op when nothing changed).
/// hooks = false: `<build>/repo-target`, the binary users run.  hooks = true: `--features verif-hooks`
/// into `<build>/repo-hooks-target` (crash points and fault injection compiled in).
pub fn build_rustfmt(hooks: bool) -> Result<PathBuf, String> {
    let dir = build_dir().join(if hooks { "repo-hooks-target" } else { "repo-target" });
    let mut cmd = Command::new("cargo");
    cmd.current_dir(repo_dir()).arg("build").arg("--offline").arg("--bin").arg("rustfmt").arg("--target-dir").arg(&dir);
    if hooks {
        cmd.arg("--features").arg("verif-hooks");
    }
    cmd.env("CARGO_NET_OFFLINE", "true");
    let out = cmd.output().map_err(|e| format!("cargo: {}", e))?;
    if !out.status.success() {
        let err = String::from_utf8_lossy(&out.stderr);
        let tail: String = err.chars().rev().take(1500).collect::<String>().chars().rev().collect();
        return Err(format!("cargo build --bin rustfmt (hooks={}) failed:\n{}", hooks, tail));
    }
    let bin = dir.join("debug").join("rustfmt");
    if bin.exists() { Ok(bin) } else { Err(format!("{} missing after build", bin.display())) }
}

#[derive(Clone, Debug)]
pub struct Ran {
    pub code: Option<i32>,
    pub signal: Option<i32>,
    pub stdout: Vec<u8>,
    pub stderr: String,
    pub timed_out: bool,
}

impl Ran {
    /// short fixed word for evidence and messages
    pub fn status_word(&self) -> String {
        if self.timed_out {
            "timeout".into()
        } else if let Some(s) = self.signal {
            format!("signal{}", s)
        } else {
            format!("exit{}", self.code.unwrap_or(-1))
        }
    }
    pub fn out_str(&self) -> String {
        String::from_utf8_lossy(&self.stdout).into_owned()
    }
}

/// Runs `cmd` with `stdin_data`, a wall-clock limit, `TERM` unset (no colour codes in the diff).
pub fn run(cmd: &mut Command, stdin_data: &[u8], timeout: Duration) -> Ran {
    cmd.env_remove("TERM");
    run_keep_env(cmd, stdin_data, timeout)
}

pub fn run_keep_env(cmd: &mut Command, stdin_data: &[u8], timeout: Duration) -> Ran {
    let mut child = match cmd.stdin(Stdio::piped()).stdout(Stdio::piped()).stderr(Stdio::piped()).spawn() {
        Ok(c) => c,
        Err(e) => return Ran { code: None, signal: None, stdout: vec![], stderr: format!("spawn: {}", e), timed_out: false },
    };
    let mut stdin = child.stdin.take().unwrap();
    let data = stdin_data.to_vec();
    let w = std::thread::spawn(move || {
        let _ = stdin.write_all(&data);
    });
    let mut so = child.stdout.take().unwrap();
    let mut se = child.stderr.take().unwrap();
    let t1 = std::thread::spawn(move || {
        let mut b = vec![];
        let _ = std::io::Read::read_to_end(&mut so, &mut b);
        b
    });
    let t2 = std::thread::spawn(move || {
        let mut b = vec![];
        let _ = std::io::Read::read_to_end(&mut se, &mut b);
        b
    });
    let t0 = std::time::Instant::now();
    let mut timed_out = false;
    let status = loop {
        match child.try_wait() {
            Ok(Some(s)) => break Some(s),
            Ok(None) => {
                if t0.elapsed() > timeout {
                    let _ = child.kill();
                    timed_out = true;
                    break child.wait().ok();
                }
                std::thread::sleep(Duration::from_millis(2));
            }
            Err(_) => break None,
        }
    };
    let _ = w.join();
    let stdout = t1.join().unwrap_or_default();
    let stderr = String::from_utf8_lossy(&t2.join().unwrap_or_default()).into_owned();
    Ran { code: status.and_then(|s| s.code()), signal: status.and_then(|s| s.signal()), stdout, stderr, timed_out }
}

/// wall-clock limit of one process; a run over it is counted as `timeout`, never as a violation
pub const LIMIT: Duration = Duration::from_secs(120);

/// a command for `bin` in `cwd` with the injection variables cleared
pub fn base_cmd(bin: &Path, cwd: &Path) -> Command {
    let mut c = Command::new(bin);
    c.current_dir(cwd).env_remove("RUSTFMT_VERIF_CRASH_AT").env_remove("RUSTFMT_VERIF_FAIL_AT");
    c
}

/// `bin args…` in `cwd`, nothing on stdin
pub fn rustfmt<S: AsRef<std::ffi::OsStr>>(bin: &Path, cwd: &Path, args: &[S]) -> Ran {
    let mut c = base_cmd(bin, cwd);
    c.args(args);
    run(&mut c, b"", LIMIT)
}

pub fn rustfmt_env<S: AsRef<std::ffi::OsStr>>(bin: &Path, cwd: &Path, args: &[S], envs: &[(String, String)]) -> Ran {
    let mut c = base_cmd(bin, cwd);
    c.args(args);
    for (k, v) in envs {
        c.env(k, v);
    }
    run(&mut c, b"", LIMIT)
}

pub fn rustfmt_stdin<S: AsRef<std::ffi::OsStr>>(bin: &Path, cwd: &Path, args: &[S], input: &[u8]) -> Ran {
    let mut c = base_cmd(bin, cwd);
    c.args(args);
    run(&mut c, input, LIMIT)
}

/// A fresh directory with an empty `rustfmt.toml` (stops the upward search for a configuration).
pub fn fresh_dir(root: &Path, name: &str) -> PathBuf {
    let d = root.join(name);
    let _ = std::fs::remove_dir_all(&d);
    std::fs::create_dir_all(&d).expect("scratch dir");
    std::fs::write(d.join("rustfmt.toml"), b"").expect("rustfmt.toml");
    d
}

#[derive(Clone, Debug, PartialEq, Eq)]
pub struct Snap {
    /// None = directory
    pub bytes: Option<Vec<u8>>,
    pub mtime: (i64, i64),
    pub ino: u64,
}

/// every entry below `dir` (relative path -> contents, mtime, inode), `rustfmt.toml` included
pub fn snapshot(dir: &Path) -> BTreeMap<String, Snap> {
    fn walk(base: &Path, d: &Path, out: &mut BTreeMap<String, Snap>) {
        if let Ok(rd) = std::fs::read_dir(d) {
            for e in rd.flatten() {
                let p = e.path();
                let rel = p.strip_prefix(base).unwrap().to_string_lossy().into_owned();
                if let Ok(md) = std::fs::symlink_metadata(&p) {
                    if md.is_dir() {
                        out.insert(rel, Snap { bytes: None, mtime: (md.mtime(), md.mtime_nsec()), ino: md.ino() });
                        walk(base, &p, out);
                    } else {
                        out.insert(rel, Snap { bytes: std::fs::read(&p).ok().or(Some(vec![])), mtime: (md.mtime(), md.mtime_nsec()), ino: md.ino() });
                    }
                }
            }
        }
    }
    let mut m = BTreeMap::new();
    walk(dir, dir, &mut m);
    m
}

/// contents of one path for the model: `none`, the bytes, or the marker `<DIR>` for a directory
pub fn content(p: &Path) -> Option<Vec<u8>> {
    match std::fs::symlink_metadata(p) {
        Err(_) => None,
        Ok(md) if md.is_dir() => Some(b"<DIR>".to_vec()),
        Ok(_) => Some(std::fs::read(p).unwrap_or_default()),
    }
}

pub fn enc_content(c: &Option<Vec<u8>>) -> String {
    match c {
        None => "none".into(),
        Some(b) => enc_bytes(b),
    }
}

/// One source text in two layouts: `orig` (unformatted) and `fmt` = what plain `rustfmt file`
/// leaves in the file; `fmt_fixed` = formatting `fmt` again changes nothing.
#[derive(Clone, Debug)]
pub struct Src {
    pub name: String,
    pub orig: String,
    pub fmt: String,
    pub fmt_fixed: bool,
}

const HAND: &[&str] = &[
    "fn main(){let x=1;}\n",
    "struct   S{a:u32,b:String}\nimpl S{fn new()->S{S{a:1,b:String::new()}}}\n",
    "use std::fmt;use std::collections::HashMap;\nfn f(x:u32)->u32{if x>1{x*2}else{x}}\n\n\n\nenum E{A,B(u8),C{x:i32}}\n",
    "// a comment\nfn   g<T:Clone>(t:&T)->T where T:Default{ t.clone() }\nconst X:[u8;3]=[1,2,3];\n",
    "fn long(){let v=vec![1,2,3,4,5,6,7,8,9,10,11,12,13,14,15,16,17,18,19,20,21,22,23,24,25,26,27,28,29,30,31,32,33,34];let _=v;}\n",
    "trait T{fn a(&self);fn b(&self)->u8{0}}\nmod m{pub fn f(){}}\n",
    "fn m(x:Option<u8>)->u8{match x{Some(v)=>v,None=>0}}",
];

fn has_external_mod(src: &str) -> bool {
    for l in src.lines() {
        let t = l.trim_start();
        let t = t.strip_prefix("pub ").unwrap_or(t);
        if let Some(rest) = t.strip_prefix("mod ") {
            if rest.trim_end().ends_with(';') {
                return true;
            }
        }
    }
    false
}

/// reference formatting of one text: write it alone into a scratch directory and run plain
/// `rustfmt f.rs` (Files mode, the behaviour the property measures everything against)
pub fn reference_format(bin: &Path, scratch: &Path, tag: &str, text: &str) -> Option<String> {
    let d = fresh_dir(scratch, tag);
    let f = d.join("f.rs");
    std::fs::write(&f, text).ok()?;
    let r = rustfmt(bin, &d, &["f.rs"]);
    let res = if r.code == Some(0) && r.stderr.is_empty() && r.stdout.is_empty() { std::fs::read_to_string(&f).ok() } else { None };
    let _ = std::fs::remove_dir_all(&d);
    res
}

/// `n` sources: the hand-written snippets first, then re-laid-out fixtures of `tests/target` that
/// have no `// rustfmt-` header, no `mod x;`, no CR, between `min_len` and `max_len` bytes, and that
/// the plain binary formats without any message.  Seed-dependent choice and layout.
pub fn sources(rng: &mut Rng, n: usize, min_len: usize, max_len: usize, bin: &Path, scratch: &Path) -> Vec<Src> {
    let mut cands: Vec<(String, String)> = vec![];
    if min_len == 0 {
        for (i, h) in HAND.iter().enumerate() {
            cands.push((format!("hand{}", i), h.to_string()));
        }
    }
    let mut progs = corpus::programs(&["tests/target"]);
    progs.retain(|p| p.cfg.is_empty() && !p.src.contains("rustfmt-") && !p.src.contains('\r') && !has_external_mod(&p.src) && p.src.len() >= min_len && p.src.len() <= max_len && !p.src.contains("cfg_if") && !p.src.contains("#[path"));
    // draw without replacement, more than needed (some are rejected below)
    let mut extra = vec![];
    let want = n.saturating_sub(cands.len()) * 2 + 4;
    while extra.len() < want && !progs.is_empty() {
        let p = progs.remove(rng.below(progs.len()));
        let mut r = rng.fork();
        let laid = relayout(&p.src, &mut r);
        extra.push((p.name.clone(), laid));
    }
    cands.extend(extra);
    let formatted: Vec<Option<(String, bool)>> = par_map(&cands.iter().enumerate().collect::<Vec<_>>(), |(i, (_, text))| {
        let f = reference_format(bin, scratch, &format!("ref{}", i), text)?;
        let again = reference_format(bin, scratch, &format!("ref{}b", i), &f)?;
        Some((f.clone(), again == f))
    });
    let mut res = vec![];
    for ((name, orig), f) in cands.into_iter().zip(formatted) {
        if res.len() >= n {
            break;
        }
        if let Some((fmt, fixed)) = f {
            if fmt != orig {
                res.push(Src { name, orig, fmt, fmt_fixed: fixed });
            }
        }
    }
    res
}
