import RF.Model.FormatLinesSpec
/-!
Proofs for C07: the character scanner of `RF/Model/FormatLines.lean` computes the line-based
specification of `RF/Model/FormatLinesSpec.lean`.
-/
namespace RF.Lemmas.FormatLines
open RF.CharClasses (Kind)
open RF.FormatLines RF.FormatLines.Spec

/-! ### How the per-line quantities change when one character is appended -/

theorem visible_snoc_cr (cur : List (Kind × Char)) (k nl : Kind) :
    visible ⟨cur ++ [(k, '\r')], nl⟩ = visible ⟨cur, nl⟩ := by
  simp [visible, List.filter_append]

theorem visible_snoc (cur : List (Kind × Char)) (k nl : Kind) (c : Char) (h : c ≠ '\r') :
    visible ⟨cur ++ [(k, c)], nl⟩ = visible ⟨cur, nl⟩ ++ [(k, c)] := by
  simp [visible, List.filter_append, h]

theorem lineText_snoc (cur : List (Kind × Char)) (k nl : Kind) (c : Char) (h : c ≠ '\r') :
    lineText ⟨cur ++ [(k, c)], nl⟩ = lineText ⟨cur, nl⟩ ++ [c] := by
  simp [lineText, visible_snoc cur k nl c h]

theorem width_snoc (tab : Nat) (cur : List (Kind × Char)) (k nl : Kind) (c : Char) (h : c ≠ '\r') :
    width tab ⟨cur ++ [(k, c)], nl⟩ = width tab ⟨cur, nl⟩ + charWidth tab c := by
  simp [width, lineText_snoc cur k nl c h, List.sum_append]

theorem endsBlank_snoc (cur : List (Kind × Char)) (k nl : Kind) (c : Char) (h : c ≠ '\r') :
    endsBlank ⟨cur ++ [(k, c)], nl⟩ = isWhitespace c := by
  simp [endsBlank, lineText_snoc cur k nl c h]

theorem stringLine_snoc (cur : List (Kind × Char)) (k nl : Kind) (c : Char) (h : c ≠ '\r') :
    stringLine ⟨cur ++ [(k, c)], nl⟩ = (stringLine ⟨cur, nl⟩ || k.isString) := by
  simp [stringLine, visible_snoc cur k nl c h]

theorem isSkippedLine_eq (sk : List (Nat × Nat)) (n : Nat) : isSkippedLine sk n = inSkipped sk n := rfl

/-- The scanner state describes the line collected so far (`cur`), and nothing else. -/
structure Inv (cfg : Config) (selected : Nat → Bool) (st : State) (cur : List (Kind × Char)) :
    Prop where
  len : ∀ nl, st.lineLen = width cfg.tabSpaces ⟨cur, nl⟩
  blank : ∀ nl, st.lastWasSpace = endsBlank ⟨cur, nl⟩
  str : ∀ nl, st.currentLineContainsStringLiteral = stringLine ⟨cur, nl⟩
  buf : ∀ nl, st.lineBuffer = lineText ⟨cur, nl⟩
  fmt : st.formatLine = selected st.curLine

theorem inv_new (cfg : Config) (selected : Nat → Bool) : Inv cfg selected (State.new selected) [] :=
  ⟨fun _ => rfl, fun _ => rfl, fun _ => rfl, fun _ => rfl, rfl⟩

theorem inv_cr {cfg selected st cur} (k : Kind) (h : Inv cfg selected st cur) :
    Inv cfg selected st (cur ++ [(k, '\r')]) := by
  refine ⟨fun nl => ?_, fun nl => ?_, fun nl => ?_, fun nl => ?_, h.fmt⟩
  · rw [h.len nl]; simp [width, lineText, visible_snoc_cr]
  · rw [h.blank nl]; simp [endsBlank, lineText, visible_snoc_cr]
  · rw [h.str nl]; simp [stringLine, visible_snoc_cr]
  · rw [h.buf nl]; simp [lineText, visible_snoc_cr]

theorem inv_char {cfg selected st cur} (k : Kind) (c : Char) (hc : c ≠ '\r')
    (h : Inv cfg selected st cur) :
    Inv cfg selected (char cfg st c k) (cur ++ [(k, c)]) := by
  refine ⟨fun nl => ?_, fun nl => ?_, fun nl => ?_, fun nl => ?_, h.fmt⟩
  · simp [char, width_snoc _ _ _ _ _ hc, h.len nl, charWidth]
  · simp [char, endsBlank_snoc _ _ _ _ hc]
  · simp only [char, stringLine_snoc _ _ _ _ hc, h.str nl]
    cases k.isString <;> simp
  · simp [char, lineText_snoc _ _ _ _ hc, h.buf nl]

theorem inv_fresh (cfg : Config) (selected : Nat → Bool) (n nc : Nat) (errs : List FormattingError) :
    Inv cfg selected ⟨false, 0, n, nc, errs, [], false, selected n⟩ [] :=
  ⟨fun _ => rfl, fun _ => rfl, fun _ => rfl, fun _ => rfl, rfl⟩

/-- `lineErrors` as a function of the per-line quantities. -/
def lineErrorsAbs (cfg : Config) (skp s : Bool) (n w : Nat) (eb hs : Bool) (buf : List Char) (k : Kind) :
    List FormattingError :=
  if s && !skp && (cfg.errorOnUnformatted || !(k.isComment || hs)) then
    (if eb then [⟨n, .trailingWhitespace, k.isComment, k.isString, buf⟩] else []) ++
    (if cfg.errorOnLineOverflow && decide ((if eb then w - 1 else w) > cfg.maxWidth) then
      [⟨n, .lineOverflow (if eb then w - 1 else w) cfg.maxWidth, k.isComment, hs, buf⟩] else [])
  else []

theorem lineErrors_eq_abs (cfg : Config) (sk : List (Nat × Nat)) (selected : Nat → Bool) (n : Nat)
    (l : Line) :
    lineErrors cfg sk selected n l =
      lineErrorsAbs cfg (inSkipped sk n) (selected n) n (width cfg.tabSpaces l) (endsBlank l)
        (stringLine l) (lineText l) l.nl := rfl

/-- `new_line` on a state given field by field. -/
theorem newLine_abs (cfg : Config) (sk : List (Nat × Nat)) (selected : Nat → Bool)
    (eb : Bool) (w cl nc : Nat) (errs : List FormattingError) (buf : List Char) (hs : Bool) (k : Kind) :
    ((selected cl && eb && w == 0) = true ∧
      newLine cfg sk selected ⟨eb, w, cl, nc, errs, buf, hs, selected cl⟩ k = none) ∨
    ((selected cl && eb && w == 0) = false ∧
      newLine cfg sk selected ⟨eb, w, cl, nc, errs, buf, hs, selected cl⟩ k =
        some ⟨false, 0, cl + 1, nc + 1,
          errs ++ lineErrorsAbs cfg (inSkipped sk cl) (selected cl) cl w eb hs buf k, [], false,
          selected (cl + 1)⟩) := by
  obtain ⟨mw, tab, eolo, eou⟩ := cfg
  generalize hskp : inSkipped sk cl = skp
  generalize hkc : k.isComment = kc
  generalize k.isString = ks
  generalize selected cl = s
  cases s <;> cases eb <;> cases hs <;> cases skp <;> cases kc <;> cases eou <;> cases eolo <;>
    simp [newLine, lineErrorsAbs, shouldReportError,
    pushErr, ErrorKind.isComment, isSkippedLine_eq, hskp, hkc]
  all_goals (by_cases hw0 : w = 0 <;> by_cases hmw : mw < w <;> by_cases hmw1 : mw < w - 1 <;>
    simp [hw0, hmw, hmw1, hskp] <;> omega)

/-- One terminated line: `new_line` panics exactly when the specification says `underflows`,
and otherwise appends exactly `lineErrors` and starts the next line. -/
theorem newLine_spec (cfg : Config) (sk : List (Nat × Nat)) (selected : Nat → Bool)
    (st : State) (cur : List (Kind × Char)) (k : Kind) (h : Inv cfg selected st cur) :
    (underflows cfg selected st.curLine ⟨cur, k⟩ = true ∧ newLine cfg sk selected st k = none) ∨
    (underflows cfg selected st.curLine ⟨cur, k⟩ = false ∧
      ∃ st', newLine cfg sk selected st k = some st' ∧
        st'.errors = st.errors ++ lineErrors cfg sk selected st.curLine ⟨cur, k⟩ ∧
        st'.curLine = st.curLine + 1 ∧ st'.newlineCount = st.newlineCount + 1 ∧
        Inv cfg selected st' []) := by
  have h1 := h.len k; have h2 := h.blank k; have h3 := h.str k; have h4 := h.buf k
  have h5 := h.fmt
  cases st with | mk lws ll cl nc errs lb hs fl =>
  simp only at h1 h2 h3 h4 h5
  subst h1 h2 h3 h4 h5
  rcases newLine_abs cfg sk selected (endsBlank ⟨cur, k⟩) (width cfg.tabSpaces ⟨cur, k⟩) cl nc errs
    (lineText ⟨cur, k⟩) (stringLine ⟨cur, k⟩) k with ⟨hu, hn⟩ | ⟨hu, hn⟩
  · exact Or.inl ⟨hu, hn⟩
  · exact Or.inr ⟨hu, _, hn, by simp [lineErrors_eq_abs], rfl, rfl, inv_fresh cfg selected _ _ _⟩

/-- The scanner, started anywhere in a line, reports exactly the specified diagnostics of the
remaining terminated lines (and panics exactly when the specification says so). -/
theorem iterate_spec (cfg : Config) (sk : List (Nat × Nat)) (selected : Nat → Bool) :
    ∀ (l : List (Kind × Char)) (st : State) (cur : List (Kind × Char)),
      Inv cfg selected st cur →
      (iterate cfg sk selected st l).map (·.errors) =
        (errorsFrom cfg sk selected st.curLine (splitLines cur l).1).map (st.errors ++ ·)
  | [], st, cur, _ => by simp [iterate, splitLines, errorsFrom]
  | (k, c) :: rest, st, cur, h => by
    by_cases hcr : c = '\r'
    · subst hcr
      have ih := iterate_spec cfg sk selected rest st _ (inv_cr k h)
      simpa [iterate, splitLines] using ih
    · by_cases hnl : c = '\n'
      · subst hnl
        rcases newLine_spec cfg sk selected st cur k h with ⟨hu, hn⟩ | ⟨hu, st', hn, he, hc, _, hi⟩
        · simp [iterate, splitLines, errorsFrom, hu, hn]
        · have ih := iterate_spec cfg sk selected rest st' [] hi
          simp only [iterate, splitLines, hn, if_true, if_neg hcr]
          rw [ih, he, hc]
          simp [errorsFrom, hu, Option.map_map, Function.comp_def]
      · have ih := iterate_spec cfg sk selected rest _ _ (inv_char k c hcr h)
        simpa [iterate, splitLines, hcr, hnl, char] using ih

/-- Lines cut at `'\n'` really are the lines: gluing them back gives the text. -/
theorem splitLines_join : ∀ (l cur : List (Kind × Char)),
    ((splitLines cur l).1.flatMap fun ln => ln.body ++ [(ln.nl, '\n')]) ++ (splitLines cur l).2 =
      cur ++ l
  | [], cur => by simp [splitLines]
  | (k, c) :: rest, cur => by
    by_cases hnl : c = '\n'
    · subst hnl
      have ih := splitLines_join rest []
      simp only [List.nil_append] at ih
      simp [splitLines, ih]
    · have ih := splitLines_join rest (cur ++ [(k, c)])
      simpa [splitLines, hnl] using ih

/-! ### `newline_count` and the final truncation -/

theorem trailingNewlines_snoc (xs : List Char) (c : Char) :
    trailingNewlines (xs ++ [c]) =
      if c = '\n' then trailingNewlines xs + 1 else if c = '\r' then trailingNewlines xs else 0 := by
  by_cases h1 : c = '\n'
  · subst h1; simp [trailingNewlines]
  · by_cases h2 : c = '\r'
    · subst h2; simp [trailingNewlines]
    · simp [trailingNewlines, h1, h2]

/-- After the scan `newline_count` is the number of `'\n'` in the trailing run of `'\n'`/`'\r'`. -/
theorem iterate_newlineCount (cfg : Config) (sk : List (Nat × Nat)) (selected : Nat → Bool) :
    ∀ (l : List (Kind × Char)) (st : State) (cur : List (Kind × Char)) (pre : List Char),
      Inv cfg selected st cur → st.newlineCount = trailingNewlines pre →
      ∀ st', iterate cfg sk selected st l = some st' →
        st'.newlineCount = trailingNewlines (pre ++ l.map (·.2))
  | [], st, cur, pre, _, hp, st', hs => by
    simp [iterate] at hs; subst hs; simpa using hp
  | (k, c) :: rest, st, cur, pre, h, hp, st', hs => by
    have hsplit : pre ++ ((k, c) :: rest).map (·.2) = (pre ++ [c]) ++ rest.map (·.2) := by simp
    rw [hsplit]
    by_cases hcr : c = '\r'
    · subst hcr
      refine iterate_newlineCount cfg sk selected rest st _ _ (inv_cr k h) ?_ st' (by simpa [iterate] using hs)
      simp [trailingNewlines_snoc, hp]
    · by_cases hnl : c = '\n'
      · subst hnl
        rcases newLine_spec cfg sk selected st cur k h with ⟨_, hn⟩ | ⟨_, st1, hn, _, _, hc, hi⟩
        · simp [iterate, hn] at hs
        · refine iterate_newlineCount cfg sk selected rest st1 [] _ hi ?_ st' (by simpa [iterate, hn] using hs)
          simp [trailingNewlines_snoc, hc, hp]
      · refine iterate_newlineCount cfg sk selected rest _ _ _ (inv_char k c hcr h) ?_ st'
          (by simpa [iterate, hcr, hnl] using hs)
        simp [trailingNewlines_snoc, hcr, hnl, char]

theorem utf8Size_nl : ('\n' : Char).utf8Size = 1 := by decide
theorem utf8Size_cr : ('\r' : Char).utf8Size = 1 := by decide

theorem truncateBytes_cons (m : Nat) (c : Char) (cs : List Char) (h : c.utf8Size ≤ m) :
    truncateBytes m (c :: cs) = (truncateBytes (m - c.utf8Size) cs).map (c :: ·) := by
  cases m with
  | zero => have := Char.utf8Size_pos c; omega
  | succ n => simp [truncateBytes, h]

theorem truncateBytes_append (A B : List Char) (k : Nat) :
    truncateBytes (byteLen A + k) (A ++ B) = (truncateBytes k B).map (A ++ ·) := by
  induction A with
  | nil => simp [byteLen]
  | cons a A ih =>
    have e : byteLen (a :: A) + k - a.utf8Size = byteLen A + k := by simp [byteLen]; omega
    rw [List.cons_append, truncateBytes_cons _ _ _ (by simp [byteLen]; omega), e, ih]
    simp [Option.map_map, Function.comp_def]

theorem truncateBytes_ascii : ∀ (B : List Char) (k : Nat), (∀ c ∈ B, c.utf8Size = 1) →
    truncateBytes k B = some (B.take k)
  | [], k, _ => by simp [truncateBytes]
  | b :: B, 0, _ => by simp [truncateBytes]
  | b :: B, k + 1, h => by
    have hb : b.utf8Size = 1 := h b (by simp)
    rw [truncateBytes_cons _ _ _ (by omega), hb]
    simp [truncateBytes_ascii B k (fun c hc => h c (by simp [hc]))]

theorem byteLen_ascii (B : List Char) (h : ∀ c ∈ B, c.utf8Size = 1) : byteLen B = B.length := by
  induction B with
  | nil => rfl
  | cons b B ih =>
    have := h b (by simp)
    have := ih (fun c hc => h c (by simp [hc]))
    simp [byteLen] at *; omega

theorem byteLen_append (A B : List Char) : byteLen (A ++ B) = byteLen A + byteLen B := by
  simp [byteLen, List.sum_append]

/-- The byte-level `String::truncate` of `format_lines` cuts exactly the specified suffix, and
neither the subtraction nor the truncation can panic. -/
theorem truncate_spec (text : List Char) (h : trailingNewlines text > 1) :
    trailingNewlines text ≤ byteLen text ∧
    truncateBytes (byteLen text - trailingNewlines text + 1) text = some (truncated text) := by
  let p : Char → Bool := fun c => c = '\n' || c = '\r'
  have hsplit : text = (text.reverse.dropWhile p).reverse ++ (text.reverse.takeWhile p).reverse := by
    rw [← List.reverse_append, List.takeWhile_append_dropWhile, List.reverse_reverse]
  generalize hA : (text.reverse.dropWhile p).reverse = A at hsplit
  generalize hB : (text.reverse.takeWhile p).reverse = B at hsplit
  have hBp : ∀ c ∈ B, c.utf8Size = 1 := by
    intro c hc
    rw [← hB, List.mem_reverse] at hc
    have := List.all_eq_true.mp (List.all_takeWhile (p := p) (l := text.reverse)) c hc
    simp [p] at this
    rcases this with rfl | rfl
    · exact utf8Size_nl
    · exact utf8Size_cr
  have htn : trailingNewlines text = B.count '\n' := by
    simp only [trailingNewlines]
    rw [← hB, List.count_reverse]
  have hle : B.count '\n' ≤ B.length := List.count_le_length
  simp only [truncated]
  rw [htn] at h ⊢
  subst hsplit
  rw [byteLen_append, byteLen_ascii B hBp]
  refine ⟨by omega, ?_⟩
  have e : byteLen A + B.length - B.count '\n' + 1 = byteLen A + (B.length - B.count '\n' + 1) := by omega
  rw [e, truncateBytes_append, truncateBytes_ascii B _ hBp]
  simp only [Option.map_some, Option.some.injEq, List.length_append]
  have e2 : A.length + B.length - (B.count '\n' - 1) = A.length + (B.length - B.count '\n' + 1) := by omega
  rw [e2, List.take_append]
  simp [List.take_of_length_le]

theorem truncated_of_le_one (text : List Char) (h : ¬ trailingNewlines text > 1) :
    truncated text = text := by
  have : trailingNewlines text - 1 = 0 := by omega
  simp [truncated, this]

/-- **Scanner = specification**, errors and text, panics included. -/
theorem formatLinesOn_eq_spec (cfg : Config) (sk : List (Nat × Nat)) (selected : Nat → Bool)
    (tagged : List (Kind × Char)) :
    formatLinesOn cfg sk selected tagged = Spec.result cfg sk selected tagged := by
  have hs := iterate_spec cfg sk selected tagged (State.new selected) [] (inv_new cfg selected)
  have hn := iterate_newlineCount cfg sk selected tagged (State.new selected) [] []
    (inv_new cfg selected) rfl
  simp only [State.new, List.nil_append] at hs hn
  simp only [formatLinesOn, Spec.result, Spec.errors, lines, State.new]
  cases hi : iterate cfg sk selected
      { lastWasSpace := false, lineLen := 0, curLine := 1, newlineCount := 0, errors := [],
        lineBuffer := [], currentLineContainsStringLiteral := false, formatLine := selected 1 }
      tagged with
  | none =>
    rw [hi] at hs
    cases he : errorsFrom cfg sk selected 1 (splitLines [] tagged).1 with
    | none => simp
    | some es => rw [he] at hs; simp at hs
  | some st =>
    rw [hi] at hs
    have hnc := hn st hi
    cases he : errorsFrom cfg sk selected 1 (splitLines [] tagged).1 with
    | none => rw [he] at hs; simp at hs
    | some es =>
      rw [he] at hs
      simp only [Option.map_some, Option.some.injEq] at hs
      simp only [Option.map_some]
      by_cases hgt : st.newlineCount > 1
      · have ht := truncate_spec (tagged.map (·.2)) (by omega)
        rw [← hnc] at ht
        have hlt : ¬ byteLen (tagged.map (·.2)) < st.newlineCount := by omega
        simp [hgt, hlt, ht.2, hs]
      · have ht := truncated_of_le_one (tagged.map (·.2)) (by omega)
        simp [hgt, ht, hs]

/-! ### Reading the specification -/

section


variable (cfg : Config) (sk : List (Nat × Nat)) (selected : Nat → Bool)

theorem mem_errorsFrom (e : FormattingError) : ∀ (ls : List Line) (n : Nat) (es : List FormattingError),
    errorsFrom cfg sk selected n ls = some es →
    (e ∈ es ↔ ∃ i l, ls[i]? = some l ∧ e ∈ lineErrors cfg sk selected (n + i) l)
  | [], n, es, h => by
    simp [errorsFrom] at h; subst h; simp
  | l0 :: ls, n, es, h => by
    simp only [errorsFrom] at h
    split at h
    · simp at h
    · cases h' : errorsFrom cfg sk selected (n + 1) ls with
      | none => simp [h'] at h
      | some es' =>
        simp [h'] at h
        subst h
        have ih := mem_errorsFrom e ls (n + 1) es' h'
        rw [List.mem_append, ih]
        constructor
        · rintro (h0 | ⟨i, l, hl, he⟩)
          · exact ⟨0, l0, by simp, by simpa using h0⟩
          · exact ⟨i + 1, l, by simpa using hl, by simpa [Nat.add_assoc, Nat.add_comm 1 i] using he⟩
        · rintro ⟨i, l, hl, he⟩
          cases i with
          | zero => simp at hl; subst hl; exact Or.inl (by simpa using he)
          | succ i => exact Or.inr ⟨i, l, by simpa using hl, by simpa [Nat.add_assoc, Nat.add_comm 1 i] using he⟩

theorem errorsFrom_isSome_iff : ∀ (ls : List Line) (n : Nat),
    (errorsFrom cfg sk selected n ls).isSome ↔
      ∀ i l, ls[i]? = some l → underflows cfg selected (n + i) l = false
  | [], n => by simp [errorsFrom]
  | l0 :: ls, n => by
    simp only [errorsFrom]
    have ih := errorsFrom_isSome_iff ls (n + 1)
    constructor
    · intro h i l hl
      split at h
      · simp at h
      · rename_i hu
        cases i with
        | zero => simp at hl; subst hl; simpa using hu
        | succ i =>
          have := ih.mp (by simpa using h) i l (by simpa using hl)
          simpa [Nat.add_assoc, Nat.add_comm 1 i] using this
    · intro h
      have h0 := h 0 l0 (by simp)
      simp at h0
      simp only [h0]
      simp only [Bool.false_eq_true, ↓reduceIte, Option.isSome_map]
      apply ih.mpr
      intro i l hl
      have := h (i + 1) l (by simpa using hl)
      simpa [Nat.add_assoc, Nat.add_comm 1 i] using this




theorem sum_pos_of_ne_nil (tab : Nat) (ht : 1 ≤ tab) : ∀ (t : List Char), t ≠ [] →
    1 ≤ (t.map (charWidth tab)).sum
  | [], h => absurd rfl h
  | c :: t, _ => by
    have : 1 ≤ charWidth tab c := by unfold charWidth; split <;> omega
    simp only [List.map_cons, List.sum_cons]; omega

/-- With `tab_spaces ≥ 1` a line that ends blank has positive width. -/
theorem width_pos_of_endsBlank (tab : Nat) (ht : 1 ≤ tab) (l : Line) (h : endsBlank l = true) :
    1 ≤ width tab l := by
  apply sum_pos_of_ne_nil tab ht
  intro hnil
  simp [endsBlank, hnil] at h

theorem underflows_false (ht : 1 ≤ cfg.tabSpaces) (n : Nat) (l : Line) :
    underflows cfg selected n l = false := by
  cases hb : endsBlank l with
  | false => simp [underflows, hb]
  | true =>
    have := width_pos_of_endsBlank cfg.tabSpaces ht l hb
    have : ¬ width cfg.tabSpaces l = 0 := by omega
    simp [underflows, this]

theorem mem_lineErrors (n : Nat) (l : Line) (e : FormattingError) :
    e ∈ lineErrors cfg sk selected n l ↔
      eligible cfg sk selected n l = true ∧
      ((endsBlank l = true ∧
          e = ⟨n, .trailingWhitespace, commentLine l, l.nl.isString, lineText l⟩) ∨
       (cfg.errorOnLineOverflow = true ∧ cfg.maxWidth < reportedWidth cfg.tabSpaces l ∧
          e = ⟨n, .lineOverflow (reportedWidth cfg.tabSpaces l) cfg.maxWidth, commentLine l,
            stringLine l, lineText l⟩)) := by
  unfold lineErrors
  cases eligible cfg sk selected n l <;> cases endsBlank l <;> cases cfg.errorOnLineOverflow <;>
    by_cases h : cfg.maxWidth < reportedWidth cfg.tabSpaces l <;> simp [h]

theorem reportedWidth_le (tab : Nat) (l : Line) : reportedWidth tab l ≤ width tab l := by
  unfold reportedWidth; split <;> omega

end


theorem count_nl_eq_zero (cur : List (Kind × Char)) (h : ∀ p ∈ cur, p.2 ≠ '\n') :
    (cur.map (·.2)).count '\n' = 0 := by
  rw [List.count_eq_zero]
  intro hm
  obtain ⟨p, hp, he⟩ := List.mem_map.mp hm
  exact h p hp he

/-- What "line number" means: the `i`-th terminated line (0-based) is preceded in the text by
exactly `i` newline characters, is followed by its own `'\n'`, and contains none. -/
theorem splitLines_decomp : ∀ (l cur : List (Kind × Char)) (i : Nat) (ln : Line),
    (∀ p ∈ cur, p.2 ≠ '\n') → (splitLines cur l).1[i]? = some ln →
    ∃ pre post, cur ++ l = pre ++ ln.body ++ [(ln.nl, '\n')] ++ post ∧
      (pre.map (·.2)).count '\n' = i ∧ ∀ p ∈ ln.body, p.2 ≠ '\n'
  | [], cur, i, ln, _, h => by simp [splitLines] at h
  | (k, c) :: rest, cur, i, ln, hc, h => by
    by_cases hnl : c = '\n'
    · subst hnl
      simp only [splitLines, if_true] at h
      cases i with
      | zero =>
        simp at h; subst h
        exact ⟨[], rest, by simp, by simp, hc⟩
      | succ j =>
        simp only [List.getElem?_cons_succ] at h
        obtain ⟨pre, post, he, hcnt, hb⟩ := splitLines_decomp rest [] j ln (by simp) h
        refine ⟨cur ++ [(k, '\n')] ++ pre, post, ?_, ?_, hb⟩
        · simp only [List.nil_append] at he
          simp [he]
        · simp [List.count_append, count_nl_eq_zero cur hc, hcnt]
    · simp only [splitLines, if_neg hnl] at h
      obtain ⟨pre, post, he, hcnt, hb⟩ := splitLines_decomp rest (cur ++ [(k, c)]) i ln
        (by intro p hp; rcases List.mem_append.mp hp with hp | hp
            · exact hc p hp
            · simp at hp; subst hp; exact hnl) h
      exact ⟨pre, post, by simpa using he, hcnt, hb⟩


/-! ### Report flags -/


/-- Kinds that `track_errors` maps to `has_operational_errors`. -/
def setsOperational : ErrorKind → Bool
  | .lineOverflow _ _ | .trailingWhitespace => true
  | _ => false

theorem trackOne_op_mono (errs : ReportedErrors) (k : ErrorKind)
    (h : errs.hasOperationalErrors = true) : (trackOne errs k).hasOperationalErrors = true := by
  cases k <;> simp [trackOne, h]

theorem foldl_trackOne_op_mono : ∀ (ks : List ErrorKind) (errs : ReportedErrors),
    errs.hasOperationalErrors = true → (ks.foldl trackOne errs).hasOperationalErrors = true
  | [], _, h => h
  | k :: ks, errs, h => foldl_trackOne_op_mono ks _ (trackOne_op_mono errs k h)

theorem foldl_trackOne_op : ∀ (ks : List ErrorKind) (errs : ReportedErrors) (k : ErrorKind),
    k ∈ ks → setsOperational k = true → (ks.foldl trackOne errs).hasOperationalErrors = true
  | k0 :: ks, errs, k, hm, hk => by
    rcases List.mem_cons.mp hm with rfl | hm
    · simp only [List.foldl_cons]
      apply foldl_trackOne_op_mono
      cases k <;> simp_all [trackOne, setsOperational]
    · exact foldl_trackOne_op ks _ k hm hk

/-- A `LineOverflow` or `TrailingWhitespace` entry always sets `has_operational_errors`
(the early return of `track_errors` is taken only when it is set already). -/
theorem trackErrors_op (errs : ReportedErrors) (ks : List ErrorKind) (k : ErrorKind)
    (hm : k ∈ ks) (hk : setsOperational k = true) :
    (trackErrors errs ks).hasOperationalErrors = true := by
  unfold trackErrors
  generalize (if ks.isEmpty = true then errs else { errs with hasFormattingErrors := true }) = e0
  by_cases h : (e0.hasOperationalErrors && e0.hasCheckErrors && e0.hasUnformattedCodeErrors) = true
  · simp only [h, if_true]
    simp only [Bool.and_eq_true] at h
    exact h.1.1
  · simp only [h]
    exact foldl_trackOne_op ks _ k hm hk

theorem exit_of_op (s r : ReportedErrors) (check : Bool) (h : r.hasOperationalErrors = true) :
    exitCodeFiles (s.add r) check = 1 ∧ exitCodeStdin (s.add r) = 1 := by
  simp [exitCodeFiles, exitCodeStdin, ReportedErrors.add, h]


/-! ### The report of a whole scan, read line by line -/

section
variable {cfg : Config} {sk : List (Nat × Nat)} {selected : Nat → Bool}
  {tagged : List (Kind × Char)} {r : Result}

theorem spec_of_scan (h : formatLinesOn cfg sk selected tagged = some r) :
    errorsFrom cfg sk selected 1 (lines tagged) = some r.errors ∧
      r.text = truncated (tagged.map (·.2)) := by
  rw [formatLinesOn_eq_spec] at h
  simp only [Spec.result, Spec.errors] at h
  cases he : errorsFrom cfg sk selected 1 (lines tagged) with
  | none => simp [he] at h
  | some es => simp [he] at h; subst h; simp

/-- An entry is in the report iff it is a diagnostic of some terminated line, under that line's
1-based number. -/
theorem mem_errors_iff (h : formatLinesOn cfg sk selected tagged = some r) (e : FormattingError) :
    e ∈ r.errors ↔ ∃ i l, (lines tagged)[i]? = some l ∧ e ∈ lineErrors cfg sk selected (i + 1) l := by
  have := mem_errorsFrom cfg sk selected e (lines tagged) 1 r.errors (spec_of_scan h).1
  simpa [Nat.add_comm] using this

theorem line_of_mem_lineErrors {n : Nat} {l : Line} {e : FormattingError}
    (h : e ∈ lineErrors cfg sk selected n l) : e.line = n := by
  rcases (mem_lineErrors cfg sk selected n l e).mp h with ⟨_, ⟨_, rfl⟩ | ⟨_, _, rfl⟩⟩ <;> rfl

/-- Line `i + 1` has an entry iff it is eligible and either ends blank or is reported too wide. -/
theorem line_reported_iff (h : formatLinesOn cfg sk selected tagged = some r) {i : Nat} {l : Line}
    (hl : (lines tagged)[i]? = some l) :
    (∃ e ∈ r.errors, e.line = i + 1) ↔
      eligible cfg sk selected (i + 1) l = true ∧
        (endsBlank l = true ∨
          (cfg.errorOnLineOverflow = true ∧ cfg.maxWidth < reportedWidth cfg.tabSpaces l)) := by
  constructor
  · rintro ⟨e, he, hline⟩
    obtain ⟨j, l', hl', hm⟩ := (mem_errors_iff h e).mp he
    have hj : j = i := by have := line_of_mem_lineErrors hm; omega
    subst hj
    rw [hl] at hl'; cases hl'
    rcases (mem_lineErrors cfg sk selected _ l e).mp hm with ⟨hel, ⟨hb, _⟩ | ⟨ho, hw, _⟩⟩
    · exact ⟨hel, Or.inl hb⟩
    · exact ⟨hel, Or.inr ⟨ho, hw⟩⟩
  · rintro ⟨hel, hb | ⟨ho, hw⟩⟩
    · exact ⟨_, (mem_errors_iff h _).mpr ⟨i, l, hl,
        (mem_lineErrors cfg sk selected _ l _).mpr ⟨hel, Or.inl ⟨hb, rfl⟩⟩⟩, rfl⟩
    · exact ⟨_, (mem_errors_iff h _).mpr ⟨i, l, hl,
        (mem_lineErrors cfg sk selected _ l _).mpr ⟨hel, Or.inr ⟨ho, hw, rfl⟩⟩⟩, rfl⟩

theorem scan_isSome (ht : 1 ≤ cfg.tabSpaces) : (formatLinesOn cfg sk selected tagged).isSome := by
  rw [formatLinesOn_eq_spec]
  simp only [Spec.result, Spec.errors, Option.isSome_map]
  exact (errorsFrom_isSome_iff cfg sk selected _ _).mpr
    (fun i l _ => underflows_false cfg selected ht _ l)

end

/-! ### Order of the entries; `has_formatting_errors` -/

theorem errorsFrom_ge_sorted (cfg : Config) (sk : List (Nat × Nat)) (selected : Nat → Bool) :
    ∀ (ls : List Line) (n : Nat) (es : List FormattingError),
      errorsFrom cfg sk selected n ls = some es →
      (∀ e ∈ es, n ≤ e.line) ∧ es.Pairwise (fun a b => a.line ≤ b.line)
  | [], n, es, h => by simp [errorsFrom] at h; subst h; simp
  | l0 :: ls, n, es, h => by
    simp only [errorsFrom] at h
    split at h
    · simp at h
    · cases h' : errorsFrom cfg sk selected (n + 1) ls with
      | none => simp [h'] at h
      | some es' =>
        simp [h'] at h
        subst h
        obtain ⟨hge, hp⟩ := errorsFrom_ge_sorted cfg sk selected ls (n + 1) es' h'
        have h0 : ∀ e ∈ lineErrors cfg sk selected n l0, e.line = n :=
          fun e he => line_of_mem_lineErrors he
        refine ⟨?_, ?_⟩
        · intro e he
          rcases List.mem_append.mp he with he | he
          · have := h0 e he; omega
          · have := hge e he; omega
        · rw [List.pairwise_append]
          refine ⟨?_, hp, ?_⟩
          · rw [List.pairwise_iff_forall_sublist]
            intro a b hab
            have ha := h0 a (hab.subset (by simp))
            have hb := h0 b (hab.subset (by simp))
            omega
          · intro a ha b hb
            have := h0 a ha; have := hge b hb; omega

theorem errorsFrom_sorted (cfg : Config) (sk : List (Nat × Nat)) (selected : Nat → Bool)
    (ls : List Line) (n : Nat) (es : List FormattingError)
    (h : errorsFrom cfg sk selected n ls = some es) : es.Pairwise (fun a b => a.line ≤ b.line) :=
  (errorsFrom_ge_sorted cfg sk selected ls n es h).2

theorem trackOne_formatting (errs : ReportedErrors) (k : ErrorKind) :
    (trackOne errs k).hasFormattingErrors = errs.hasFormattingErrors := by
  cases k <;> rfl

theorem foldl_trackOne_formatting : ∀ (ks : List ErrorKind) (errs : ReportedErrors),
    (ks.foldl trackOne errs).hasFormattingErrors = errs.hasFormattingErrors
  | [], _ => rfl
  | k :: ks, errs => by
    simp only [List.foldl_cons]
    rw [foldl_trackOne_formatting ks, trackOne_formatting]

/-- A non-empty batch of entries sets `has_formatting_errors`. -/
theorem trackErrors_formatting (errs : ReportedErrors) (ks : List ErrorKind) (h : ks ≠ []) :
    (trackErrors errs ks).hasFormattingErrors = true := by
  unfold trackErrors
  have he : ks.isEmpty = false := by cases ks <;> simp_all
  simp only [he, Bool.false_eq_true, if_false]
  generalize he0 : ({ errs with hasFormattingErrors := true } : ReportedErrors) = e0
  have hf : e0.hasFormattingErrors = true := by subst he0; rfl
  split
  · exact hf
  · rw [foldl_trackOne_formatting]; exact hf

/-! ### Terminated and unterminated lines -/

theorem splitLines_no_nl : ∀ (tail cur : List (Kind × Char)), (∀ p ∈ tail, p.2 ≠ '\n') →
    splitLines cur tail = ([], cur ++ tail)
  | [], cur, _ => by simp [splitLines]
  | (k, c) :: tail, cur, h => by
    have hc : c ≠ '\n' := h (k, c) (by simp)
    simp [splitLines, hc, splitLines_no_nl tail (cur ++ [(k, c)]) (fun p hp => h p (by simp [hp]))]

/-- An unterminated last line is never judged. -/
theorem splitLines_append_no_nl : ∀ (l cur tail : List (Kind × Char)), (∀ p ∈ tail, p.2 ≠ '\n') →
    (splitLines cur (l ++ tail)).1 = (splitLines cur l).1
  | [], cur, tail, h => by simp [splitLines, splitLines_no_nl tail cur h]
  | (k, c) :: l, cur, tail, h => by
    by_cases hc : c = '\n'
    · subst hc; simp [splitLines, splitLines_append_no_nl l [] tail h]
    · simp [splitLines, hc, splitLines_append_no_nl l (cur ++ [(k, c)]) tail h]

/-- In a text that ends in `'\n'` every character belongs to a terminated line. -/
theorem splitLines_snd_of_ends_nl : ∀ (l cur : List (Kind × Char)) (k : Kind),
    (splitLines cur (l ++ [(k, '\n')])).2 = []
  | [], cur, k => by simp [splitLines]
  | (k', c) :: l, cur, k => by
    by_cases hc : c = '\n'
    · subst hc; simp [splitLines, splitLines_snd_of_ends_nl l [] k]
    · simp [splitLines, hc, splitLines_snd_of_ends_nl l (cur ++ [(k', c)]) k]

end RF.Lemmas.FormatLines
