import RF.Model.Proto
import RF.Model.Types
import RF.Driver.TokEquiv
/-!
Line-protocol operations of the TYPES model (`RF.Types`).

  types.canon <abi> <kind> <tree…>                 -> toks          the canonical tokens of the tree
  types.judge <abi> <kind> <real> <tree…>          -> ok | diff:<index>:<tokA>:<tokB>
        `real` = `none` (the rewriter returned nothing: always accepted) or the tokens of the text it
        returned; they are compared with the canonical tokens through the C01 validator (`RF.Tok.firstDiff`
        with the default configuration: trailing separators, `extern "C"`, empty lists; a `,` directly
        before `>` is removed on both sides first, `dropCommaGt`)
  types.rw <pinned> <abi> <kind> <bad> <tree…>     -> none | toks   the model's rewriter under the oracle
        "every piece fits except those of `bad`" (`_` or pieces joined by `,`; a piece = child indices
        joined by `.`, `-` for the root)

abi, pinned: 0 | 1.   kind: ty | pred | bounds | params.   toks as in `tok.equiv`.
tree: blank-separated words in prefix order (names are plain words, single tokens are `<class>:<hex>`, `-` = absent):
  Ty      P g Segs | Q Ty g Segs Segs | R lt m Ty | Ptr m Ty | Nv | In | Tu Tys | Pa Ty | Ar Ty tok | Sl Ty
          | Im Bounds | Dy d Bounds | Fn Params u ext FnArgs v OptTy | Ub Params Ty | Pt Ty tok incl tok
  OptTy   - | S Ty                        ext   - | i | e:<abi>
  Tys     (T Ty)* .
  Segs    (s name | a name GArgs | f name Tys OptTy | e name)* .
  GArgs   (l name | t Ty | c braces tok | q name GArgs Ty | b name GArgs Bounds)* .
  Bounds  (t paren Params constness async polarity global Segs | o name | u n tok^n)* .
  Params  (l name n name^n | t name Bounds OptTy | c name Ty tok)* .
  FnArgs  (a name Ty)* .
  Pred    B Params Ty Bounds | G name n name^n | E Ty Ty
-/
namespace RF.Driver.Types
open RF.Proto RF.Tok RF.Types

abbrev W := List String

def pBool : W → Option (Bool × W)
  | "0" :: r => some (false, r)
  | "1" :: r => some (true, r)
  | _ => none

def pNat : W → Option (Nat × W)
  | w :: r => w.toNat?.map fun n => (n, r)
  | _ => none

def pName : W → Option (Name × W)
  | w :: r => some (w.toList, r)
  | _ => none

def pOptName : W → Option (Option Name × W)
  | "-" :: r => some (none, r)
  | w :: r => some (some w.toList, r)
  | _ => none

def pTok : W → Option (Tok × W)
  | w :: r => (RF.Driver.TokEquiv.decTok w).map fun t => (t, r)
  | _ => none

def pOptTok : W → Option (Option Tok × W)
  | "-" :: r => some (none, r)
  | w :: r => (RF.Driver.TokEquiv.decTok w).map fun t => (some t, r)
  | _ => none

def pNames : Nat → W → Option (List Name × W)
  | 0, r => some ([], r)
  | n + 1, w :: r => (pNames n r).map fun (ns, r') => (w.toList :: ns, r')
  | _, _ => none

def pToks : Nat → W → Option (List Tok × W)
  | 0, r => some ([], r)
  | n + 1, w :: r => do
    let t ← RF.Driver.TokEquiv.decTok w
    let (ts, r') ← pToks n r
    pure (t :: ts, r')
  | _, _ => none

def pExt : W → Option (Ext × W)
  | "-" :: r => some (.none, r)
  | "i" :: r => some (.implicit, r)
  | w :: r => if w.startsWith "e:" then some (.explicit (w.toList.drop 2), r) else none
  | _ => none

mutual
def pTy : Nat → W → Option (Ty × W)
  | 0, _ => none
  | f + 1, "P" :: r => do
    let (g, r) ← pBool r
    let (s, r) ← pSegs f r
    pure (.path g s, r)
  | f + 1, "Q" :: r => do
    let (q, r) ← pTy f r
    let (g, r) ← pBool r
    let (a, r) ← pSegs f r
    let (b, r) ← pSegs f r
    pure (.qpath q g a b, r)
  | f + 1, "R" :: r => do
    let (lt, r) ← pOptName r
    let (m, r) ← pBool r
    let (t, r) ← pTy f r
    pure (.ref lt m t, r)
  | f + 1, "Ptr" :: r => do
    let (m, r) ← pBool r
    let (t, r) ← pTy f r
    pure (.ptr m t, r)
  | _ + 1, "Nv" :: r => some (.never, r)
  | _ + 1, "In" :: r => some (.infer, r)
  | f + 1, "Tu" :: r => do
    let (ts, r) ← pTys f r
    pure (.tup ts, r)
  | f + 1, "Pa" :: r => do
    let (t, r) ← pTy f r
    pure (.paren t, r)
  | f + 1, "Ar" :: r => do
    let (t, r) ← pTy f r
    let (n, r) ← pTok r
    pure (.array t n, r)
  | f + 1, "Sl" :: r => do
    let (t, r) ← pTy f r
    pure (.slice t, r)
  | f + 1, "Im" :: r => do
    let (b, r) ← pBounds f r
    pure (.implTrait b, r)
  | f + 1, "Dy" :: r => do
    let (d, r) ← pNat r
    let (b, r) ← pBounds f r
    pure (.traitObj d b, r)
  | f + 1, "Fn" :: r => do
    let (b, r) ← pParams f r
    let (u, r) ← pBool r
    let (x, r) ← pExt r
    let (a, r) ← pFnArgs f r
    let (v, r) ← pBool r
    let (o, r) ← pOptTy f r
    pure (.bareFn b u x a v o, r)
  | f + 1, "Ub" :: r => do
    let (b, r) ← pParams f r
    let (t, r) ← pTy f r
    pure (.unsafeBinder b t, r)
  | f + 1, "Pt" :: r => do
    let (t, r) ← pTy f r
    let (lo, r) ← pOptTok r
    let (i, r) ← pBool r
    let (hi, r) ← pOptTok r
    pure (.pat t lo i hi, r)
  | _, _ => none
def pOptTy : Nat → W → Option (OptTy × W)
  | 0, _ => none
  | _ + 1, "-" :: r => some (.none, r)
  | f + 1, "S" :: r => do
    let (t, r) ← pTy f r
    pure (.some t, r)
  | _, _ => none
def pTys : Nat → W → Option (Tys × W)
  | 0, _ => none
  | _ + 1, "." :: r => some (.nil, r)
  | f + 1, "T" :: r => do
    let (t, r) ← pTy f r
    let (ts, r) ← pTys f r
    pure (.cons t ts, r)
  | _, _ => none
def pSegs : Nat → W → Option (Segs × W)
  | 0, _ => none
  | _ + 1, "." :: r => some (.nil, r)
  | f + 1, "s" :: r => do
    let (n, r) ← pName r
    let (s, r) ← pSegs f r
    pure (.plain n s, r)
  | f + 1, "a" :: r => do
    let (n, r) ← pName r
    let (a, r) ← pGArgs f r
    let (s, r) ← pSegs f r
    pure (.angle n a s, r)
  | f + 1, "f" :: r => do
    let (n, r) ← pName r
    let (i, r) ← pTys f r
    let (o, r) ← pOptTy f r
    let (s, r) ← pSegs f r
    pure (.fn n i o s, r)
  | f + 1, "e" :: r => do
    let (n, r) ← pName r
    let (s, r) ← pSegs f r
    pure (.elided n s, r)
  | _, _ => none
def pGArgs : Nat → W → Option (GArgs × W)
  | 0, _ => none
  | _ + 1, "." :: r => some (.nil, r)
  | f + 1, "l" :: r => do
    let (n, r) ← pName r
    let (s, r) ← pGArgs f r
    pure (.lt n s, r)
  | f + 1, "t" :: r => do
    let (t, r) ← pTy f r
    let (s, r) ← pGArgs f r
    pure (.ty t s, r)
  | f + 1, "c" :: r => do
    let (b, r) ← pBool r
    let (v, r) ← pTok r
    let (s, r) ← pGArgs f r
    pure (.const b v s, r)
  | f + 1, "q" :: r => do
    let (n, r) ← pName r
    let (g, r) ← pGArgs f r
    let (t, r) ← pTy f r
    let (s, r) ← pGArgs f r
    pure (.assocEq n g t s, r)
  | f + 1, "b" :: r => do
    let (n, r) ← pName r
    let (g, r) ← pGArgs f r
    let (b, r) ← pBounds f r
    let (s, r) ← pGArgs f r
    pure (.assocBound n g b s, r)
  | _, _ => none
def pBounds : Nat → W → Option (Bounds × W)
  | 0, _ => none
  | _ + 1, "." :: r => some (.nil, r)
  | f + 1, "t" :: r => do
    let (paren, r) ← pBool r
    let (b, r) ← pParams f r
    let (c, r) ← pNat r
    let (a, r) ← pBool r
    let (pol, r) ← pNat r
    let (g, r) ← pBool r
    let (path, r) ← pSegs f r
    let (s, r) ← pBounds f r
    pure (.trait paren b c a pol g path s, r)
  | f + 1, "o" :: r => do
    let (n, r) ← pName r
    let (s, r) ← pBounds f r
    pure (.outlives n s, r)
  | f + 1, "u" :: r => do
    let (n, r) ← pNat r
    let (ts, r) ← pToks n r
    let (s, r) ← pBounds f r
    pure (.use ts s, r)
  | _, _ => none
def pParams : Nat → W → Option (Params × W)
  | 0, _ => none
  | _ + 1, "." :: r => some (.nil, r)
  | f + 1, "l" :: r => do
    let (n, r) ← pName r
    let (k, r) ← pNat r
    let (bs, r) ← pNames k r
    let (s, r) ← pParams f r
    pure (.lifetime n bs s, r)
  | f + 1, "t" :: r => do
    let (n, r) ← pName r
    let (b, r) ← pBounds f r
    let (d, r) ← pOptTy f r
    let (s, r) ← pParams f r
    pure (.type n b d s, r)
  | f + 1, "c" :: r => do
    let (n, r) ← pName r
    let (t, r) ← pTy f r
    let (d, r) ← pOptTok r
    let (s, r) ← pParams f r
    pure (.const n t d s, r)
  | _, _ => none
def pFnArgs : Nat → W → Option (FnArgs × W)
  | 0, _ => none
  | _ + 1, "." :: r => some (.nil, r)
  | f + 1, "a" :: r => do
    let (n, r) ← pOptName r
    let (t, r) ← pTy f r
    let (s, r) ← pFnArgs f r
    pure (.cons n t s, r)
  | _, _ => none
end

def pPred (f : Nat) : W → Option (Pred × W)
  | "B" :: r => do
    let (b, r) ← pParams f r
    let (t, r) ← pTy f r
    let (bs, r) ← pBounds f r
    pure (.bound b t bs, r)
  | "G" :: r => do
    let (n, r) ← pName r
    let (k, r) ← pNat r
    let (bs, r) ← pNames k r
    pure (.region n bs, r)
  | "E" :: r => do
    let (a, r) ← pTy f r
    let (b, r) ← pTy f r
    pure (.eq a b, r)
  | _ => none

inductive Tree where
  | ty (t : Ty)
  | pred (p : Pred)
  | bounds (b : Bounds)
  | params (p : Params)

def pTree (kind : String) (ws : W) : Option Tree :=
  let f := 2 * ws.length + 8
  match kind with
  | "ty" => match pTy f ws with | some (t, []) => some (.ty t) | _ => none
  | "pred" => match pPred f ws with | some (t, []) => some (.pred t) | _ => none
  | "bounds" => match pBounds f ws with | some (t, []) => some (.bounds t) | _ => none
  | "params" => match pParams f ws with | some (t, []) => some (.params t) | _ => none
  | _ => none

def Tree.canon (abi : Bool) : Tree → Toks
  | .ty t => canonTy abi t
  | .pred p => canonPred abi p
  | .bounds b => sepBy plus (canonBounds abi b)
  | .params p => sepBy comma (canonParams abi p)

def Tree.rw (e : Env) : Tree → Option Toks
  | .ty t => rwTy e [] t
  | .pred p => rwPred e [] p
  | .bounds b => rwBoundsJoined e [] b
  | .params p => (rwParams e [] 0 p).map (sepBy comma)

def pPiece (s : String) : Option Piece :=
  if s == "-" then some [] else (s.splitOn ".").mapM String.toNat?

def pBad (s : String) : Option (List Piece) :=
  if s == "_" then some [] else (s.splitOn ",").mapM pPiece

def decB (s : String) : Option Bool := RF.Driver.TokEquiv.decBool s

def handle (op : String) (args : List String) : Option String :=
  match op, args with
  | "types.canon", abi :: kind :: ws => do
    let abi ← decB abi
    let t ← pTree kind ws
    pure (RF.Driver.TokEquiv.encToks (t.canon abi))
  | "types.judge", abi :: kind :: real :: ws => do
    let abi ← decB abi
    let t ← pTree kind ws
    if real == "none" then pure "ok" else
    let real ← RF.Driver.TokEquiv.decToks real
    match firstDiff {} (dropCommaGt (t.canon abi)) (dropCommaGt real) with
    | none => pure "ok"
    | some (i, x, y) => pure s!"diff:{i}:{RF.Driver.TokEquiv.encOptTok x}:{RF.Driver.TokEquiv.encOptTok y}"
  | "types.rw", pinned :: abi :: kind :: bad :: ws => do
    let pinned ← decB pinned
    let abi ← decB abi
    let bad ← pBad bad
    let t ← pTree kind ws
    match t.rw ⟨pinned, abi, failing bad⟩ with
    | none => pure "none"
    | some ts => pure (RF.Driver.TokEquiv.encToks ts)
  | _, _ => none

end RF.Driver.Types
