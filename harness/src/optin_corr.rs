//! The small rewrite decisions behind the opt-in options (C01's closed list) against the Lean model
//! `RF/Model/OptRewrites.lean` (driver `RF/Driver/OptRewrites.lean`), through `verif_hooks::optin`.
//!
//! The harness builds every input from the model's own structures (a field name and an initialiser tree, the pieces
//! of a macro's tokens, tuple-pattern elements, nested parentheses with attributes and comments, attribute lists with
//! their gaps, statement kinds), renders it to source text, lets rustfmt's parser read it, runs the real function and
//! compares (`corr`).  END TO END the same inputs go through the real formatter (`pool::run_jobs`) with the option on
//! and the Lean denotation judges input against output (`oracle`).
use std::path::Path;

use rustfmt_nightly::verif_hooks::optin as ho;
use rustfmt_nightly::Config;
use serde_json::json;

use crate::pool::{self, Job};
use crate::util::*;

use crate::optin_inproc as parts;

pub fn guard<T>(f: impl FnOnce() -> T) -> Option<T> {
    std::panic::catch_unwind(std::panic::AssertUnwindSafe(f)).ok()
}

pub fn b(x: bool) -> &'static str {
    if x { "1" } else { "0" }
}

pub fn kv(k: &str, v: impl ToString) -> (String, String) {
    (k.to_string(), v.to_string())
}

pub fn mk_cfg(pairs: &[(&str, &str)]) -> Config {
    let v: Vec<(String, String)> = pairs.iter().map(|(k, v)| kv(k, v)).collect();
    pool::build_config(&v, &None).expect("config")
}

/// `verif_hooks::optin::analyze` under `catch_unwind`
pub fn analyze(src: &str, config: &Config) -> Option<Vec<ho::Rec>> {
    guard(|| ho::analyze(src, config)).flatten()
}

pub fn first<'a>(recs: &'a [ho::Rec], kind: &str) -> Option<&'a ho::Rec> {
    recs.iter().find(|r| r.kind == kind)
}

/// strings joined by `+`, `_` when empty
pub fn enc_strs<S: AsRef<str>>(xs: &[S]) -> String {
    if xs.is_empty() { "_".into() } else { xs.iter().map(|s| enc_str(s.as_ref())).collect::<Vec<_>>().join("+") }
}

/// rustc_lexer tokens by their text: white space dropped, comments kept only on request, `::` `..` `..=` `=>` glued
pub fn lex(src: &str, keep_comments: bool) -> Vec<String> {
    use rustc_lexer::TokenKind as K;
    let mut out: Vec<(String, usize)> = vec![];
    let mut pos = 0usize;
    for t in rustc_lexer::tokenize(src) {
        let len = t.len as usize;
        let text = &src[pos..pos + len];
        let start = pos;
        pos += len;
        match t.kind {
            K::Whitespace | K::Eof => continue,
            K::LineComment { doc_style } | K::BlockComment { doc_style, .. } => {
                if doc_style.is_none() && !keep_comments {
                    continue;
                }
            }
            _ => {}
        }
        if let Some((last, end)) = out.last_mut() {
            let glued = *end == start
                && matches!((last.as_str(), text), (":", ":") | (".", ".") | ("..", "=") | ("=", ">"));
            if glued {
                last.push_str(text);
                *end = pos;
                continue;
            }
        }
        out.push((text.to_string(), pos));
    }
    out.into_iter().map(|(t, _)| t).collect()
}

pub fn squeeze(s: &str) -> String {
    s.chars().filter(|c| !c.is_whitespace()).collect()
}

pub fn cases(o: &mut Outcome, rng: &mut Rng, thorough: bool) {
    parts::field_cases(o, thorough);
    parts::try_cases(o, thorough);
    parts::tuple_cases(o, thorough);
    parts::paren_cases(o, thorough);
    parts::vis_extern_cases(o);
    parts::attr_cases(o, rng, thorough);
    parts::match_cases(o);
    parts::block_cases(o);
    parts::lex_cases(o, rng, thorough);
    if std::env::var_os("OPTIN_NO_E2E").is_none() {
        crate::optin_e2e::cases(o, rng, thorough);
        crate::optin_e2e::probes(o);
    }
}

/// `rfverif optin`: the standalone run of this module.
pub fn run(tier: &str, seed: u64, out: &Path) -> i32 {
    let thorough = tier == "thorough";
    let mut o = Outcome::new("OPTIN", tier, seed);
    let mut rng = Rng::new(seed);
    if std::env::var_os("OPTIN_SHOW_PANICS").is_none() {
        std::panic::set_hook(Box::new(|_| {}));
    }
    cases(&mut o, &mut rng, thorough);
    if let Ok(path) = std::env::var("OPTIN_DUMP") {
        let reqs: Vec<String> = o.cases.iter().map(|c| c.request.clone()).collect();
        let answers = run_model(&reqs, jobs());
        let mut text = String::new();
        for (c, a) in o.cases.iter().zip(answers.iter()) {
            if a != &c.expect {
                text.push_str(&format!("{}\t{}\t{}\t{}\timpl={}\tmodel={}\n", c.kind, c.op, c.desc, c.request, c.expect, a));
            }
        }
        let _ = std::fs::write(path, text);
    }
    let _ = json!({});
    o.finish(out, jobs())
}

pub fn dump(file: &str, extra: Option<&String>) -> i32 {
    let src = std::fs::read_to_string(file).unwrap_or_default();
    let mut cfg: Vec<(String, String)> = vec![];
    if let Some(extra) = extra {
        for kv in extra.split(',') {
            if let Some((k, v)) = kv.split_once('=') {
                cfg.push((k.to_string(), v.to_string()));
            }
        }
    }
    let config = pool::build_config(&cfg, &None).unwrap();
    match ho::analyze(&src, &config) {
        None => println!("does not parse"),
        Some(recs) => {
            for r in recs {
                println!("{} {}..{} {:?}", r.kind, r.lo, r.hi, r.kv);
            }
        }
    }
    0
}

#[allow(dead_code)]
pub fn job(src: String, cfg: &[(&str, &str)]) -> Job {
    Job { src, cfg: cfg.iter().map(|(k, v)| kv(k, v)).collect(), file_lines: None }
}
