//! In-process correspondence of the opt-in rewrite decisions: the structured inputs, their source text, the real
//! function through `verif_hooks::optin::analyze`, the model through `rfmodel`.
use crate::optin_corr::*;
use crate::util::*;

// ---------------------------------------------------------------------------------------------------------------
// §1 field-init shorthand

/// an initialiser: the wrappers from the outside in, the base, and the source text
#[derive(Clone, Debug)]
pub struct Init {
    pub wrappers: Vec<String>,
    pub base: String,
    pub src: String,
    /// the tokens of the source text
    pub toks: Vec<String>,
    pub is_lit: bool,
}

fn seg(ident: &str, args: Option<&str>) -> String {
    format!("{}/{}", enc_str(ident), args.map(enc_str).unwrap_or("~".into()))
}

fn path(global: bool, segs: &[(&str, Option<&str>)]) -> (String, String) {
    let enc = format!("p:{}:{}", b(global), segs.iter().map(|(i, a)| seg(i, *a)).collect::<Vec<_>>().join(";"));
    let txt = segs
        .iter()
        .map(|(i, a)| match a {
            None => i.to_string(),
            Some(a) => format!("{}::<{}>", i, a),
        })
        .collect::<Vec<_>>()
        .join("::");
    (enc, format!("{}{}", if global { "::" } else { "" }, txt))
}

/// the bases of the universe for a field called `name` (bare) and its raw form
fn bases(x: &str) -> Vec<(String, String, bool)> {
    let rx = format!("r#{}", x);
    let mut v = vec![];
    for (g, segs) in [
        (false, vec![(x, None)]),
        (false, vec![(rx.as_str(), None)]),
        (false, vec![("y", None)]),
        (false, vec![(x, Some("T"))]),
        (false, vec![("self", None), (x, None)]),
        (false, vec![(x, None), ("y", None)]),
        (true, vec![(x, None)]),
        (false, vec![("y", None), (x, None)]),
    ] {
        let (e, t) = path(g, &segs);
        v.push((e, t, false));
    }
    for l in ["0", "1", "\"x\"", "true", "'x'"] {
        v.push((format!("l:{}", enc_str(l)), l.to_string(), true));
    }
    v.push((format!("m:{}", enc_str(x)), format!("{}!()", x), false));
    v
}

/// the wrapper stacks of the universe: (encodings from the outside in, a function from the inner text to the text)
fn wrapper_stacks() -> Vec<Vec<(&'static str, String)>> {
    let single: Vec<(&'static str, String)> = vec![
        ("r", "r".into()),
        ("f0", format!("f:{}", enc_str("0"))),
        ("fx", format!("f:{}", enc_str("x"))),
        ("a", format!("a:{}", enc_str("a"))),
        ("c", format!("c:{}", enc_str("T"))),
        ("d", "d".into()),
        ("q", "q".into()),
        ("n", "n".into()),
        ("k", "k".into()),
    ];
    let mut v: Vec<Vec<(&'static str, String)>> = vec![vec![]];
    for s in &single {
        v.push(vec![s.clone()]);
    }
    // two deep: only the combinations whose text does not need parentheses of its own
    for (a, bb) in [("r", "r"), ("q", "r"), ("f0", "r"), ("r", "q"), ("r", "d"), ("a", "r"), ("r", "a"), ("q", "k"), ("f0", "q"), ("d", "f0")] {
        let fa = single.iter().find(|s| s.0 == a).unwrap().clone();
        let fb = single.iter().find(|s| s.0 == bb).unwrap().clone();
        v.push(vec![fa, fb]);
    }
    v
}

fn apply_wrapper(tag: &str, inner: &str) -> String {
    match tag {
        "r" => format!("({})", inner),
        "f0" => format!("{}.0", inner),
        "fx" => format!("{}.x", inner),
        "a" => format!("#[a] {}", inner),
        "c" => format!("{} as T", inner),
        "d" => format!("&{}", inner),
        "q" => format!("{}?", inner),
        "n" => format!("-{}", inner),
        "k" => format!("{}()", inner),
        _ => unreachable!(),
    }
}

pub fn inits(x: &str) -> Vec<Init> {
    let mut v = vec![];
    for (base, btxt, is_lit) in bases(x) {
        for st in wrapper_stacks() {
            if is_lit && btxt.chars().all(|c| c.is_ascii_digit()) && st.last().map_or(false, |w| w.0 == "f0" || w.0 == "fx") {
                continue;
            }
            let mut txt = btxt.clone();
            for (tag, _) in st.iter().rev() {
                txt = apply_wrapper(tag, &txt);
            }
            let toks = lex(&txt, false);
            v.push(Init {
                wrappers: st.iter().map(|(_, e)| e.clone()).collect(),
                base: base.clone(),
                src: txt,
                toks,
                is_lit: is_lit && st.is_empty(),
            });
        }
    }
    v
}

pub fn enc_wrappers(w: &[String]) -> String {
    if w.is_empty() { "_".into() } else { w.join(",") }
}

/// the field names of the universe with the bare identifier they stand for
pub const FIELD_NAMES: [(&str, &str); 4] = [("x", "x"), ("r#x", "x"), ("y", "y"), ("0", "x")];

pub fn field_cases(o: &mut Outcome, _thorough: bool) {
    let on = mk_cfg(&[("use_field_init_shorthand", "true"), ("remove_nested_parens", "false")]);
    let off = mk_cfg(&[("use_field_init_shorthand", "false"), ("remove_nested_parens", "false")]);
    for (name, bare) in FIELD_NAMES {
        for init in inits(bare) {
            for attr in [false, true] {
                for (opt, config) in [(true, &on), (false, &off)] {
                    let attrs_src = if attr { "#[b] " } else { "" };
                    let src = format!("fn f() {{ let _ = S {{ {}{}: {} }}; }}\n", attrs_src, name, init.src);
                    o.count("field:inputs");
                    let Some(recs) = analyze(&src, config) else {
                        o.count("field:does-not-parse");
                        continue;
                    };
                    let Some(r) = first(&recs, "field") else { continue };
                    let out = r.get("out").unwrap_or("").to_string();
                    let expr = r.get("expr").unwrap_or("");
                    if out == "!err" || expr == "!err" {
                        o.count("field:rewrite-failed");
                        continue;
                    }
                    // the initialiser as the real rewriter renders it must be what the model renders: checked
                    // through the output of the explicit form, and directly here
                    let attrs_str = if attr { "#[b]\n" } else { "" };
                    let fires = r.get("short") == Some("0") && out == format!("{}{}", attrs_str, name);
                    let req = format!(
                        "opt.field {} 1 {} 0 {} {} {} {}",
                        b(opt),
                        enc_str(name),
                        enc_wrappers(&init.wrappers),
                        init.base,
                        enc_str(attrs_str),
                        enc_str(": ")
                    );
                    // expression attributes go on a line of their own in the real rendering: compare modulo blanks
                    let has_expr_attr = init.wrappers.iter().any(|w| w.starts_with("a:"));
                    if has_expr_attr {
                        let m = run_model(&[req.clone()], 1);
                        let ans = m.first().cloned().unwrap_or_default();
                        let mut it = ans.split(' ');
                        let mf = it.next().unwrap_or("");
                        let mt = it.next().and_then(dec_str).unwrap_or_default();
                        o.direct_evals += 1;
                        if mf != b(fires) || squeeze(&mt) != squeeze(&out) {
                            o.direct_failures.push(serde_json::json!({"sig": "field-attr-corr", "src": src, "impl": out, "model": mt, "model_fires": mf}));
                        }
                        continue;
                    }
                    o.push("corr", "opt.field", req, format!("{} {}", b(fires), enc_str(&out)), format!("{:?}", src), fires);
                    // the literal flag and the rendering the decision compares
                    if r.get("lit") != Some(b(init.is_lit)) {
                        o.direct_failures.push(serde_json::json!({"sig": "field-is-lit", "src": src, "impl": r.get("lit"), "model": init.is_lit}));
                    }
                }
            }
        }
        // fields that are shorthands already
        if name != "0" {
            let src = format!("fn f() {{ let _ = S {{ {} }}; }}\n", name);
            if let Some(recs) = analyze(&src, &on) {
                if let Some(r) = first(&recs, "field") {
                    let (p, _) = path(false, &[(name, None)]);
                    let req = format!("opt.field 1 1 {} 1 _ {} - {}", enc_str(name), p, enc_str(": "));
                    o.push("corr", "opt.field", req, format!("0 {}", enc_str(r.get("out").unwrap_or(""))), format!("{:?}", src), false);
                }
            }
        }
    }
    patfield_cases(o);
}

// struct-pattern fields ------------------------------------------------------------------------------------------

pub struct FPat {
    pub enc: String,
    pub src: String,
}

pub fn fpats() -> Vec<FPat> {
    let mut v = vec![];
    for name in ["x", "r#x", "y"] {
        for (by_ref, ref_mut, mutb) in [(false, false, false), (true, false, false), (true, true, false), (false, false, true)] {
            for sub in [None, Some("_"), Some("1")] {
                let mut s = String::new();
                if by_ref {
                    s.push_str(if ref_mut { "ref mut " } else { "ref " });
                }
                if mutb {
                    s.push_str("mut ");
                }
                s.push_str(name);
                if let Some(p) = sub {
                    s.push_str(" @ ");
                    s.push_str(p);
                }
                v.push(FPat {
                    enc: format!("b:{}{}{}:{}:{}", b(by_ref), b(ref_mut), b(mutb), enc_str(name), sub.map(enc_str).unwrap_or("~".into())),
                    src: s,
                });
            }
        }
    }
    for t in ["_", "(x)", "&x", "0", "x::y", "X(x)", "[x]", "(x, y)"] {
        v.push(FPat { enc: format!("o:{}", enc_str(t)), src: t.to_string() });
    }
    v
}

fn patfield_cases(o: &mut Outcome) {
    let on = mk_cfg(&[("use_field_init_shorthand", "true")]);
    for name in ["x", "r#x", "y", "0"] {
        for p in fpats() {
            let src = format!("fn f() {{ let S {{ {}: {} }} = s; }}\n", name, p.src);
            o.count("patfield:inputs");
            let Some(recs) = analyze(&src, &on) else {
                o.count("patfield:does-not-parse");
                continue;
            };
            let Some(r) = first(&recs, "patfield") else { continue };
            let req = format!("opt.patfield {} 0 {}", enc_str(name), p.enc);
            o.push("corr", "opt.patfield", req, enc_str(r.get("out").unwrap_or("")), format!("{:?}", src), true);
        }
    }
    // shorthand patterns
    for p in fpats() {
        if !p.enc.starts_with("b:") || p.src.contains('@') {
            continue;
        }
        let src = format!("fn f() {{ let S {{ {} }} = s; }}\n", p.src);
        let Some(recs) = analyze(&src, &on) else {
            o.count("patfield:does-not-parse");
            continue;
        };
        let Some(r) = first(&recs, "patfield") else { continue };
        let name = r.get("name").unwrap_or("");
        let req = format!("opt.patfield {} 1 {}", enc_str(name), p.enc);
        o.push("corr", "opt.patfield", req, enc_str(r.get("out").unwrap_or("")), format!("{:?}", src), true);
    }
}

// ---------------------------------------------------------------------------------------------------------------
// §2 try!

#[derive(Clone, Debug)]
pub struct Operand {
    pub src: String,
    /// the rendering rustfmt gives it (at no indentation)
    pub text: String,
    pub low_prec: bool,
    pub has_attrs: bool,
    pub block_like: bool,
}

pub fn operands() -> Vec<Operand> {
    let mk = |src: &str, text: &str, l: bool, a: bool, bl: bool| Operand { src: src.into(), text: text.into(), low_prec: l, has_attrs: a, block_like: bl };
    vec![
        mk("x", "x", false, false, false),
        mk("a.b()", "a.b()", false, false, false),
        mk("a?", "a?", false, false, false),
        mk("(a + b)", "(a + b)", false, false, false),
        mk("f(a, b)", "f(a, b)", false, false, false),
        mk("a[0]", "a[0]", false, false, false),
        mk("m!(a)", "m!(a)", false, false, false),
        mk("S { a: 1 }", "S { a: 1 }", false, false, false),
        mk("|x| -> T { x }", "|x| -> T { x }", false, false, false),
        mk("a + b", "a + b", true, false, false),
        mk("a == b", "a == b", true, false, false),
        mk("a && b", "a && b", true, false, false),
        mk("-a", "-a", true, false, false),
        mk("!a", "!a", true, false, false),
        mk("*a", "*a", true, false, false),
        mk("&n", "&n", true, false, false),
        mk("&mut n", "&mut n", true, false, false),
        mk("a as u8", "a as u8", true, false, false),
        mk("|| i", "|| i", true, false, false),
        mk("k..l", "k..l", true, false, false),
        mk("..", "..", true, false, false),
        mk("p = q", "p = q", true, false, false),
        mk("p += q", "p += q", true, false, false),
        mk("return 1", "return 1", true, false, false),
        mk("break", "break", true, false, false),
        mk("#[a] x", "#[a]\nx", false, true, false),
        mk("match x { _ => y, }", "match x {\n    _ => y,\n}", false, false, true),
        mk("if a { b } else { c }", "if a { b } else { c }", false, false, true),
        mk("unsafe { g() }", "unsafe { g() }", false, false, true),
        mk("{ g() }", "{ g() }", false, false, true),
        mk("loop {}", "loop {}", false, false, true),
        mk("m! {}", "m! {}", false, false, true),
    ]
}

/// what follows the operand between the delimiters: (source text, model pieces)
pub fn tails() -> Vec<(&'static str, Vec<String>)> {
    vec![
        ("", vec![]),
        (",", vec!["c".into()]),
        (", y", vec!["c".into(), "Y".into()]),
        (" y", vec!["Y".into()]),
        ("; y", vec![format!("j:{}", enc_str(";")), "Y".into()]),
        (",,", vec!["c".into(), "c".into()]),
        (", y,", vec!["c".into(), "Y".into(), "c".into()]),
    ]
}

pub fn enc_operand(op: &Operand) -> String {
    format!("e:{}:{}{}:{}", enc_str(&op.text), b(op.low_prec), b(op.has_attrs), enc_strs(&lex(&op.src, false)))
}

pub fn enc_args(op: Option<&Operand>, tail: &[String]) -> String {
    let y = Operand { src: "y".into(), text: "y".into(), low_prec: false, has_attrs: false, block_like: false };
    let mut v: Vec<String> = vec![];
    if let Some(op) = op {
        v.push(enc_operand(op));
    }
    for t in tail {
        v.push(if t == "Y" { enc_operand(&y) } else { t.clone() });
    }
    if v.is_empty() { "_".into() } else { v.join(",") }
}

pub const TRY_PATHS: [&str; 6] = ["try", "r#try", "a::try", "tri", "Try", "r#tri"];
pub const DELIMS: [(&str, &str); 3] = [("(", ")"), ("[", "]"), ("{", "}")];

pub fn try_cases(o: &mut Outcome, _thorough: bool) {
    let on15 = mk_cfg(&[("use_try_shorthand", "true"), ("edition", "2015")]);
    let off15 = mk_cfg(&[("use_try_shorthand", "false"), ("edition", "2015")]);
    let on21 = mk_cfg(&[("use_try_shorthand", "true"), ("edition", "2021")]);
    let off21 = mk_cfg(&[("use_try_shorthand", "false"), ("edition", "2021")]);
    let ops = operands();
    for (path, ed21) in TRY_PATHS.iter().flat_map(|p| [(*p, false), (*p, true)]) {
        // `try` is a keyword from 2018 on
        if ed21 && (path == "try" || path == "a::try") {
            continue;
        }
        let (on, off) = if ed21 { (&on21, &off21) } else { (&on15, &off15) };
        for (di, (open, close)) in DELIMS.iter().enumerate() {
            for (oi, op) in ops.iter().map(Some).chain(std::iter::once(None)).enumerate() {
                for (ti, (tail_src, tail)) in tails().iter().enumerate() {
                    // the full product for `try` with parentheses, a thinner one elsewhere
                    if !(path == "try" && di == 0) && (oi + ti + di) % 3 != 0 && ti > 1 {
                        continue;
                    }
                    if op.is_none() && ti > 1 {
                        continue;
                    }
                    // `.. y`, `break y` are one expression
                    if op.map_or(false, |x| x.src == ".." || x.src == "break") && tail_src.starts_with(' ') {
                        continue;
                    }
                    let body = format!("{}{}", op.map(|x| x.src.as_str()).unwrap_or(""), tail_src);
                    let src = format!("fn f() {{ let v = {}!{}{}{}; }}\n", path, open, body, close);
                    for (opt, config) in [(true, on), (false, off)] {
                        if !opt && (oi + ti) % 4 != 0 {
                            continue;
                        }
                        o.count("try:inputs");
                        let Some(recs) = analyze(&src, config) else {
                            o.count("try:does-not-parse");
                            continue;
                        };
                        let Some(r) = first(&recs, "try") else { continue };
                        {
                            // the hook calls `convert_try_mac` whatever the option says; the option is the caller's
                            // (`rewrite_macro_inner`, `convert_try` of chains.rs) guard: model it as the caller does
                            let real = r.get("expr").unwrap_or("");
                            let expect = if real == "none" || !opt {
                                "none".to_string()
                            } else {
                                let parens = real.starts_with('(') && real.ends_with(")?") && !op.map(|x| x.text.starts_with('(')).unwrap_or(false);
                                format!("{} {}", b(parens), enc_str(real))
                            };
                            // the path as `pprust::path_to_string` prints it (`r#try` is `try` before 2018)
                            let printed = r.get("path").unwrap_or("");
                            let req = format!("opt.try {} {} {}", b(opt), enc_str(printed), enc_args(op, tail));
                            o.push("corr", "opt.try", req, expect, format!("{:?}", src), real != "none");
                        }
                        o.count(&format!("try:path {} printed {}", path, r.get("path").unwrap_or("")));
                    }
                }
            }
        }
    }
}

// ---------------------------------------------------------------------------------------------------------------
// §3 condense_wildcard_suffixes

/// the elements of the universe: (source text, rendered pattern, has a comment)
pub const TUPLE_ELEMS: [(&str, &str, bool); 7] = [
    ("a", "a", false),
    ("_", "_", false),
    ("..", "..", false),
    ("/* c */ _", "_", true),
    ("_ /* c */", "_", true),
    ("(_)", "(_)", false),
    ("_ | _", "_ | _", false),
];

pub fn tuple_lists(max_len: usize) -> Vec<Vec<usize>> {
    let mut res: Vec<Vec<usize>> = vec![vec![]];
    let mut layer: Vec<Vec<usize>> = vec![vec![]];
    for _ in 0..max_len {
        let mut next = vec![];
        for l in &layer {
            for e in 0..TUPLE_ELEMS.len() {
                let mut m = l.clone();
                m.push(e);
                next.push(m);
            }
        }
        res.extend(next.iter().cloned());
        layer = next;
    }
    res
}

/// the elements of a printed tuple pattern `P(a, b, ..)`: split at the top-level commas, comments dropped
pub fn tuple_elems_of(text: &str) -> Option<Vec<String>> {
    let toks = lex(text, false);
    let open = toks.iter().position(|t| t == "(")?;
    let mut depth = 0i32;
    let mut cur: Vec<String> = vec![];
    let mut out = vec![];
    for t in &toks[open..] {
        match t.as_str() {
            "(" | "[" | "{" => {
                depth += 1;
                if depth == 1 {
                    continue;
                }
            }
            ")" | "]" | "}" => {
                depth -= 1;
                if depth == 0 {
                    break;
                }
            }
            "," if depth == 1 => {
                out.push(cur.join(""));
                cur = vec![];
                continue;
            }
            _ => {}
        }
        cur.push(t.clone());
    }
    if !cur.is_empty() {
        out.push(cur.join(""));
    }
    Some(out)
}

pub fn tuple_cases(o: &mut Outcome, thorough: bool) {
    let on = mk_cfg(&[("condense_wildcard_suffixes", "true")]);
    let off = mk_cfg(&[("condense_wildcard_suffixes", "false")]);
    for list in tuple_lists(if thorough { 5 } else { 4 }) {
        for head in ["", "S"] {
            if list.is_empty() {
                continue;
            }
            let body = list.iter().map(|e| TUPLE_ELEMS[*e].0).collect::<Vec<_>>().join(", ");
            // a 1-tuple needs its comma
            let body = if list.len() == 1 && head.is_empty() && TUPLE_ELEMS[list[0]].1 != ".." { format!("{},", body) } else { body };
            let src = format!("fn f() {{ match x {{ {}({}) => 1 }} }}\n", head, body);
            let items = list.iter().map(|e| format!("{}:{}", enc_str(&squeeze(TUPLE_ELEMS[*e].1)), b(TUPLE_ELEMS[*e].2))).collect::<Vec<_>>().join(",");
            for (opt, config) in [(true, &on), (false, &off)] {
                if !opt && list.len() > 3 {
                    continue;
                }
                o.count("tuple:inputs");
                let Some(recs) = analyze(&src, config) else {
                    o.count("tuple:does-not-parse");
                    continue;
                };
                let Some(r) = first(&recs, "tuplepat") else { continue };
                let out = r.get("out").unwrap_or("");
                let suffix = r.get("suffix").unwrap_or("");
                let has_comment = list.iter().any(|e| TUPLE_ELEMS[*e].2);
                let req = format!("opt.tuple {} {}", b(opt), items);
                if out == "!err" {
                    // a comment would be lost: the rewrite gives up and the source stays (measured, not judged here)
                    o.count(if has_comment { "tuple:rewrite-failed-with-comment" } else { "tuple:rewrite-failed" });
                    if !has_comment {
                        o.direct_failures.push(serde_json::json!({"sig": "tuple-rewrite-failed", "src": src}));
                    }
                    continue;
                }
                let Some(elems) = tuple_elems_of(out) else { continue };
                let src_elems: Vec<String> = list.iter().map(|e| squeeze(TUPLE_ELEMS[*e].1)).collect();
                let fired = elems != src_elems;
                o.push("corr", "opt.tuple", req, format!("{} {} {}", suffix, b(fired), enc_strs(&elems)), format!("{:?}", src), fired);
            }
        }
    }
}

// ---------------------------------------------------------------------------------------------------------------
// §4 remove_nested_parens

/// (attrs, pre, post) per level, outermost first
pub type Levels = Vec<(&'static str, &'static str, &'static str)>;

pub fn paren_universe(max_depth: usize) -> Vec<Levels> {
    let opts: Vec<(&'static str, &'static str, &'static str)> = {
        let mut v = vec![];
        for a in ["", "#[a]"] {
            for p in ["", "/* c */"] {
                for q in ["", "/* d */"] {
                    v.push((a, p, q));
                }
            }
        }
        v
    };
    let mut res: Vec<Levels> = vec![];
    let mut layer: Vec<Levels> = vec![vec![]];
    for _ in 0..max_depth {
        let mut next = vec![];
        for l in &layer {
            for x in &opts {
                let mut m = l.clone();
                m.push(*x);
                next.push(m);
            }
        }
        res.extend(next.iter().cloned());
        layer = next;
    }
    res
}

pub fn paren_src(levels: &[(&str, &str, &str)], atom: &str) -> String {
    let mut s = atom.to_string();
    for (a, p, q) in levels.iter().rev() {
        s = format!("{}({}{}{}{}{})", if a.is_empty() { String::new() } else { format!("{} ", a) }, p, if p.is_empty() { "" } else { " " }, s, if q.is_empty() { "" } else { " " }, q);
    }
    s
}

pub fn enc_levels(levels: &[(&str, &str, &str)]) -> String {
    if levels.is_empty() { "_".into() } else { levels.iter().map(|(a, p, q)| format!("{}:{}:{}", enc_str(a), enc_str(p), enc_str(q))).collect::<Vec<_>>().join(",") }
}

pub fn paren_cases(o: &mut Outcome, thorough: bool) {
    let on = mk_cfg(&[("remove_nested_parens", "true")]);
    let off = mk_cfg(&[("remove_nested_parens", "false")]);
    for levels in paren_universe(if thorough { 4 } else { 3 }) {
        for atom in ["a", "a + b"] {
            if atom == "a" && levels.len() > 2 {
                continue;
            }
            let src = format!("fn f() {{ let x = {}; }}\n", paren_src(&levels, atom));
            for (opt, config) in [(true, &on), (false, &off)] {
                if !opt && levels.len() > 2 {
                    continue;
                }
                o.count("paren:inputs");
                let Some(recs) = analyze(&src, config) else {
                    o.count("paren:does-not-parse");
                    continue;
                };
                let Some(r) = first(&recs, "paren") else { continue };
                let out = r.get("out").unwrap_or("");
                if out == "!err" {
                    o.count("paren:rewrite-failed");
                    continue;
                }
                // the model prints one line, the code breaks lines behind attributes: compare without blanks
                let req = format!("opt.paren {} {} {}", b(opt), enc_levels(&levels), enc_str(atom));
                let m = run_model(&[req.clone()], 1);
                let mt = m.first().and_then(|a| dec_str(a)).unwrap_or_default();
                o.direct_evals += 1;
                if squeeze(&mt) != squeeze(out) {
                    o.direct_failures.push(serde_json::json!({"sig": "paren-corr", "src": src, "impl": out, "model": mt, "request": req}));
                } else if squeeze(out) != squeeze(&paren_src(&levels, atom)) {
                    o.direct_distinct += 1;
                }
            }
        }
    }
}

// ---------------------------------------------------------------------------------------------------------------
// §5 visibility, ABI, keyword tables

/// (source text, model encoding)
pub fn vis_universe() -> Vec<(String, String)> {
    let mut v: Vec<(String, String)> = vec![("".into(), "i".into()), ("pub".into(), "p".into())];
    let paths: [(&str, bool, &[&str]); 12] = [
        ("crate", false, &["crate"]),
        ("self", false, &["self"]),
        ("super", false, &["super"]),
        ("crate::a", false, &["crate", "a"]),
        ("super::super", false, &["super", "super"]),
        ("self::a", false, &["self", "a"]),
        ("a", false, &["a"]),
        ("a::b", false, &["a", "b"]),
        ("::a", true, &["a"]),
        ("::a::b", true, &["a", "b"]),
        ("r#a", false, &["r#a"]),
        ("crate::r#self_", false, &["crate", "r#self_"]),
    ];
    for (txt, global, segs) in paths {
        let enc = format!("r:{}:{}", b(global), enc_strs(segs));
        v.push((format!("pub(in {})", txt), enc.clone()));
        v.push((format!("pub ( in  {} )", txt.replace("::", " :: ")), enc.clone()));
        if segs.len() == 1 && matches!(txt, "crate" | "self" | "super") {
            v.push((format!("pub({})", txt), enc.clone()));
            v.push((format!("pub ( {} )", txt), enc));
        }
    }
    v
}

pub const ABIS: [&str; 12] = ["C", "Rust", "system", "C-unwind", "", "c", " C", "C ", "cdecl", "rust-intrinsic", "a\"b", "a\\b"];

pub fn vis_extern_cases(o: &mut Outcome) {
    let c15 = mk_cfg(&[("edition", "2015")]);
    for (src_vis, enc) in vis_universe() {
        for item in ["fn f() {}", "struct S;", "mod m {}", "use a::b;"] {
            let src = format!("{} {}\n", src_vis, item);
            o.count("vis:inputs");
            let Some(recs) = analyze(&src, &c15) else {
                o.count("vis:does-not-parse");
                continue;
            };
            let Some(r) = first(&recs, "vis") else { continue };
            o.push("corr", "opt.vis", format!("opt.vis {}", enc), enc_str(r.get("out").unwrap_or("")), format!("{:?}", src), enc.starts_with("r:"));
        }
    }
    // format_extern directly
    let mut exts: Vec<(Option<Option<&str>>, String)> = vec![(None, "n".into()), (Some(None), "i".into())];
    for a in ABIS {
        exts.push((Some(Some(a)), format!("e:{}", enc_str(a))));
    }
    for (ext, enc) in &exts {
        let Some((explicit, implicit)) = guard(|| ho_format_extern(*ext)) else { continue };
        for (flag, real) in [(true, &explicit), (false, &implicit)] {
            o.push("corr", "opt.extern", format!("opt.extern {} {}", enc, b(flag)), enc_str(real), format!("{:?} explicit_abi={}", ext, flag), true);
            o.push("corr", "opt.extern.arms", format!("opt.extern.arms {} {}", enc, b(flag)), enc_str(real), format!("{:?} explicit_abi={}", ext, flag), true);
            // the printed qualifier selects the same ABI (not for a text that needs escapes: probe OPTIN-ABI-ESCAPE)
            let needs_escape = matches!(ext, Some(Some(a)) if a.contains('"') || a.contains('\\'));
            if !needs_escape {
                o.push("oracle", "opt.extern.read", format!("opt.extern.read {} {}", enc, enc_str(real)), "ok".into(), format!("{:?} explicit_abi={}", ext, flag), true);
            }
        }
    }
    // the same through the parser: fn items, bare fn types, foreign modules; escapes and raw strings in the ABI
    let spellings: [(&str, &str); 9] = [
        ("extern", "i"),
        ("extern \"C\"", "C"),
        ("extern \"\\x43\"", "C"),
        ("extern r\"C\"", "C"),
        ("extern r#\"C\"#", "C"),
        ("extern \"Rust\"", "Rust"),
        ("extern \"C-unwind\"", "C-unwind"),
        ("extern \"\\u{43}-unwind\"", "C-unwind"),
        ("extern \"system\"", "system"),
    ];
    for (sp, abi) in spellings {
        let enc = if abi == "i" { "i".to_string() } else { format!("e:{}", enc_str(abi)) };
        for (what, src) in [
            ("fn", format!("{} fn f() {{}}\n", sp)),
            ("fn", format!("pub unsafe {} fn f() {{}}\n", sp)),
            ("mod", format!("{} {{}}\n", sp)),
            ("mod", format!("unsafe {} {{ fn g(); }}\n", sp)),
            ("barefn", format!("type T = {} fn(u8);\n", sp)),
            ("barefn", format!("type T = for<'a> unsafe {} fn(&'a u8);\n", sp)),
        ] {
            o.count("extern:inputs");
            let Some(recs) = analyze(&src, &c15) else {
                o.count("extern:does-not-parse");
                continue;
            };
            let Some(r) = recs.iter().find(|r| r.kind == "extern" && r.get("what") == Some(what)) else { continue };
            for (flag, key) in [(true, "explicit"), (false, "implicit")] {
                o.push("corr", "opt.extern", format!("opt.extern {} {}", enc, b(flag)), enc_str(r.get(key).unwrap_or("")), format!("{:?} {}", src, key), true);
            }
        }
    }
    // keyword tables: what the code returns for every variant vs the table read out of the source
    let table = ho_keywords().iter().map(|(f, v, s)| format!("{}:{}:{}", f, v, enc_str(s))).collect::<Vec<_>>().join(";");
    o.push("corr", "kw.table", "kw.table".into(), table, "keyword tables".into(), true);
}

fn ho_format_extern(ext: Option<Option<&str>>) -> (String, String) {
    rustfmt_nightly::verif_hooks::optin::format_extern(ext)
}

fn ho_keywords() -> Vec<(&'static str, &'static str, String)> {
    rustfmt_nightly::verif_hooks::optin::keywords()
}

// ---------------------------------------------------------------------------------------------------------------
// §6 attributes

/// (source text, model encoding)
pub const ATTRS: [(&str, &str); 10] = [
    ("#[derive(A)]", "d:A"),
    ("#[derive(B, C)]", "d:B+C"),
    ("#[derive(a::D, A)]", "d:a::D+A"),
    ("#[derive()]", "d:"),
    ("#[derive]", "D"),
    ("/// d", "c:/// d"),
    ("#[doc = \" x\"]", "v:0: x"),
    ("#[inline]", "x:#[inline]"),
    ("#[cfg_attr(x, derive(E))]", "x:#[cfg_attr(x, derive(E))]"),
    ("#[doc(hidden)]", "x:#[doc(hidden)]"),
];

/// what stands between two attributes: (text, line feeds, has a slash)
pub const GAPS: [(&str, usize, bool); 5] = [("\n", 1, false), ("\n\n", 2, false), ("\n// c\n", 2, true), (" ", 0, false), (" /* c */ ", 0, true)];

pub fn enc_attr(model: &str) -> String {
    let (tag, rest) = model.split_once(':').unwrap_or((model, ""));
    match tag {
        "D" => "D".into(),
        "d" => format!("d:{}", if rest.is_empty() { "_".to_string() } else { rest.split('+').map(enc_str).collect::<Vec<_>>().join("+") }),
        "c" => format!("c:{}", enc_str(rest)),
        "v" => {
            let (i, v) = rest.split_once(':').unwrap();
            format!("v:{}:{}", i, enc_str(v))
        }
        _ => format!("x:{}", enc_str(rest)),
    }
}

/// an attribute list of the hook (`list` of an `attrs` record) in the model's flat encoding
pub fn flat_of_hook(list: &str) -> Vec<String> {
    list.split('\x1f')
        .filter(|s| !s.is_empty())
        .map(|e| {
            let (head, rest) = e.split_once(':').unwrap_or((e, ""));
            let kind = &head[..1];
            let inner = head.ends_with('i');
            match kind {
                "D" => "D".to_string(),
                "d" => format!("d:{}", if rest.is_empty() { "_".to_string() } else { rest.split(',').map(enc_str).collect::<Vec<_>>().join("+") }),
                "c" => format!("c:{}", enc_str(rest)),
                "v" => format!("v:{}:{}", b(inner), enc_str(rest)),
                _ => format!("x:{}", enc_str(rest)),
            }
        })
        .collect()
}

pub struct AttrCase {
    pub src: String,
    pub model: String,
}

pub fn attr_lists(rng: &mut Rng, thorough: bool) -> Vec<AttrCase> {
    let mut lists: Vec<Vec<(usize, usize)>> = vec![];
    for a in 0..ATTRS.len() {
        lists.push(vec![(a, 0)]);
        for g in 0..GAPS.len() {
            for c in 0..ATTRS.len() {
                lists.push(vec![(a, g), (c, 0)]);
            }
        }
    }
    // three and four long: a seeded sample (all of length three in thorough)
    let n3 = if thorough { 0 } else { 1500 };
    if thorough {
        for a in 0..ATTRS.len() {
            for g in 0..GAPS.len() {
                for c in 0..ATTRS.len() {
                    for h in 0..GAPS.len() {
                        for d in 0..ATTRS.len() {
                            lists.push(vec![(a, g), (c, h), (d, 0)]);
                        }
                    }
                }
            }
        }
    }
    for _ in 0..n3 {
        lists.push(vec![(rng.below(ATTRS.len()), rng.below(GAPS.len())), (rng.below(ATTRS.len()), rng.below(GAPS.len())), (rng.below(ATTRS.len()), 0)]);
    }
    for _ in 0..(if thorough { 6000 } else { 1000 }) {
        // derive-heavy lists of four
        let pick = |rng: &mut Rng| if rng.chance(2, 3) { rng.below(5) } else { rng.below(ATTRS.len()) };
        lists.push(vec![(pick(rng), rng.below(GAPS.len())), (pick(rng), rng.below(GAPS.len())), (pick(rng), rng.below(GAPS.len())), (pick(rng), 0)]);
    }
    lists
        .into_iter()
        .map(|l| {
            let mut src = String::new();
            let mut model = vec![];
            for (i, (a, g)) in l.iter().enumerate() {
                src.push_str(ATTRS[*a].0);
                let last = i + 1 == l.len();
                // a line comment or a doc comment must end its line
                let g = if !last && (ATTRS[*a].0.starts_with("///")) && GAPS[*g].1 == 0 { 0 } else { *g };
                if !last {
                    src.push_str(GAPS[g].0);
                }
                let line_comment = !last && (GAPS[g].0 == " /* c */ " || (GAPS[g].0 == " " && ATTRS[l[i + 1].0].0.starts_with("///")));
                model.push(format!("{}/{}/{}/{}", enc_attr(ATTRS[*a].1), if last { 0 } else { GAPS[g].1 }, b(!last && GAPS[g].2), b(line_comment)));
            }
            src.push_str("\nstruct S;\n");
            AttrCase { src, model: model.join(",") }
        })
        .collect()
}

pub fn attr_cases(o: &mut Outcome, rng: &mut Rng, thorough: bool) {
    let cfgs: Vec<(bool, bool, rustfmt_nightly::Config)> = [(true, false), (false, false), (true, true), (false, true)]
        .iter()
        .map(|(m, n)| (*m, *n, mk_cfg(&[("merge_derives", if *m { "true" } else { "false" }), ("normalize_doc_attributes", if *n { "true" } else { "false" })])))
        .collect();
    for (ci, c) in attr_lists(rng, thorough).iter().enumerate() {
        for (k, (merge, norm, config)) in cfgs.iter().enumerate() {
            if k > 0 && (ci + k) % 3 != 0 {
                continue;
            }
            o.count("attrs:inputs");
            let Some(recs) = analyze(&c.src, config) else {
                o.count("attrs:does-not-parse");
                continue;
            };
            let Some(r) = first(&recs, "attrs") else { continue };
            // the gaps and the kinds as the code sees them are the ones the generator meant
            let seen: Vec<String> = flat_of_hook(r.get("list").unwrap_or(""));
            let meant: Vec<String> = c.model.split(',').map(|x| x.split('/').next().unwrap_or("").to_string()).collect();
            let gaps_seen = r.get("gaps").unwrap_or("").to_string();
            let gaps_meant = c.model.split(',').map(|x| { let p: Vec<&str> = x.split('/').collect(); format!("{},{}", p[1], p[2]) }).collect::<Vec<_>>();
            let gaps_meant = gaps_meant[..gaps_meant.len() - 1].join(";");
            if seen != meant || gaps_seen != gaps_meant {
                o.direct_failures.push(serde_json::json!({"sig": "attrs-generator", "src": c.src, "seen": seen, "meant": meant, "gaps_seen": gaps_seen, "gaps_meant": gaps_meant}));
                continue;
            }
            // take_while_with_pred at every position
            if k == 0 {
                let items: Vec<&str> = c.model.split(',').collect();
                for (i, run) in r.get("runs").unwrap_or("").split(',').enumerate() {
                    o.push("corr", "opt.attrs.run", format!("opt.attrs.run d {}", items[i..].join(",")), run.to_string(), format!("{:?} at {}", c.src, i), run != "0");
                }
            }
            // the rewritten list, read back by the parser
            let out = r.get("out").unwrap_or("");
            let expect = if out == "!err" {
                "fail".to_string()
            } else {
                match analyze(&format!("{}\nstruct S;\n", out), config).as_deref().and_then(|rs| first(rs, "attrs").map(|x| flat_of_hook(x.get("list").unwrap_or("")))) {
                    Some(units) => units.join(","),
                    None => {
                        o.direct_failures.push(serde_json::json!({"sig": "attrs-output-does-not-parse", "src": c.src, "out": out}));
                        continue;
                    }
                }
            };
            let changed = squeeze(out) != squeeze(c.src.trim_end().trim_end_matches("struct S;"));
            o.push("corr", "opt.attrs.flat", format!("opt.attrs.flat {} 0 {} {}", b(*merge), b(*norm), c.model), expect, format!("{:?} merge={} norm={}", c.src, merge, norm), changed);
        }
    }
    // DocCommentFormatter on literal values
    let mut values: Vec<String> = vec!["".into(), " x".into(), "x".into(), "a\nb".into(), "a\n".into(), "\n".into(), "\n\n".into(), "a\r\nb".into(), "a\rb".into(), "a\n\nb".into(), " a\n b\n".into(), "a\r".into(), "\r\n".into(), "a\\nb".into(), "a\"b".into(), "*/".into()];
    let alpha = ['a', ' ', '\n', '\r', '/'];
    for _ in 0..(if thorough { 3000 } else { 300 }) {
        let n = rng.range(0, 6);
        values.push((0..n).map(|_| *rng.pick(&alpha)).collect());
    }
    for v in &values {
        for inner in [false, true] {
            let Some(real) = guard(|| rustfmt_nightly::verif_hooks::optin::doc_comment_text(v, inner)) else { continue };
            o.push("corr", "opt.doctext", format!("opt.doctext {} {}", b(inner), enc_str(v)), enc_str(&real), format!("{:?} inner={}", v, inner), v.contains('\n'));
            // the comment stands for the same documentation string, when the value has no CR and no last line feed
            if !v.contains('\r') && !v.ends_with('\n') {
                o.push("oracle", "opt.docvalue", format!("opt.docvalue {} {}", enc_str(v), enc_str(&real)), "ok".into(), format!("{:?} inner={}", v, inner), v.contains('\n'));
            }
        }
    }
}

// ---------------------------------------------------------------------------------------------------------------
// §7 leading pipes, arm commas, semicolons

pub const ARM_BODIES: [(&str, &str); 4] = [("1", "e"), ("{ g(); 2 }", "b"), ("unsafe { 3 }", "u"), ("{}", "b")];

pub fn match_cases(o: &mut Outcome) {
    for pipes in ["Never", "Always", "Preserve"] {
        for mbtc in [false, true] {
            for tc in ["Vertical", "Never", "Always"] {
                let config = mk_cfg(&[("match_arm_leading_pipes", pipes), ("match_block_trailing_comma", if mbtc { "true" } else { "false" }), ("trailing_comma", tc)]);
                for (b1, _) in ARM_BODIES {
                    for (b2, _) in ARM_BODIES {
                        for p1 in [false, true] {
                            for p2 in [false, true] {
                                let src = format!(
                                    "fn f() {{ match x {{ {}A | B if g => {}, {}C => {}{} }} }}\n",
                                    if p1 { "| " } else { "" },
                                    b1,
                                    if p2 { "|" } else { "" },
                                    b2,
                                    if p2 { "," } else { "" }
                                );
                                o.count("match:inputs");
                                let Some(recs) = analyze(&src, &config) else {
                                    o.count("match:does-not-parse");
                                    continue;
                                };
                                let Some(r) = first(&recs, "match") else { continue };
                                let arms: Vec<Vec<&str>> = r.get("arms").unwrap_or("").split(';').map(|a| a.split(',').collect()).collect();
                                for (i, a) in arms.iter().enumerate() {
                                    if a.len() != 4 {
                                        continue;
                                    }
                                    // the code's reading of the arm is the generator's
                                    let meant_pipe = if i == 0 { p1 } else { p2 };
                                    if a[0] != b(meant_pipe) {
                                        o.direct_failures.push(serde_json::json!({"sig": "match-generator", "src": src, "arm": i}));
                                    }
                                    o.push("corr", "opt.armcomma", format!("opt.armcomma {} {} {} {}", b(tc == "Never"), b(mbtc), a[1], a[2]), a[3].to_string(), format!("{:?} arm {} pipes={} mbtc={} tc={}", src, i, pipes, mbtc, tc), true);
                                }
                                // the leading pipe of each printed arm
                                let out = r.get("out").unwrap_or("");
                                if out == "!err" {
                                    o.count("match:rewrite-failed");
                                    continue;
                                }
                                let heads: Vec<&str> = out.lines().map(|l| l.trim_start()).filter(|l| l.contains("=>")).collect();
                                if heads.len() != 2 {
                                    o.count("match:arms-not-on-one-line-each");
                                    continue;
                                }
                                for (i, h) in heads.iter().enumerate() {
                                    let meant_pipe = if i == 0 { p1 } else { p2 };
                                    let real = if h.starts_with("| ") { "| " } else if h.starts_with('|') { "|" } else { "" };
                                    o.push("corr", "opt.pipe", format!("opt.pipe {} {}", &pipes[..1], b(meant_pipe)), enc_str(real), format!("{:?} arm {} pipes={}", src, i, pipes), true);
                                }
                            }
                        }
                    }
                }
            }
        }
    }
}

/// (source text of the statement, model kind, may only stand last)
pub const STMTS: [(&str, &str, bool); 19] = [
    ("let a = 1;", "l", false),
    ("f();", "so", false),
    ("f()", "eo", true),
    ("return 1;", "sj", false),
    ("return 1", "ej", true),
    ("break;", "sj", false),
    ("break", "ej", true),
    ("continue;", "sj", false),
    ("continue", "ej", true),
    ("while x {}", "ew", false),
    ("while x {};", "sw", false),
    ("loop {};", "sw", false),
    ("for i in x {};", "sw", false),
    ("for i in x {}", "ew", false),
    ("struct S;", "i", false),
    ("m!();", "m", false),
    ("if x {}", "eo", false),
    ("if x {};", "so", false),
    ("{ g() };", "so", false),
];

pub fn block_lists() -> Vec<Vec<usize>> {
    let n = STMTS.len();
    let mut v = vec![];
    for a in 0..n {
        v.push(vec![a]);
        for c in 0..n {
            if !STMTS[a].2 {
                v.push(vec![a, c]);
            }
        }
    }
    for a in 0..n {
        for c in 0..n {
            for d in 0..n {
                if !STMTS[a].2 && !STMTS[c].2 && (a + 2 * c + 3 * d) % 5 == 0 {
                    v.push(vec![a, c, d]);
                }
            }
        }
    }
    v
}

pub fn block_cases(o: &mut Outcome) {
    for ts in [true, false] {
        let config = mk_cfg(&[("trailing_semicolon", if ts { "true" } else { "false" })]);
        for list in block_lists() {
            let src = format!("fn f() {{ {} }}\n", list.iter().map(|s| STMTS[*s].0).collect::<Vec<_>>().join(" "));
            o.count("block:inputs");
            let Some(recs) = analyze(&src, &config) else {
                o.count("block:does-not-parse");
                continue;
            };
            let Some(r) = first(&recs, "block") else { continue };
            let infos: Vec<Vec<&str>> = r.get("stmts").unwrap_or("").split(';').map(|a| a.split(',').collect()).collect();
            if infos.len() != list.len() {
                o.direct_failures.push(serde_json::json!({"sig": "block-generator", "src": src, "stmts": r.get("stmts")}));
                continue;
            }
            let outs: Vec<&str> = r.get("outs").unwrap_or("").split('\x1f').collect();
            for (i, info) in infos.iter().enumerate() {
                let kind = STMTS[list[i]].1;
                let is_last = i + 1 == list.len();
                if info.len() != 4 || info[0] != kind {
                    o.direct_failures.push(serde_json::json!({"sig": "block-generator", "src": src, "stmt": i, "seen": info, "meant": kind}));
                    continue;
                }
                let desc = format!("{:?} stmt {} trailing_semicolon={}", src, i, ts);
                o.push("corr", "opt.lastexpr", format!("opt.lastexpr {} {}", b(is_last), kind), info[1].to_string(), desc.clone(), is_last);
                o.push("corr", "opt.semi.stmt", format!("opt.semi.stmt {} {} {}", b(ts), kind, info[1]), info[2].to_string(), desc.clone(), true);
                if info[3] != "-" {
                    o.push("corr", "opt.semi.expr", format!("opt.semi.expr {} 0 {}", b(ts), &kind[1..]), info[3].to_string(), desc.clone(), true);
                }
                // `Stmt::rewrite` of an expression statement ends in `;` exactly when semicolon_for_stmt says so
                if kind.starts_with('s') || kind.starts_with('e') {
                    if let Some(t) = outs.get(i) {
                        if *t != "!err" && (t.ends_with(';') != (info[2] == "1")) {
                            o.direct_failures.push(serde_json::json!({"sig": "stmt-suffix", "src": src, "stmt": i, "out": t}));
                        }
                    }
                }
            }
        }
    }
}

// ---------------------------------------------------------------------------------------------------------------
// §8 a float literal and what follows it

/// (symbol, suffix) of the float grid
pub fn float_grid() -> Vec<(String, String)> {
    let mut v = vec![];
    for ip in ["0", "1", "12", "1_0", "007"] {
        for fr in ["", ".", ".0", ".00", ".5", ".50", ".0_0", ".05"] {
            for ex in ["", "e5", "E-3", "e+1_0"] {
                for suf in ["", "f32", "f64"] {
                    // an integer without point, exponent or float suffix is not a float literal
                    if fr.is_empty() && ex.is_empty() && suf.is_empty() {
                        continue;
                    }
                    // `1.f32` is a field access, `1.e5` likewise
                    if fr == "." && (!ex.is_empty() || !suf.is_empty()) {
                        continue;
                    }
                    v.push((format!("{}{}{}", ip, fr, ex), suf.to_string()));
                }
            }
        }
    }
    v
}

fn rustc_number_rest(s: &str) -> Option<String> {
    let t = rustc_lexer::tokenize(s).next()?;
    if !matches!(t.kind, rustc_lexer::TokenKind::Literal { kind: rustc_lexer::LiteralKind::Int { .. } | rustc_lexer::LiteralKind::Float { .. }, .. }) {
        return None;
    }
    Some(s[t.len as usize..].to_string())
}

pub fn lex_cases(o: &mut Outcome, rng: &mut Rng, thorough: bool) {
    // the model of rustc_lexer's `number` against rustc_lexer: every text of length <= 5 (6) over the alphabet that
    // starts with a digit, and the printed literals of the grid followed by what a rewriter may put behind them
    let alpha = ['0', '1', '_', '.', 'e', 'E', '+', '-', 'x', 'b', 'o', 'f', ' ', 'a', '3'];
    let max = if thorough { 6 } else { 5 };
    let mut layer: Vec<String> = vec!["0".into(), "1".into()];
    let mut all: Vec<String> = layer.clone();
    // the full product up to length 4, a seeded third above (every third text from a seeded offset: the count is fixed)
    let offset = rng.below(3);
    let mut idx = 0usize;
    for len in 2..=max {
        let mut next = vec![];
        for s in &layer {
            for c in alpha {
                idx += 1;
                if len > 4 && (idx + offset) % 3 != 0 {
                    continue;
                }
                next.push(format!("{}{}", s, c));
            }
        }
        all.extend(next.iter().cloned());
        layer = next;
    }
    for (sym, suf) in float_grid() {
        for follow in ["..", "..=2.", " ..", ".min(1)", ".0", ".await", " ", ")", ",", ";", "..2.0", "...", "e", "_", "f32"] {
            all.push(format!("{}{}{}", sym, suf, follow));
            if let Some(p) = sym.strip_suffix(".0") {
                all.push(format!("{}.{}", p, follow));
            }
        }
    }
    for s in all {
        let Some(rest) = rustc_number_rest(&s) else {
            o.count("lex:not-a-number-token");
            continue;
        };
        o.push("corr", "lit.lexrest", format!("lit.lexrest {}", enc_str(&s)), enc_str(&rest), format!("{:?}", s), !rest.is_empty());
    }
}
