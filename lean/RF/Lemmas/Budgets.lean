import RF.Model.Budgets
/-!
Helper lemmas for `RF/Props/Budgets.lean`: the saturating budget and the closed forms of
`compute_budgets_for_params`.
-/
namespace RF.Budgets
open RF.Shape

/-- the same configuration on a page of another width -/
def Cfg.withWidth (c : Cfg) (w : Nat) : Cfg := { c with max_width := w }

@[simp] theorem withWidth_max (c : Cfg) (w : Nat) : (c.withWidth w).max_width = w := rfl
@[simp] theorem withWidth_tab (c : Cfg) (w : Nat) : (c.withWidth w).tab_spaces = c.tab_spaces := rfl
@[simp] theorem withWidth_style (c : Cfg) (w : Nat) : (c.withWidth w).indent_style = c.indent_style := rfl

theorem budget_eq (c : Cfg) (u : Nat) : budget c u = c.max_width - u := rfl

theorem budget_mono (c : Cfg) (w u : Nat) (h : c.max_width ≤ w) : budget c u ≤ budget (c.withWidth w) u := by
  simp only [budget_eq, withWidth_max]; omega

theorem budget_pos_iff (c : Cfg) (u : Nat) : budget c u > 0 ↔ u < c.max_width := by
  simp only [budget_eq]; omega

theorem blockIndent_width (i : Indent) (c : Cfg) :
    (i.blockIndent c.shape).width = i.width + c.tab_spaces := by
  simp only [Indent.blockIndent, Indent.width, Cfg.shape]; omega

theorem add_usize_width (i : Indent) (n : Nat) : (i.add_usize n).width = i.width + n := by
  simp only [Indent.add_usize, Indent.new, Indent.width]; omega

/-- the first component in closed form -/
theorem one_line_budget_eq (c : Cfg) (rl : Nat) (rn : Bool) (i : Indent) (ret : Nat) (b : FnBraceStyle)
    (force : Bool) :
    (compute_budgets_for_params c rl rn i ret b force).1 =
      if rn = false ∧ force = false then c.max_width - params_used_space i rl ret b else 0 := by
  unfold compute_budgets_for_params forced_vertical_budgets
  cases rn <;> cases force <;> simp [budget_eq]
  split
  · cases c.indent_style <;> rfl
  · rename_i h; simp at h; simp [budget_eq] at h ⊢; omega

/-- block style: the other two components do not depend on the branch taken -/
theorem block_multi_budget_eq (c : Cfg) (h : c.indent_style = .block) (rl : Nat) (rn : Bool) (i : Indent)
    (ret : Nat) (b : FnBraceStyle) (force : Bool) :
    (compute_budgets_for_params c rl rn i ret b force).2 =
      (c.max_width - (i.width + c.tab_spaces + 1), i.blockIndent c.shape) := by
  unfold compute_budgets_for_params forced_vertical_budgets
  simp only [h, blockIndent_width, budget_eq]
  cases rn <;> cases force <;> simp
  split <;> rfl

end RF.Budgets
