import sys
def hx(s): return s.encode().hex() if s else '-'
def path(p):
    if p=='' : return '-'
    comps=[]
    if p.startswith('/'): comps.append('/')
    comps += [c for c in p.split('/') if c]
    return '/'.join(hx(c) for c in comps)
def attr(a):
    if a=='s': return 's'
    return a[0]+hx(a[1:])
def decl(d):
    # d = ('e', name, [attrs]) | ('i', name, [attrs], [decls])
    t=[d[0],hx(d[1]),str(len(d[2]))]+[attr(a) for a in d[2]]
    if d[0]=='i':
        t.append(str(len(d[3])))
        for x in d[3]: t+=decl(x)
    return t
def decls(ds):
    t=[str(len(ds))]
    for d in ds: t+=decl(d)
    return ','.join(t)
def fs(tree):
    # tree: dict path -> 'd' | (skip,gen,[decls])
    es=[]
    for k,v in tree.items():
        if v=='d': es.append(path(k)+':d')
        else: es.append(f"{path(k)}:f{int(v[0])}{int(v[1])}:{decls(v[2])}")
    return ';'.join(es) if es else '_'
def paths(ps): return ','.join(path(p) for p in ps) if ps else '_'
def dec(resp):
    if resp in('_',) or resp.startswith('err') or resp=='?': return resp
    return ' '.join(('/'.join(bytes.fromhex(c).decode() for c in p.split('/'))).replace('//','/',1) for p in resp.split(','))
