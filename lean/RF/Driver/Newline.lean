import RF.Model.Proto
import RF.Model.Newline
/-!
Line-protocol operations for the newline / blank-line / trailing-blank core (C08).

`<text>` is a string in the `RF.Proto` encoding (hex of UTF-8, `-` for empty); numbers are decimal.

model functions
  nl.windows <text>                              -> text        `convert_to_windows_newlines`
  nl.unix <text>                                 -> text        `convert_to_unix_newlines`
  nl.auto <text>                                 -> unix | windows        `auto_detect_newline_style`
  nl.apply <auto|native|unix|windows> <formatted> <raw input>  -> text    `apply_newline_style`
  nl.finalize <buffer>                           -> text | panic   `append_newline` + truncation of `format_lines`
  nl.truncate <text>                             -> text | panic   truncation of `format_lines` alone
  nl.newline_count <text>                        -> n    `FormatLines::newline_count` after `iterate`
  nl.trailing_newlines <text>                    -> n    `offset` of `push_vertical_spaces`
  nl.vspaces <off> <request> <lower> <upper>     -> n    number of `\n` pushed by `push_vertical_spaces`
  nl.clamp <off> <request> <lower> <upper>       -> n    run of `\n` at the end of the buffer afterwards
  nl.pvs <buffer> <request> <lower> <upper>      -> <buffer afterwards>:<line_number>
        `FmtVisitor::push_vertical_spaces` on a visitor whose buffer was filled by `push_str(buffer)`
  nl.rtw <text>                                  -> text | panic   `remove_trailing_white_spaces`
  nl.classify <text>                             -> kinds | panic  `CharClasses`, one letter per char:
        n Normal  s StartComment  c InComment  e EndComment  A StartStringCommented
        B EndStringCommented  C InStringCommented  a StartString  b EndString  i InString
        (`-` for the empty text)
  nl.pmc <snippet> <offset> <len> <line_start> <last_wspace|none> <indent>
                                                 -> <pushed text>:<line_start>:<last_wspace|none> | panic
        `process_missing_code` on `subslice = snippet[offset .. offset+len]` (offsets in chars), every line
        inside `file_lines`; `indent` is the string `block_indent.to_string(config)`
  nl.lines <text>                                -> list of strings (line contents, terminators removed)

oracles over a whole emitted text
  nl.oracle.final <text>                         -> ok | bad    ends with exactly one terminator and does
                                                                not start with a blank line
  nl.oracle.style <unix|windows> <text>          -> ok | bad:<line>   1-based line of the first offending
                                                                terminator
  nl.oracle.notrailing <text>                    -> ok | bad    no blank before `\n` or at the end
  nl.oracle.hascrlf <text>                       -> true | false
  nl.oracle.hascrcrlf <text>                     -> true | false   hypothesis of the Unix `_partial` theorems
  nl.oracle.rtwstable <text>                     -> ok | bad    hypothesis of `removeTrailingWhitespace_idem_partial`
  nl.oracle.indent <hard_tabs 0|1> <text>        -> ok | bad:<l1>,<l2>,…  | panic
        indentation alphabet: for every line whose first char is classified `Normal` by `CharClasses`
        (i.e. the line does not start inside a comment or a string literal) the leading run of blanks
        classified `Normal` is spaces only (hard_tabs 0) or tabs followed only by spaces (hard_tabs 1);
        a `\r` is ignored.  Answers the 1-based numbers of the offending lines (at most 20).
-/
namespace RF.Driver.Newline
open RF.Proto RF.Newline

def decStyle : String → Option Style
  | "auto" => some .auto
  | "native" => some .native
  | "unix" => some .unix
  | "windows" => some .windows
  | _ => none

def decEffective : String → Option Effective
  | "unix" => some .unix
  | "windows" => some .windows
  | _ => none

def encEffective : Effective → String
  | .unix => "unix"
  | .windows => "windows"

def encOptChars : Option (List Char) → String
  | some cs => encChars cs
  | none => "panic"

def kindLetter : CC.Kind → Char
  | .normal => 'n' | .startComment => 's' | .inComment => 'c' | .endComment => 'e'
  | .startStringCommented => 'A' | .endStringCommented => 'B' | .inStringCommented => 'C'
  | .startString => 'a' | .endString => 'b' | .inString => 'i'

def okBad (b : Bool) : String := if b then "ok" else "bad"

/-- Scan for `nl.oracle.indent`.  `lead`: still inside the leading blanks of the current line;
`sp`: a space was seen in them; `flagged`: the line is already reported. -/
def indentBad (hardTabs : Bool) :
    Nat → Bool → Bool → Bool → List (CC.Kind × Char) → List Nat
  | _, _, _, _, [] => []
  | line, lead, sp, flagged, (k, c) :: rest =>
    if c = '\n' then indentBad hardTabs (line + 1) true false false rest
    else if !lead then indentBad hardTabs line false sp flagged rest
    else if k ≠ .normal then indentBad hardTabs line false sp flagged rest
    else if c = ' ' then indentBad hardTabs line true true flagged rest
    else if c = '\r' then indentBad hardTabs line true sp flagged rest
    else if c = '\t' then
      if (!hardTabs || sp) && !flagged then line :: indentBad hardTabs line true sp true rest
      else indentBad hardTabs line true sp flagged rest
    else indentBad hardTabs line false sp flagged rest

def handle (op : String) (args : List String) : Option String :=
  match op, args with
  | "nl.windows", [t] => do
    let t ← decChars t
    pure (encChars (convertToWindows t))
  | "nl.unix", [t] => do
    let t ← decChars t
    pure (encChars (convertToUnix t))
  | "nl.auto", [t] => do
    let t ← decChars t
    pure (encEffective (autoDetect t))
  | "nl.apply", [st, f, raw] => do
    let st ← decStyle st
    let f ← decChars f
    let raw ← decChars raw
    pure (encChars (applyNewlineStyle st f raw))
  | "nl.finalize", [b] => do
    let b ← decChars b
    pure (encOptChars (finalize b))
  | "nl.truncate", [t] => do
    let t ← decChars t
    pure (encOptChars (formatLinesTruncate t))
  | "nl.newline_count", [t] => do
    let t ← decChars t
    pure (toString (newlineCount 0 t))
  | "nl.trailing_newlines", [t] => do
    let t ← decChars t
    pure (toString (trailingNewlines t))
  | "nl.vspaces", [off, n, lo, up] => do
    let off ← off.toNat?
    let n ← n.toNat?
    let lo ← lo.toNat?
    let up ← up.toNat?
    pure (toString (pushVerticalSpaces off n lo up))
  | "nl.clamp", [off, n, lo, up] => do
    let off ← off.toNat?
    let n ← n.toNat?
    let lo ← lo.toNat?
    let up ← up.toNat?
    pure (toString (clampBlank off n lo up))
  | "nl.pvs", [b, n, lo, up] => do
    let b ← decChars b
    let n ← n.toNat?
    let lo ← lo.toNat?
    let up ← up.toNat?
    let v := (Visitor.mk [] 0).pushStr b
    let v' := v.pushVerticalSpaces n lo up
    pure s!"{encChars v'.buffer}:{v'.lineNumber}"
  | "nl.rtw", [t] => do
    let t ← decChars t
    pure (encOptChars (removeTrailingWhiteSpaces t))
  | "nl.classify", [t] => do
    let t ← decChars t
    match CC.classify t with
    | none => pure "panic"
    | some ks => pure (if ks.isEmpty then "-" else String.ofList (ks.map fun x => kindLetter x.1))
  | "nl.pmc", [sn, off, len, ls, lw, ind] => do
    let sn ← decChars sn
    let off ← off.toNat?
    let len ← len.toNat?
    let ls ← ls.toNat?
    let lw ← if lw == "none" then some none else lw.toNat?.map some
    let ind ← decChars ind
    match processMissingCode sn off len (fun _ => true) ind ⟨ls, lw, 1⟩ with
    | none => pure "panic"
    | some (out, st) =>
      let lws := match st.last_wspace with | some n => toString n | none => "none"
      pure s!"{encChars out}:{st.line_start}:{lws}"
  | "nl.lines", [t] => do
    let t ← decChars t
    pure (encList ((lines t).map String.ofList))
  | "nl.oracle.final", [t] => do
    let t ← decChars t
    pure (okBad (finalOk t))
  | "nl.oracle.style", [st, t] => do
    let st ← decEffective st
    let t ← decChars t
    match firstBadLine st 1 none t with
    | none => pure "ok"
    | some l => pure s!"bad:{l}"
  | "nl.oracle.notrailing", [t] => do
    let t ← decChars t
    pure (okBad (noTrailingBlank none t))
  | "nl.oracle.hascrlf", [t] => do
    let t ← decChars t
    pure (toString (hasCrLf t))
  | "nl.oracle.hascrcrlf", [t] => do
    let t ← decChars t
    pure (toString (hasCrCrLf t))
  | "nl.oracle.indent", [ht, t] => do
    let ht ← if ht == "1" then some true else if ht == "0" then some false else none
    let t ← decChars t
    match CC.classify t with
    | none => pure "panic"
    | some ks =>
      let bad := (indentBad ht 1 true false false ks).take 20
      pure (if bad.isEmpty then "ok" else "bad:" ++ String.intercalate "," (bad.map toString))
  | "nl.oracle.rtwstable", [t] => do
    let t ← decChars t
    pure (okBad (rtwStable t))
  | _, _ => none

end RF.Driver.Newline
