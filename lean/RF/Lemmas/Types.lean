import RF.Model.Types
/-!
TYPES — the induction behind `types_tokens_preserved`: for every tree, every piece position and
every oracle, a rewriter of the repaired code returns `none` or the canonical tokens of its tree.
-/
namespace RF.Types
open RF.Tok

/-- the answer of a rewriter is acceptable: a failure, or exactly the canonical tokens -/
def Ok {α : Type} (o : Option α) (c : α) : Prop := o = none ∨ o = some c

theorem pick_ok {α : Type} {a b : Option α} {c : α} (f : Bool) (ha : Ok a c) (hb : Ok b c) : Ok (pick f a b) c := by
  unfold Ok at *; unfold pick; grind

theorem att_ok {α : Type} {a : Option α} {c : α} (f : Bool) (ha : Ok a c) : Ok (att f a) c := by
  unfold Ok at *; unfold att; grind

theorem joinB_ok {a b : Option (List Toks)} {c : List Toks} (f : Bool) (ha : Ok a c) (hb : Ok b c) :
    Ok (joinB a f b) (sepBy plus c) := by
  unfold Ok at *; unfold joinB; grind

theorem binderPre_ok {a : Option (List Toks)} {c : List Toks} (o : Toks) (ha : Ok a c) :
    Ok (binderPre false o a) (if c.isEmpty then [] else o ++ sepBy comma c ++ [tP '>']) := by
  unfold Ok at *; unfold binderPre; grind

theorem unsafePre_ok {a : Option (List Toks)} {c : List Toks} (ha : Ok a c) :
    Ok (unsafePre false a) ([kw "unsafe", tP '<'] ++ sepBy comma c ++ [tP '>']) := by
  unfold Ok at *; unfold unsafePre; grind


theorem binderPre_ok' {a : Option (List Toks)} {c : List Toks} (pinned : Bool) (o : Toks) (ha : Ok a c)
    (hp : pinned = false ∨ a = some c) :
    Ok (binderPre pinned o a) (if c.isEmpty then [] else o ++ sepBy comma c ++ [tP '>']) := by
  unfold Ok at *; unfold binderPre; grind

theorem unsafePre_ok' {a : Option (List Toks)} {c : List Toks} (pinned : Bool) (ha : Ok a c)
    (hp : pinned = false ∨ a = some c) :
    Ok (unsafePre pinned a) ([kw "unsafe", tP '<'] ++ sepBy comma c ++ [tP '>']) := by
  unfold Ok at *; unfold unsafePre; grind

/-- a binder of lifetimes always rewrites -/
theorem rwParams_lifetimes (e : Env) : ∀ (b : Params) (p : Piece) (i : Nat), lbParams b = true →
    rwParams e p i b = some (canonParams e.abi b)
  | .nil, p, i, _ => by simp [rwParams, canonParams]
  | .lifetime n bs r, p, i, h => by
      have ih := rwParams_lifetimes e r p (i + 1) (by simpa [lbParams] using h)
      simp [rwParams, canonParams, ih]
  | .type .., p, i, h => by simp [lbParams] at h
  | .const .., p, i, h => by simp [lbParams] at h

/-- the hypothesis of a child from the hypothesis of its parent -/
macro "lb_tac" : tactic =>
  `(tactic| (try simp only [lbTy, lbOptTy, lbTys, lbSegs, lbGArgs, lbBounds, lbParams, lbFnArgs, Bool.and_eq_true] at *
             grind))
/-- not the old code, or a binder of lifetimes (which rewrites) -/
macro "lb_pin" h:ident : tactic =>
  `(tactic| (try simp only [lbTy, lbOptTy, lbTys, lbSegs, lbGArgs, lbBounds, lbFnArgs, Bool.and_eq_true] at $h:ident
             rcases $h:ident with hh | hh
             · exact Or.inl hh
             · exact Or.inr (rwParams_lifetimes _ _ _ _ (by grind))))

/-- closes a constructor case once the facts about the sub-rewrites are in the context -/
macro "types_case" : tactic =>
  `(tactic| (simp only [Ok, rwTy, rwOptTy, rwTys, rwTysPlain, rwSegs, rwGArgs, rwBounds, rwParams, rwFnArgs,
      canonTy, canonOptTy, canonTys, canonSegs, canonGArgs, canonBounds, canonParams, canonFnArgs, att,
      binderToks] at *; grind))

mutual
theorem rwTy_ok (e : Env) : ∀ (t : Ty) (p : Piece), (e.pinned = false ∨ lbTy t = true) → Ok (rwTy e p t) (canonTy e.abi t)
  | .path g segs, p, h => by
      have h0 := rwSegs_ok e segs (p ++ [0]) 0 false (by lb_tac)
      types_case
  | .qpath q tg tr rest, p, h => by
      have h0 := rwTy_ok e q (p ++ [0]) (by lb_tac)
      have h1 := rwSegs_ok e tr (p ++ [1]) 0 false (by lb_tac)
      have h2 := rwSegs_ok e rest (p ++ [2]) 0 false (by lb_tac)
      types_case
  | .ref lt m t, p, h => by
      have h0 := rwTy_ok e t (p ++ [0]) (by lb_tac)
      types_case
  | .ptr m t, p, h => by
      have h0 := rwTy_ok e t (p ++ [0]) (by lb_tac)
      types_case
  | .never, p, h => by types_case
  | .infer, p, h => by types_case
  | .tup ts, p, h => by
      have h0 := rwTys_ok e ts (p ++ [0]) 0 (by lb_tac)
      types_case
  | .paren t, p, h => by
      have h0 := pick_ok (e.fits (p ++ [2])) (att_ok (e.fits (p ++ [3])) (rwTy_ok e t (p ++ [0]) (by lb_tac)))
        (rwTy_ok e t (p ++ [1]) (by lb_tac))
      types_case
  | .array t n, p, h => by
      have h0 := rwTy_ok e t (p ++ [0]) (by lb_tac)
      types_case
  | .slice t, p, h => by
      have h0 := rwTy_ok e t (p ++ [0]) (by lb_tac)
      types_case
  | .implTrait bs, p, h => by
      have h0 := joinB_ok (e.fits (p ++ [2])) (rwBounds_ok e bs (p ++ [0]) 0 (by lb_tac)) (rwBounds_ok e bs (p ++ [1]) 0 (by lb_tac))
      types_case
  | .traitObj d bs, p, h => by
      have h0 := joinB_ok (e.fits (p ++ [2])) (rwBounds_ok e bs (p ++ [0]) 0 (by lb_tac)) (rwBounds_ok e bs (p ++ [1]) 0 (by lb_tac))
      types_case
  | .bareFn b u ex args v ret, p, h => by
      have h0 := binderPre_ok' e.pinned [kw "for", tP '<'] (rwParams_ok e b (p ++ [0]) 0 (by lb_tac))
        (by lb_pin h)
      have h1 := rwOptTy_ok e ret (p ++ [2]) arrow (by lb_tac)
      have h2 := rwFnArgs_ok e args (p ++ [1]) 0 (by lb_tac)
      types_case
  | .unsafeBinder b t, p, h => by
      have h0 := unsafePre_ok' e.pinned (rwParams_ok e b (p ++ [0]) 0 (by lb_tac)) (by lb_pin h)
      have h1 := rwTy_ok e t (p ++ [1]) (by lb_tac)
      types_case
  | .pat t lo incl hi, p, h => by
      have h0 := rwTy_ok e t (p ++ [0]) (by lb_tac)
      types_case
theorem rwOptTy_ok (e : Env) :
    ∀ (t : OptTy) (p : Piece) (pre : Toks), (e.pinned = false ∨ lbOptTy t = true) → Ok (rwOptTy e p pre t) (canonOptTy e.abi pre t)
  | .none, p, pre, h => by types_case
  | .some t, p, pre, h => by
      have h0 := rwTy_ok e t p (by lb_tac)
      types_case
theorem rwTys_ok (e : Env) :
    ∀ (ts : Tys) (p : Piece) (i : Nat), (e.pinned = false ∨ lbTys ts = true) → Ok (rwTys e p i ts) (canonTys e.abi ts)
  | .nil, p, i, h => by types_case
  | .cons t r, p, i, h => by
      have h0 := pick_ok (e.fits (p ++ [i, 2])) (rwTy_ok e t (p ++ [i, 0]) (by lb_tac)) (rwTy_ok e t (p ++ [i, 1]) (by lb_tac))
      have h1 := rwTys_ok e r p (i + 1) (by lb_tac)
      types_case
theorem rwTysPlain_ok (e : Env) :
    ∀ (ts : Tys) (p : Piece) (i : Nat), (e.pinned = false ∨ lbTys ts = true) → Ok (rwTysPlain e p i ts) (canonTys e.abi ts)
  | .nil, p, i, h => by types_case
  | .cons t r, p, i, h => by
      have h0 := rwTy_ok e t (p ++ [i]) (by lb_tac)
      have h1 := rwTysPlain_ok e r p (i + 1) (by lb_tac)
      types_case
theorem rwSegs_ok (e : Env) :
    ∀ (s : Segs) (p : Piece) (i : Nat) (expr : Bool), (e.pinned = false ∨ lbSegs s = true) → Ok (rwSegs e p i expr s) (canonSegs e.abi expr s)
  | .nil, p, i, expr, h => by types_case
  | .plain n r, p, i, expr, h => by
      have h0 := rwSegs_ok e r p (i + 1) expr (by lb_tac)
      types_case
  | .angle n args r, p, i, expr, h => by
      have h0 := rwSegs_ok e r p (i + 1) expr (by lb_tac)
      have h1 := att_ok (e.fits (p ++ [i, 0])) (rwGArgs_ok e args (p ++ [i, 0]) 0 (by lb_tac))
      types_case
  | .fn n ins ret r, p, i, expr, h => by
      have h0 := rwSegs_ok e r p (i + 1) expr (by lb_tac)
      have h1 := rwOptTy_ok e ret (p ++ [i, 1]) arrow (by lb_tac)
      have h2 := rwTysPlain_ok e ins (p ++ [i, 0]) 0 (by lb_tac)
      types_case
  | .elided n r, p, i, expr, h => by
      have h0 := rwSegs_ok e r p (i + 1) expr (by lb_tac)
      types_case
theorem rwGArgs_ok (e : Env) :
    ∀ (a : GArgs) (p : Piece) (i : Nat), (e.pinned = false ∨ lbGArgs a = true) → Ok (rwGArgs e p i a) (canonGArgs e.abi a)
  | .nil, p, i, h => by types_case
  | .lt n r, p, i, h => by
      have h0 := rwGArgs_ok e r p (i + 1) (by lb_tac)
      types_case
  | .ty t r, p, i, h => by
      have h0 := pick_ok (e.fits (p ++ [i, 2])) (rwTy_ok e t (p ++ [i, 0]) (by lb_tac)) (rwTy_ok e t (p ++ [i, 1]) (by lb_tac))
      have h1 := rwGArgs_ok e r p (i + 1) (by lb_tac)
      types_case
  | .const br v r, p, i, h => by
      have h0 := rwGArgs_ok e r p (i + 1) (by lb_tac)
      types_case
  | .assocEq n ga t r, p, i, h => by
      have h0 := rwGArgs_ok e r p (i + 1) (by lb_tac)
      have h1 := att_ok (e.fits (p ++ [i, 0])) (rwGArgs_ok e ga (p ++ [i, 0]) 0 (by lb_tac))
      have h2 := rwTy_ok e t (p ++ [i, 1]) (by lb_tac)
      types_case
  | .assocBound n ga bs r, p, i, h => by
      have h0 := rwGArgs_ok e r p (i + 1) (by lb_tac)
      have h1 := att_ok (e.fits (p ++ [i, 0])) (rwGArgs_ok e ga (p ++ [i, 0]) 0 (by lb_tac))
      have h2 := joinB_ok (e.fits (p ++ [i, 3])) (rwBounds_ok e bs (p ++ [i, 1]) 0 (by lb_tac))
        (rwBounds_ok e bs (p ++ [i, 2]) 0 (by lb_tac))
      types_case
theorem rwBounds_ok (e : Env) :
    ∀ (b : Bounds) (p : Piece) (i : Nat), (e.pinned = false ∨ lbBounds b = true) → Ok (rwBounds e p i b) (canonBounds e.abi b)
  | .nil, p, i, h => by types_case
  | .trait paren b c a pol g path r, p, i, h => by
      have h0 := binderPre_ok' e.pinned [kw "for", tP '<'] (rwParams_ok e b (p ++ [i, 0]) 0 (by lb_tac))
        (by lb_pin h)
      have h1 := rwSegs_ok e path (p ++ [i, 1]) 0 false (by lb_tac)
      have h2 := rwBounds_ok e r p (i + 1) (by lb_tac)
      types_case
  | .outlives n r, p, i, h => by
      have h2 := rwBounds_ok e r p (i + 1) (by lb_tac)
      types_case
  | .use args r, p, i, h => by
      have h2 := rwBounds_ok e r p (i + 1) (by lb_tac)
      types_case
theorem rwParams_ok (e : Env) :
    ∀ (b : Params) (p : Piece) (i : Nat), (e.pinned = false ∨ lbParams b = true) → Ok (rwParams e p i b) (canonParams e.abi b)
  | .nil, p, i, h => by types_case
  | .lifetime n bs r, p, i, h => by
      have h0 := rwParams_ok e r p (i + 1) (by lb_tac)
      types_case
  | .type n bs d r, p, i, h => by
      have h0 := rwParams_ok e r p (i + 1) (by lb_tac)
      have h1 := joinB_ok (e.fits (p ++ [i, 2])) (rwBounds_ok e bs (p ++ [i, 0]) 0 (by lb_tac))
        (rwBounds_ok e bs (p ++ [i, 1]) 0 (by lb_tac))
      have h2 := rwOptTy_ok e d (p ++ [i, 3]) [tP '='] (by lb_tac)
      simp only [Ok, rwParams, canonParams, att] at *
      rcases h0 with h0 | h0 <;> rcases h1 with h1 | h1 <;> rcases h2 with h2 | h2 <;>
        cases hf : e.fits (p ++ [i]) <;> simp [h0, h1, h2]
  | .const n t d r, p, i, h => by
      have h0 := rwParams_ok e r p (i + 1) (by lb_tac)
      have h1 := rwTy_ok e t (p ++ [i, 0]) (by lb_tac)
      types_case
theorem rwFnArgs_ok (e : Env) :
    ∀ (a : FnArgs) (p : Piece) (i : Nat), (e.pinned = false ∨ lbFnArgs a = true) → Ok (rwFnArgs e p i a) (canonFnArgs e.abi a)
  | .nil, p, i, h => by types_case
  | .cons name t r, p, i, h => by
      have h0 := rwTy_ok e t (p ++ [i]) (by lb_tac)
      have h1 := rwFnArgs_ok e r p (i + 1) (by lb_tac)
      types_case
end

end RF.Types
