//! C03: comments are never silently dropped.
//!  1. correspondence of the Lean model `RF.Comment` with the real functions of comment.rs / lists.rs
//!     (through `verif_hooks::{comment, lists}`), panics included; rustc_lexer's comment tokens against
//!     the model's comment slices on lexable inputs;
//!  2. search on the real formatter: programs with marked non-doc comments injected at the position
//!     classes the property names, judged by the Lean oracle on the comment tokens (rustc_lexer) of
//!     input and output; a fixed measured universe of fixtures x configurations; enumerated probes of
//!     the shapes known dirty on the pinned tree.
use std::collections::{BTreeMap, HashSet};
use std::panic::{catch_unwind, AssertUnwindSafe};
use std::path::Path;
use std::time::Duration;

use rustfmt_nightly::verif_hooks::{comment as hc, lists as hl};
use serde_json::json;

use crate::corpus;
use crate::gen::*;
use crate::pool::{self, Job, Status};
use crate::util::*;

// ------------------------------------------------------------------------------------------------
// part 1: correspondence

const ALPHA: &[char] = &['/', '*', '"', '\'', '\\', 'r', '#', '\n', 'a', ' '];

fn all_strings(alpha: &[char], maxlen: usize) -> Vec<String> {
    let mut all = vec![String::new()];
    let mut frontier = vec![String::new()];
    for _ in 0..maxlen {
        let mut next = Vec::with_capacity(frontier.len() * alpha.len());
        for s in &frontier {
            for c in alpha {
                let mut t = s.clone();
                t.push(*c);
                next.push(t);
            }
        }
        all.extend(next.iter().cloned());
        frontier = next;
    }
    all
}

fn enc_slices(v: &[(bool, usize, String)]) -> String {
    if v.is_empty() {
        return "_".into();
    }
    v.iter().map(|(c, st, t)| format!("{}:{}:{}", if *c { "C" } else { "N" }, st, enc_str(t))).collect::<Vec<_>>().join(";")
}

fn enc_opt(v: Option<usize>) -> String {
    match v {
        Some(n) => n.to_string(),
        None => "none".into(),
    }
}

fn guarded<R>(f: impl FnOnce() -> R) -> Option<R> {
    catch_unwind(AssertUnwindSafe(f)).ok()
}

const PIECES: &[&str] = &[
    "/*", "*/", "//", "\"", "'", "\\", "r#\"", "\"#", "r\"", "#", "\n", "\r\n", " ", "\t", "a", "bc", "'a'", "'\\''", "b'x'", "r#type", "/**/", "/***/", "/**", "/*!", "///", "//!", "//*", "\u{a0}", "\u{3000}", "é", "\r", "x ", "  ", "中", "*",
    " * ", "\n * ", "\n  ", ",", ";", "'a", "<'a>", "/* c */", "// d\n", "/* \"q\" */", "\"//s\"", "\"/*s*/\"", "r#\"//\"#", "r##\"\"#\"##", "'\"'", "fn f() {}", "let s = \"lit\";", "// comment ", "/* a\n * b\n */", "/* /* n */ */",
];

fn random_text(rng: &mut Rng, n: usize) -> String {
    let mut s = String::new();
    for _ in 0..n {
        s.push_str(*rng.pick(PIECES));
    }
    if rng.chance(1, 2) {
        s.push('\n');
    }
    s
}

/// a text in which every comment is terminated and quotes are balanced more often than not
fn tame_text(rng: &mut Rng, n: usize) -> String {
    const T: &[&str] = &["/* c */", "/* a\n * b\n */", "/*\n  x * y\n*/", "// d\n", "//e\n", "  // f g\n", "/** doc */", "/// doc\n", "//! inner\n", "/*! inner */", "/**/", "/* /* n */ m */", "x", " ", "\n", "    ", "\t", ",", ";", "\"s // not\"", "\"/* not */\"", "r#\"//\"#", "'a'", "'\"'", "'\\''", "<'a>", "fn f() {}", "let y = 1;", "=>", "|", ")", "}", "(", "{", "/* \"q\" */", "// it's\n", "/* it's */", "//* star\n", "/* * */", "\r\n", "/* é */", "// 中\n"];
    let mut s = String::new();
    for _ in 0..n {
        s.push_str(*rng.pick(T));
    }
    s
}

/// a neighbour of `s` as a rewrite might produce it: re-indentation, blanks, a dropped or altered
/// comment character, a dropped comment, a reordering
fn neighbour_text(rng: &mut Rng, s: &str) -> String {
    let cs: Vec<char> = s.chars().collect();
    if cs.is_empty() {
        return "x".into();
    }
    match rng.below(9) {
        0 => s.replace('\n', "\n    "),
        1 => s.replace("    ", " ").replace('\t', " "),
        2 => {
            let i = rng.below(cs.len());
            cs.iter().enumerate().filter(|(j, _)| *j != i).map(|(_, c)| *c).collect()
        }
        3 => {
            let i = rng.below(cs.len());
            let mut v = cs.clone();
            v[i] = if rng.chance(1, 2) { *rng.pick(&['a', 'z', ' ', '*', '\n', '/']) } else { (rng.range(33, 126) as u8) as char };
            v.into_iter().collect()
        }
        4 => s.replace("/* c */", "").replace("// d\n", "\n"),
        5 => s.replace(" \n", "\n").replace(" * ", " "),
        6 => {
            let i = rng.below(cs.len());
            let mut v = cs.clone();
            v.insert(i, *rng.pick(&[' ', '\n', '\t', '*', 'q']));
            v.into_iter().collect()
        }
        7 => s.replace("/*", "/* ").replace("*/", " */").replace("//", "// "),
        _ => {
            let mid = rng.below(cs.len());
            let (a, b) = cs.split_at(mid);
            b.iter().chain(a.iter()).collect()
        }
    }
}

fn corr_text_ops(o: &mut Outcome, t: &str, desc: &str, ops: &[&str]) {
    let nt = t.chars().count() > 1;
    for op in ops {
        match *op {
            "ungrouped" => {
                let e = guarded(|| hc::ungrouped_slices(t)).map(|v| enc_slices(&v)).unwrap_or_else(|| "panic".into());
                o.push("corr", "cm.ungrouped", format!("cm.ungrouped {}", enc_str(t)), e, desc.into(), nt);
            }
            "slices" => {
                let e = guarded(|| hc::comment_code_slices(t)).map(|v| enc_slices(&v)).unwrap_or_else(|| "panic".into());
                o.push("corr", "cm.slices", format!("cm.slices {}", enc_str(t)), e, desc.into(), nt);
            }
            "filter" => {
                let e = guarded(|| hc::filter_normal_code(t)).map(|v| enc_str(&v)).unwrap_or_else(|| "panic".into());
                o.push("corr", "cm.filter", format!("cm.filter {}", enc_str(t)), e, desc.into(), nt);
            }
            "cend" => {
                let e = guarded(|| hc::find_comment_end(t)).map(enc_opt).unwrap_or_else(|| "panic".into());
                o.push("corr", "cm.cend", format!("cm.cend {}", enc_str(t)), e, desc.into(), nt);
            }
            "contains" => {
                let e = guarded(|| hc::contains_comment(t)).map(|b| (b as u8).to_string()).unwrap_or_else(|| "panic".into());
                o.push("corr", "cm.contains", format!("cm.contains {}", enc_str(t)), e, desc.into(), nt);
            }
            "payload" => {
                let e = guarded(|| hc::comment_payload(t)).map(|v| enc_str(&v)).unwrap_or_else(|| "panic".into());
                o.push("corr", "cm.payload", format!("cm.payload {}", enc_str(t)), e, desc.into(), nt);
            }
            "pre" => {
                let e = guarded(|| hl::extract_pre_comment(t)).map(|(c, l)| format!("{} {}", c.map(|c| enc_str(&c)).unwrap_or_else(|| "none".into()), l)).unwrap_or_else(|| "panic".into());
                o.push("corr", "cm.pre", format!("cm.pre {}", enc_str(t)), e, desc.into(), nt);
            }
            _ => unreachable!(),
        }
    }
}

fn corr_find(o: &mut Outcome, s: &str, pat: &str, desc: &str, last: bool) {
    let e = guarded(|| hc::find_uncommented(s, pat)).map(enc_opt).unwrap_or_else(|| "panic".into());
    o.push("corr", "cm.find", format!("cm.find {} {}", enc_str(s), enc_str(pat)), e, desc.into(), s.len() > 1);
    if last {
        let e = guarded(|| hc::find_last_uncommented(s, pat)).map(enc_opt).unwrap_or_else(|| "panic".into());
        o.push("corr", "cm.findlast", format!("cm.findlast {} {}", enc_str(s), enc_str(pat)), e, desc.into(), s.len() > 1);
    }
}

fn corr_changed(o: &mut Outcome, a: &str, b: &str, desc: &str, recover: bool) {
    let e = guarded(|| hc::changed_comment_content(a, b)).map(|x| (x as u8).to_string()).unwrap_or_else(|| "panic".into());
    o.count(&format!("changed:{}", e));
    o.push("corr", "cm.changed", format!("cm.changed {} {}", enc_str(a), enc_str(b)), e, desc.into(), true);
    // the source map normalises CRLF and strips a BOM: the span's snippet would not be `b`
    if recover && !b.contains('\r') && !b.starts_with('\u{feff}') {
        for eou in [false, true] {
            match guarded(|| hc::recover_comment_removed(a, b, eou)) {
                Some((res, seen, lost)) => {
                    if seen != b {
                        o.count("recover:snippet-normalised");
                        continue;
                    }
                    o.count(if res == b && a != b { "recover:kept-source" } else { "recover:took-new" });
                    o.push("corr", "cm.recover", format!("cm.recover {} {} {}", enc_str(a), enc_str(b), eou as u8), format!("{} {}", enc_str(&res), lost as u8), desc.into(), true);
                }
                None => {
                    o.push("corr", "cm.recover", format!("cm.recover {} {} {}", enc_str(a), enc_str(b), eou as u8), "panic".into(), desc.into(), true);
                }
            }
        }
    }
}

const SEPARATORS: &[&str] = &[",", "|", "=>", ";", "", "+"];
const TERMINATORS: &[&str] = &[")", "}", "]", "|", ">", "{", "=>"];

fn post_snippet(rng: &mut Rng) -> String {
    const P: &[&str] = &[",", ",", " ", " ", "\n", "\n", "// c", "// c,", "/* c */", "/* c, */", "/*", "*/", "x", ")", "}", "|", "=>", "//*", "\t", "é", ";", "\"s,\"", "    ", "// d\n", "/* a\n b */", ":", "+", "\r\n", "/", "*"];
    let n = rng.range(0, 7);
    let mut s = String::new();
    for _ in 0..n {
        s.push_str(*rng.pick(P));
    }
    s
}

fn corr_lists(o: &mut Outcome, post: &str, sep: &str, term: &str, is_last: bool, ce_extra: Option<usize>, desc: &str) {
    let ge = guarded(|| hl::get_comment_end(post, sep, term, is_last));
    o.push("corr", "cm.getend", format!("cm.getend {} {} {} {}", enc_str(post), enc_str(sep), enc_str(term), is_last as u8), ge.map(|n| n.to_string()).unwrap_or_else(|| "panic".into()), desc.into(), post.len() > 1);
    let mut ces: Vec<usize> = vec![];
    if let Some(n) = ge {
        ces.push(n);
    }
    if let Some(n) = ce_extra {
        if !ces.contains(&n) {
            ces.push(n);
        }
    }
    for ce in ces {
        if ce > post.len() {
            continue; // out of range: the callers pass get_comment_end's result
        }
        let e = guarded(|| hl::extract_post_comment(post, ce, sep, is_last)).map(|c| c.map(|c| enc_str(&c)).unwrap_or_else(|| "none".into())).unwrap_or_else(|| "panic".into());
        o.push("corr", "cm.post", format!("cm.post {} {} {} {}", enc_str(post), ce, enc_str(sep), is_last as u8), e, desc.into(), post.len() > 1);
        let e = guarded(|| hl::has_extra_newline(post, ce)).map(|b| (b as u8).to_string()).unwrap_or_else(|| "panic".into());
        o.push("corr", "cm.extranl", format!("cm.extranl {} {}", enc_str(post), ce), e, desc.into(), post.len() > 1);
    }
}

/// the comment tokens of rustc_lexer as `C:<start>:<text>` items (`None` when the text does not lex
/// cleanly: unknown tokens, unterminated literals or comments)
fn lexer_comments(src: &str) -> Option<Vec<(usize, String, bool)>> {
    use rustc_lexer::{LiteralKind as LK, TokenKind as K};
    let mut pos = 0usize;
    let mut res = vec![];
    if rustc_lexer::strip_shebang(src).is_some() {
        return None;
    }
    for t in rustc_lexer::tokenize(src) {
        let len = t.len as usize;
        let text = &src[pos..pos + len];
        match t.kind {
            K::LineComment { doc_style } => res.push((pos, text.to_string(), doc_style.is_some())),
            K::BlockComment { doc_style, terminated } => {
                if !terminated {
                    return None;
                }
                res.push((pos, text.to_string(), doc_style.is_some()))
            }
            K::Unknown | K::UnknownPrefix | K::UnknownPrefixLifetime | K::GuardedStrPrefix | K::InvalidIdent => return None,
            K::Literal { kind, .. } => {
                let ok = match kind {
                    LK::Char { terminated } | LK::Byte { terminated } | LK::Str { terminated } | LK::ByteStr { terminated } | LK::CStr { terminated } => terminated,
                    LK::RawStr { n_hashes } | LK::RawByteStr { n_hashes } | LK::RawCStr { n_hashes } => n_hashes.is_some(),
                    _ => true,
                };
                if !ok {
                    return None;
                }
            }
            _ => {}
        }
        pos += len;
    }
    Some(res)
}

/// The tokens of rustc_lexer as tokens of the Lean specification `RF.LexSpec` (request of `lex.check`) and
/// the flags expected for a well-formed list: one `0|1` per character, 1 = inside a comment token or the
/// newline that ends a line comment.  `None` when the text does not lex cleanly.
fn lexspec_case(src: &str) -> Option<(String, Vec<String>, String)> {
    use rustc_lexer::{LiteralKind as LK, TokenKind as K};
    lexer_comments(src)?;
    let mut kinds = String::new();
    let mut texts: Vec<String> = vec![];
    let mut flags = String::new();
    let push_code = |kinds: &mut String, texts: &mut Vec<String>, t: &str| {
        if t.is_empty() {
            return;
        }
        if kinds.ends_with('c') {
            texts.last_mut().unwrap().push_str(t);
        } else {
            kinds.push('c');
            texts.push(t.to_string());
        }
    };
    let mut pos = 0usize;
    let mut skip_newline = false;
    for t in rustc_lexer::tokenize(src) {
        let len = t.len as usize;
        let mut text = &src[pos..pos + len];
        pos += len;
        if skip_newline {
            // the newline that ended the line comment belongs to the comment token of the specification
            text = text.strip_prefix('\n')?;
            flags.push('1');
            skip_newline = false;
        }
        let n = text.chars().count();
        match t.kind {
            K::Eof => {}
            K::LineComment { .. } => {
                let at_end = pos == src.len();
                kinds.push(if at_end { 'L' } else { 'l' });
                texts.push(text.to_string());
                flags.push_str(&"1".repeat(n));
                skip_newline = !at_end;
            }
            K::BlockComment { .. } => {
                kinds.push('b');
                texts.push(text.to_string());
                flags.push_str(&"1".repeat(n));
            }
            K::Literal { kind, suffix_start } => {
                let ss = suffix_start as usize;
                let (k, plen) = match kind {
                    LK::Str { .. } => ('s', 0),
                    LK::ByteStr { .. } | LK::CStr { .. } => ('s', 1),
                    LK::RawStr { .. } => ('r', 0),
                    LK::RawByteStr { .. } | LK::RawCStr { .. } => ('r', 1),
                    LK::Char { .. } => ('h', 0),
                    LK::Byte { .. } => ('h', 1),
                    _ => ('c', 0),
                };
                if k == 'c' {
                    push_code(&mut kinds, &mut texts, text);
                } else {
                    push_code(&mut kinds, &mut texts, &text[..plen]);
                    kinds.push(k);
                    texts.push(text[plen..ss].to_string());
                    push_code(&mut kinds, &mut texts, &text[ss..]);
                }
                flags.push_str(&"0".repeat(n));
            }
            _ => {
                push_code(&mut kinds, &mut texts, text);
                flags.push_str(&"0".repeat(n));
            }
        }
    }
    if skip_newline {
        return None;
    }
    Some((kinds, texts, flags))
}

/// `lex.check` on a batch of texts.  The answer `quirk` (the token list is not well-formed for the
/// specification: a shape excluded from the agreement theorem) is counted, never a failure; any other
/// answer must be the lexer's comment flags - those cases are kept for Outcome::finish, which reports them.
fn run_lexspec(o: &mut Outcome, srcs: &[(String, String)]) {
    let mut reqs = vec![];
    let mut meta = vec![];
    for (src, desc) in srcs {
        if let Some((kinds, texts, flags)) = lexspec_case(src) {
            if !kinds.is_empty() {
                reqs.push(format!("lex.check {} {}", kinds, enc_list(&texts)));
                meta.push((flags, desc.clone()));
            }
        }
    }
    let answers = run_model(&reqs, jobs());
    let mut kept = 0;
    for ((req, ans), (flags, desc)) in reqs.into_iter().zip(answers.iter()).zip(meta.into_iter()) {
        if ans == "quirk" {
            o.count("lexspec:not-well-formed(quirk shape)");
            o.direct_evals += 1;
        } else if *ans == flags && kept >= 300 {
            o.count("lexspec:agrees");
            o.direct_evals += 1;
            o.direct_distinct += 1;
        } else {
            if *ans == flags {
                kept += 1;
                o.count("lexspec:agrees");
            }
            o.push("oracle", "lex.check", req, flags, desc, true);
        }
    }
}

/// the shapes on which CharClasses is known to part from the Rust lexer (proved as counter-examples
/// in RF/Props/C03.lean): a `"` inside a block comment (it opens a "string" in which `/*` is not
/// counted), a raw identifier (`r#`), `'` followed by a character and a `'` that is not a char literal
/// (`'a'b`, lifetimes next to quotes), a `r` directly followed by `"`/`#` at the end of an identifier
fn has_quirk_shape(src: &str) -> bool {
    let toks = lex(src);
    for (i, t) in toks.iter().enumerate() {
        match t.class {
            TokClass::BlockComment { .. } => {
                if t.text.contains('"') {
                    return true;
                }
            }
            TokClass::RawIdent => return true,
            TokClass::Lifetime => {
                // `'a'`-like adjacency: a lifetime directly followed by a quote, or `'r#…`
                if let Some(n) = toks.get(i + 1) {
                    if n.text.starts_with('\'') || n.text.starts_with('"') || n.text.starts_with('#') {
                        return true;
                    }
                }
                if t.text.chars().count() == 2 {
                    // `'x` + next char `'` would be a char literal to the lexer; here the lexer said lifetime
                    if let Some(n) = toks.get(i + 1) {
                        if n.text.starts_with('\'') {
                            return true;
                        }
                    }
                }
            }
            TokClass::Ident => {
                if t.text.ends_with('r') && !matches!(t.text.as_str(), "r" | "br" | "cr") {
                    if let Some(n) = toks.get(i + 1) {
                        if n.text.starts_with('"') || n.text.starts_with('#') {
                            return true;
                        }
                    }
                }
            }
            _ => {}
        }
    }
    false
}

/// Oracle `dropIsNoticed` (Lean) on the real `changed_comment_content(comment, "")`: every text that
/// rustc_lexer reads as ONE terminated non-doc comment and that has text must count for the safety net.
fn must_change_case(o: &mut Outcome, comment: &str, desc: &str) {
    let toks = lex(comment);
    if toks.len() != 1 || !matches!(toks[0].class, TokClass::LineComment { doc: false } | TokClass::BlockComment { doc: false, terminated: true }) {
        return;
    }
    if let Some(changed) = guarded(|| hc::changed_comment_content(comment, "")) {
        o.push("oracle", "cm.mustchange", format!("cm.mustchange {} {}", enc_str(comment), changed as u8), "ok".into(), desc.into(), comment.len() > 4);
    }
}

fn part_must_change(o: &mut Outcome, rng: &mut Rng, thorough: bool) {
    // every comment the search injects
    let ts = templates();
    for style in styles_of(&ts) {
        for t in ts.iter().take(3) {
            for h in [t.holes.first(), t.holes.last()].into_iter().flatten() {
                for c in nondoc_comments(&render(t, h, style)) {
                    must_change_case(o, &c, &format!("style {}", style));
                }
            }
        }
    }
    // every block / line comment over a small alphabet (openers that look like doc comments included)
    for b in all_strings(&['*', '/', '!', ' ', '\n', 'a'], if thorough { 6 } else { 5 }) {
        must_change_case(o, &format!("/*{}*/", b), "exhaustive-block");
        if !b.contains('\n') {
            must_change_case(o, &format!("//{}", b), "exhaustive-line");
        }
    }
    for shape in ["/***{}***/", "/**** {} */", "/********{}********/", "/****\n * {} *\n ****/", "/**/{}*/", "//// {}", "/////{}/////", "/*{}*/", "/* * {} */", "/*\n{}\n*/", "/*\n * {}\n */", "//{}", "//*{}", "/*/{}*/"] {
        for w in ["x", "c03", "é", "a b", "1", "_", "-", "TODO: x"] {
            must_change_case(o, &shape.replace("{}", w), "shapes");
        }
    }
    // the comment tokens of fixtures and of random texts
    let progs = corpus::programs(&["tests/target", "tests/source"]);
    let start = if progs.is_empty() { 0 } else { rng.below(progs.len()) };
    for k in 0..(if thorough { progs.len() } else { 120.min(progs.len()) }) {
        let p = &progs[(start + k) % progs.len()];
        for c in nondoc_comments(&p.src).into_iter().take(40) {
            must_change_case(o, &c, &p.name);
        }
    }
    for _ in 0..(if thorough { 20000 } else { 2000 }) {
        let n = rng.range(1, 8);
        for c in nondoc_comments(&tame_text(rng, n)) {
            must_change_case(o, &c, "random");
        }
    }
}

fn part_corr(o: &mut Outcome, rng: &mut Rng, thorough: bool) {
    // 1a. exhaustive over the hostile alphabet
    let texts = all_strings(ALPHA, if thorough { 6 } else { 5 });
    for t in &texts {
        let n = t.chars().count();
        corr_text_ops(o, t, "exhaustive", &["ungrouped", "slices"]);
        if n <= 5 {
            corr_text_ops(o, t, "exhaustive", &["cend", "contains"]);
        }
        if n <= 4 {
            corr_text_ops(o, t, "exhaustive", &["filter"]);
            for pat in ["a", "/", "a*", "", "\"", "aa"] {
                corr_find(o, t, pat, "exhaustive", n <= 3);
            }
        }
    }
    // 1b. comment payloads: every header x every body over a small alphabet x closer
    let bodies = all_strings(&['*', '/', '\n', ' ', 'a', '!'], if thorough { 6 } else { 5 });
    for h in ["//", "/*"] {
        for b in &bodies {
            for closer in ["", "*/"] {
                if h == "//" && !closer.is_empty() {
                    continue;
                }
                let c = format!("{}{}{}", h, b, closer);
                corr_text_ops(o, &c, "payload-exhaustive", &["payload"]);
            }
        }
    }
    for c in ["", "a", "/", "/a", "x/*y*/", " //", "/*é", "/*éé", "/**é", "/*!é", "/*aé", "/*\u{3000}*/", "/*\n\u{2003}* a\u{a0}*/", "//\u{85}a", "/*\n*é*/", "/*\n\t*\t*x*/"] {
        corr_text_ops(o, c, "payload-special", &["payload"]);
    }
    // every ASCII character and a sample of others at the places the reducer distinguishes
    let mut singles: Vec<char> = (0u8..128).map(|b| b as char).collect();
    singles.extend(['\u{85}', '\u{a0}', 'é', '\u{1680}', '\u{2000}', '\u{200a}', '\u{200b}', '\u{2028}', '\u{2029}', '\u{202f}', '\u{205f}', '\u{3000}', '\u{feff}', '中', '😀']);
    for c in &singles {
        for shape in ["//x{}y", "// {} ", "/*x{}y*/", "/* {} */", "/*\n{}x*/", "/*\n * {}*/", "/*\n*{}{}*/", "/*a\n {} {}\n*/", "/*{}", "//{}"] {
            let t = shape.replace("{}", &c.to_string());
            corr_text_ops(o, &t, "payload-singles", &["payload"]);
            corr_changed(o, &t, &shape.replace("{}", "q"), "payload-singles", false);
            corr_changed(o, &shape.replace("{}", ""), &t, "payload-singles", false);
        }
    }
    // 1c. random hostile texts and tame texts through every text op; pairs through the safety net
    let n_rand = if thorough { 30000 } else { 3000 };
    for k in 0..n_rand {
        let n = rng.range(1, 12);
        let t = if k % 2 == 0 { random_text(rng, n) } else { tame_text(rng, n) };
        corr_text_ops(o, &t, "random", &["ungrouped", "slices", "filter", "cend", "contains", "pre"]);
        let pat = *rng.pick(&[",", "=>", ")", "..", "a", "|", "//", "x", "}", ";", "é", "xx"]);
        corr_find(o, &t, pat, "random", t.len() < 40);
        let u = if rng.chance(1, 8) { tame_text(rng, n) } else if rng.chance(1, 6) { t.clone() } else { neighbour_text(rng, &t) };
        corr_changed(o, &u, &t, "random-pair", k % 4 == 0);
    }
    // tame pairs: mostly panic-free, both outcomes of the comparison
    for k in 0..(if thorough { 20000 } else { 2500 }) {
        let n = rng.range(1, 8);
        let t = tame_text(rng, n);
        let u = match k % 5 {
            0 => t.replace('\n', "\n      ").replace("  ", " "),
            1 => t.replace(" \n", "\n").replace("/* c */", "/*   c   */"),
            _ => neighbour_text(rng, &t),
        };
        corr_changed(o, &u, &t, "tame-pair", k % 3 == 0);
    }
    // 1d. lists.rs: post-snippets x separators x terminators
    let n_lists = if thorough { 60000 } else { 6000 };
    for _ in 0..n_lists {
        let post = post_snippet(rng);
        let sep = *rng.pick(SEPARATORS);
        let term = *rng.pick(TERMINATORS);
        let is_last = rng.chance(1, 3);
        let extra = if rng.chance(1, 2) && !post.is_empty() {
            // a char boundary inside the snippet
            let idxs: Vec<usize> = post.char_indices().map(|(i, _)| i).chain(std::iter::once(post.len())).collect();
            Some(*rng.pick(&idxs))
        } else {
            None
        };
        corr_lists(o, &post, sep, term, is_last, extra, "random");
        corr_text_ops(o, &post, "random-pre", &["pre"]);
    }
    for post in all_strings(&[',', ' ', '\n', '/', '*', 'x'], if thorough { 6 } else { 5 }) {
        corr_lists(o, &post, ",", ")", false, None, "exhaustive");
        if post.len() <= 4 {
            corr_lists(o, &post, ",", ")", true, None, "exhaustive");
            corr_text_ops(o, &post, "exhaustive-pre", &["pre"]);
        }
    }
    // 1e. fixture files: slices, and the lexer's comment tokens against the model's comment slices
    let progs = corpus::programs(&["tests/target", "tests/source"]);
    let take = if thorough { 2000 } else { 160 };
    let start = if thorough || progs.is_empty() { 0 } else { rng.below(progs.len()) };
    let mut lexable = 0;
    for k in 0..take.min(progs.len()) {
        let p = &progs[(start + k) % progs.len()];
        if p.src.len() > 20000 {
            continue;
        }
        corr_text_ops(o, &p.src, &p.name, &["ungrouped", "slices", "filter"]);
        if let Some(lc) = lexer_comments(&p.src) {
            if has_quirk_shape(&p.src) {
                o.count("lexer:quirk-shape-skipped");
                continue;
            }
            lexable += 1;
            let expect = if lc.is_empty() { "_".to_string() } else { lc.iter().map(|(st, t, _)| format!("C:{}:{}", st, enc_str(t))).collect::<Vec<_>>().join(";") };
            o.push("oracle", "cm.lexcomments", format!("cm.lexcomments {}", enc_str(&p.src)), expect, p.name.clone(), !lc.is_empty());
        } else {
            o.count("lexer:not-lexable");
        }
    }
    o.count_n("lexer:fixtures-compared", lexable);
    // random lexable texts
    let mut compared = 0u64;
    for _ in 0..(if thorough { 40000 } else { 4000 }) {
        let n = rng.range(1, 10);
        let t = tame_text(rng, n);
        if let Some(lc) = lexer_comments(&t) {
            if has_quirk_shape(&t) {
                o.count("lexer:quirk-shape-skipped");
                continue;
            }
            compared += 1;
            let expect = if lc.is_empty() { "_".to_string() } else { lc.iter().map(|(st, t, _)| format!("C:{}:{}", st, enc_str(t))).collect::<Vec<_>>().join(";") };
            o.push("oracle", "cm.lexcomments", format!("cm.lexcomments {}", enc_str(&t)), expect, "random-lexable".into(), !lc.is_empty());
        }
    }
    o.count_n("lexer:random-compared", compared);
    // the lexer's tokens as tokens of the declarative specification (RF.LexSpec): well-formed lists must
    // carry the lexer's comment flags (and, by theorem charClasses_agrees_lexSpec_partial, CharClasses' too)
    let mut srcs: Vec<(String, String)> = vec![];
    for k in 0..take.min(progs.len()) {
        let p = &progs[(start + k) % progs.len()];
        if p.src.len() <= 20000 {
            srcs.push((p.src.clone(), p.name.clone()));
        }
    }
    for _ in 0..(if thorough { 40000 } else { 4000 }) {
        let n = rng.range(1, 10);
        srcs.push((tame_text(rng, n), "random-lexable".into()));
    }
    run_lexspec(o, &srcs);
}

// ------------------------------------------------------------------------------------------------
// part 2: search on the real formatter

/// Templates: small programs with hole markers `@TAG@` at the comment positions the property names.
/// Tags (first letter = construct: I item, S statement, F struct field, V enum variant, M match arm,
/// P fn parameter, A call argument; second letter = position):
///   ?B  on its own line before the element          ?T  at the end of the element's line
///   ?I  inline before an element of a one-line list ?L  inline after the last element of a one-line list
///   ?E  on its own line after the last element, before the closing delimiter
/// `@X{@ … @X}@` brackets a body statement: every token boundary inside it becomes an `X` hole.
const TEMPLATES: &[(&str, &str)] = &[
    ("items", "@IB@const A: u32 = 1;@IT@\n@IB@static B: u32 = 2;@IT@\n@IB@type T = u32;@IT@\n@IB@fn f0() {}@IT@\n\n@IB@struct U;@IT@\n@IB@mod m {@IT@\n    @IB@fn g() {}@IT@\n    @IB@fn h() {}@IT@\n@IE@}@IT@\n@IB@impl S {@IT@\n    @IB@fn a(&self) {}@IT@\n    @IB@const K: u32 = 1;@IT@\n    @IB@fn b(&self) {}@IT@\n@IE@}@IT@\n@IB@trait Tr {@IT@\n    @IB@fn a(&self);@IT@\n    @IB@type X;@IT@\n@IE@}@IT@\n@IB@enum En {\n    A,\n}@IT@\n@IE@"),
    ("stmts", "fn f1(p: u32) -> u32 {@ST@\n    @SB@let a = 1;@ST@\n    @SB@let b = p + a;@ST@\n    @SB@call(a, b);@ST@\n    @SB@if a > b {@ST@\n        @SB@call(b, a);@ST@\n    @SE@} else {@ST@\n        @SB@call(a, a);@ST@\n    @SE@}@ST@\n    @SB@for i in 0..a {@ST@\n        @SB@call(i, i);@ST@\n    @SE@}@ST@\n    @SB@let c = |x: u32| {@ST@\n        @SB@x + 1@ST@\n    @SE@};@ST@\n    @SB@loop {@ST@\n        @SB@break;@ST@\n    @SE@}@ST@\n    @SB@a + b@ST@\n@SE@}\n"),
    ("fields", "struct S1 {@FT@\n    @FB@a: u32,@FT@\n    @FB@pub b: Vec<u32>,@FT@\n    @FB@c: (u32, u32),@FT@\n@FE@}\n\nstruct S2 { @FI@a: u32, @FI@b: u32, @FI@c: u32@FL@ }\n\nstruct S3(@FI@u32, @FI@pub u64, @FI@String@FL@);\n\nstruct S4(\n    @FB@u32,@FT@\n    @FB@u64,@FT@\n@FE@);\n\npub struct S5<T> {\n    @FB@x: T,@FT@\n    @FB@y: Option<T>@FT@\n@FE@}\n"),
    ("variants", "enum E1 {@VT@\n    @VB@A,@VT@\n    @VB@B(u32),@VT@\n    @VB@C { x: u32 },@VT@\n    @VB@D@VT@\n@VE@}\n\nenum E2 { @VI@A, @VI@B, @VI@C@VL@ }\n\nenum E3 {\n    @VB@P = 1,@VT@\n    @VB@Q = 2,@VT@\n@VE@}\n"),
    ("arms", "fn f2(x: u32) -> u32 {\n    match x {@MT@\n        @MB@0 => 1,@MT@\n        @MB@1 | 2 => call(x, x),@MT@\n        @MB@3 => {@MT@\n            call(x, 1)\n        }@MT@\n        @MB@n if n > 5 => n,@MT@\n        @MB@_ => 0,@MT@\n    @ME@}\n}\n\nfn f5(x: Option<u32>) {\n    match x {\n        @MB@Some(v) => call(v, v),@MT@\n        @MB@None => {}@MT@\n    @ME@}\n}\n"),
    ("params", "fn p1(@PI@a: u32, @PI@b: u32, @PI@c: u32@PL@) {}\n\nfn p2(\n    @PB@a: u32,@PT@\n    @PB@b: u32,@PT@\n    @PB@c: u32,@PT@\n@PE@) -> u32 {\n    a\n}\n\nimpl S {\n    fn p3(@PI@&self, @PI@a: u32@PL@) {}\n    fn p4(\n        @PB@&mut self,@PT@\n        @PB@key: &str,@PT@\n    @PE@) {\n    }\n}\n\ntrait T {\n    fn p5(@PI@&self, @PI@a: u32@PL@);\n}\n"),
    ("args", "fn f3() {\n    call(@AI@1, @AI@2, @AI@3@AL@);\n    call(\n        @AB@alpha,@AT@\n        @AB@beta,@AT@\n        @AB@gamma,@AT@\n    @AE@);\n    let v = x.method(@AI@a, @AI@b@AL@);\n    let w = x.method(\n        @AB@a,@AT@\n        @AB@b,@AT@\n    @AE@).other();\n    let t = S::new(@AI@1, @AI@call(@AI@2, @AI@3@AL@)@AL@);\n}\n"),
    ("inside1", "fn f4(a: u32, b: u32) -> u32 {\n    @X{@let x = a + b * 2;@X}@\n    @X{@let y: Vec<u32> = vec.iter().map(|v| v + 1).collect();@X}@\n    @X{@let S { p, q } = s;@X}@\n    @X{@x = if a > b { a } else { b };@X}@\n    @X{@call(a, b)?;@X}@\n    @X{@return foo.bar(a).baz(b, c);@X}@\n}\n"),
    ("inside2", "fn f6(a: u32, b: u32) {\n    @X{@let z = match a { 0 => 1, _ => 2 };@X}@\n    @X{@let arr = [1, 2, 3];@X}@\n    @X{@let tup = (a, b);@X}@\n    @X{@let s = S { p: 1, q: 2 };@X}@\n    @X{@let r = &mut x[1..2];@X}@\n    @X{@let c = a as u64;@X}@\n}\n"),
    ("items2", "@IB@pub(crate) fn g0() {}@IT@\n@IB@unsafe fn g1() {}@IT@\n@IB@extern \"C\" {@IT@\n    @IB@fn ext_a();@IT@\n    @IB@fn ext_b();@IT@\n@IE@}@IT@\n@IB@union Un {\n    a: u32,\n}@IT@\n@IB@fn outer() {@ST@\n    @SB@fn inner_a() {}@ST@\n    @SB@const IN: u32 = 1;@ST@\n    @SB@struct Local;@ST@\n    @SB@let z = 1;@ST@\n@SE@}@IT@\n@IB@impl Tr for S {@IT@\n    @IB@type X = u32;@IT@\n    @IB@fn a(&self) {}@IT@\n@IE@}@IT@\n@IB@macro_rules! mm {\n    () => {};\n}@IT@\n@IB@mm!();@IT@\n@IE@"),
    ("stmts2", "fn f8(o: Option<u32>) -> u32 {\n    @SB@let Some(v) = o else {@ST@\n        @SB@return 0;@ST@\n    @SE@};@ST@\n    @SB@while let Some(w) = next() {@ST@\n        @SB@use_it(w);@ST@\n    @SE@}@ST@\n    @SB@if let Some(q) = o {@ST@\n        @SB@use_it(q);@ST@\n    @SE@}@ST@\n    @SB@unsafe {@ST@\n        @SB@danger();@ST@\n    @SE@}@ST@\n    @SB@match v {@ST@\n        0 => {@ST@\n            @SB@use_it(0);@ST@\n        @SE@}@ST@\n        _ => {}@ST@\n    }@ST@\n    @SB@'outer: loop {@ST@\n        @SB@break 'outer;@ST@\n    @SE@}@ST@\n    @SB@let t = {@ST@\n        @SB@let u = 1;@ST@\n        @SB@u + 1@ST@\n    @SE@};@ST@\n    @SB@vec![1, 2];@ST@\n    @SB@return v;@ST@\n@SE@}\n"),
    ("fields2", "pub struct T1<'a> {@FT@\n    @FB@pub(crate) name: &'a str,@FT@\n    @FB@pub id: u64,@FT@\n\n    @FB@flags: [u8; 4],@FT@\n@FE@}\n\nunion U1 {@FT@\n    @FB@a: u32,@FT@\n    @FB@b: f32,@FT@\n@FE@}\n\nstruct T2(@FI@pub(crate) u8, @FI@u16@FL@);\n\nenum W { V { @FI@a: u8, @FI@b: u8@FL@ }, X {\n    @FB@c: u8,@FT@\n    @FB@d: u8,@FT@\n@FE@} }\n"),
    ("arms2", "fn f9(x: (u32, u32), y: Option<u32>) -> u32 {\n    let r = match x {@MT@\n        @MB@(0, 0) => 0,@MT@\n        @MB@(a, 0)\n        | (0, a) => a,@MT@\n        @MB@(a, b) if a > b => {@MT@\n            a - b\n        }@MT@\n        @MB@(a, b) => match y {@MT@\n            @MB@Some(v) => v + a + b,@MT@\n            @MB@None => 0,@MT@\n        @ME@},@MT@\n    @ME@};\n    r\n}\n"),
    ("params2", "pub fn q1<T: Clone>(@PI@first: T, @PI@second: &mut Vec<T>@PL@) -> Option<T> where T: Default {\n    None\n}\n\nextern \"C\" fn q2(@PI@a: i32, @PI@b: *const u8@PL@) {}\n\nimpl S {\n    pub fn q3(\n        @PB@self: Box<Self>,@PT@\n        @PB@(a, b): (u32, u32),@PT@\n        @PB@_: &str@PT@\n    @PE@) -> u32 {\n        a\n    }\n}\n\ntrait T2 {\n    fn q4(\n        @PB@&self,@PT@\n        @PB@other: &Self,@PT@\n    @PE@) -> bool;\n}\n"),
    ("args2", "fn f10() {\n    let a = x.first(@AI@1, @AI@2@AL@).second(@AI@3@AL@).third();\n    let b = Some(@AI@value@AL@);\n    let c = outer(@AI@inner(@AI@1@AL@), @AI@|z| z + 1, @AI@S { p: 1 }@AL@);\n    println!(@AI@\"{} {}\", @AI@a, @AI@b@AL@);\n    let d = vec![@AI@1, @AI@2, @AI@3@AL@];\n    x.call(\n        @AB@first_argument_name,@AT@\n        @AB@second_argument_name(1),@AT@\n    @AE@)?;\n    assert_eq!(\n        @AB@left,@AT@\n        @AB@right,@AT@\n    @AE@);\n}\n"),
    ("inside4", "fn f11(a: u32, v: Vec<u32>) -> Option<u32> {\n    @X{@let Some(x) = v.first() else { return None };@X}@\n    @X{@for (i, e) in v.iter().enumerate() { call(i, e); }@X}@\n    @X{@let w = if let Some(y) = v.get(1) { *y } else { 0 };@X}@\n    @X{@let t: (u32, &str) = (1, \"s\");@X}@\n    @X{@v.iter().filter(|e| **e > a).map(|e| e * 2).sum::<u32>();@X}@\n    @X{@Some(a + w)@X}@\n}\n"),
    ("inside5", "fn f12(a: u32, b: u32, v: &[Vec<u32>], p: &u32, flag: bool) -> u32 {\n    @X{@let wide = a as u64 as i64;@X}@\n    @X{@let cell = v[0][a as usize];@X}@\n    @X{@let neg = -(a as i64) + !flag as i64;@X}@\n    @X{@let der = *p + &b;@X}@\n    @X{@let rng = (a..=b, ..b);@X}@\n    @X{@let arr: [u8; 4] = [0; 4];@X}@\n    @X{@let s2 = S { p: a, ..base };@X}@\n    @X{@let got = loop { break a + b; };@X}@\n    @X{@if a == b && flag { return a - b; }@X}@\n    @X{@match (a, b) { (0, _) => 1, _ => 2 }@X}@\n}\n"),
    ("inside3", "fn f7(mut a: u32, b: u32) {\n    @X{@while a < b { a += 1; }@X}@\n    @X{@let cl = move |q: u32| -> u32 { q + 1 };@X}@\n    @X{@let u = unsafe { f() };@X}@\n    @X{@x.y.z = !w && (a || b);@X}@\n    @X{@println!(\"{}\", a);@X}@\n    @X{@let n = -a;@X}@\n}\n"),
];

#[derive(Clone, Debug)]
struct Hole {
    tag: String,
    /// byte offset in the stripped template
    pos: usize,
}

struct Template {
    name: &'static str,
    text: String,
    holes: Vec<Hole>,
    /// X regions (byte ranges of the stripped text)
    regions: Vec<(usize, usize)>,
}

fn parse_template(name: &'static str, t: &str) -> Template {
    let mut text = String::new();
    let mut holes = vec![];
    let mut regions = vec![];
    let mut open: Option<usize> = None;
    let mut rest = t;
    while let Some(i) = rest.find('@') {
        text.push_str(&rest[..i]);
        let after = &rest[i + 1..];
        let j = after.find('@').expect("unterminated marker");
        let tag = &after[..j];
        match tag {
            "X{" => open = Some(text.len()),
            "X}" => regions.push((open.take().expect("X} without X{"), text.len())),
            _ => holes.push(Hole { tag: tag.to_string(), pos: text.len() }),
        }
        rest = &after[j + 1..];
    }
    text.push_str(rest);
    // X holes: every token boundary inside a region, except between two adjacent punctuation tokens
    for (lo, hi) in &regions {
        let toks: Vec<Tok> = lex(&text[*lo..*hi]);
        let mut pos = *lo;
        let mut prev: Option<(&Tok, usize)> = None; // (token, end)
        for t in &toks {
            let end = pos + t.text.len();
            if t.class != TokClass::Ws {
                if let Some((p, pend)) = prev {
                    let adjacent = pend == pos;
                    if !(adjacent && p.class == TokClass::Punct && t.class == TokClass::Punct) {
                        holes.push(Hole { tag: "X".into(), pos: pend });
                    }
                }
                prev = Some((t, end));
            }
            pos = end;
        }
    }
    holes.sort_by_key(|h| h.pos);
    Template { name, text, holes, regions }
}

fn templates() -> Vec<Template> {
    TEMPLATES.iter().map(|(n, t)| parse_template(n, t)).collect()
}

/// Comment styles.  B3 / B4 / B8 / BX / BE / BE3 / L5 look like doc comments but are ordinary comments for
/// rustc_lexer (three or more asterisks, `/**/`, four or more slashes): `nondoc_style_ok` asks the lexer.
const STYLES: &[&str] = &["L", "B", "BM", "BS", "LL", "LB", "BL", "BB", "Lt", "Bt", "L4", "nLn", "nBn", "B3", "B4", "B8", "BX", "BE", "BE3", "L5"];
const GEN_WIDTHS: &[usize] = &[20, 25, 30, 35, 40, 50, 60, 80, 100, 200];
const GEN_OPTS: &[(&str, &[(&str, &str)])] = &[
    ("base", &[]),
    ("wrap", &[("wrap_comments", "true")]),
    ("norm", &[("normalize_comments", "true")]),
    ("wrapnorm", &[("wrap_comments", "true"), ("normalize_comments", "true")]),
    ("eou", &[("error_on_unformatted", "true")]),
    ("visual", &[("indent_style", "Visual")]),
    ("params-vertical", &[("fn_params_layout", "Vertical")]),
    ("params-compressed", &[("fn_params_layout", "Compressed")]),
    ("comma-always", &[("trailing_comma", "Always")]),
    ("comma-never", &[("trailing_comma", "Never")]),
    ("brace-next", &[("brace_style", "AlwaysNextLine")]),
    ("cbrace-next", &[("control_brace_style", "AlwaysNextLine")]),
    ("armblocks-off", &[("match_arm_blocks", "false")]),
    ("matchcomma", &[("match_block_trailing_comma", "true")]),
    ("align20", &[("struct_field_align_threshold", "20"), ("enum_discrim_align_threshold", "20")]),
    ("tabs", &[("hard_tabs", "true")]),
    ("tab2", &[("tab_spaces", "2")]),
    ("heur-max", &[("use_small_heuristics", "Max")]),
    ("heur-off", &[("use_small_heuristics", "Off")]),
    ("fn-single", &[("fn_single_line", "true")]),
    ("lit-multi", &[("struct_lit_single_line", "false")]),
    ("empty-multi", &[("empty_item_single_line", "false")]),
    ("overflow-delim", &[("overflow_delimited_expr", "true")]),
    ("ed2015", &[("style_edition", "2015")]),
    ("ed2024", &[("style_edition", "2024")]),
    ("reorder-impl", &[("reorder_impl_items", "true")]),
    ("blank0", &[("blank_lines_upper_bound", "0")]),
    ("crlf", &[("newline_style", "Windows")]),
    ("force-multi", &[("force_multiline_blocks", "true")]),
    ("semi-off", &[("trailing_semicolon", "false")]),
];

fn opt_cfg(name: &str) -> Vec<(String, String)> {
    GEN_OPTS.iter().find(|(n, _)| *n == name).map(|(_, kv)| kv.iter().map(|(k, v)| (k.to_string(), v.to_string())).collect()).unwrap_or_default()
}

fn rewriting(cfg: &[(String, String)]) -> bool {
    cfg_get(cfg, "wrap_comments") == Some("true") || cfg_get(cfg, "normalize_comments") == Some("true")
}

/// the comment text number `k` of a program (unique marker first)
fn comment_body(k: usize) -> String {
    format!("c03m{} alpha{} beta gamma", k, k)
}

fn line_c(k: usize) -> String {
    format!("// {}", comment_body(k))
}
fn block_c(k: usize) -> String {
    format!("/* {} */", comment_body(k))
}

/// The template with the comment(s) of `style` put into `hole`.
fn render(t: &Template, hole: &Hole, style: &str) -> String {
    let text = &t.text;
    let line_start = text[..hole.pos].rfind('\n').map(|i| i + 1).unwrap_or(0);
    let indent: String = text[line_start..].chars().take_while(|c| *c == ' ').collect();
    let mode = match hole.tag.as_bytes().get(1) {
        Some(b'B') | Some(b'E') => "own",
        Some(b'T') => "trail",
        _ => "inline", // ?I ?L X
    };
    let multi = |k: usize, ind: &str| format!("/* c03m{} alpha{}\n{} * beta gamma\n{} */", k, k, ind, ind);
    let bare = |k: usize, ind: &str| format!("/*\n{}  c03m{} alpha{}\n{}  beta gamma\n{}*/", ind, k, k, ind, ind);
    let blank_around = style.starts_with('n');
    let parts: Vec<String> = match style {
        "L" | "nLn" => vec![line_c(1)],
        "B" | "nBn" => vec![block_c(1)],
        "BM" => vec![multi(1, &indent)],
        "BS" => vec![bare(1, &indent)],
        "LL" => vec![line_c(1), line_c(2)],
        "LB" => vec![line_c(1), block_c(2)],
        "BL" => vec![block_c(1), line_c(2)],
        "BB" => vec![block_c(1), block_c(2)],
        "Lt" => vec![format!("//c03m1 alpha1")],
        "Bt" => vec![format!("/*c03m1 alpha1*/")],
        "L4" => vec![format!("//// {}", comment_body(1))],
        "L5" => vec![format!("///// c03m1 alpha1 /////")],
        "B3" => vec![format!("/*** {} ***/", comment_body(1))],
        "B4" => vec![format!("/**** c03m1 alpha1 */")],
        "B8" => vec![format!("/******** c03m1 ********/")],
        "BX" => vec![format!("/****************\n{} * c03m1 boxed *\n{} ****************/", indent, indent)],
        "BE" => vec!["/**/".to_string()],
        "BE3" => vec!["/***/".to_string()],
        _ => unreachable!(),
    };
    let mut ins = String::new();
    match mode {
        "own" => {
            // each comment on its own line, the element follows on the next line at the same indent
            if blank_around {
                ins.push('\n');
                ins.push_str(&indent);
            }
            for p in &parts {
                ins.push_str(p);
                ins.push('\n');
                ins.push_str(&indent);
            }
            if blank_around {
                ins.push('\n');
                ins.push_str(&indent);
            }
        }
        "trail" => {
            // after the element, before the newline that follows in the template
            for (i, p) in parts.iter().enumerate() {
                ins.push(' ');
                ins.push_str(p);
                if p.starts_with("//") && i + 1 < parts.len() {
                    ins.push('\n');
                    ins.push_str(&indent);
                }
            }
            // a line comment must end its line: the template has the newline right after a ?T hole
        }
        _ => {
            let deeper = format!("{}    ", indent);
            for p in &parts {
                ins.push(' ');
                ins.push_str(p);
                if p.starts_with("//") {
                    ins.push('\n');
                    ins.push_str(&deeper);
                } else {
                    ins.push(' ');
                }
            }
        }
    }
    format!("{}{}{}", &text[..hole.pos], ins, &text[hole.pos..])
}

/// rustc_lexer classifies every comment this style renders as a non-doc comment (asked once per run:
/// a style that the lexer takes for a doc comment is not part of the universe)
fn nondoc_style_ok(ts: &[Template], style: &str) -> bool {
    let t = &ts[0];
    let src = render(t, &t.holes[0], style);
    let all: Vec<Tok> = lex(&src).into_iter().filter(|t| matches!(t.class, TokClass::LineComment { .. } | TokClass::BlockComment { .. })).collect();
    !all.is_empty() && all.iter().all(|t| matches!(t.class, TokClass::LineComment { doc: false } | TokClass::BlockComment { doc: false, terminated: true }))
}

fn styles_of(ts: &[Template]) -> Vec<&'static str> {
    STYLES.iter().copied().filter(|s| nondoc_style_ok(ts, s)).collect()
}

/// the non-doc comment tokens of a text (rustc_lexer)
fn nondoc_comments(src: &str) -> Vec<String> {
    lex(src).into_iter().filter(|t| matches!(t.class, TokClass::LineComment { doc: false } | TokClass::BlockComment { doc: false, .. })).map(|t| t.text).collect()
}

#[derive(Clone)]
struct Elem {
    id: String,
    src: String,
    cfg: Vec<(String, String)>,
    /// ordered comparison (generated programs) or multiset (fixtures, where items may be reordered)
    ordered: bool,
    /// for X holes: the source text from the token before the comment to the token after it
    context: Option<String>,
}

fn gen_elem(t: &Template, hi: usize, style: &str, width: usize, opt: &str) -> Elem {
    let h = &t.holes[hi];
    let src = render(t, h, style);
    let mut cfg = opt_cfg(opt);
    cfg.push(("max_width".into(), width.to_string()));
    let context = if h.tag == "X" {
        // previous token start .. next token end, in the rendered text
        let added = src.len() - t.text.len();
        let before = &t.text[..h.pos];
        let toks = lex(before);
        let mut start = h.pos;
        if let Some(last) = toks.iter().rev().find(|x| x.class != TokClass::Ws) {
            start = before.rfind(last.text.as_str()).unwrap_or(h.pos);
        }
        let after = &t.text[h.pos..];
        let toks2 = lex(after);
        let mut end = h.pos;
        let mut p = h.pos;
        for x in &toks2 {
            p += x.text.len();
            if x.class != TokClass::Ws {
                end = p;
                break;
            }
        }
        Some(src[start..end + added].to_string())
    } else {
        None
    };
    Elem { id: format!("g|{}|h{}:{}|{}|w{}|{}", t.name, hi, h.tag, style, width, opt), src, cfg, ordered: true, context }
}

/// every element of the generated universe
fn gen_universe(ts: &[Template]) -> Vec<Elem> {
    let ts_ref = ts;
    let mut v = vec![];
    for t in ts {
        for hi in 0..t.holes.len() {
            for style in &styles_of(ts_ref) {
                for w in GEN_WIDTHS {
                    for (opt, _) in GEN_OPTS {
                        v.push(gen_elem(t, hi, style, *w, opt));
                    }
                }
            }
        }
    }
    v
}

const FIX_WIDTHS: &[usize] = &[20, 37, 50, 60, 80, 137, 200];
const FIX_OPTS: &[(&str, &str)] = &[
    ("wrap_comments", "true"), ("normalize_comments", "true"), ("indent_style", "Visual"), ("hard_tabs", "true"), ("tab_spaces", "2"), ("use_small_heuristics", "Max"), ("use_small_heuristics", "Off"),
    ("fn_params_layout", "Vertical"), ("fn_params_layout", "Compressed"), ("trailing_comma", "Never"), ("trailing_comma", "Always"), ("brace_style", "AlwaysNextLine"), ("control_brace_style", "AlwaysNextLine"),
    ("match_arm_blocks", "false"), ("struct_field_align_threshold", "20"), ("style_edition", "2024"), ("style_edition", "2015"), ("reorder_impl_items", "true"), ("error_on_unformatted", "true"), ("fn_single_line", "true"),
];

fn fixture_universe(progs: &[corpus::Program]) -> Vec<Elem> {
    let mut v = vec![];
    for p in progs {
        if p.src.trim().is_empty() || p.src.len() > 60000 {
            continue;
        }
        if nondoc_comments(&p.src).is_empty() {
            continue;
        }
        v.push(Elem { id: format!("f|{}|base", p.name), src: p.src.clone(), cfg: p.cfg.clone(), ordered: false, context: None });
        for w in FIX_WIDTHS {
            v.push(Elem { id: format!("f|{}|w{}", p.name, w), src: p.src.clone(), cfg: merge_cfg(&p.cfg, &[("max_width".into(), w.to_string())]), ordered: false, context: None });
        }
        for (k, val) in FIX_OPTS {
            if cfg_get(&p.cfg, k) == Some(*val) {
                continue;
            }
            v.push(Elem { id: format!("f|{}|{}={}", p.name, k, val), src: p.src.clone(), cfg: merge_cfg(&p.cfg, &[(k.to_string(), val.to_string())]), ordered: false, context: None });
        }
    }
    v
}

#[derive(Debug, Clone, PartialEq)]
enum Verdict {
    /// the run is judged: request for the Lean oracle and what the harness itself saw
    Judged { request: String, lost_reported: bool, context_kept: bool },
    NotJudged(&'static str),
}

fn enc_texts(v: &[String]) -> String {
    enc_list(v)
}

fn judge(e: &Elem, r: &pool::FmtOut) -> Verdict {
    match &r.status {
        Status::Ok => {}
        Status::Timeout => return Verdict::NotJudged("timeout"),
        Status::Err(_) => return Verdict::NotJudged("error-returned"),
        Status::Panic(_) | Status::Died(_) => return Verdict::NotJudged("crash(C16)"),
        Status::BadConfig(_) => return Verdict::NotJudged("bad-config"),
        Status::Infra(_) => return Verdict::NotJudged("infra"),
    }
    // has_operational_errors is also set by the line-overflow and trailing-whitespace diagnostics of
    // format_lines: those runs produced their output and are judged; a parse error is not
    if r.flags[1] {
        return Verdict::NotJudged("parse-error");
    }
    if r.out.is_empty() && !e.src.trim().is_empty() {
        return Verdict::NotJudged("no-output");
    }
    let ins = nondoc_comments(&e.src);
    let outs = nondoc_comments(&r.out);
    let op = if rewriting(&e.cfg) { "cm.words" } else { "cm.preserved" };
    let mode = if e.ordered { "o" } else { "m" };
    let lost_reported = r.entries.iter().any(|x| x.kind == "LostComment");
    let context_kept = match &e.context {
        Some(c) => r.out.contains(c.as_str()),
        None => true,
    };
    Verdict::Judged { request: format!("{} {} {} {}", op, mode, enc_texts(&ins), enc_texts(&outs)), lost_reported, context_kept }
}

fn load_dirty() -> HashSet<String> {
    let text = std::fs::read_to_string("corpus/c03_dirty.txt").or_else(|_| std::fs::read_to_string("/verif/corpus/c03_dirty.txt")).unwrap_or_default();
    text.lines().map(|l| l.trim().to_string()).filter(|l| !l.is_empty() && !l.starts_with('#')).collect()
}

/// runs the elements and the Lean oracle directly (measurement mode): ids of the failing ones
fn measure(elems: &[Elem], timeout: Duration) -> Vec<(String, String)> {
    let mut bad = vec![];
    for chunk in elems.chunks(20000) {
        let jobs_v: Vec<Job> = chunk.iter().map(|e| Job { src: e.src.clone(), cfg: e.cfg.clone(), file_lines: None }).collect();
        let res = pool::run_jobs(&jobs_v, jobs(), timeout);
        let mut why: BTreeMap<String, usize> = BTreeMap::new();
        for r in &res {
            *why.entry(format!("{:?}", r.status).chars().take(40).collect()).or_insert(0) += 1;
        }
        eprintln!("batch of {}: {:?}", chunk.len(), why);
        let mut reqs = vec![];
        let mut idx = vec![];
        for (i, (e, r)) in chunk.iter().zip(res.iter()).enumerate() {
            if let Verdict::Judged { request, lost_reported, context_kept } = judge(e, r) {
                reqs.push(request);
                idx.push(i);
                if lost_reported && !context_kept {
                    bad.push((e.id.clone(), "lost-reported-but-context-changed".to_string()));
                }
            }
        }
        let ans = run_model(&reqs, jobs());
        for (k, a) in ans.iter().enumerate() {
            if a != "ok" {
                bad.push((chunk[idx[k]].id.clone(), a.clone()));
            }
        }
    }
    bad
}

fn hole_key(id: &str) -> String {
    // g|<template>|h<idx>:<tag>|<style>|w..|opt  ->  <template>/<tag>/h<idx>
    let p: Vec<&str> = id.split('|').collect();
    if p.len() >= 3 && p[0] == "g" {
        let (h, tag) = p[2].split_once(':').unwrap_or((p[2], "?"));
        format!("{}/{}/{}", p[1], tag, h)
    } else if p.len() >= 2 {
        p[1].to_string()
    } else {
        id.to_string()
    }
}

fn part_search(o: &mut Outcome, rng: &mut Rng, tier: &str) {
    let thorough = tier == "thorough";
    let ts = templates();
    let progs = corpus::programs(&["tests/target", "tests/source"]);
    let dirty = load_dirty();
    let timeout = Duration::from_secs(if thorough { 30 } else { 10 });
    if tier == "sweep-gen" || tier == "sweep-fix" {
        // measurement mode (not a registered check): prints every failing element of the universe
        let all = if tier == "sweep-gen" { gen_universe(&ts) } else { fixture_universe(&progs) };
        eprintln!("{} elements", all.len());
        for (id, why) in measure(&all, Duration::from_secs(30)) {
            println!("{}\t{}", id, why);
        }
        return;
    }
    let nholes: usize = ts.iter().map(|t| t.holes.len()).sum();
    o.count_n("gen:holes", nholes as u64);
    o.count_n("gen:universe", (nholes * styles_of(&ts).len() * GEN_WIDTHS.len() * GEN_OPTS.len()) as u64);
    // the elements of this run: every (hole, style) with 4 (quick) / 60 (thorough) seeded (width, option
    // set) choices out of 300; the whole universe (2,671,500 elements) is run by `--tier sweep-gen`
    let mut chosen: Vec<Elem> = vec![];
    let mut seen: HashSet<String> = HashSet::new();
    let ts_ref: &[Template] = &ts;
    let reps = if thorough { 60 } else { 4 };
    for t in &ts {
        for hi in 0..t.holes.len() {
            for style in &styles_of(ts_ref) {
                for _ in 0..reps {
                    let w = *rng.pick(GEN_WIDTHS);
                    let opt = rng.pick(GEN_OPTS).0;
                    if known_dirty_shape(style, opt, &t.holes[hi].tag).is_some() {
                        o.count("gen:known-dirty-shape-not-sampled");
                        continue;
                    }
                    let e = gen_elem(t, hi, style, w, opt);
                    if !dirty.contains(&e.id) && seen.insert(e.id.clone()) {
                        chosen.push(e);
                    }
                }
            }
        }
    }
    let fix = fixture_universe(&progs);
    o.count_n("fix:universe", fix.len() as u64);
    o.count_n("dirty:listed", dirty.len() as u64);
    let fix_clean: Vec<&Elem> = fix.iter().filter(|e| !dirty.contains(&e.id)).collect();
    if thorough {
        chosen.extend(fix_clean.iter().map(|e| (*e).clone()));
    } else {
        // every base element + a seeded sample of the variants
        for e in fix_clean.iter().filter(|e| e.id.ends_with("|base")) {
            chosen.push((*e).clone());
        }
        let rest: Vec<&&Elem> = fix_clean.iter().filter(|e| !e.id.ends_with("|base")).collect();
        for _ in 0..1200usize.min(rest.len()) {
            let e = (**rng.pick(&rest)).clone();
            if seen.insert(e.id.clone()) {
                chosen.push(e);
            }
        }
    }
    // batches: the oracle answers are computed per batch so that only the failing requests (and a
    // few passing ones as samples) are kept in memory; Outcome::finish evaluates those again
    let mut kept_passing = 0usize;
    for chunk in chosen.chunks(20000) {
        let jobs_v: Vec<Job> = chunk.iter().map(|e| Job { src: e.src.clone(), cfg: e.cfg.clone(), file_lines: None }).collect();
        let res = pool::run_jobs(&jobs_v, jobs(), timeout);
        let mut reqs: Vec<String> = vec![];
        let mut meta: Vec<(usize, bool)> = vec![];
        for (i, (e, r)) in chunk.iter().zip(res.iter()).enumerate() {
            let fam = if e.id.starts_with("g|") { "gen" } else { "fix" };
            match judge(e, r) {
                Verdict::Judged { request, lost_reported, context_kept } => {
                    o.count(&format!("{}:judged", fam));
                    reqs.push(request);
                    meta.push((i, r.out != e.src));
                    if lost_reported {
                        o.count(&format!("{}:lost-comment-reported", fam));
                        o.direct_evals += 1;
                        if !context_kept {
                            o.direct_failures.push(json!({"sig": format!("c03:lost-comment-reported-but-rewritten:{}", hole_key(&e.id)), "what": "the report carries LostComment but the tokens around the comment were not left as written", "case": e.id, "config": cfg_text(&e.cfg), "src": e.src, "out": r.out}));
                        }
                    }
                }
                Verdict::NotJudged(why) => o.count(&format!("{}:not-judged:{}", fam, why)),
            }
        }
        let answers = run_model(&reqs, jobs());
        for ((req, ans), (i, changed)) in reqs.into_iter().zip(answers.iter()).zip(meta.iter()) {
            let e = &chunk[*i];
            let op = if req.starts_with("cm.words") { "cm.words(real)" } else { "cm.preserved(real)" };
            if ans != "ok" || kept_passing < 3000 {
                if ans == "ok" {
                    kept_passing += 1;
                }
                o.push("oracle", op, req, "ok".into(), format!("{} [{}]", e.id, cfg_text(&e.cfg)), *changed);
            } else {
                o.direct_evals += 1;
                if *changed {
                    o.direct_distinct += 1;
                }
                o.count(&format!("oracle:{}:ok(batch)", op));
            }
        }
    }
    if let Some(e) = chosen.first() {
        o.sample(json!({"case": e.id, "config": cfg_text(&e.cfg), "src": e.src}));
    }
    // the listed dirty elements as enumerated probes, grouped by hole / fixture
    let mut dirty_elems: Vec<Elem> = vec![];
    for id in &dirty {
        let p: Vec<&str> = id.split('|').collect();
        if p.len() == 6 && p[0] == "g" {
            if let Some(t) = ts.iter().find(|t| t.name == p[1]) {
                let hi: usize = p[2].split(':').next().unwrap_or("")[1..].parse().unwrap_or(usize::MAX);
                let w: usize = p[4][1..].parse().unwrap_or(0);
                if hi < t.holes.len() && STYLES.contains(&p[3]) && w > 0 {
                    let e = gen_elem(t, hi, p[3], w, p[5]);
                    if e.id == *id {
                        dirty_elems.push(e);
                    }
                }
            }
        } else if let Some(e) = fix.iter().find(|e| e.id == *id) {
            dirty_elems.push(e.clone());
        }
    }
    dirty_elems.sort_by(|a, b| a.id.cmp(&b.id));
    // quick: at most 12 listed elements per group
    let mut per: BTreeMap<String, Vec<Elem>> = BTreeMap::new();
    for e in dirty_elems {
        let k = probe_group(&e.id);
        let v = per.entry(k).or_default();
        if thorough || v.len() < 12 {
            v.push(e);
        }
    }
    let flat: Vec<Elem> = per.values().flatten().cloned().collect();
    let bad: HashSet<String> = measure(&flat, timeout).into_iter().map(|(id, _)| id).collect();
    // the two known findings as hand-written inputs too (independent of the dirty list)
    let fixed: Vec<(&str, Elem)> = vec![
        ("W1", Elem { id: "probe|W1".into(), src: "struct S1 {\n    /* c03m1 alpha1 beta gamma */\n    /* c03m2 alpha2 beta gamma */\n    a: u32,\n}\n".into(), cfg: vec![("wrap_comments".into(), "true".into()), ("max_width".into(), "20".into())], ordered: true, context: None }),
        ("W2", Elem { id: "probe|W2".into(), src: "fn p1( /* c03m1 alpha1 beta gamma */  // c03m2 alpha2 beta gamma\n    a: u32, b: u32, c: u32) {}\n".into(), cfg: vec![("wrap_comments".into(), "true".into()), ("max_width".into(), "25".into())], ordered: true, context: None }),
    ];
    for fam in ["N1", "E1"] {
        let elems = family_probe_elems(&ts, fam, if thorough { 400 } else { 60 });
        let bad = measure(&elems, timeout);
        o.probes.push(json!({"id": format!("C03-{}", fam), "fails": !bad.is_empty(), "what": format!("{} of {} enumerated elements of shape {} fail; first: {}", bad.len(), elems.len(), fam, bad.first().map(|x| format!("{} {}", x.0, x.1)).unwrap_or_default()), "detail": bad.first().and_then(|x| elems.iter().find(|e| e.id == x.0)).map(|e| json!({"src": e.src, "config": cfg_text(&e.cfg)}))}));
    }
    for (k, e) in &fixed {
        let r = measure(&[e.clone()], timeout);
        o.probes.push(json!({"id": format!("C03-{}", k), "fails": !r.is_empty(), "what": format!("hand-written input of finding {}: {}", k, r.first().map(|x| x.1.clone()).unwrap_or_else(|| "comments preserved".into())), "detail": {"src": e.src, "config": cfg_text(&e.cfg)}}));
    }
    for (k, v) in &per {
        let failing: Vec<&Elem> = v.iter().filter(|e| bad.contains(&e.id)).collect();
        o.probes.push(json!({"id": format!("C03-{}", k), "fails": !failing.is_empty(), "what": format!("{} of {} listed elements run; first failing: {}", failing.len(), v.len(), failing.first().map(|e| e.id.clone()).unwrap_or_default()), "detail": failing.first().map(|e| json!({"src": e.src, "config": cfg_text(&e.cfg)}))}));
    }
}

/// The shapes of the generated universe that are dirty on the pinned tree (known findings; every failing
/// element of the last complete sweep falls under one of them, and nothing else fails):
///  W1  a block comment followed by a block comment on a later line, W2 `/* a */ // b` on one line: both
///      re-flowed as ONE block comment by identify_comment under wrap_comments / normalize_comments;
///  N1  a banner comment (`/*** c ***/`, `/**** c */`, `/******** c ********/`, boxed multi-line): an
///      ordinary comment for rustc_lexer, but comment_style() takes `/**` for a doc opener, so under
///      wrap_comments / normalize_comments it is rewritten as a DOC comment (`/// * c **`, `/** * c ** */`);
///  E1  an empty comment (`/**/`, `/***/`) inside a body statement: its payload is empty, so the safety net
///      cannot see that the rewrite dropped it.
/// The seed-dependent generator stays away from these shapes; each runs as an enumerated probe.
fn known_dirty_shape(style: &str, opt: &str, tag: &str) -> Option<&'static str> {
    let reflow = matches!(opt, "wrap" | "wrapnorm" | "norm");
    match style {
        "BB" if reflow => Some("W1"),
        "BL" if reflow => Some("W2"),
        "B3" | "B4" | "B8" | "BX" if reflow => Some("N1"),
        "BE" | "BE3" if tag == "X" => Some("E1"),
        _ => None,
    }
}

/// a fixed, seed-independent sample of the elements of a dirty shape (every 5th hole of every template,
/// widths 20 / 50 / 100, the option sets of the shape), at most `cap`
fn family_probe_elems(ts: &[Template], family: &str, cap: usize) -> Vec<Elem> {
    let mut v = vec![];
    for t in ts {
        for hi in (0..t.holes.len()).step_by(5) {
            let tag = t.holes[hi].tag.clone();
            for style in styles_of(ts) {
                for opt in ["base", "wrap", "norm"] {
                    if known_dirty_shape(style, opt, &tag) != Some(match family { "N1" => "N1", "E1" => "E1", "W1" => "W1", _ => "W2" }) {
                        continue;
                    }
                    for w in [20usize, 50, 100] {
                        v.push(gen_elem(t, hi, style, w, opt));
                    }
                }
            }
        }
    }
    // spread over the templates: take every k-th
    let k = (v.len() / cap).max(1);
    v.into_iter().step_by(k).take(cap).collect()
}

/// the probe (= known finding) a listed dirty element belongs to
fn probe_group(id: &str) -> String {
    let p: Vec<&str> = id.split('|').collect();
    if p[0] == "g" && p.len() == 6 {
        if let Some(f) = known_dirty_shape(p[3], p[5], p[2].split(':').nth(1).unwrap_or("?")) {
            return f.to_string();
        }
        // any other listed element of the generated universe gets a probe of its own template and
        // position class (none on the pinned tree)
        let tag = p[2].split(':').nth(1).unwrap_or("?");
        format!("gen-{}-{}", p[1], tag)
    } else {
        "FX".to_string()
    }
}

pub fn run(tier: &str, seed: u64, out: &Path) -> i32 {
    if let Ok(d) = std::env::var("C03_DEBUG_RECOVER") {
        // debugging aid: one call of the recover hook with the default panic hook
        let r = hc::recover_comment_removed("x /* a */", &d, true);
        eprintln!("{:?}", r);
        return 0;
    }
    if std::env::var("C03_HOLES").is_ok() {
        // debugging aid: the holes of every template
        for t in templates() {
            for (i, h) in t.holes.iter().enumerate() {
                let a = t.text[..h.pos].chars().rev().take(14).collect::<Vec<_>>().into_iter().rev().collect::<String>();
                let b: String = t.text[h.pos..].chars().take(14).collect();
                println!("{} h{} {} {:?} | {:?}", t.name, i, h.tag, a, b);
            }
        }
        return 0;
    }
    if let Ok(id) = std::env::var("C03_SHOW") {
        // debugging aid: prints one generated element and what the formatter makes of it
        let ts = templates();
        let p: Vec<&str> = id.split('|').collect();
        let t = ts.iter().find(|t| t.name == p[1]).expect("template");
        let hi: usize = p[2].split(':').next().unwrap()[1..].parse().unwrap();
        let e = gen_elem(t, hi, p[3], p[4][1..].parse().unwrap(), p[5]);
        pool::install_panic_hook();
        let r = pool::format_here(&Job { src: e.src.clone(), cfg: e.cfg.clone(), file_lines: None });
        println!("--- source [{}]\n{}--- output status={:?} flags={:?} entries={:?}\n{}", cfg_text(&e.cfg), e.src, r.status, r.flags, r.entries.iter().map(|x| (x.line, x.kind.clone())).collect::<Vec<_>>(), r.out);
        let r2 = pool::run_jobs(&[Job { src: e.src.clone(), cfg: e.cfg.clone(), file_lines: None }], 1, Duration::from_secs(10)).remove(0);
        println!("--- through the pool: status={:?} same output: {}; verdict {:?}", r2.status, r2.out == r.out, judge(&e, &r2));
        let bad = measure(&[e.clone()], Duration::from_secs(10));
        println!("--- oracle: {:?}", bad);
        return 0;
    }
    pool::install_panic_hook();
    let mut o = Outcome::new("C03", tier, seed);
    let thorough = tier == "thorough";
    let mut rng = Rng::new(seed ^ 0xc03);
    let which = std::env::var("C03_PARTS").unwrap_or_else(|_| "corr,search".into());
    let mut r1 = rng.fork();
    let mut r2 = rng.fork();
    if tier.starts_with("sweep") {
        part_search(&mut o, &mut r2, tier);
        return 0;
    }
    if which.contains("corr") {
        part_corr(&mut o, &mut r1, thorough);
        let mut r3 = r1.fork();
        part_must_change(&mut o, &mut r3, thorough);
    }
    if which.contains("search") {
        part_search(&mut o, &mut r2, tier);
    }
    o.notes.push("generated universe = 17 templates x holes x 13 comment styles x 10 widths x 30 option sets: quick runs every (hole, style) with 4 seeded (width, option set) choices, thorough with 60 (the whole universe of 2,671,500 elements was measured clean with --tier sweep-gen); fixture universe = fixtures with a non-doc comment x {base, 7 widths, 20 option singles}; elements listed in corpus/c03_dirty.txt run as probes".into());
    // the list machinery (itemizing of gaps, write_list with its comment oracles) and comment re-flowing (StringFmt / CommentFmt)
    {
        let th = tier == "thorough";
        let mut r = Rng::new(seed ^ 0x1157);
        crate::lists_corr::itemize_cases(&mut o, &mut r, th);
        crate::lists_corr::cases(&mut o, &mut r, th);
        crate::strings_corr::cases_c03(&mut o, &mut r, th);
        crate::missed_corr::cases_c03(&mut o, &mut r, th);
        crate::vertical_corr::cases(&mut o, &mut r, th);
        crate::attrs_corr::cases(&mut o, &mut r, th);
    }
    o.finish(out, jobs())
}
