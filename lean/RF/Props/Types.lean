import RF.Model.Types
import RF.Lemmas.Types
/-!
TYPES — what is proved about the composition logic of `src/types.rs` (`RF/Model/Types.lean`).

`types_tokens_preserved` (and its siblings for bounds, generic parameters and where predicates): for
EVERY tree, EVERY position and EVERY oracle (= every combination of outcomes of the layout heuristics:
which sub-rewrites return a text, which of two attempts is taken, whether `join_bounds` retries), the
rewriter of the code that exists now returns `none` (the caller keeps the source text) or exactly the
canonical tokens of the tree.  No piece is silently omitted.

The code before the repair of `rewrite_bound_params` does not satisfy it (`…_counterexample`, one per
caller); it does on trees whose binders hold lifetimes only (`…_partial`): the binders of stable Rust.
-/
namespace RF.Types
open RF.Tok

/-- The type rewriter (`impl Rewrite for ast::Ty`) never omits, adds, reorders or alters a token. -/
theorem types_tokens_preserved (abi : Bool) (fits : Piece → Bool) (p : Piece) (t : Ty) :
    rwTy ⟨false, abi, fits⟩ p t = none ∨ rwTy ⟨false, abi, fits⟩ p t = some (canonTy abi t) :=
  rwTy_ok ⟨false, abi, fits⟩ t p (Or.inl rfl)

/-- `impl Rewrite for ast::GenericBounds` / `join_bounds`. -/
theorem bounds_tokens_preserved (abi : Bool) (fits : Piece → Bool) (p : Piece) (bs : Bounds) :
    rwBoundsJoined ⟨false, abi, fits⟩ p bs = none
      ∨ rwBoundsJoined ⟨false, abi, fits⟩ p bs = some (sepBy plus (canonBounds abi bs)) :=
  joinB_ok _ (rwBounds_ok ⟨false, abi, fits⟩ bs _ 0 (Or.inl rfl)) (rwBounds_ok ⟨false, abi, fits⟩ bs _ 0 (Or.inl rfl))

/-- `impl Rewrite for ast::GenericParam`, item by item (`rewrite_bound_params` joins them with `, `). -/
theorem params_tokens_preserved (abi : Bool) (fits : Piece → Bool) (p : Piece) (i : Nat) (ps : Params) :
    rwParams ⟨false, abi, fits⟩ p i ps = none ∨ rwParams ⟨false, abi, fits⟩ p i ps = some (canonParams abi ps) :=
  rwParams_ok ⟨false, abi, fits⟩ ps p i (Or.inl rfl)

/-- The induction step for where predicates, for the repaired code and, on trees whose binders hold
lifetimes only, for the code before the repair. -/
theorem rwPred_ok (e : Env) (p : Piece) (w : Pred) (h : e.pinned = false ∨ lbPred w = true) :
    rwPred e p w = none ∨ rwPred e p w = some (canonPred e.abi w) := by
  cases w with
  | bound b t bs =>
    simp only [lbPred, Bool.and_eq_true] at h
    have h0 := rwTy_ok e t (p ++ [0]) (by grind)
    have hb : e.pinned = false ∨ lbBounds bs = true := by grind
    have h1 := binderPre_ok' e.pinned [kw "for", tP '<'] (rwParams_ok e b (p ++ [1]) 0 (by grind))
      (by rcases h with hh | hh
          · exact Or.inl hh
          · exact Or.inr (rwParams_lifetimes _ _ _ _ (by grind)))
    have h2 := pick_ok (e.fits (p ++ [4]))
      (joinB_ok (e.fits (p ++ [2] ++ [2])) (rwBounds_ok e bs (p ++ [2] ++ [0]) 0 hb)
        (rwBounds_ok e bs (p ++ [2] ++ [1]) 0 hb))
      (joinB_ok (e.fits (p ++ [3] ++ [2])) (rwBounds_ok e bs (p ++ [3] ++ [0]) 0 hb)
        (rwBounds_ok e bs (p ++ [3] ++ [1]) 0 hb))
    simp only [Ok, rwPred, canonPred, rwBoundsJoined, binderToks] at *
    rcases h0 with h0 | h0 <;> rcases h1 with h1 | h1 <;> rcases h2 with h2 | h2 <;> simp [h0, h1] <;> grind
  | region lt bs => simp only [rwPred, canonPred, att]; grind
  | eq l r =>
    simp only [lbPred, Bool.and_eq_true] at h
    have h0 := rwTy_ok e l (p ++ [0]) (by grind)
    have hr : e.pinned = false ∨ lbTy r = true := by grind
    have h1 := pick_ok (e.fits (p ++ [3])) (rwTy_ok e r (p ++ [1]) hr) (rwTy_ok e r (p ++ [2]) hr)
    simp only [Ok, rwPred, canonPred] at *
    rcases h0 with h0 | h0 <;> rcases h1 with h1 | h1 <;> simp [h0, h1]

/-- `impl Rewrite for ast::WherePredicate`. -/
theorem pred_tokens_preserved (abi : Bool) (fits : Piece → Bool) (p : Piece) (w : Pred) :
    rwPred ⟨false, abi, fits⟩ p w = none ∨ rwPred ⟨false, abi, fits⟩ p w = some (canonPred abi w) :=
  rwPred_ok ⟨false, abi, fits⟩ p w (Or.inl rfl)

/-! ### The code before the repair, on the trees of stable Rust

Binders that hold lifetimes only (`lbTy`, `lbPred`: decidable on the tree) always rewrite, so the old
`rewrite_bound_params` never returned its ambiguous `None` on them. -/

theorem types_tokens_preserved_partial (abi : Bool) (fits : Piece → Bool) (p : Piece) (t : Ty)
    (h : lbTy t = true) :
    rwTy ⟨true, abi, fits⟩ p t = none ∨ rwTy ⟨true, abi, fits⟩ p t = some (canonTy abi t) :=
  rwTy_ok ⟨true, abi, fits⟩ t p (Or.inr h)

theorem pred_tokens_preserved_partial (abi : Bool) (fits : Piece → Bool) (p : Piece) (w : Pred)
    (h : lbPred w = true) :
    rwPred ⟨true, abi, fits⟩ p w = none ∨ rwPred ⟨true, abi, fits⟩ p w = some (canonPred abi w) :=
  rwPred_ok ⟨true, abi, fits⟩ p w (Or.inr h)

/-- Non-vacuity of the hypothesis: `for<'a, 'b: 'a> fn(&'a T)` and `for<'a> T: Tr` are such trees. -/
example : lbTy (.bareFn (.lifetime "'a".toList [] (.lifetime "'b".toList ["'a".toList] .nil)) false .none
    (.cons none (.ref (some "'a".toList) false (.path false (.plain "T".toList .nil))) .nil) false .none) = true := by
  decide
example : lbPred (.bound (.lifetime "'a".toList [] .nil) (.path false (.plain "T".toList .nil))
    (.trait false .nil 0 false 0 false (.plain "Tr".toList .nil) .nil)) = true := by decide

/-! ### The code before the repair: a binder that does not fit is dropped

`T` with a trait bound is a parameter that can fail to rewrite (a lifetime cannot).  The oracle lets
every piece succeed except that parameter. -/

def nm (s : String) : Name := s.toList
/-- `T: Tr` as the only parameter of a binder -/
def binderT : Params := .type (nm "T") (.trait false .nil 0 false 0 false (.plain (nm "Tr") .nil) .nil) .none .nil
def tyT : Ty := .path false (.plain (nm "T") .nil)

/-- `for<T: Tr> fn(T)` came out as `fn(T)` (`rewrite_bare_fn`). -/
theorem types_tokens_preserved_counterexample :
    ∃ (fits : Piece → Bool) (t : Ty) (r : Toks),
      rwTy ⟨true, true, fits⟩ [] t = some r ∧ r ≠ canonTy true t ∧ r = [kw "fn", mkO '(', tI (nm "T"), mkC ')'] :=
  ⟨failing [[0, 0]], .bareFn binderT false .none (.cons none tyT .nil) false .none,
    [kw "fn", mkO '(', tI (nm "T"), mkC ')'], by decide⟩

/-- `unsafe<T: Tr> &T` came out as `&T`: another type (`TyKind::UnsafeBinder`). -/
theorem unsafe_binder_counterexample :
    ∃ (fits : Piece → Bool) (t : Ty) (r : Toks),
      rwTy ⟨true, true, fits⟩ [] t = some r ∧ r ≠ canonTy true t ∧ r = [tP '&', tI (nm "T")] :=
  ⟨failing [[0, 0]], .unsafeBinder binderT (.ref none false tyT), [tP '&', tI (nm "T")], by decide⟩

/-- `dyn for<T: Tr> Fn(T)` came out as `dyn Fn(T)` (`PolyTraitRef`). -/
theorem bounds_tokens_preserved_counterexample :
    ∃ (fits : Piece → Bool) (t : Ty) (r : Toks),
      rwTy ⟨true, true, fits⟩ [] t = some r ∧ r ≠ canonTy true t
        ∧ r = [kw "dyn", tI (nm "Fn"), mkO '(', tI (nm "T"), mkC ')'] :=
  ⟨failing [[0, 0, 0, 0], [1, 0, 0, 0]],
    .traitObj 1 (.trait false binderT 0 false 0 false (.fn (nm "Fn") (.cons tyT .nil) .none .nil) .nil),
    [kw "dyn", tI (nm "Fn"), mkO '(', tI (nm "T"), mkC ')'], by decide⟩

/-- `for<T: Tr> A: B` came out as `A: B` (`WherePredicate`). -/
theorem pred_tokens_preserved_counterexample :
    ∃ (fits : Piece → Bool) (w : Pred) (r : Toks),
      rwPred ⟨true, true, fits⟩ [] w = some r ∧ r ≠ canonPred true w
        ∧ r = [tI (nm "A"), tP ':', tI (nm "B")] :=
  ⟨failing [[1, 0]],
    .bound binderT (.path false (.plain (nm "A") .nil)) (.trait false .nil 0 false 0 false (.plain (nm "B") .nil) .nil),
    [tI (nm "A"), tP ':', tI (nm "B")], by decide⟩

/-- Non-vacuity: the repaired code, same trees, same oracles: the rewrite fails as a whole. -/
example : rwTy ⟨false, true, failing [[0, 0]]⟩ [] (.bareFn binderT false .none (.cons none tyT .nil) false .none) = none := by
  decide
example : rwPred ⟨false, true, failing [[1, 0]]⟩ []
    (.bound binderT (.path false (.plain (nm "A") .nil)) (.trait false .nil 0 false 0 false (.plain (nm "B") .nil) .nil))
    = none := by decide
/-- … and with every piece fitting it returns the canonical tokens, binder included. -/
example : rwTy ⟨false, true, fun _ => true⟩ [] (.bareFn binderT false .none (.cons none tyT .nil) false .none)
    = some [kw "for", tP '<', tI (nm "T"), tP ':', tI (nm "Tr"), tP '>', kw "fn", mkO '(', tI (nm "T"), mkC ')'] := by
  decide

end RF.Types
