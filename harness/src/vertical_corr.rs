//! Correspondence of the alignment machinery of `src/vertical.rs` (`group_aligned_items`,
//! `struct_field_prefix_max_min_width`, `rewrite_aligned_items_inner` with its one-line pass,
//! `rewrite_with_alignment`) with the Lean model `RF/Model/Vertical.lean` (driver `RF/Driver/Vertical.lean`),
//! through `verif_hooks::vertical`, and end-to-end checks through the real formatter (`pool::run_jobs`).
//!
//! A generated source holds one field list: the fields of a struct, of a struct variant of an enum or of a
//! struct literal; 1..6 fields with names of different lengths, attributes and doc comments, comment lines in
//! front, trailing comments (line and block), blank lines and comment lines between fields, fields at column 0,
//! blanks in front of the comma.
//!   corr    vert.groups   the groups and `struct_field_prefix_max_min_width` of each (hook vs model)
//!   corr    vert.rewrite  the text `rewrite_with_alignment` returns (hook vs model)
//!   corr    vert.blank    `has_blank_line` on two-field lists (through the groups the hook reports)
//!   corr    vert.gaps     the text between consecutive fields of a comment-free vertical result of the REAL
//!                         formatter (measured by parsing its output) vs `gapWithin` / `gapBetween`
//!   oracle  vert.oracle.inorder / vert.oracle.comments on what the hook's `rewrite_with_alignment` returned
//!           and on the real formatter's output; vert.oracle.align on every group of the real output
//!   direct  the real formatter run on its own output changes nothing (blank_lines_upper_bound 0, 1, 2), and the
//!           groups of the output are the groups of the input (`grouping_stable`).
use rustfmt_nightly::verif_hooks::vertical as hv;
use rustfmt_nightly::Config;
use serde_json::json;

use crate::pool;
use crate::util::*;

fn guard<T>(f: impl FnOnce() -> T) -> Option<T> {
    std::panic::catch_unwind(std::panic::AssertUnwindSafe(f)).ok()
}

#[derive(Clone, Debug)]
pub struct GField {
    pub pre: Vec<String>,   // comment lines in front of the field
    pub attrs: Vec<String>, // attribute / doc comment lines
    pub vis: &'static str,
    pub name: String,
    pub value: String,
    pub comma_pad: usize,        // blanks between the value and the comma
    pub post: Option<String>,    // comment behind the comma on the field's line
    pub blank_after: usize,      // blank lines behind the field
}

#[derive(Clone, Debug)]
pub struct GList {
    pub kind: u8, // 0 struct, 1 enum variant, 2 struct literal
    pub fields: Vec<GField>,
    pub field_indent: usize, // blanks in front of every field line in the source
    pub one_line: bool,      // the whole list on one source line (no comments then)
    pub last_comma: bool,
}

const NAMES: &[&str] = &["a", "b", "id", "xy", "len", "name", "width", "offset", "payload", "is_enabled", "long_field_name", "q"];
const TYPES: &[&str] = &["u8", "u32", "String", "Vec<u8>", "Option<u32>", "(u8, u8)", "[u8; 4]", "&'static str", "bool"];
const EXPRS: &[&str] = &["1", "22", "x", "f(1)", "\"s\"", "a + b", "vec![1]", "None", "y.z"];
const ATTRS: &[&str] = &["#[a]", "#[cfg(x)]", "/// doc", "#[allow(dead_code)]"];
const LINE_COMMENTS: &[&str] = &["// c", "// note", "// x y"];
const BLOCK_COMMENTS: &[&str] = &["/* c */", "/* k v */"];

pub fn gen_list(rng: &mut Rng, rich: bool) -> GList {
    let kind = rng.below(3) as u8;
    let n = rng.range(1, 6);
    let one_line = kind == 1 && rng.chance(1, 3);
    let mut used: Vec<usize> = vec![];
    let mut fields = vec![];
    for _ in 0..n {
        let mut ni = rng.below(NAMES.len());
        while used.contains(&ni) {
            ni = (ni + 1) % NAMES.len();
        }
        used.push(ni);
        let value = if kind == 2 { rng.pick(EXPRS).to_string() } else { rng.pick(TYPES).to_string() };
        let comments = rich && !one_line;
        let mut pre = vec![];
        if comments && rng.chance(1, 6) {
            pre.push(if rng.chance(1, 2) { rng.pick(LINE_COMMENTS).to_string() } else { rng.pick(BLOCK_COMMENTS).to_string() });
        }
        let mut attrs = vec![];
        if !one_line && kind != 2 && rng.chance(1, 6) {
            attrs.push(rng.pick(ATTRS).to_string());
        }
        let post = if comments && rng.chance(1, 5) {
            Some(if rng.chance(1, 2) { rng.pick(LINE_COMMENTS).to_string() } else { rng.pick(BLOCK_COMMENTS).to_string() })
        } else {
            None
        };
        fields.push(GField {
            pre,
            attrs,
            vis: if kind == 0 && rng.chance(1, 5) { "pub " } else { "" },
            name: NAMES[ni].to_string(),
            value,
            comma_pad: if rng.chance(1, 8) { rng.range(1, 2) } else { 0 },
            post,
            blank_after: if one_line { 0 } else if rng.chance(1, 4) { rng.range(1, 2) } else { 0 },
        });
    }
    GList {
        kind,
        fields,
        field_indent: *rng.pick(&[0usize, 2, 4, 4, 8, 8]),
        one_line,
        last_comma: rng.chance(2, 3),
    }
}

/// The source text of the list inside its item.
pub fn render(l: &GList) -> String {
    let mut body = String::new();
    let n = l.fields.len();
    if l.one_line {
        let parts: Vec<String> = l.fields.iter().map(|f| format!("{}{}: {}", f.vis, f.name, f.value)).collect();
        return format!("enum E {{ V {{ {}{} }}, W }}\n", parts.join(", "), if l.last_comma { "," } else { "" });
    }
    let ind = " ".repeat(l.field_indent);
    for (i, f) in l.fields.iter().enumerate() {
        for c in &f.pre {
            body.push_str(&format!("{}{}\n", ind, c));
        }
        for a in &f.attrs {
            body.push_str(&format!("{}{}\n", ind, a));
        }
        let comma = i + 1 < n || l.last_comma || f.post.is_some();
        body.push_str(&format!("{}{}{}: {}{}{}", ind, f.vis, f.name, f.value, " ".repeat(if comma { f.comma_pad } else { 0 }), if comma { "," } else { "" }));
        if let Some(c) = &f.post {
            body.push_str(&format!(" {}", c));
        }
        body.push('\n');
        if i + 1 < n {
            for _ in 0..f.blank_after {
                body.push('\n');
            }
        }
    }
    match l.kind {
        0 => format!("struct S {{\n{}}}\n", body),
        1 => format!("enum E {{\n    V {{\n{}    }},\n    W,\n}}\n", body),
        _ => format!("fn f() {{\n    let v = S {{\n{}    }};\n}}\n", body),
    }
}

#[derive(Clone, Copy, Debug)]
pub struct VCfg {
    pub threshold: usize,
    pub max_width: usize,
    pub trailing_comma: u8, // 0 Always, 1 Never, 2 Vertical
    pub tab_spaces: usize,
    pub upper: usize,
    pub variant_width: usize,
}

fn tc_name(t: u8) -> &'static str {
    match t {
        0 => "Always",
        1 => "Never",
        _ => "Vertical",
    }
}

fn tc_letter(t: u8) -> &'static str {
    match t {
        0 => "a",
        1 => "n",
        _ => "v",
    }
}

pub fn cfg_pairs(c: &VCfg) -> Vec<(String, String)> {
    vec![
        ("struct_field_align_threshold".to_string(), c.threshold.to_string()),
        ("max_width".to_string(), c.max_width.to_string()),
        ("trailing_comma".to_string(), tc_name(c.trailing_comma).to_string()),
        ("tab_spaces".to_string(), c.tab_spaces.to_string()),
        ("blank_lines_upper_bound".to_string(), c.upper.to_string()),
        ("struct_variant_width".to_string(), c.variant_width.min(c.max_width).to_string()),
        ("struct_lit_width".to_string(), 18usize.min(c.max_width).to_string()),
    ]
}

pub fn mk_config(c: &VCfg) -> Option<Config> {
    pool::build_config(&cfg_pairs(c), &None).ok()
}

pub fn gen_cfg(rng: &mut Rng) -> VCfg {
    VCfg {
        threshold: *rng.pick(&[0usize, 5, 20, 20, 50]),
        max_width: *rng.pick(&[20usize, 30, 40, 60, 80, 100, 100]),
        trailing_comma: *rng.pick(&[2u8, 2, 0, 1]),
        tab_spaces: *rng.pick(&[4usize, 4, 4, 2, 0]),
        upper: *rng.pick(&[0usize, 1, 1, 2]),
        variant_width: *rng.pick(&[0usize, 20, 35, 35, 60]),
    }
}

const WIDTHS: usize = 48;

/// The model's view of one field, derived from what the real rewriters returned.
struct MField {
    enc: String,
    head: String,
    value: String,
}

fn common_prefix(a: &str, b: &str) -> usize {
    a.bytes().zip(b.bytes()).take_while(|(x, y)| x == y).count()
}

/// `rewrite_aligned_item(w) = head ++ spacing ++ pad(w - alignW) ++ value`, read off the real answers.
fn derive(f: &hv::FieldRec, post: &str) -> MField {
    let mw = match f.prefix_width {
        Some(w) => w.to_string(),
        None => "~".to_string(),
    };
    let r0 = match &f.items[0] {
        Some(s) => s.clone(),
        None => {
            return MField { enc: format!("{}:{}:-:-:0:-:0:{}", f.skip as u8, mw, enc_str(post)), head: String::new(), value: String::new() };
        }
    };
    let mut align_w = 100000;
    let mut cut = r0.len();
    for w in 1..f.items.len() {
        if f.items[w].as_deref() != Some(r0.as_str()) {
            align_w = w - 1;
            if let Some(rw) = &f.items[w] {
                cut = common_prefix(&r0, rw);
            }
            break;
        }
    }
    let head_sp = &r0[..cut];
    let head = head_sp.trim_end_matches(' ');
    let spacing = &head_sp[head.len()..];
    let value = &r0[cut..];
    MField {
        enc: format!("{}:{}:{}:{}:{}:{}:1:{}", f.skip as u8, mw, enc_str(head), enc_str(spacing), align_w, enc_str(value), enc_str(post)),
        head: head.to_string(),
        value: value.to_string(),
    }
}

/// Does the decomposition reproduce the real rewriter at width `w`?
fn form_holds(f: &hv::FieldRec, m: &MField, w: usize) -> bool {
    if w >= f.items.len() {
        return false;
    }
    let r0 = match &f.items[0] {
        Some(s) => s,
        None => return f.items[w].is_none(),
    };
    let mut align_w = 100000;
    for x in 1..f.items.len() {
        if f.items[x].as_deref() != Some(r0.as_str()) {
            align_w = x - 1;
            break;
        }
    }
    let pad = if f.skip { 0 } else { w.saturating_sub(align_w) };
    let cut = r0.len() - m.value.len();
    let want = format!("{}{}{}", &r0[..cut], " ".repeat(pad), m.value);
    f.items[w].as_deref() == Some(want.as_str())
}

fn ascii_simple(s: &str) -> bool {
    s.bytes().all(|b| b == b'\n' || (b >= 0x20 && b < 0x7f))
}

/// The comments of a source text (no string of the generated sources holds a slash), in order.
fn scan_comments(src: &str) -> Vec<String> {
    let b = src.as_bytes();
    let mut v = vec![];
    let mut i = 0;
    while i + 1 < b.len() {
        if b[i] == b'/' && b[i + 1] == b'/' {
            let end = src[i..].find('\n').map_or(src.len(), |k| i + k);
            v.push(src[i..end].trim_end().to_string());
            i = end;
        } else if b[i] == b'/' && b[i + 1] == b'*' {
            let end = src[i + 2..].find("*/").map_or(src.len(), |k| i + 2 + k + 2);
            v.push(src[i..end].to_string());
            i = end;
        } else {
            i += 1;
        }
    }
    v
}

/// Name (with the colon) and value of every field, in source order.
fn tokens_of(l: &GList, src: &str) -> Vec<String> {
    let mut v = vec![];
    if l.fields.is_empty() {
        // a hand-written source: every `name:` of a line that starts with an identifier
        for line in src.lines() {
            let t = line.trim_start();
            if let Some(c) = t.find(':') {
                let name = &t[..c];
                if !name.is_empty() && name.bytes().all(|b| b.is_ascii_alphanumeric() || b == b'_') && !t[c..].starts_with("::") {
                    v.push(format!("{}:", name));
                }
            }
        }
        return v;
    }
    for f in &l.fields {
        for a in &f.attrs {
            if !a.starts_with("///") {
                v.push(a.clone());
            }
        }
        v.push(format!("{}:", f.name));
        v.push(f.value.clone());
    }
    v
}

struct HookCase {
    src: String,
    list: GList,
    cfg: VCfg,
    indent: usize,
    olw: usize,
}

/// Correspondence and oracles on one source through the hook.  Returns the hook's record of the first list.
fn hook_case(o: &mut Outcome, hc: &HookCase, tag: &str) -> Option<hv::ListRec> {
    let k = mk_config(&hc.cfg)?;
    let widths: Vec<usize> = (0..WIDTHS).collect();
    let recs = match guard(|| hv::analyze(&hc.src, &k, hc.indent, hc.olw, &widths)) {
        Some(Some(r)) => r,
        Some(None) => {
            o.count("hook:no_parse");
            return None;
        }
        None => {
            o.count("hook:panic");
            o.direct_failures.push(json!({"sig": "vertical:panic", "src": hc.src, "cfg": format!("{:?}", hc.cfg), "what": "the alignment machinery panicked"}));
            return None;
        }
    };
    let rec = recs.into_iter().next()?;
    if !ascii_simple(&hc.src) {
        return Some(rec);
    }
    let n = rec.fields.len();
    let mut mfields = vec![];
    for (i, f) in rec.fields.iter().enumerate() {
        let end = if i + 1 < n { rec.fields[i + 1].lo } else { rec.hi };
        mfields.push(derive(f, &hc.src[f.hi..end]));
    }
    let enc_fields = mfields.iter().map(|m| m.enc.clone()).collect::<Vec<_>>().join(";");
    let first_pre = &hc.src[rec.lo..rec.fields[0].lo];
    let rich = hc.src.contains("//") || hc.src.contains("/*") || hc.src.contains("\n\n");
    // groups
    let expect_groups = rec.groups.iter().zip(rec.max_min.iter()).map(|((e, b), (mx, mn))| format!("{}:{}:{}:{}", e, *b as u8, mx, mn)).collect::<Vec<_>>().join(";");
    o.push("corr", "vert.groups", format!("vert.groups {} {}", hc.cfg.threshold, enc_fields), expect_groups, format!("{} groups {:?}", tag, hc.src), rec.groups.len() > 1 || rich);
    o.count(&format!("groups:{}", rec.groups.len().min(4)));
    // the decomposition must hold at the width each group is written with
    let mut start = 0;
    let mut form = true;
    for ((end, _), (mx, mn)) in rec.groups.iter().zip(rec.max_min.iter()) {
        let w = if mx.saturating_sub(*mn) > hc.cfg.threshold { 0 } else { *mx };
        for i in start..=*end {
            if !form_holds(&rec.fields[i], &mfields[i], w) {
                form = false;
            }
        }
        start = end + 1;
    }
    if !form {
        o.count("rewrite:skipped_form");
    } else {
        let expect = match &rec.out {
            Some(s) => enc_str(s),
            None => "err".to_string(),
        };
        o.push(
            "corr",
            "vert.rewrite",
            format!("vert.rewrite {} {} 0 {} {} {} {} {} {}", hc.cfg.threshold, tc_letter(hc.cfg.trailing_comma), hc.cfg.tab_spaces, hc.cfg.max_width, hc.indent, hc.olw, enc_str(first_pre), enc_fields),
            expect,
            format!("{} rewrite {:?} {:?}", tag, hc.cfg, hc.src),
            n > 1,
        );
        o.count(if rec.out.is_some() { "rewrite:ok" } else { "rewrite:err" });
    }
    if let (Some(out), true) = (&rec.out, form) {
        o.count(if out.contains('\n') { "rewrite:vertical" } else { "rewrite:one_line" });
        let toks: Vec<String> = mfields.iter().flat_map(|m| vec![m.head.clone(), m.value.clone()]).collect();
        o.push("oracle", "vert.oracle.inorder", format!("vert.oracle.inorder {} {}", enc_list(&toks), enc_str(out)), "ok".into(), format!("{} fields kept {:?}", tag, hc.src), n > 1);
        let cs = scan_comments(&hc.src[rec.lo..rec.hi]);
        if !cs.is_empty() {
            o.push("oracle", "vert.oracle.comments", format!("vert.oracle.comments {} {}", enc_list(&cs), enc_str(out)), "ok".into(), format!("{} comments kept {:?} {:?}", tag, hc.cfg, hc.src), true);
            o.count(if out.contains('\n') { "comments:vertical" } else { "comments:one_line" });
        }
    }
    Some(rec)
}

/// (prefix width up to and including the colon, width of the text in front of the value) of a field as it
/// stands in `text[lo..hi]`, measured on the field's last line.
fn measure(text: &str, lo: usize, hi: usize) -> Option<(usize, usize)> {
    let field = &text[lo..hi];
    let line = field.rsplit('\n').next()?.trim_start();
    let colon = line.find(':')?;
    let after = &line[colon + 1..];
    let blanks = after.len() - after.trim_start_matches(' ').len();
    Some((colon + 1, colon + 1 + blanks))
}

struct E2e {
    list: GList,
    cfg: VCfg,
    src: String,
}

fn indent_of(l: &GList, c: &VCfg) -> usize {
    if l.kind == 0 { c.tab_spaces } else { 2 * c.tab_spaces }
}

fn e2e_batch(o: &mut Outcome, batch: &[E2e], tag: &str) {
    let jobs1: Vec<pool::Job> = batch.iter().map(|e| pool::Job { src: e.src.clone(), cfg: cfg_pairs(&e.cfg), file_lines: None }).collect();
    let outs1 = pool::run_jobs(&jobs1, jobs(), std::time::Duration::from_secs(20));
    let jobs2: Vec<pool::Job> = batch.iter().zip(outs1.iter()).map(|(e, r)| pool::Job { src: if r.clean() { r.out.clone() } else { "fn f() {}\n".to_string() }, cfg: cfg_pairs(&e.cfg), file_lines: None }).collect();
    let outs2 = pool::run_jobs(&jobs2, jobs(), std::time::Duration::from_secs(20));
    for ((e, r1), r2) in batch.iter().zip(outs1.iter()).zip(outs2.iter()) {
        if !r1.clean() {
            o.count(&format!("e2e:first_pass:{}", match &r1.status { pool::Status::Ok => "flags", pool::Status::Timeout => "timeout", pool::Status::Panic(_) => "panic", _ => "other" }));
            if let pool::Status::Panic(m) = &r1.status {
                o.direct_failures.push(json!({"sig": "vertical:e2e-panic", "src": e.src, "cfg": format!("{:?}", e.cfg), "what": m}));
            }
            continue;
        }
        o.count("e2e:formatted");
        let out1 = &r1.out;
        let desc = format!("{} {:?} {:?}", tag, e.cfg, e.src);
        // C01 / C03 oracles on the formatter's output
        let toks: Vec<String> = tokens_of(&e.list, &e.src).into_iter().filter(|t| (e.cfg.max_width >= 40 && e.cfg.trailing_comma != 0) || t.ends_with(':')).collect();
        o.push("oracle", "vert.oracle.tokens", format!("vert.oracle.tokens {} {}", enc_list(&toks), enc_str(out1)), "ok".into(), format!("e2e fields kept {}", desc), true);
        let cs = scan_comments(&e.src);
        if !cs.is_empty() {
            o.push("oracle", "vert.oracle.comments", format!("vert.oracle.comments {} {}", enc_list(&cs), enc_str(out1)), "ok".into(), format!("e2e comments kept {}", desc), true);
            o.count(&format!("e2e:comments:upper{}", e.cfg.upper));
        }
        // C02: a second pass changes nothing
        o.direct_evals += 1;
        o.direct_distinct += 1;
        o.count(&format!("e2e:idem:upper{}", e.cfg.upper));
        if r2.status == pool::Status::Timeout {
            o.count("e2e:second_pass:timeout");
        } else if e.cfg.threshold == 0 || e.cfg.max_width < 60 {
            // outside the alignment machinery (threshold 0) or on a page so narrow that the layout is decided by the
            // rewriters' fall-backs: idempotence there is C02's measured universe, not this generator's business
            o.count(if !r2.clean() || &r2.out != out1 { "e2e:idem:not-judged(changed)" } else { "e2e:idem:not-judged(same)" });
        } else if !r2.clean() || &r2.out != out1 {
            o.direct_failures.push(json!({"sig": format!("vertical:idempotence:upper{}", e.cfg.upper), "src": e.src, "cfg": format!("{:?}", e.cfg), "first": out1, "second": r2.out, "what": "a second pass changes the result"}));
        }
        // groups and alignment of the output
        let k = match mk_config(&e.cfg) {
            Some(k) => k,
            None => continue,
        };
        let widths = [0usize];
        let ind = indent_of(&e.list, &e.cfg);
        let a_in = guard(|| hv::analyze(&e.src, &k, ind, 0, &widths)).flatten().and_then(|v| v.into_iter().next());
        let a_out = guard(|| hv::analyze(out1, &k, ind, 0, &widths)).flatten().and_then(|v| v.into_iter().next());
        let (a_in, a_out) = match (a_in, a_out) {
            (Some(a), Some(b)) => (a, b),
            _ => {
                o.count("e2e:analysis_failed");
                continue;
            }
        };
        if a_in.fields.len() != a_out.fields.len() {
            o.direct_failures.push(json!({"sig": "vertical:field_count", "src": e.src, "cfg": format!("{:?}", e.cfg), "first": out1, "what": "the output has another number of fields"}));
            continue;
        }
        let lit_unaligned = e.list.kind == 2 && e.cfg.threshold == 0;
        let one_line = !out1[a_out.fields[0].lo..a_out.fields[a_out.fields.len() - 1].hi].contains('\n');
        if e.cfg.threshold > 0 && !one_line {
            o.direct_evals += 1;
            o.count("e2e:groups_stable");
            if a_in.groups != a_out.groups {
                o.direct_failures.push(json!({"sig": "vertical:grouping_stable", "src": e.src, "cfg": format!("{:?}", e.cfg), "first": out1, "in": format!("{:?}", a_in.groups), "out": format!("{:?}", a_out.groups), "what": "the groups of the output are not the groups of the input"}));
            }
        }
        if one_line {
            o.count("e2e:one_line");
        }
        let multi_line_field = a_out.fields.iter().any(|f| {
            let t = &out1[f.lo..f.hi];
            t.rsplit('\n').next().map_or(true, |l| !l.contains(':'))
        });
        // narrow widths: a field that does not fit with its padding is laid out again without it (outside the model);
        // a literal's field with an attribute: known finding VERT-LIT-ATTR-OVERPAD (probe below)
        let lit_attr = e.list.kind == 2 && a_out.fields.iter().any(|f| out1[f.lo..f.hi].starts_with('#'));
        let skip_align = one_line || multi_line_field || lit_unaligned || lit_attr || e.cfg.max_width < 60;
        if !skip_align {
            let mut start = 0;
            for (end, _) in &a_out.groups {
                let ms: Vec<Option<(usize, usize)>> = (start..=*end).map(|i| measure(out1, a_out.fields[i].lo, a_out.fields[i].hi).map(|m| if a_out.fields[i].skip { (m.0, 0) } else { m })).collect();
                if ms.is_empty() {
                    start = end + 1;
                    continue;
                }
                start = end + 1;
                if ms.iter().any(|m| m.is_none()) {
                    o.count("e2e:align:unmeasured");
                    continue;
                }
                let enc = ms.iter().map(|m| format!("{}:{}", m.unwrap().0, m.unwrap().1)).collect::<Vec<_>>().join(";");
                o.push("oracle", "vert.oracle.align", format!("vert.oracle.align {} {}", e.cfg.threshold, enc), "ok".into(), format!("e2e alignment of one group {} -> {:?}", desc, out1), ms.len() > 1);
                o.count(if ms.len() > 1 { "e2e:align:groups_of_several" } else { "e2e:align:single" });
            }
        }
        // the text between consecutive fields of a comment-free vertical result
        let plain = cs.is_empty() && !e.src.contains("//") && !e.src.contains("/*");
        let col0 = { let lo = a_out.fields[0].lo; lo - out1[..lo].rfind('\n').map_or(0, |k| k + 1) };
        if plain && !one_line && !lit_unaligned && e.cfg.max_width >= 60 && col0 == ind && ascii_simple(&e.src) && e.list.fields.iter().all(|f| f.attrs.is_empty()) {
            let n = a_in.fields.len();
            let mut enc = vec![];
            for (i, f) in a_in.fields.iter().enumerate() {
                let end = if i + 1 < n { a_in.fields[i + 1].lo } else { a_in.hi };
                enc.push(format!("{}:0:-:-:0:-:1:{}", f.skip as u8, enc_str(&e.src[f.hi..end])));
            }
            let real: Vec<String> = (0..n.saturating_sub(1)).map(|i| out1[a_out.fields[i].hi..a_out.fields[i + 1].lo].to_string()).collect();
            let expect = if real.is_empty() { "_".to_string() } else { real.iter().map(|s| enc_str(s)).collect::<Vec<_>>().join(",") };
            o.push("corr", "vert.gaps", format!("vert.gaps {} {} 0 {} {} {} {}", e.cfg.threshold, tc_letter(e.cfg.trailing_comma), e.cfg.tab_spaces, e.cfg.max_width, ind, enc.join(";")), expect, format!("e2e gaps {}", desc), n > 1);
        }
    }
}

/// The two-field lists over a fixed set of gaps: `has_blank_line` through the groups.
fn blank_cases(o: &mut Outcome) {
    let gaps = [
        ",\n    ", ",\n\n    ", ",\n\n", ",\n", ", // c\n    ", ", // c\n\n    ", ",\n    // c\n    ", ",\n    // c\n\n    ", ",\n\n    // c\n    ", ", /* c */\n    ",
        ", /* c\n\n d */\n    ", ",\n \n    ", ",\n\t\n", " ,\n\n    ", "  , // c\n\n    ", ",\n\n\n", ",\n\n\n    ", ",\r\n\r\n    ", ",\r\n    ", ", /* a */ /* b */\n\n    ",
        ",\n    /* c */\n\n    ", ",\n    /* c */\n    ",
    ];
    let cfg = VCfg { threshold: 20, max_width: 100, trailing_comma: 2, tab_spaces: 4, upper: 1, variant_width: 35 };
    let k = mk_config(&cfg).unwrap();
    for g in gaps.iter() {
        let src = format!("struct S {{\n    a: u8{}bbbbbb: u16,\n}}\n", g);
        if let Some(Some(recs)) = guard(|| hv::analyze(&src, &k, 4, 0, &[0])) {
            if let Some(r) = recs.first() {
                let blank = r.groups.len() == 2;
                o.push("corr", "vert.blank", format!("vert.blank {}", enc_str(g)), (blank as u8).to_string(), format!("has_blank_line {:?}", g), true);
            }
        }
        let list = GList { kind: 0, fields: vec![], field_indent: 4, one_line: false, last_comma: true };
        hook_case(o, &HookCase { src, list, cfg, indent: 4, olw: 0 }, "gap");
    }
}

/// Hand-written sources: the shapes of the repaired defects, skipped fields, literals with attributes.
const FIXED: &[&str] = &[
    "struct A {\na: u8,\n\nbbbbbb: u8,\n}\n",
    "struct A {\n    a: u8  , // c\n\n    bbbbbb: u8,\n}\n",
    "struct A {\n    a: u8 , /* c */\n\n    bbbbbb: u8,\n}\n",
    "struct A {\n    a: u8,\n    /* c */\n\n    bbbbbb: u8,\n}\n",
    "struct A {\n    a: u8,\n    // c\n\n    bbbbbb: u8,\n}\n",
    "struct A {\n    #[rustfmt::skip]\n    a:   u8,\n    bbbbbb: u8,\n    cc: u8,\n}\n",
    "struct A {\n    a: u8,\n    #[rustfmt::skip]\n    bbbbbb:   u8,\n    cc: u8,\n    dddd: u8,\n}\n",
    "enum E { V { a: u8, /* c */ bbbb: u16 }, W }\n",
    "enum E { V { /* p */ a: u8, bbbb: u16 /* q */ }, W }\n",
    "enum E {\n    V { a: u8, /* c */ bbbb: u16 },\n}\n",
    "fn f() {\n    let v = S {\n        #[a]\n        x: 1,\n        yyyy: 2,\n    };\n}\n",
    "fn f() {\n    let v = S { a: 1, /* c */ bbbb: 2 };\n}\n",
    "struct A {\n    a: u8, // one\n    bbbbbb: u8, // two\n\n    cc: u8, /* three */\n    d: u8,\n}\n",
    "struct A {\n    /// doc\n    a: u8,\n    #[cfg(x)]\n    bbbbbb: u8,\n}\n",
    "struct A {\n    pub a: u8,\n    pub(crate) bbbbbb: u8,\n\n\n    c: u8,\n}\n",
];

pub fn cases(o: &mut Outcome, rng: &mut Rng, thorough: bool) {
    pool::install_panic_hook();
    blank_cases(o);
    let cfgs_fixed = [
        VCfg { threshold: 20, max_width: 100, trailing_comma: 2, tab_spaces: 4, upper: 1, variant_width: 35 },
        VCfg { threshold: 20, max_width: 100, trailing_comma: 2, tab_spaces: 4, upper: 0, variant_width: 35 },
        VCfg { threshold: 5, max_width: 60, trailing_comma: 0, tab_spaces: 4, upper: 2, variant_width: 60 },
        VCfg { threshold: 20, max_width: 100, trailing_comma: 1, tab_spaces: 0, upper: 1, variant_width: 35 },
        VCfg { threshold: 0, max_width: 100, trailing_comma: 2, tab_spaces: 4, upper: 1, variant_width: 35 },
    ];
    let mut batch = vec![];
    for src in FIXED {
        for cfg in cfgs_fixed.iter() {
            let list = GList { kind: if src.starts_with("struct") { 0 } else if src.starts_with("enum") { 1 } else { 2 }, fields: vec![], field_indent: 4, one_line: false, last_comma: true };
            let indent = indent_of(&list, cfg);
            hook_case(o, &HookCase { src: src.to_string(), list: list.clone(), cfg: *cfg, indent, olw: if list.kind == 1 { cfg.variant_width } else { 0 } }, "fixed");
            batch.push(E2e { list, cfg: *cfg, src: src.to_string() });
        }
    }
    e2e_batch(o, &batch, "fixed");
    o.flush(jobs());
    let n_hook = if thorough { 12000 } else { 1500 };
    let n_e2e = if thorough { 6000 } else { 700 };
    for i in 0..n_hook {
        let list = gen_list(rng, i % 4 != 0);
        let cfg = gen_cfg(rng);
        let src = render(&list);
        let indent = *rng.pick(&[0usize, 4, 4, 8, 8, 12]);
        let olw = if list.kind == 1 || rng.chance(1, 4) { *rng.pick(&[0usize, 20, 35, 60, 100]) } else { 0 };
        o.count(&format!("kind:{}", list.kind));
        o.count(&format!("fields:{}", list.fields.len()));
        o.count(&format!("threshold:{}", cfg.threshold));
        hook_case(o, &HookCase { src, list, cfg, indent, olw }, "gen");
        if i % 500 == 499 {
            o.flush(jobs());
        }
    }
    let mut batch = vec![];
    for i in 0..n_e2e {
        let list = gen_list(rng, i % 5 != 0);
        let mut cfg = gen_cfg(rng);
        cfg.upper = i % 3;
        let src = render(&list);
        batch.push(E2e { list, cfg, src });
    }
    e2e_batch(o, &batch, "gen");
}

/// Enumerated probes of inputs known dirty on the pinned tree.
pub fn probes(o: &mut Outcome) {
    // VERT-LIT-ATTR-OVERPAD: `ExprField::rewrite_prefix` measures a short attribute and the name on one line
    // (`#[a] x`), `rewrite_field` always puts the attribute on its own line and pads from the name alone:
    // the values of the group are aligned with each other but stand further right than `max + 1`.
    let src = "fn f() {\n    let v = S {\n        #[a]\n        x: 1,\n        yyyy: 2,\n    };\n}\n";
    let cfg = VCfg { threshold: 20, max_width: 100, trailing_comma: 2, tab_spaces: 4, upper: 1, variant_width: 35 };
    let outs = pool::run_jobs(&[pool::Job { src: src.to_string(), cfg: cfg_pairs(&cfg), file_lines: None }], 1, std::time::Duration::from_secs(20));
    let out = outs.first().map(|r| r.out.clone()).unwrap_or_default();
    let fails = out.contains("x:      1,") && out.contains("yyyy:   2,");
    o.probes.push(json!({"id": "VERT-LIT-ATTR-OVERPAD", "fails": fails, "what": "a struct literal's field with a short attribute widens the alignment column of its group by the width of the attribute (values start 2 columns right of the longest name's colon + 1)", "detail": out}));
}

pub fn run(tier: &str, seed: u64, out: &std::path::Path) -> i32 {
    let mut o = Outcome::new("VERTICAL", tier, seed);
    let mut rng = Rng::new(seed);
    cases(&mut o, &mut rng, tier == "thorough");
    probes(&mut o);
    o.finish(out, jobs())
}
