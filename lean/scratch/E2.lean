import RF.Lemmas.TokEquiv
open RF.Tok
open Lean in
macro "chars%" s:str : term => do
  let cs : Array (TSyntax `term) := (s.getString.toList.map fun c => (⟨Syntax.mkCharLit c⟩ : TSyntax `term)).toArray
  `([$cs,*])
set_option profiler true
set_option profiler.threshold 50
def exIn := lexEx (chars% "pub ( in self ) struct Foo { } impl Baz { default unsafe extern \"C\" fn foo < 'a , > ( & 'a mut self , ) -> u32 where { let unblock_me = | trivial | { closure ( ) } ; match x { Foo :: A => println ! ( \"No\" ) , | Foo :: D => { g :: < > ( ( 2.0 ) , ) } , } ; } }")
example : exIn.length = 86 := by decide +kernel
example : (norm {} exIn).length = 60 := by decide +kernel
example : (hardSeq {} exIn).length = 36 := by decide +kernel
