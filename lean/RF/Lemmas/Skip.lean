import RF.Model.Skip
/-!
Lemmas about `RF.Model.Skip` (property C04): the proofs behind `RF/Props/C04.lean`.
Core only.  Definitions that the property statements need (`Accepted`, `IdentPath`,
`SkipContext.le`, `joinNl`) live here in namespace `RF.Skip`.
-/
namespace RF.Skip
open SkipNameContext

/-! ## `is_skip` -/
inductive Accepted : MetaItem → Prop
  | skip {p : Path} : pathToString p = skipAnnotation → Accepted (.word p)
  | depr {p : Path} : pathToString p = deprSkipAnnotation → Accepted (.word p)
  | cfgAttr {c : Nested} {x : MetaItem} : Accepted x → Accepted (.list [cfgAttr] [c, .metaItem x])

theorem hasName_iff (p : Path) (n : Name) : hasName p n = true ↔ p = [n] := by
  unfold hasName
  split <;> simp_all

mutual
theorem isSkip_accepted : (m : MetaItem) → isSkip m = true → Accepted m
  | .word p, h => by
    simp only [isSkip, Bool.or_eq_true, beq_iff_eq] at h
    rcases h with h | h
    · exact .skip h
    · exact .depr h
  | .list p [], h => by simp [isSkip] at h
  | .list p [_], h => by simp [isSkip] at h
  | .list p [c, x], h => by
    simp only [isSkip, Bool.and_eq_true, hasName_iff] at h
    obtain ⟨rfl, hx⟩ := h
    obtain ⟨m, rfl, hm⟩ := isSkipNested_accepted x hx
    exact .cfgAttr hm
  | .list p (_ :: _ :: _ :: _), h => by simp [isSkip] at h
  | .nameValue p, h => by simp [isSkip] at h
theorem isSkipNested_accepted : (n : Nested) → isSkipNested n = true →
    ∃ m, n = .metaItem m ∧ Accepted m
  | .metaItem m, h => ⟨m, rfl, isSkip_accepted m (by simpa [isSkipNested] using h)⟩
  | .lit, h => by simp [isSkipNested] at h
end

theorem accepted_isSkip {m : MetaItem} (h : Accepted m) : isSkip m = true := by
  induction h with
  | skip h => simp [isSkip, h]
  | depr h => simp [isSkip, h]
  | cfgAttr _ ih => simp [isSkip, isSkipNested, hasName, ih]

/-! paths of identifiers -/
theorem append_colon_inj {s a x y : List Char} (hs : ':' ∉ s) (ha : ':' ∉ a)
    (h : s ++ ':' :: x = a ++ ':' :: y) : s = a ∧ x = y := by
  induction s generalizing a with
  | nil =>
    cases a with
    | nil => simpa using h
    | cons c a' =>
      simp only [List.nil_append, List.cons_append, List.cons.injEq] at h
      exact absurd (h.1 ▸ List.mem_cons_self) ha
  | cons c s ih =>
    cases a with
    | nil =>
      simp only [List.nil_append, List.cons_append, List.cons.injEq] at h
      exact absurd (h.1 ▸ List.mem_cons_self) hs
    | cons d a' =>
      simp only [List.cons_append, List.cons.injEq] at h
      have := ih (a := a') (fun hm => hs (List.mem_cons_of_mem _ hm))
        (fun hm => ha (List.mem_cons_of_mem _ hm)) h.2
      exact ⟨by rw [h.1, this.1], this.2⟩

/-- Segments that are identifiers contain no `:`. -/
def IdentPath (p : Path) : Prop := ∀ s ∈ p, ':' ∉ s

instance (p : Path) : Decidable (IdentPath p) := by unfold IdentPath; infer_instance

theorem pathToString_cons2 (s t : Name) (r : Path) :
    pathToString (s :: t :: r) = s ++ ':' :: ':' :: pathToString (t :: r) := rfl

theorem pathToString_eq_skip_iff {p : Path} (hp : IdentPath p) :
    pathToString p = skipAnnotation ↔ p = [rustfmtName, skipName] := by
  constructor
  · intro h
    match p, hp, h with
    | [], _, h => exact absurd h (by decide)
    | [s], hp, h =>
      have : ':' ∉ s := hp s (by simp)
      simp only [pathToString] at h
      subst h
      exact absurd (by decide) this
    | s :: t :: r, hp, h =>
      rw [pathToString_cons2] at h
      have hs : ':' ∉ s := hp s (by simp)
      have ht : ':' ∉ t := hp t (by simp)
      have h1 := append_colon_inj (a := rustfmtName) (y := ':' :: skipName) hs (by decide) h
      obtain ⟨rfl, h2⟩ := h1
      simp only [List.cons.injEq, true_and] at h2
      match r, h2 with
      | [], h2 =>
        simp only [pathToString] at h2
        rw [h2]
      | u :: r', h2 =>
        rw [pathToString_cons2] at h2
        have : ':' ∈ skipName := by
          rw [← h2]; simp
        exact absurd this (by decide)
  · rintro rfl; rfl

theorem pathToString_eq_depr_iff {p : Path} (hp : IdentPath p) :
    pathToString p = deprSkipAnnotation ↔ p = [deprSkipAnnotation] := by
  constructor
  · intro h
    match p, hp, h with
    | [], _, h => exact absurd h (by decide)
    | [s], hp, h => simp only [pathToString] at h; rw [h]
    | s :: t :: r, hp, h =>
      rw [pathToString_cons2] at h
      have : ':' ∈ deprSkipAnnotation := by rw [← h]; simp
      exact absurd this (by decide)
  · rintro rfl; rfl

theorem isSkip_spec (m : MetaItem) : isSkip m = true ↔ Accepted m :=
  ⟨isSkip_accepted m, accepted_isSkip⟩

theorem isSkipNested_spec (n : Nested) :
    isSkipNested n = true ↔ ∃ m, n = .metaItem m ∧ Accepted m := by
  constructor
  · exact isSkipNested_accepted n
  · rintro ⟨m, rfl, h⟩; simpa [isSkipNested] using accepted_isSkip h

/-- `cfg_attr(c, cfg_attr(c, … m))`, `k` levels. -/
def nestCfg (c : Nested) : Nat → MetaItem → MetaItem
  | 0, m => m
  | k + 1, m => .list [cfgAttr] [c, .metaItem (nestCfg c k m)]

theorem isSkip_nestCfg (c : Nested) (k : Nat) (m : MetaItem) :
    isSkip (nestCfg c k m) = isSkip m := by
  induction k with
  | zero => rfl
  | succ k ih => simp [nestCfg, isSkip, isSkipNested, hasName, ih]

theorem isSkip_list_arity {p : Path} {args : List Nested} (h : isSkip (.list p args) = true) :
    p = [cfgAttr] ∧ args.length = 2 := by
  cases (isSkip_spec _).1 h
  exact ⟨rfl, rfl⟩

theorem isSkip_word_idents {p : Path} (hp : IdentPath p) :
    isSkip (.word p) = true ↔ p = [rustfmtName, skipName] ∨ p = [deprSkipAnnotation] := by
  simp only [isSkip, Bool.or_eq_true, beq_iff_eq, pathToString_eq_skip_iff hp,
    pathToString_eq_depr_iff hp]

theorem mem_getSkipNames (kind : Name) (attrs : List Attr) (n : Name) :
    n ∈ getSkipNames kind attrs ↔
      ∃ p l, Attr.normal p (.list l) ∈ attrs ∧ pathToString p = skipKindPath kind ∧
        ∃ x ∈ l, Nested.ident x = some n := by
  induction attrs with
  | nil => simp [getSkipNames]
  | cons a r ih =>
    simp only [getSkipNames, List.mem_append, ih, List.mem_cons]
    constructor
    · rintro (h | ⟨p, l, hm, hp, hx⟩)
      · cases a with
        | doc => simp at h
        | normal p args =>
          by_cases hp : pathToString p = skipKindPath kind
          · cases args <;> simp [hp, Attr.metaItemList] at h
            rename_i l
            obtain ⟨x, hx, hxn⟩ := h
            exact ⟨p, l, Or.inl rfl, hp, x, hx, hxn⟩
          · simp [hp] at h
      · exact ⟨p, l, Or.inr hm, hp, hx⟩
    · rintro ⟨p, l, hm | hm, hp, x, hx, hxn⟩
      · left
        subst hm
        simp [hp, Attr.metaItemList]
        exact ⟨x, hx, hxn⟩
      · exact Or.inr ⟨p, l, hm, hp, x, hx, hxn⟩

theorem containsSkip_iff (attrs : List Attr) :
    containsSkip attrs = true ↔ ∃ a ∈ attrs, ∃ m, a.getMeta = some m ∧ isSkip m = true := by
  simp only [containsSkip, List.any_eq_true]
  constructor
  · rintro ⟨a, ha, h⟩
    refine ⟨a, ha, ?_⟩
    split at h
    · rename_i m hm; exact ⟨m, hm, h⟩
    · cases h
  · rintro ⟨a, ha, m, hm, h⟩
    exact ⟨a, ha, by simp [hm, h]⟩

/-! ## Skip contexts -/

/-! skip contexts -/
theorem skip_extend (c : SkipNameContext) (ns : List Name) (n : Name) :
    (c.extend ns).skip n = (c.skip n || ns.contains n) := by
  cases c <;> simp [extend, skip]

theorem skip_update (c o : SkipNameContext) (n : Name) :
    (c.update o).skip n = (c.skip n || o.skip n) := by
  cases c <;> cases o <;> simp [update, skip]

theorem skip_skipAll (c : SkipNameContext) (n : Name) : (c.skipAll).skip n = true := rfl

/-- `c ≤ c'`: everything skipped under `c` is skipped under `c'`. -/
def SkipNameContext.le (c c' : SkipNameContext) : Prop := ∀ n, c.skip n = true → c'.skip n = true
def SkipContext.le (c c' : SkipContext) : Prop :=
  SkipNameContext.le c.macros c'.macros ∧ SkipNameContext.le c.attributes c'.attributes

theorem SkipContext.le_refl (c : SkipContext) : SkipContext.le c c := ⟨fun _ h => h, fun _ h => h⟩
theorem SkipContext.le_trans {a b c : SkipContext} (h1 : SkipContext.le a b) (h2 : SkipContext.le b c) :
    SkipContext.le a c := ⟨fun n h => h2.1 n (h1.1 n h), fun n h => h2.2 n (h1.2 n h)⟩

theorem le_updateWithAttrs (c : SkipContext) (attrs : List Attr) :
    SkipContext.le c (c.updateWithAttrs attrs) := by
  constructor <;> intro n h <;> simp [SkipContext.updateWithAttrs, skip_extend, h]

theorem le_update (c o : SkipContext) : SkipContext.le c (c.update o) := by
  constructor <;> intro n h <;> simp [SkipContext.update, skip_update, h]

theorem le_update_right (c o : SkipContext) : SkipContext.le o (c.update o) := by
  constructor <;> intro n h <;> simp [SkipContext.update, skip_update, h]

theorem updateWithAttrs_mono {c c' : SkipContext} (h : SkipContext.le c c') (attrs : List Attr) :
    SkipContext.le (c.updateWithAttrs attrs) (c'.updateWithAttrs attrs) := by
  constructor <;> intro n hn <;>
    simp only [SkipContext.updateWithAttrs, skip_extend, Bool.or_eq_true] at hn ⊢
  · rcases hn with hn | hn
    · exact Or.inl (h.1 n hn)
    · exact Or.inr hn
  · rcases hn with hn | hn
    · exact Or.inl (h.2 n hn)
    · exact Or.inr hn

theorem update_mono {c c' o o' : SkipContext} (h : SkipContext.le c c') (ho : SkipContext.le o o') :
    SkipContext.le (c.update o) (c'.update o') := by
  constructor <;> intro n hn <;>
    simp only [SkipContext.update, skip_update, Bool.or_eq_true] at hn ⊢
  · rcases hn with hn | hn
    · exact Or.inl (h.1 n hn)
    · exact Or.inr (ho.1 n hn)
  · rcases hn with hn | hn
    · exact Or.inl (h.2 n hn)
    · exact Or.inr (ho.2 n hn)

/-! visit -/
mutual
theorem visitItem_restore (ctx : SkipContext) : (it : Item) → (visitItem ctx it).1 = ctx
  | .mk _ _ => by simp [visitItem]
theorem visitItems_restore (ctx : SkipContext) : (its : List Item) → (visitItems ctx its).1 = ctx
  | [] => by simp [visitItems]
  | i :: is => by
    simp only [visitItems]
    rw [visitItem_restore ctx i]
    exact visitItems_restore ctx is
end

theorem visitItems_cons (ctx : SkipContext) (i : Item) (is : List Item) :
    (visitItems ctx (i :: is)).2 = (visitItem ctx i).2 ++ (visitItems ctx is).2 := by
  simp only [visitItems]
  rw [visitItem_restore]

mutual
theorem visitItem_log_ge (ctx : SkipContext) : (it : Item) →
    ∀ c ∈ (visitItem ctx it).2, SkipContext.le ctx c
  | .mk attrs ch => by
    intro c hc
    simp only [visitItem, List.mem_cons] at hc
    rcases hc with rfl | hc
    · exact le_updateWithAttrs ctx attrs
    · exact SkipContext.le_trans (le_updateWithAttrs ctx attrs)
        (visitItems_log_ge (ctx.updateWithAttrs attrs) ch c hc)
theorem visitItems_log_ge (ctx : SkipContext) : (its : List Item) →
    ∀ c ∈ (visitItems ctx its).2, SkipContext.le ctx c
  | [] => by simp [visitItems]
  | i :: is => by
    intro c hc
    rw [visitItems_cons, List.mem_append] at hc
    rcases hc with hc | hc
    · exact visitItem_log_ge ctx i c hc
    · exact visitItems_log_ge ctx is c hc
end

theorem selector_skip (sel : List MacroSelector) (n : Name) :
    (fromPsessCtx sel).macros.skip n = (selectorAll sel || (selectorNames sel).contains n) := by
  unfold fromPsessCtx
  simp only [skip_extend]
  split <;> simp_all [SkipContext.default, SkipNameContext.default, skipAll, skip]

theorem formatFileCtx_skipMacro (sel : List MacroSelector) (krateAttrs : List Attr) (n : Name) :
    skipMacro (formatFileCtx sel krateAttrs) n =
      (selectorAll sel || (selectorNames sel).contains n ||
        (getSkipNames macrosName krateAttrs).contains n) := by
  simp [skipMacro, formatFileCtx, SkipContext.updateWithAttrs, skip_extend, selector_skip]

theorem fromContextCtx_skipMacro (sel : List MacroSelector) (parent : SkipContext) (n : Name) :
    skipMacro (fromContextCtx sel parent) n =
      (selectorAll sel || (selectorNames sel).contains n || skipMacro parent n) := by
  simp [skipMacro, fromContextCtx, SkipContext.update, skip_update, selector_skip]

/-! ## The buffer machine -/

theorem mem_takeWhile_imp {α} {p : α → Bool} {l : List α} {a : α} (h : a ∈ l.takeWhile p) :
    p a = true := by
  induction l with
  | nil => simp at h
  | cons b r ih =>
    simp only [List.takeWhile] at h
    split at h
    · rcases List.mem_cons.1 h with rfl | h'
      · assumption
      · exact ih h'
    · simp at h

/-! trim -/
theorem trimStart_decomp (s : List Char) :
    s = s.takeWhile isWhitespace ++ trimStart s := by
  simp [trimStart, List.takeWhile_append_dropWhile]

theorem trimEnd_decomp (s : List Char) :
    s = trimEnd s ++ (s.reverse.takeWhile isWhitespace).reverse := by
  unfold trimEnd
  rw [← List.reverse_append, List.takeWhile_append_dropWhile, List.reverse_reverse]

/-- `trim s` is `s` minus a whitespace-only prefix and a whitespace-only suffix. -/
theorem trim_decomp (s : List Char) :
    ∃ a b, s = a ++ trim s ++ b ∧ (∀ c ∈ a, isWhitespace c = true) ∧
      (∀ c ∈ b, isWhitespace c = true) := by
  refine ⟨s.takeWhile isWhitespace, ((trimStart s).reverse.takeWhile isWhitespace).reverse, ?_, ?_, ?_⟩
  · unfold trim
    rw [List.append_assoc, ← trimEnd_decomp, ← trimStart_decomp]
  · intro c hc; exact mem_takeWhile_imp hc
  · intro c hc
    rw [List.mem_reverse] at hc
    exact mem_takeWhile_imp hc

theorem dropWhile_eq_self_of_head {p : Char → Bool} {s : List Char}
    (h : ∀ c, s.head? = some c → p c = false) : s.dropWhile p = s := by
  cases s with
  | nil => rfl
  | cons c r => simp [List.dropWhile, h c (by simp)]

/-- `trim` does nothing to a text whose first and last characters are not whitespace (every span
of an AST node). -/
theorem trim_eq_self {s : List Char}
    (h1 : ∀ c, s.head? = some c → isWhitespace c = false)
    (h2 : ∀ c, s.getLast? = some c → isWhitespace c = false) : trim s = s := by
  unfold trim trimStart
  rw [dropWhile_eq_self_of_head h1]
  unfold trimEnd
  rw [dropWhile_eq_self_of_head (by simpa [List.head?_reverse] using h2), List.reverse_reverse]

theorem countNl_append (a b : List Char) : countNl (a ++ b) = countNl a + countNl b := by
  induction a with
  | nil => simp [countNl]
  | cons c a ih => simp [countNl, ih]; omega

theorem countNl_take_le (s : List Char) (i j : Nat) (h : i ≤ j) :
    countNl (s.take i) ≤ countNl (s.take j) := by
  have : s.take j = s.take i ++ (s.drop i).take (j - i) := by
    rw [← List.take_add]; congr 1; omega
  rw [this, countNl_append]; omega

theorem lineOf_mono (src : List Char) {i j : Nat} (h : i ≤ j) : lineOf src i ≤ lineOf src j := by
  unfold lineOf; have := countNl_take_le src i j h; omega

theorem attrsEnd_ge (src : List Char) {hs : List Nat} {h : Nat} (hm : h ∈ hs) :
    lineOf src h ≤ attrsEnd src hs := by
  induction hs with
  | nil => cases hm
  | cons a r ih =>
    cases r with
    | nil => simp at hm; subst hm; simp [attrsEnd]
    | cons b r' =>
      simp only [attrsEnd]
      rcases List.mem_cons.1 hm with rfl | hm'
      · omega
      · have := ih hm'; omega

/-! invariants -/
theorem pushStr_inv {st : State} (s : List Char) (h : st.Inv) : (pushStr st s).Inv := by
  simp [State.Inv, pushStr, countNl_append] at *; omega

theorem snippet_isSome_iff (src : List Char) (lo hi : Nat) :
    (snippet src lo hi).isSome ↔ lo ≤ hi ∧ hi ≤ src.length := by
  unfold snippet; split <;> simp_all

theorem snippet_spec {src : List Char} {lo hi : Nat} {sn : List Char}
    (h : snippet src lo hi = some sn) :
    lo ≤ hi ∧ hi ≤ src.length ∧ sn.length = hi - lo ∧
      src = src.take lo ++ sn ++ src.drop hi := by
  unfold snippet at h
  split at h
  · rename_i hc
    simp only [Option.some.injEq] at h
    subst h
    refine ⟨hc.1, hc.2, ?_, ?_⟩
    · simp; omega
    · have h1 : src.drop hi = (src.drop lo).drop (hi - lo) := by
        rw [List.drop_drop]; congr 1; omega
      rw [h1, List.append_assoc, List.take_append_drop, List.take_append_drop]
  · cases h

theorem formatMissing_spec {src : List Char} {st st1 : State} {e : Nat} {w : List Char}
    (h : formatMissingWithIndent src st e w = some st1) :
    st.lastPos ≤ e ∧ st1 = { pushStr st w with lastPos := e } := by
  unfold formatMissingWithIndent at h
  split at h
  · rename_i he
    simp only [Option.some.injEq] at h
    subst h
    refine ⟨by omega, ?_⟩
    simp [pushStr, ← he]
  · split at h
    · cases h
    · split at h
      · cases h
      · simp only [Option.some.injEq] at h
        exact ⟨by omega, h.symm⟩

theorem formatMissing_isSome_iff (src : List Char) (st : State) (e : Nat) (w : List Char) :
    (formatMissingWithIndent src st e w).isSome ↔
      st.lastPos = e ∨ (st.lastPos < e ∧ e ≤ src.length) := by
  unfold formatMissingWithIndent
  split
  · simp_all
  · split
    · simp; omega
    · have := snippet_isSome_iff src st.lastPos e
      split <;> simp_all <;> omega

theorem pushRewriteInner_some {src : List Char} {st : State} {lo hi : Nat} (s : List Char) :
    pushRewriteInner src st lo hi (some s) = some { pushStr st s with lastPos := hi } := rfl

theorem pushRewriteInner_none_spec {src : List Char} {st st2 : State} {lo hi : Nat}
    (h : pushRewriteInner src st lo hi none = some st2) :
    ∃ sn, snippet src lo hi = some sn ∧ st2 = { pushStr st (trim sn) with lastPos := hi } := by
  unfold pushRewriteInner at h
  simp only at h
  split at h
  · cases h
  · rename_i sn hsn
    simp only [Option.some.injEq] at h
    exact ⟨sn, hsn, h.symm⟩

theorem pushSkipped_spec {src : List Char} {st st' : State} {attrHis : List Nat}
    {lo hi mainLo : Nat} {w : List Char}
    (h : pushSkipped src st attrHis lo hi mainLo w = some st') :
    ∃ sn, snippet src lo hi = some sn ∧ st.lastPos ≤ lo ∧
      st'.buffer = st.buffer ++ w ++ trim sn ∧
      st'.lastPos = hi ∧
      st'.lineNumber = st.lineNumber + countNl w + countNl (trim sn) ∧
      st'.skipped = st.skipped ++
        [(st.lineNumber + countNl w + 1 +
            (min (attrsEnd src attrHis + 1) (lineOf src mainLo) - lineOf src lo),
          st'.lineNumber + 1)] := by
  unfold pushSkipped at h
  split at h
  · cases h
  · rename_i st1 h1
    obtain ⟨hle, rfl⟩ := formatMissing_spec h1
    simp only at h
    split at h
    · cases h
    · rename_i st2 h2
      obtain ⟨sn, hsn, rfl⟩ := pushRewriteInner_none_spec h2
      simp only [Option.some.injEq] at h
      subst h
      exact ⟨sn, hsn, hle, by simp [pushStr], rfl, by simp [pushStr], by simp [pushStr]⟩

theorem pushSkipped_isSome_iff (src : List Char) (st : State) (attrHis : List Nat)
    (lo hi mainLo : Nat) (w : List Char) :
    (pushSkipped src st attrHis lo hi mainLo w).isSome ↔
      st.lastPos ≤ lo ∧ lo ≤ hi ∧ hi ≤ src.length := by
  constructor
  · intro h
    obtain ⟨st', h'⟩ := Option.isSome_iff_exists.1 h
    obtain ⟨sn, hsn, hle, -⟩ := pushSkipped_spec h'
    have := snippet_spec hsn
    omega
  · rintro ⟨h1, h2, h3⟩
    have hfm : (formatMissingWithIndent src st lo w).isSome := by
      rw [formatMissing_isSome_iff]; omega
    obtain ⟨st1, h1'⟩ := Option.isSome_iff_exists.1 hfm
    have hsn : (snippet src lo hi).isSome := by rw [snippet_isSome_iff]; omega
    obtain ⟨sn, hsn'⟩ := Option.isSome_iff_exists.1 hsn
    simp [pushSkipped, h1', pushRewriteInner, hsn']



theorem pushSkipped_inv {src : List Char} {st st' : State} {attrHis : List Nat}
    {lo hi mainLo : Nat} {w : List Char}
    (h : pushSkipped src st attrHis lo hi mainLo w = some st') (hinv : st.Inv) : st'.Inv := by
  obtain ⟨sn, -, -, hb, -, hl, -⟩ := pushSkipped_spec h
  simp only [State.Inv] at *
  rw [hb, hl, countNl_append, countNl_append, hinv]

theorem pushRewrite_spec {src : List Char} {st st' : State} {lo hi : Nat} {w : List Char}
    {rw : Option (List Char)} (h : pushRewrite src st lo hi w rw = some st') :
    ∃ body, (match rw with
              | some s => body = s
              | none => ∃ sn, snippet src lo hi = some sn ∧ body = trim sn) ∧
      st.lastPos ≤ lo ∧
      st' = { buffer := st.buffer ++ w ++ body, lastPos := hi,
              lineNumber := st.lineNumber + countNl w + countNl body, skipped := st.skipped } := by
  unfold pushRewrite at h
  split at h
  · cases h
  · rename_i st1 h1
    obtain ⟨hle, rfl⟩ := formatMissing_spec h1
    cases rw with
    | some s =>
      rw [pushRewriteInner_some] at h
      simp only [Option.some.injEq] at h
      exact ⟨s, rfl, hle, by rw [← h]; simp [pushStr]⟩
    | none =>
      obtain ⟨sn, hsn, rfl⟩ := pushRewriteInner_none_spec h
      exact ⟨trim sn, ⟨sn, hsn, rfl⟩, hle, by simp [pushStr]⟩

theorem pushRewrite_inv {src : List Char} {st st' : State} {lo hi : Nat} {w : List Char}
    {rw : Option (List Char)} (h : pushRewrite src st lo hi w rw = some st') (hinv : st.Inv) :
    st'.Inv := by
  obtain ⟨body, -, -, rfl⟩ := pushRewrite_spec h
  simp only [State.Inv] at *
  rw [countNl_append, countNl_append, hinv]

theorem formatMissing_inv {src : List Char} {st st1 : State} {e : Nat} {w : List Char}
    (h : formatMissingWithIndent src st e w = some st1) (hinv : st.Inv) : st1.Inv := by
  obtain ⟨-, rfl⟩ := formatMissing_spec h
  exact pushStr_inv w hinv

theorem pushRewriteInner_inv {src : List Char} {st st2 : State} {lo hi : Nat}
    {rw : Option (List Char)} (h : pushRewriteInner src st lo hi rw = some st2) (hinv : st.Inv) :
    st2.Inv := by
  cases rw with
  | some s =>
    rw [pushRewriteInner_some] at h
    simp only [Option.some.injEq] at h
    subst h; exact pushStr_inv s hinv
  | none =>
    obtain ⟨sn, -, rfl⟩ := pushRewriteInner_none_spec h
    exact pushStr_inv (trim sn) hinv

theorem countNl_dropLast {s : List Char} (h : s.getLast? = some '\n') :
    countNl s = countNl s.dropLast + 1 := by
  have hne : s ≠ [] := by intro h0; simp [h0] at h
  have hl : s.getLast hne = '\n' := by
    rw [List.getLast?_eq_some_getLast hne] at h; simpa using h
  have := List.dropLast_concat_getLast hne
  conv => lhs; rw [← this]
  rw [countNl_append, hl]; simp [countNl]

theorem popNewline_inv {st st' : State} (h : popNewline st = some st') (hinv : st.Inv) : st'.Inv := by
  unfold popNewline at h
  split at h
  · rename_i hl
    split at h
    · cases h
    · simp only [Option.some.injEq] at h
      subst h
      simp only [State.Inv] at *
      have := countNl_dropLast hl
      omega
  · simp only [Option.some.injEq] at h; subst h; exact hinv

theorem init_inv (p : Nat) : (State.init p).Inv := rfl

/-- Under the invariant the recorded pair is, in lines of this visitor's buffer: the first line of
the copied text plus the source-side offset `min(attrs_end+1, line(main_lo)) - line(item_lo)`, and
the last line of the copied text. -/
theorem pushSkipped_range {src : List Char} {st st' : State} {attrHis : List Nat}
    {lo hi mainLo : Nat} {w : List Char}
    (h : pushSkipped src st attrHis lo hi mainLo w = some st') (hinv : st.Inv) :
    ∃ sn, snippet src lo hi = some sn ∧
      st'.skipped = st.skipped ++
        [((outLines (st.buffer ++ w) (trim sn)).1 +
            (min (attrsEnd src attrHis + 1) (lineOf src mainLo) - lineOf src lo),
          (outLines (st.buffer ++ w) (trim sn)).2)] := by
  obtain ⟨sn, hsn, -, -, -, hl, hs⟩ := pushSkipped_spec h
  refine ⟨sn, hsn, ?_⟩
  rw [hs, hl]
  simp only [State.Inv] at hinv
  simp only [outLines, countNl_append, hinv]

/-- Item case (`main_span = item_span`): the offset is 0, the recorded pair is exactly the first
and last buffer line of the copied text — whether or not the text moved. -/
theorem pushSkipped_range_item {src : List Char} {st st' : State} {attrHis : List Nat}
    {lo hi : Nat} {w : List Char}
    (h : pushSkipped src st attrHis lo hi lo w = some st') (hinv : st.Inv) :
    ∃ sn, snippet src lo hi = some sn ∧
      st'.skipped = st.skipped ++ [outLines (st.buffer ++ w) (trim sn)] := by
  obtain ⟨sn, hsn, hs⟩ := pushSkipped_range h hinv
  refine ⟨sn, hsn, ?_⟩
  rw [hs]
  have : min (attrsEnd src attrHis + 1) (lineOf src lo) - lineOf src lo = 0 := by omega
  rw [this]
  simp [outLines]

theorem countNl_take_snippet {src : List Char} {lo hi : Nat} {sn : List Char}
    (h : snippet src lo hi = some sn) :
    countNl (src.take hi) = countNl (src.take lo) + countNl sn := by
  obtain ⟨h1, h2, h3, h4⟩ := snippet_spec h
  have : src.take hi = src.take lo ++ sn := by
    conv => lhs; rw [h4]
    have hl : (src.take lo ++ sn).length = hi := by simp; omega
    rw [List.take_append_of_le_length (by omega)]
    rw [List.take_of_length_le (by omega)]
  rw [this, countNl_append]

/-- Statement case (`item_lo ≤ main_lo ≤ item_hi`, untrimmed snippet): the recorded `lo` lies
between the first and the last buffer line of the copied text. -/
theorem pushSkipped_range_within {src : List Char} {st st' : State} {attrHis : List Nat}
    {lo hi mainLo : Nat} {w sn : List Char}
    (h : pushSkipped src st attrHis lo hi mainLo w = some st') (hinv : st.Inv)
    (hsn : snippet src lo hi = some sn) (htrim : trim sn = sn) (hm : mainLo ≤ hi) :
    ∃ a, st'.skipped = st.skipped ++ [(a, (outLines (st.buffer ++ w) sn).2)] ∧
      (outLines (st.buffer ++ w) sn).1 ≤ a ∧ a ≤ (outLines (st.buffer ++ w) sn).2 := by
  obtain ⟨sn', hsn', hs⟩ := pushSkipped_range h hinv
  rw [hsn] at hsn'
  cases hsn'
  rw [htrim] at hs
  refine ⟨_, hs, by omega, ?_⟩
  have h1 := countNl_take_snippet hsn
  have h2 := countNl_take_le src mainLo hi hm
  simp only [outLines, lineOf]
  omega

/-! ## Whole-file decision -/

theorem table_format : ∀ a b c d e f g : Bool,
    let k : FileCase := ⟨a, b, c, d, e, f, g⟩
    (fileDecision k = .format ↔
      if k.stdin then (k.innerSkip = false ∧ k.disableAll = false) else optedOut k = false) := by
  decide

theorem table_echo : ∀ a b c d e f g : Bool,
    let k : FileCase := ⟨a, b, c, d, e, f, g⟩
    (fileDecision k = .echo ↔ k.stdin = true ∧ (k.innerSkip = true ∨ k.disableAll = true)) := by
  decide

theorem table_departures : ∀ a b c d e f g : Bool,
    let k : FileCase := ⟨a, b, c, d, e, f, g⟩
    (¬ (fileDecision k = .format ↔ optedOut k = false) ↔
      k.stdin = true ∧ k.innerSkip = false ∧ k.disableAll = false ∧
        (k.ignored = true ∨ (k.generated = true ∧ k.formatGenerated = false) ∨ k.childSkip = true)) := by
  decide

theorem table_full : ∀ a b c d e f sc im mi : Bool,
    let k : FileCase := ⟨a, b, c, d, e, f, sc && !im⟩
    ((im = true → c = mi) → fileDecisionFull k sc im mi = fileDecision k) := by
  decide

/-! ## `is_generated_file` -/

def joinNl : List (List Char) → List Char
  | [] => []
  | [l] => l
  | l :: ls => l ++ '\n' :: joinNl ls

theorem splitNl_ne_nil (s : List Char) : splitNl s ≠ [] := by
  cases s with
  | nil => simp [splitNl]
  | cons c r =>
    simp only [splitNl]
    split
    · simp
    · split <;> simp

theorem joinNl_splitNl (s : List Char) : joinNl (splitNl s) = s := by
  induction s with
  | nil => rfl
  | cons c r ih =>
    simp only [splitNl]
    split
    · rename_i h
      have := splitNl_ne_nil r
      match hr : splitNl r, this with
      | l :: ls, _ => rw [hr] at ih; simp [joinNl, ih, h]
    · have := splitNl_ne_nil r
      match hr : splitNl r, this with
      | [l], _ => rw [hr] at ih; simp [joinNl] at ih ⊢; exact ih
      | l :: l2 :: ls, _ => rw [hr] at ih; simp [joinNl] at ih ⊢; exact ih

theorem splitNl_no_nl (s : List Char) : ∀ l ∈ splitNl s, '\n' ∉ l := by
  induction s with
  | nil => simp [splitNl]
  | cons c r ih =>
    simp only [splitNl]
    split
    · intro l hl
      rcases List.mem_cons.1 hl with rfl | hl
      · simp
      · exact ih l hl
    · rename_i hc
      have := splitNl_ne_nil r
      match hr : splitNl r, this with
      | l :: ls, _ =>
        rw [hr] at ih
        intro l' hl'
        simp only [List.mem_cons] at hl'
        rcases hl' with rfl | hl'
        · intro hm
          rcases List.mem_cons.1 hm with h | h
          · exact hc h.symm
          · exact ih l (by simp) h
        · exact ih l' (by simp [hl'])

theorem containsSub_iff (needle hay : List Char) :
    containsSub needle hay = true ↔ ∃ a b, hay = a ++ needle ++ b := by
  induction hay with
  | nil =>
    simp only [containsSub, List.isEmpty_iff]
    constructor
    · rintro rfl; exact ⟨[], [], rfl⟩
    · rintro ⟨a, b, h⟩
      have := congrArg List.length h
      simp at this
      exact List.eq_nil_of_length_eq_zero (by omega)
  | cons c r ih =>
    simp only [containsSub, Bool.or_eq_true, ih, List.isPrefixOf_iff_prefix]
    constructor
    · rintro (⟨t, ht⟩ | ⟨a, b, h⟩)
      · exact ⟨[], t, by simp [ht]⟩
      · exact ⟨c :: a, b, by simp [h]⟩
    · rintro ⟨a, b, h⟩
      cases a with
      | nil => left; exact ⟨b, by simpa using h.symm⟩
      | cons d a' =>
        right
        simp only [List.cons_append, List.cons.injEq] at h
        exact ⟨a', b, h.2⟩

theorem isGeneratedFile_iff (src : List Char) (limit : Nat) :
    isGeneratedFile src limit = true ↔
      ∃ l ∈ (splitNl src).take limit, ∃ a b, l = a ++ generatedMarker ++ b := by
  simp only [isGeneratedFile, List.any_eq_true, containsSub_iff]

end RF.Skip
