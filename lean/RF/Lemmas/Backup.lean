import RF.Model.Backup
/-!
Proofs for C20 (`RF/Props/C20.lean`) about `RF/Model/Backup.lean`.  Core Lean only.
-/
namespace RF.Backup
open RF.Gen.Emitters

/-- The two invariants of C20 on the three paths of one file: the complete original is in the
file or in the `.bk`; the file is absent, or the complete original, or the complete formatted
text. -/
def Safe {β : Type} (orig fmt : List β) (s : Fs P β) : Prop :=
  (s .file = some orig ∨ s .bk = some orig) ∧
  (s .file = none ∨ s .file = some orig ∨ s .file = some fmt)

/-- concretisation of an abstract content -/
def Conc {β : Type} (orig fmt : List β) : A → Option (List β) → Prop
  | .absent, v => v = none
  | .orig, v => v = some orig
  | .fmt, v => v = some fmt
  | .part, v => ∃ k, k < fmt.length ∧ v = some (fmt.take k)
  | .any, _ => True

/-- `a` describes `fs` -/
def Abs {β : Type} (orig fmt : List β) (a : AFs) (fs : Fs P β) : Prop :=
  ∀ p, Conc orig fmt (a.get p) (fs p)

end RF.Backup

namespace RF.Lemmas.Backup
open RF.Gen.Emitters RF.Backup

/-! ### basic facts -/

theorem get_set (a : AFs) (p q : P) (x : A) :
    (a.set p x).get q = if q = p then x else a.get q := by
  cases p <;> cases q <;> simp [AFs.set, AFs.get]

section generic
variable {κ β : Type} [DecidableEq κ]

theorem set_same (fs : Fs κ β) (k : κ) (v : Option (List β)) : (fs.set k v) k = v := by
  simp [Fs.set]

theorem set_other (fs : Fs κ β) (k q : κ) (v : Option (List β)) (h : q ≠ k) :
    (fs.set k v) q = fs q := by
  simp [Fs.set, h]

/-- the final state of a successful run is one of the reachable states -/
theorem reachable_of_run (ρ : P → κ) (fmt : List β) :
    ∀ (ops : List FsOp) (fs s : Fs κ β), run ρ fmt ops fs = some s → Reachable ρ fmt ops fs s
  | [], fs, s, h => by
    simp only [run, Option.some.injEq] at h; subst h; exact .here _ _
  | op :: ops, fs, s, h => by
    simp only [run] at h
    split at h
    · exact absurd h (by simp)
    · next fs' h' => exact .next _ _ _ _ _ h' (reachable_of_run ρ fmt ops fs' s h)

/-- … and so is the state after any prefix of the ops has run -/
theorem reachable_of_run_prefix (ρ : P → κ) (fmt : List β) :
    ∀ (pre post : List FsOp) (fs s : Fs κ β), run ρ fmt pre fs = some s →
      Reachable ρ fmt (pre ++ post) fs s
  | [], post, fs, s, h => by
    simp only [run, Option.some.injEq] at h; subst h; exact .here _ _
  | op :: pre, post, fs, s, h => by
    simp only [run] at h
    split at h
    · exact absurd h (by simp)
    · next fs' h' =>
      exact .next _ _ _ _ _ h' (reachable_of_run_prefix ρ fmt pre post fs' s h)

/-- with no op nothing but the start state is observable -/
theorem reachable_nil (ρ : P → κ) (fmt : List β) (fs s : Fs κ β)
    (h : Reachable ρ fmt [] fs s) : s = fs := by
  cases h; rfl

/-! ### soundness of the symbolic exploration -/

theorem abs_set {orig fmt : List β} {a : AFs} {fs : Fs P β} (h : Abs orig fmt a fs)
    (p : P) (x : A) {v : Option (List β)} (hx : Conc orig fmt x v) :
    Abs orig fmt (a.set p x) (fs.set p v) := by
  intro q
  rw [get_set]
  by_cases hq : q = p
  · subst hq; simpa [Fs.set] using hx
  · simpa [Fs.set, hq] using h q

theorem not_absent_of_some {orig fmt : List β} {a : AFs} {fs : Fs P β} (h : Abs orig fmt a fs)
    {p : P} {d : List β} (hp : fs p = some d) : a.get p ≠ .absent := by
  intro ha
  have := h p
  rw [ha] at this
  simp [Conc, hp] at this

theorem abs_step {orig fmt : List β} {a : AFs} {fs fs' : Fs P β} (h : Abs orig fmt a fs)
    (op : FsOp) (hs : step id fmt op fs = some fs') :
    ∃ a', aStep op a = some a' ∧ Abs orig fmt a' fs' := by
  cases op with
  | write dst =>
    simp only [step, id, Option.some.injEq] at hs; subst hs
    exact ⟨_, rfl, abs_set h dst .fmt rfl⟩
  | rename src dst =>
    simp only [step, id] at hs
    split at hs
    · exact absurd hs (by simp)
    · next d hd =>
      simp only [Option.some.injEq] at hs; subst hs
      have hne := not_absent_of_some h hd
      refine ⟨_, by simp [aStep, hne], abs_set (abs_set h src .absent rfl) dst (a.get src) ?_⟩
      have := h src; rwa [hd] at this
  | remove p =>
    simp only [step, id] at hs
    split at hs
    · exact absurd hs (by simp)
    · next d hd =>
      simp only [Option.some.injEq] at hs; subst hs
      have hne := not_absent_of_some h hd
      exact ⟨_, by simp [aStep, hne], abs_set h p .absent rfl⟩
  | copy src dst =>
    simp only [step, id] at hs
    split at hs
    · exact absurd hs (by simp)
    · next d hd =>
      simp only [Option.some.injEq] at hs; subst hs
      have hne := not_absent_of_some h hd
      refine ⟨_, by simp [aStep, hne], abs_set h dst (if src = dst then .any else a.get src) ?_⟩
      by_cases e : src = dst
      · simp [e, Conc]
      · simp only [e, if_false]
        have := h src; rwa [hd] at this

theorem abs_partial {orig fmt : List β} {a : AFs} {fs s : Fs P β} (h : Abs orig fmt a fs)
    (op : FsOp) (hp : Partial id fmt op fs s) :
    ∃ a' ∈ aPartial op a, Abs orig fmt a' s := by
  cases hp with
  | write dst _ k hk =>
    exact ⟨_, by simp [aPartial], abs_set h dst .part ⟨k, hk, rfl⟩⟩
  | copy src dst _ d k hs hk =>
    have hne : a.get src ≠ .absent := not_absent_of_some h hs
    exact ⟨_, by simp [aPartial, hne], abs_set h dst .any trivial⟩

theorem abs_reach {orig fmt : List β} :
    ∀ (ops : List FsOp) (a : AFs) (fs s : Fs P β), Abs orig fmt a fs →
      Reachable id fmt ops fs s → ∃ a' ∈ absReach ops a, Abs orig fmt a' s := by
  intro ops a fs s h r
  induction r generalizing a with
  | here ops fs =>
    cases ops <;> exact ⟨a, by simp [absReach], h⟩
  | inside op ops fs s hp =>
    obtain ⟨a', ha', habs⟩ := abs_partial h op hp
    exact ⟨a', by simp [absReach, ha'], habs⟩
  | next op ops fs fs' s hs _ ih =>
    obtain ⟨a1, ha1, habs1⟩ := abs_step h op hs
    obtain ⟨a', ha', habs⟩ := ih a1 habs1
    exact ⟨a', by simp [absReach, ha1, ha'], habs⟩

theorem aInv_sound {orig fmt : List β} {a : AFs} {s : Fs P β} (hi : aInv a = true)
    (h : Abs orig fmt a s) : Safe orig fmt s := by
  have hf := h .file
  have hb := h .bk
  simp only [AFs.get] at hf hb
  simp only [aInv, Bool.and_eq_true, Bool.or_eq_true, beq_iff_eq] at hi
  obtain ⟨h1, h2⟩ := hi
  constructor
  · rcases h1 with h1 | h1
    · rw [h1] at hf; exact Or.inl hf
    · rw [h1] at hb; exact Or.inr hb
  · rcases h2 with (h2 | h2) | h2 <;> rw [h2] at hf
    · exact Or.inl hf
    · exact Or.inr (Or.inl hf)
    · exact Or.inr (Or.inr hf)

theorem abs_init {orig fmt : List β} {fs : Fs P β} (h : fs .file = some orig) :
    Abs orig fmt aInit fs := by
  intro p; cases p <;> simp [aInit, AFs.get, Conc, h]

/-- Soundness of the oracle: an op list accepted by `checkProtocol` keeps both invariants in every
state reachable by crashes and faults, whatever the original, the formatted text, and the
pre-existing contents of the `.tmp` and `.bk` siblings. -/
theorem checkProtocol_sound (ops : List FsOp) (hc : checkProtocol ops = true)
    (orig fmt : List β) (fs s : Fs P β) (h0 : fs .file = some orig)
    (r : Reachable id fmt ops fs s) : Safe orig fmt s := by
  obtain ⟨a', ha', habs⟩ := abs_reach ops aInit fs s (abs_init h0) r
  simp only [checkProtocol, List.all_eq_true] at hc
  exact aInv_sound (hc a' ha') habs

theorem safeB_iff [DecidableEq β] (orig fmt : List β) (s : Fs P β) :
    safeB orig fmt (s .file) (s .bk) = true ↔ Safe orig fmt s := by
  simp [safeB, Safe, or_assoc]

theorem concB_iff [DecidableEq β] (orig fmt : List β) (a : A) (v : Option (List β)) :
    concB orig fmt a v = true ↔ Conc orig fmt a v := by
  cases a with
  | absent => simp [concB, Conc]
  | orig => simp [concB, Conc]
  | fmt => simp [concB, Conc]
  | any => simp [concB, Conc]
  | part =>
    cases v with
    | none => simp [concB, Conc]
    | some d =>
      simp only [concB, Conc, Bool.and_eq_true, decide_eq_true_eq, beq_iff_eq, Option.some.injEq]
      constructor
      · rintro ⟨h1, h2⟩; exact ⟨d.length, h1, h2⟩
      · rintro ⟨k, hk, rfl⟩
        have : (fmt.take k).length = k := by simp; omega
        rw [this]; exact ⟨hk, rfl⟩

/-- every state the semantics can reach is accepted by the executable membership oracle -/
theorem reachable_observedOk [DecidableEq β] (ops : List FsOp) (orig fmt : List β)
    (fs s : Fs P β) (h0 : fs .file = some orig) (r : Reachable id fmt ops fs s) :
    observedOk ops orig fmt (s .file) (s .tmp) (s .bk) = true := by
  obtain ⟨a', ha', habs⟩ := abs_reach ops aInit fs s (abs_init h0) r
  simp only [observedOk, List.any_eq_true, Bool.and_eq_true]
  exact ⟨a', ha', ⟨(concB_iff _ _ _ _).mpr (habs .file), (concB_iff _ _ _ _).mpr (habs .tmp)⟩,
    (concB_iff _ _ _ _).mpr (habs .bk)⟩

/-! ### injective path resolution: one file's ops act on its three paths only -/

theorem comp_set {ρ : P → κ} (hρ : Function.Injective ρ) (g : Fs κ β) (p : P)
    (v : Option (List β)) : (g.set (ρ p) v) ∘ ρ = (Fs.set (g ∘ ρ) p v : Fs P β) := by
  funext q
  by_cases hq : q = p
  · subst hq; simp [Fs.set]
  · have : ρ q ≠ ρ p := fun e => hq (hρ e)
    simp [Fs.set, hq, this]

theorem set_frame {ρ : P → κ} (g : Fs κ β) (p : P) (v : Option (List β)) (k : κ)
    (hk : ∀ p, ρ p ≠ k) : (g.set (ρ p) v) k = g k := by
  have : k ≠ ρ p := fun e => hk p e.symm
  simp [Fs.set, this]

theorem step_lift {ρ : P → κ} (hρ : Function.Injective ρ) (fmt : List β) (op : FsOp)
    (g g' : Fs κ β) (h : step ρ fmt op g = some g') :
    step id fmt op (g ∘ ρ) = some (g' ∘ ρ) ∧ ∀ k, (∀ p, ρ p ≠ k) → g' k = g k := by
  cases op with
  | write dst =>
    simp only [step, Option.some.injEq] at h; subst h
    exact ⟨by simp [step, comp_set hρ], fun k hk => set_frame g dst _ k hk⟩
  | rename src dst =>
    simp only [step] at h
    split at h
    · exact absurd h (by simp)
    · next d hd =>
      simp only [Option.some.injEq] at h; subst h
      refine ⟨?_, fun k hk => ?_⟩
      · simp [step, hd, comp_set hρ]
      · rw [set_frame _ dst _ k hk, set_frame _ src _ k hk]
  | remove p =>
    simp only [step] at h
    split at h
    · exact absurd h (by simp)
    · next d hd =>
      simp only [Option.some.injEq] at h; subst h
      exact ⟨by simp [step, hd, comp_set hρ], fun k hk => set_frame g p _ k hk⟩
  | copy src dst =>
    simp only [step] at h
    split at h
    · exact absurd h (by simp)
    · next d hd =>
      simp only [Option.some.injEq] at h; subst h
      refine ⟨?_, fun k hk => set_frame g dst _ k hk⟩
      have e : (ρ src = ρ dst) ↔ (src = dst) := ⟨fun e => hρ e, fun e => by rw [e]⟩
      by_cases hsd : src = dst
      · subst hsd; simp [step, hd, comp_set hρ]
      · have : ρ src ≠ ρ dst := fun e' => hsd (e.mp e')
        simp [step, hd, comp_set hρ, hsd, this]

theorem partial_lift {ρ : P → κ} (hρ : Function.Injective ρ) (fmt : List β) (op : FsOp)
    (g s : Fs κ β) (h : Partial ρ fmt op g s) :
    Partial id fmt op (g ∘ ρ) (s ∘ ρ) ∧ ∀ k, (∀ p, ρ p ≠ k) → s k = g k := by
  cases h with
  | write dst _ k hk =>
    refine ⟨?_, fun k' hk' => set_frame g dst _ k' hk'⟩
    rw [comp_set hρ]; exact .write dst _ k hk
  | copy src dst _ d k hs hk =>
    refine ⟨?_, fun k' hk' => set_frame g dst _ k' hk'⟩
    rw [comp_set hρ]; exact .copy src dst _ d k hs hk

/-- With pairwise distinct paths, what one file's ops do to the global file system is what the
identity-path semantics does to the file's own three paths, and every other path is untouched. -/
theorem reachable_lift {ρ : P → κ} (hρ : Function.Injective ρ) (fmt : List β) (ops : List FsOp)
    (g s : Fs κ β) (r : Reachable ρ fmt ops g s) :
    Reachable id fmt ops (g ∘ ρ) (s ∘ ρ) ∧ ∀ k, (∀ p, ρ p ≠ k) → s k = g k := by
  induction r with
  | here ops fs => exact ⟨.here _ _, fun _ _ => rfl⟩
  | inside op ops fs s hp =>
    obtain ⟨h1, h2⟩ := partial_lift hρ fmt op fs s hp
    exact ⟨.inside _ _ _ _ h1, h2⟩
  | next op ops fs fs' s hs _ ih =>
    obtain ⟨h1, h2⟩ := step_lift hρ fmt op fs fs' hs
    obtain ⟨i1, i2⟩ := ih
    exact ⟨.next _ _ _ _ _ h1 i1, fun k hk => by rw [i2 k hk, h2 k hk]⟩

/-- `checkProtocol_sound` for a file whose three paths are distinct keys of a larger file system. -/
theorem checkProtocol_sound_paths {ρ : P → κ} (hρ : Function.Injective ρ) (ops : List FsOp)
    (hc : checkProtocol ops = true) (orig fmt : List β) (g s : Fs κ β)
    (h0 : g (ρ .file) = some orig) (r : Reachable ρ fmt ops g s) :
    Safe orig fmt (s ∘ ρ) ∧ ∀ k, (∀ p, ρ p ≠ k) → s k = g k := by
  obtain ⟨h1, h2⟩ := reachable_lift hρ fmt ops g s r
  exact ⟨checkProtocol_sound ops hc orig fmt (g ∘ ρ) (s ∘ ρ) h0 h1, h2⟩

/-! ### multi-file runs -/

/-- a run over `js` touches only paths of `js` -/
theorem greachable_frame :
    ∀ (js : List (Job κ β)) (g t : Fs κ β), (∀ j ∈ js, Function.Injective j.paths) →
      GReachable js g t → ∀ k, (∀ j ∈ js, ∀ p, j.paths p ≠ k) → t k = g k := by
  intro js g t hinj r
  induction r with
  | here js g => intro k _; rfl
  | next j js g s t h _ ih =>
    intro k hk
    have hj := (reachable_lift (hinj j (by simp)) j.fmt j.ops g s h).2 k (hk j (by simp))
    rw [ih (fun j' hj' => hinj j' (by simp [hj'])) k (fun j' hj' => hk j' (by simp [hj'])), hj]

/-- A file that starts out holding its original is `Safe` in the start state. -/
theorem safe_init {orig fmt : List β} {s : Fs P β} (h : s .file = some orig) : Safe orig fmt s :=
  ⟨Or.inl h, Or.inr (Or.inl h)⟩

theorem multi_file (js : List (Job κ β)) :
    ∀ (g t : Fs κ β),
      (∀ j ∈ js, Function.Injective j.paths) →
      js.Pairwise (fun a b => ∀ p q, a.paths p ≠ b.paths q) →
      (∀ j ∈ js, checkProtocol j.ops = true) →
      (∀ j ∈ js, g (j.paths .file) = some j.disk) →
      GReachable js g t → ∀ j ∈ js, Safe j.disk j.fmt (t ∘ j.paths) := by
  induction js with
  | nil => intro g t _ _ _ _ _ j hj; simp at hj
  | cons j0 js ih =>
    intro g t hinj hpw hck h0 r
    cases r with
    | here =>
      intro j hj
      exact safe_init (h0 j hj)
    | next _ _ _ s _ h r' =>
      have hinj' : ∀ j ∈ js, Function.Injective j.paths := fun j hj => hinj j (by simp [hj])
      obtain ⟨hsafe, hframe⟩ := checkProtocol_sound_paths (hinj j0 (by simp)) j0.ops
        (hck j0 (by simp)) j0.disk j0.fmt g s (h0 j0 (by simp)) h
      rw [List.pairwise_cons] at hpw
      intro j hj
      rcases List.mem_cons.mp hj with rfl | hj
      · -- the later jobs do not touch this file's paths
        have : (t ∘ j.paths) = (s ∘ j.paths) := by
          funext p
          exact greachable_frame js s t hinj' r' (j.paths p)
            (fun j' hj' q e => hpw.1 j' hj' p q e.symm)
        rw [this]; exact hsafe
      · refine ih s t hinj' hpw.2 (fun j hj => hck j (by simp [hj])) ?_ r' j hj
        intro j' hj'
        rw [hframe (j'.paths .file) (fun p e => hpw.1 j' hj' p .file e)]
        exact h0 j' (by simp [hj'])

end generic

end RF.Lemmas.Backup
