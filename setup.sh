#!/bin/sh
# Run once after a fresh restore, offline: builds the Lean project and the Rust harness from files on disk.
set -e
cd "$(dirname "$0")"
export CARGO_NET_OFFLINE=true
mkdir -p work evidence .build
# translators (the committed RF/Gen files are regenerated from /repo's current source)
for t in translate/c*.py; do python3 "$t" --repo /repo --out lean/RF/Gen || true; done
(cd lean && lake build RF rfmodel)
cp -n /repo/Cargo.lock harness/Cargo.lock 2>/dev/null || true
cp -n /repo/rust-toolchain harness/rust-toolchain 2>/dev/null || true
(cd harness && cargo build --offline)
if [ -x ./setup_frozen.sh ]; then ./setup_frozen.sh; fi
echo setup done
