import RF.Gen.Emitters
/-!
Model of the file-system effects of the two writing emitters (C20, used by C06):
`src/emitter/files_with_backup.rs:18-29` and `src/emitter/files.rs:27-34`.

The op lists themselves are NOT written here: they are `RF.Gen.Emitters.fsOps`, generated from the
Rust source on every run.  This file gives the ops a semantics with crashes and I/O faults:

* a file system is `κ → Option (List β)` (`κ` = path keys, `β` = byte type, `none` = absent);
  an emitter's symbolic paths `P = file | tmp | bk` are resolved by `ρ : P → κ`
  (`filename`, `filename.with_extension("tmp")`, `filename.with_extension("bk")`).  `ρ` need not be
  injective: `x.bk`.with_extension("bk") is `x.bk` itself, and `a.rs`, `a.txt` share `a.bk`;
* `fs::write(dst, data)` is not atomic: create/truncate, then the bytes in order.  A crash or an
  error inside it leaves `dst` with a strict prefix of `data` (possibly empty); a crash or error
  before it leaves the state as it was; after it, `dst` holds `data`;
* `fs::rename` is atomic (done or not done); it fails without effect when the source is absent;
  renaming a path onto itself succeeds and changes nothing (POSIX);
* `fs::remove_file`, `fs::copy` are given a semantics too because the generated `FsOp` type has
  them (no emitter uses them today): remove is atomic; copy behaves like a write of the source's
  bytes, and copying a path onto itself truncates it (what `std::fs::copy` does on Linux);
* every op is followed by `?`: when one fails, nothing after it runs.

Hence the states observable at a crash point or after a single failing op are the same set:
`Reachable`.  Out of scope (said plainly): power-loss reordering of un-synced data — the model is
about a killed process or an error return, where the kernel's view of the directory survives.
-/
namespace RF.Backup
open RF.Gen.Emitters

/-- file system: path key ↦ contents, `none` = no such file -/
abbrev Fs (κ β : Type) := κ → Option (List β)

section sem
variable {κ β : Type} [DecidableEq κ]

/-- functional update of one path -/
def Fs.set (fs : Fs κ β) (k : κ) (v : Option (List β)) : Fs κ β :=
  fun q => if q = k then v else fs q

/-- One op running to completion; `none` = the call cannot succeed in this state (it returns an
error and has no effect).  `fmt` is `formatted_text`, the data of every `fs::write`. -/
def step (ρ : P → κ) (fmt : List β) : FsOp → Fs κ β → Option (Fs κ β)
  | .write dst, fs => some (fs.set (ρ dst) (some fmt))
  | .rename src dst, fs =>
    match fs (ρ src) with
    | none => none
    | some d => some ((fs.set (ρ src) none).set (ρ dst) (some d))
  | .remove p, fs =>
    match fs (ρ p) with
    | none => none
    | some _ => some (fs.set (ρ p) none)
  | .copy src dst, fs =>
    match fs (ρ src) with
    | none => none
    | some d => some (fs.set (ρ dst) (some (if ρ src = ρ dst then [] else d)))

/-- States strictly inside one op: what a crash in the middle of it, or an error return after a
partial effect, leaves behind.  Only the non-atomic ops have any. -/
inductive Partial (ρ : P → κ) (fmt : List β) : FsOp → Fs κ β → Fs κ β → Prop
  | write (dst : P) (fs : Fs κ β) (k : Nat) (hk : k < fmt.length) :
      Partial ρ fmt (.write dst) fs (fs.set (ρ dst) (some (fmt.take k)))
  | copy (src dst : P) (fs : Fs κ β) (d : List β) (k : Nat) (hs : fs (ρ src) = some d)
      (hk : k < d.length) :
      Partial ρ fmt (.copy src dst) fs (fs.set (ρ dst) (some (d.take k)))

/-- `Reachable ρ fmt ops fs s`: `s` can be observed when the op list `ops` is started in `fs` and
the process is killed at any instant, or one op returns an error (`?` then skips the rest).
`here` = before the next op (also: that op failed without effect, or everything is done);
`inside` = in the middle of the next op; `next` = the next op completed, go on. -/
inductive Reachable (ρ : P → κ) (fmt : List β) : List FsOp → Fs κ β → Fs κ β → Prop
  | here (ops : List FsOp) (fs : Fs κ β) : Reachable ρ fmt ops fs fs
  | inside (op : FsOp) (ops : List FsOp) (fs s : Fs κ β) (h : Partial ρ fmt op fs s) :
      Reachable ρ fmt (op :: ops) fs s
  | next (op : FsOp) (ops : List FsOp) (fs fs' s : Fs κ β) (h : step ρ fmt op fs = some fs')
      (r : Reachable ρ fmt ops fs' s) : Reachable ρ fmt (op :: ops) fs s

/-- all ops succeed; `none` if one of them cannot -/
def run (ρ : P → κ) (fmt : List β) : List FsOp → Fs κ β → Option (Fs κ β)
  | [], fs => some fs
  | op :: ops, fs =>
    match step ρ fmt op fs with
    | none => none
    | some fs' => run ρ fmt ops fs'

end sem

/-- The guard shared by both writing emitters (`files.rs:29`, `files_with_backup.rs:19`):
`if original_text != formatted_text { … }`.  `origText` is what `write_file` read as the original
(`source_file.rs:84-92`); it need not be what is on disk (see the final report: under
`newline_style = Auto` it is rustc's CRLF-normalised source). -/
def guardedOps {β : Type} [DecidableEq β] (kind : EmitterKind) (origText fmt : List β) : List FsOp :=
  if origText ≠ fmt then fsOps kind else []

/-! ### A multi-file run

`bin/main.rs::format` loops over the files; one `Input` may also fan out to several module files
(`formatting.rs::format_project`).  A failing op makes `handle_formatted_file` return `Err`, which
ends that input, but `format` goes on with the next one, so across files any number of faults can
happen.  A job is one call of `emit_formatted_file`. -/

structure Job (κ β : Type) where
  paths : P → κ          -- filename, .tmp, .bk of this file
  disk  : List β         -- contents of the file when the run starts
  fmt   : List β         -- formatted_text
  ops   : List FsOp      -- the (guarded) op list executed for it

/-- global states observable during a run over `jobs`, in order: every earlier job was left in any
of its reachable states (completed, or abandoned at a fault), the current one is anywhere. -/
inductive GReachable {κ β : Type} [DecidableEq κ] : List (Job κ β) → Fs κ β → Fs κ β → Prop
  | here (js : List (Job κ β)) (g : Fs κ β) : GReachable js g g
  | next (j : Job κ β) (js : List (Job κ β)) (g s t : Fs κ β)
      (h : Reachable j.paths j.fmt j.ops g s) (r : GReachable js s t) : GReachable (j :: js) g t

/-! ### Symbolic exploration over abstract contents -/

/-- abstract contents of one path.  `any` = unknown (absent or any bytes): the pre-existing
`.tmp` / `.bk` siblings. -/
inductive A where
  | absent | orig | fmt | part | any
  deriving DecidableEq, Repr

/-- abstract state of the three paths of one file (identity path resolution) -/
structure AFs where
  file : A
  tmp  : A
  bk   : A
  deriving DecidableEq, Repr

def AFs.get (a : AFs) : P → A
  | .file => a.file
  | .tmp => a.tmp
  | .bk => a.bk

def AFs.set (a : AFs) (p : P) (x : A) : AFs :=
  match p with
  | .file => { a with file := x }
  | .tmp => { a with tmp := x }
  | .bk => { a with bk := x }

/-- abstract `step` -/
def aStep : FsOp → AFs → Option AFs
  | .write dst, a => some (a.set dst .fmt)
  | .rename src dst, a =>
    if a.get src = .absent then none else some ((a.set src .absent).set dst (a.get src))
  | .remove p, a => if a.get p = .absent then none else some (a.set p .absent)
  | .copy src dst, a =>
    if a.get src = .absent then none
    else some (a.set dst (if src = dst then .any else a.get src))

/-- abstract `Partial` -/
def aPartial : FsOp → AFs → List AFs
  | .write dst, a => [a.set dst .part]
  | .copy src dst, a => if a.get src = .absent then [] else [a.set dst .any]
  | _, _ => []

/-- every abstract state reachable from `a`, in exploration order (with repetitions) -/
def absReach : List FsOp → AFs → List AFs
  | [], a => [a]
  | op :: ops, a =>
    a :: (aPartial op a ++
      match aStep op a with
      | none => []
      | some a' => absReach ops a')

/-- the two invariants of C20 on an abstract state: the original is whole in the file or in the
`.bk`; the file is absent, the whole original or the whole formatted text. -/
def aInv (a : AFs) : Bool :=
  (a.file == .orig || a.bk == .orig) && (a.file == .absent || a.file == .orig || a.file == .fmt)

/-- what is known before the emitter runs: the file holds the original, nothing is assumed about
its `.tmp` and `.bk` siblings -/
def aInit : AFs := ⟨.orig, .any, .any⟩

/-- the reachable abstract states of a protocol, duplicates removed, exploration order kept -/
def protocolStates (ops : List FsOp) : List AFs := (absReach ops aInit).eraseDups

/-- the first reachable abstract state that breaks an invariant -/
def protocolViolation (ops : List FsOp) : Option AFs := (absReach ops aInit).find? (fun a => !aInv a)

/-- decidable oracle: does the op list keep both invariants at every crash point / fault? -/
def checkProtocol (ops : List FsOp) : Bool := (absReach ops aInit).all aInv

/-! ### Oracles on concrete directory contents (what the harness observes after a kill) -/

/-- the two invariants of C20 on observed contents of the file and its `.bk` -/
def safeB {β : Type} [DecidableEq β] (orig fmt : List β) (file bk : Option (List β)) : Bool :=
  (file == some orig || bk == some orig) && (file == none || file == some orig || file == some fmt)

/-- does abstract content `a` describe the observed content `v`? -/
def concB {β : Type} [DecidableEq β] (orig fmt : List β) : A → Option (List β) → Bool
  | .absent, v => v == none
  | .orig, v => v == some orig
  | .fmt, v => v == some fmt
  | .part, none => false
  | .part, some d => decide (d.length < fmt.length) && d == fmt.take d.length
  | .any, _ => true

/-- is the observed triple one of the states the model says can be seen while `ops` run? -/
def observedOk {β : Type} [DecidableEq β] (ops : List FsOp) (orig fmt : List β)
    (file tmp bk : Option (List β)) : Bool :=
  (absReach ops aInit).any fun a =>
    concB orig fmt a.file file && concB orig fmt a.tmp tmp && concB orig fmt a.bk bk

end RF.Backup
