/-
Model of `rustfmt-format-diff` (`/repo/src/format-diff/main.rs`): the two regular expressions of
`scan_diff` as hand-written matchers with the `regex` crate's leftmost-first (= backtracking
preference order) semantics, the `scan_diff` loop, `run_rustfmt` / `run` / `main` control flow,
and a declarative reader of unified diffs (the specification the scanner is compared with).

Strings are `List Char` (the Rust code works on `String`s obtained from `BufRead::lines`; a line
that is not UTF-8 makes `line.unwrap()` panic before anything is spawned — the driver answers
`panic` for such input, the model never sees it).  Import-free on purpose.
-/
namespace RF.FormatDiff

/-! ### Character classes of `regex` 1.7.3 / `regex-syntax` 0.6.29 (Unicode 15.0.0) -/

/-- `\s` = `\p{White_Space}` (regex-syntax `unicode_tables/perl_space.rs`). -/
def isSpace (c : Char) : Bool :=
  let n := c.toNat
  (9 ≤ n && n ≤ 13) || n == 32 || n == 0x85 || n == 0xA0 || n == 0x1680 ||
  (0x2000 ≤ n && n ≤ 0x200A) || n == 0x2028 || n == 0x2029 || n == 0x202F || n == 0x205F ||
  n == 0x3000

/-- `\p{Nd}` as code-point intervals (regex-syntax `unicode_tables/perl_decimal.rs`, 64 rows). -/
def ndTable : List (Nat × Nat) :=
  [(48, 57), (1632, 1641), (1776, 1785), (1984, 1993), (2406, 2415), (2534, 2543), (2662, 2671),
   (2790, 2799), (2918, 2927), (3046, 3055), (3174, 3183), (3302, 3311), (3430, 3439),
   (3558, 3567), (3664, 3673), (3792, 3801), (3872, 3881), (4160, 4169), (4240, 4249),
   (6112, 6121), (6160, 6169), (6470, 6479), (6608, 6617), (6784, 6793), (6800, 6809),
   (6992, 7001), (7088, 7097), (7232, 7241), (7248, 7257), (42528, 42537), (43216, 43225),
   (43264, 43273), (43472, 43481), (43504, 43513), (43600, 43609), (44016, 44025),
   (65296, 65305), (66720, 66729), (68912, 68921), (69734, 69743), (69872, 69881),
   (69942, 69951), (70096, 70105), (70384, 70393), (70736, 70745), (70864, 70873),
   (71248, 71257), (71360, 71369), (71472, 71481), (71904, 71913), (72016, 72025),
   (72784, 72793), (73040, 73049), (73120, 73129), (73552, 73561), (92768, 92777),
   (92864, 92873), (93008, 93017), (120782, 120831), (123200, 123209), (123632, 123641),
   (124144, 124153), (125264, 125273), (130032, 130041)]

/-- `\d` = `\p{Nd}`: ASCII digits AND every other Unicode decimal digit. -/
def isDigit (c : Char) : Bool := ndTable.any fun (lo, hi) => lo ≤ c.toNat && c.toNat ≤ hi

def isAsciiDigit (c : Char) : Bool := 48 ≤ c.toNat && c.toNat ≤ 57

/-- `.` (no `s` flag): any character except `\n`. -/
def isDot (c : Char) : Bool := c != '\n'

/-! ### Reading lines -/

/-- `io::BufReader::new(from).lines()` (main.rs:141): pieces end at `\n`; a `\r` immediately
before that `\n` is dropped too; a last piece without `\n` is yielded as is (and not at all when
empty).  `cur` is the current piece, reversed. -/
def bufLinesAux (cur : List Char) : List Char → List (List Char)
  | [] => if cur.isEmpty then [] else [cur.reverse]
  | c :: r =>
    if c = '\n' then
      (match cur with
        | '\r' :: cur' => cur'.reverse
        | _ => cur.reverse) :: bufLinesAux [] r
    else bufLinesAux (c :: cur) r

def bufLines (text : List Char) : List (List Char) := bufLinesAux [] text

/-! ### `diff_pattern` = `^\+\+\+\s(?:.*?/){N}(\S*)` (main.rs:130-131) -/

/-- One `.*?/`: the lazy star prefers the shortest prefix, i.e. stops at the first `/`; `.` does
not match `\n`.  Backing off to a later `/` is only tried by the engine when the rest of the
pattern fails, and the rest (`(?:.*?/){k}(\S*)`) fails only for want of `/`s, which a later start
cannot cure — so first-`/` is the leftmost-first answer. -/
def skipToSlash : List Char → Option (List Char)
  | [] => none
  | c :: r => if c = '/' then some r else if isDot c then skipToSlash r else none

/-- `(?:.*?/){N}`. -/
def skipComponents : Nat → List Char → Option (List Char)
  | 0, s => some s
  | n + 1, s =>
    match skipToSlash s with
    | some r => skipComponents n r
    | none => none

/-- `(\S*)`: greedy, and nothing follows it in the pattern, so the maximal run. -/
def nonSpaceRun (s : List Char) : List Char := s.takeWhile fun c => !isSpace c

/-- `diff_pattern.captures(&line)` → group 1.  `^` only matches at offset 0 (no `m` flag). -/
def headerMatch (skip : Nat) (line : List Char) : Option (List Char) :=
  match line with
  | '+' :: '+' :: '+' :: s :: rest =>
    if isSpace s then
      match skipComponents skip rest with
      | some r => some (nonSpaceRun r)
      | none => none
    else none
  | _ => none

/-! ### `lines_pattern` = `^@@.*\+(\d+)(,(\d+))?` (main.rs:133) and its planned repair `^@@.*?\+…` -/

/-- `(\d+)` then `(,(\d+))?` at the head of `s`: both greedy, and the pattern ends there, so the
first preference always succeeds: the maximal digit run, then `,` + maximal digit run when there
is at least one digit after the comma.  Returns (group, optional group, unconsumed rest). -/
def numPair (s : List Char) : Option (List Char × Option (List Char) × List Char) :=
  let ds := s.takeWhile isDigit
  if ds.isEmpty then none
  else
    let r := s.dropWhile isDigit
    match r with
    | ',' :: r' =>
      let es := r'.takeWhile isDigit
      if es.isEmpty then some (ds, none, r) else some (ds, some es, r'.dropWhile isDigit)
    | _ => some (ds, none, r)

/-- `\+(\d+)(,(\d+))?` at the head of `s` → (group 1, group 3). -/
def plusNum (s : List Char) : Option (List Char × Option (List Char)) :=
  match s with
  | '+' :: r =>
    match numPair r with
    | some (g1, g3, _) => some (g1, g3)
    | none => none
  | _ => none

/-- `.*\+(\d+)(,(\d+))?` with the GREEDY star: at each position the engine first prefers to let
`.` eat one more character (when it is not `\n`), and only if everything after that fails does it
try `\+(\d+)…` here.  Net effect: the LAST `+digit` before the first `\n`. -/
def hunkGreedy : List Char → Option (List Char × Option (List Char))
  | [] => none
  | c :: r =>
    match (if isDot c then hunkGreedy r else none) with
    | some m => some m
    | none => plusNum (c :: r)

/-- `.*?\+(\d+)(,(\d+))?` with the LAZY star: first try `\+(\d+)…` here, else let `.` eat one
character.  Net effect: the FIRST `+digit`. -/
def hunkLazy : List Char → Option (List Char × Option (List Char))
  | [] => none
  | c :: r =>
    match plusNum (c :: r) with
    | some m => some m
    | none => if isDot c then hunkLazy r else none

/-- `lines_pattern.captures(&line)` → (group 1, group 3); `lazy = false` is the pattern of the
pinned tree, `lazy = true` the repaired one. -/
def hunkMatch (lazy : Bool) (line : List Char) : Option (List Char × Option (List Char)) :=
  match line with
  | '@' :: '@' :: rest => if lazy then hunkLazy rest else hunkGreedy rest
  | _ => none

/-! ### `scan_diff` (main.rs:122-188) -/

/-- The ways `scan_diff` panics. -/
inductive Panic where
  /-- `.parse::<u32>().unwrap()` on a digit run that is ≥ 2^32 or contains a non-ASCII `\d`. -/
  | parseInt
  /-- `start_line + line_count` in a build with overflow checks. -/
  | addOverflow
deriving DecidableEq, Repr

def digitsToNat (ds : List Char) : Nat := ds.foldl (fun a c => a * 10 + (c.toNat - 48)) 0

/-- `str::parse::<u32>().unwrap()` applied to a non-empty `\d+` capture (so no sign, not empty):
only ASCII digits are accepted by `u32::from_str`, and the value must fit. -/
def parseU32 (ds : List Char) : Except Panic Nat :=
  if ds.all isAsciiDigit && !ds.isEmpty then
    let v := digitsToNat ds
    if v < 2 ^ 32 then .ok v else .error .parseInt
  else .error .parseInt

/-- `start_line + line_count - 1` on `u32` (main.rs:179), `line_count ≥ 1`.  `checked = true`:
dev profile (overflow checks, the profile the harness builds); `false`: release profile, both
operations wrap. -/
def endLine (checked : Bool) (start count : Nat) : Except Panic Nat :=
  if checked then
    if start + count < 2 ^ 32 then .ok (start + count - 1) else .error .addOverflow
  else .ok (((start + count) % 2 ^ 32 + 2 ^ 32 - 1) % 2 ^ 32)

/-- `struct Range { file, range: [u32; 2] }` (main.rs:78-82). -/
structure FileRange where
  file : List Char
  lo : Nat
  hi : Nat
deriving DecidableEq, Repr

/-- What `scan_diff` is given besides the text.  `accepts` is `Regex::new("^{filter}$").is_match`:
the user's pattern wrapped by the code in `^…$` and run by the real engine (a parameter here). -/
structure Cfg where
  lazy : Bool
  checked : Bool
  skip : Nat
  accepts : List Char → Bool

/-- Body of the `for` loop (main.rs:141-185) for one line: the new `current_file` and the range
pushed (if any).  `files.insert(file)` happens exactly when a range is pushed (main.rs:180-181),
so the file set is recovered from the ranges (`filesOf`). -/
def scanLine (cfg : Cfg) (cur : Option (List Char)) (line : List Char) :
    Except Panic (Option (List Char) × Option FileRange) :=
  let cur := match headerMatch cfg.skip line with
    | some f => some f
    | none => cur
  match cur with
  | none => .ok (cur, none)
  | some file =>
    if !cfg.accepts file then .ok (cur, none)
    else
      match hunkMatch cfg.lazy line with
      | none => .ok (cur, none)
      | some (g1, g3) =>
        match parseU32 g1 with
        | .error e => .error e
        | .ok start =>
          match (match g3 with
                 | some g => parseU32 g
                 | none => .ok 1) with
          | .error e => .error e
          | .ok count =>
            if count = 0 then .ok (cur, none)
            else
              match endLine cfg.checked start count with
              | .error e => .error e
              | .ok e => .ok (cur, some ⟨file, start, e⟩)

/-- The `for` loop: ranges in the order pushed. -/
def scanLoop (cfg : Cfg) (cur : Option (List Char)) : List (List Char) → Except Panic (List FileRange)
  | [] => .ok []
  | l :: ls =>
    match scanLine cfg cur l with
    | .error e => .error e
    | .ok (cur', r) =>
      match scanLoop cfg cur' ls with
      | .error e => .error e
      | .ok rs => .ok (r.toList ++ rs)

/-- `scan_diff` on the lines of the input: the `Vec<Range>` (order of appearance, duplicates
kept). -/
def scanDiff (cfg : Cfg) (lines : List (List Char)) : Except Panic (List FileRange) :=
  scanLoop cfg none lines

/-- The `HashSet<String>` of `scan_diff`, as a duplicate-free list in order of first appearance
(the real iteration order is unspecified). -/
def filesOf : List FileRange → List (List Char)
  | [] => []
  | r :: rs => r.file :: (filesOf rs).filter (fun f => f != r.file)

/-! ### `run_rustfmt`, `run`, `main` (main.rs:64-118) -/

/-- What `process::Command::status()` can give. -/
inductive Status where
  | spawnError            -- `status()` returned `Err` (e.g. no such program)
  | exited (success : Bool)
deriving DecidableEq, Repr

/-- What is observable of one run of the tool: the rustfmt invocation (files, ranges) if one was
made, and the tool's exit code (0 ok, 1 via `process::exit(1)`, 101 panic). -/
structure Outcome where
  spawned : Option (List (List Char) × List FileRange)
  exitCode : Nat
deriving DecidableEq, Repr

/-- `run_rustfmt` (main.rs:89-118): `true` = `Ok(())`. -/
def runRustfmt (files : List (List Char)) (ranges : List FileRange)
    (rustfmt : List (List Char) → List FileRange → Status) :
    Option (List (List Char) × List FileRange) × Bool :=
  if files.isEmpty || ranges.isEmpty then (none, true)
  else
    match rustfmt files ranges with
    | .spawnError => (some (files, ranges), false)
    | .exited ok => (some (files, ranges), ok)

/-- `main`/`run` (main.rs:64-87).  `filter = none`: the user's pattern does not compile
(`Regex::new(..)?` returns before anything is read). -/
def run (lazy checked : Bool) (skip : Nat) (filter : Option (List Char → Bool))
    (lines : List (List Char)) (rustfmt : List (List Char) → List FileRange → Status) : Outcome :=
  match filter with
  | none => ⟨none, 1⟩
  | some m =>
    match scanDiff ⟨lazy, checked, skip, m⟩ lines with
    | .error _ => ⟨none, 101⟩
    | .ok ranges =>
      match runRustfmt (filesOf ranges) ranges rustfmt with
      | (sp, true) => ⟨sp, 0⟩
      | (sp, false) => ⟨sp, 1⟩

/-! ### Specification: a reader of unified diffs that follows the hunk line counts -/

/-- The path token of a `+++ path[<blank>…]` line with `skip` leading `/`-terminated components
removed: declarative counterpart of `headerMatch`.  `none` when the line is not of that form or
the token has fewer than `skip` slashes. -/
def dropComponents : Nat → List Char → Option (List Char)
  | 0, p => some p
  | n + 1, p =>
    match p.dropWhile (fun c => c != '/') with
    | [] => none
    | _ :: r => dropComponents n r

def specHeader (skip : Nat) (line : List Char) : Option (List Char) :=
  match line with
  | '+' :: '+' :: '+' :: s :: rest =>
    if isSpace s then
      dropComponents skip (rest.takeWhile fun c => !isSpace c)
    else none
  | _ => none

/-- A unified hunk header, strictly: `@@ -a[,b] +c[,d] @@…` with ASCII digits.  Returns the old
count `b`, new start `c`, new count `d` (missing counts are 1) and the text that follows the `+`
(i.e. `c[,d] @@ section`), which the greedy scanner is sensitive to. -/
def strictHunk (line : List Char) : Option (Nat × Nat × Nat × List Char) :=
  match line with
  | '@' :: '@' :: ' ' :: '-' :: r =>
    match numPair r with
    | some (a, b, r1) =>
      match r1 with
      | ' ' :: '+' :: r2 =>
        match numPair r2 with
        | some (c, d, r3) =>
          match r3 with
          | ' ' :: '@' :: '@' :: _ =>
            if a.all isAsciiDigit && c.all isAsciiDigit &&
               (b.getD []).all isAsciiDigit && (d.getD []).all isAsciiDigit then
              some ((match b with | some b => digitsToNat b | none => 1),
                    digitsToNat c,
                    (match d with | some d => digitsToNat d | none => 1), r2)
            else none
          | _ => none
        | none => none
      | _ => none
    | none => none
  | _ => none

/-- What the reader says about one line. -/
inductive Ev where
  | file (name : List Char)                       -- `+++ ` header outside a hunk
  | hunk (start count : Nat) (afterPlus : List Char)  -- hunk header: post-image start and count
  | body (line : List Char)                       -- a line inside a hunk (context / `-` / `+` / `\`)
  | other (line : List Char)                      -- anything else outside a hunk
deriving DecidableEq, Repr

/-- How the reader classifies a line that is not inside a hunk, by its first characters only. -/
inductive OutKind where
  | header      -- `+++` followed by a blank
  | hunkLine    -- starts with `@@`
  | plain       -- anything else (`diff …`, `index …`, `--- …`, `\ No newline…`, text)
deriving DecidableEq, Repr

def outKind (l : List Char) : OutKind :=
  match l with
  | '+' :: '+' :: '+' :: s :: _ => if isSpace s then .header else .plain
  | '@' :: '@' :: _ => .hunkLine
  | _ => .plain

/-- How many lines of the pre-image / post-image a line inside a hunk accounts for, by its first
character: ` ` (or an empty line: a context line whose trailing blank was stripped) one of each,
`-` one old, `+` one new, `\` (`\ No newline at end of file`) none; anything else is not a hunk
body line. -/
def bodyKind (l : List Char) : Option (Nat × Nat) :=
  match l with
  | [] => some (1, 1)
  | c :: _ =>
    if c = ' ' then some (1, 1)
    else if c = '-' then some (1, 0)
    else if c = '+' then some (0, 1)
    else if c = '\\' then some (0, 0)
    else none

/-- The reader.  `o`, `n` = lines of the pre-image / post-image the current hunk still owes
(`0, 0` = not inside a hunk).  Inside a hunk a line is classified by `bodyKind` and is never
looked at as a header.  `none`: not a well-formed unified diff for this `skip` (a hunk that is
cut short, a body line with another first character or exceeding its side's count, a `@@` line
outside a hunk that is not a strict hunk header, a `+++ ` line whose path has too few
components). -/
def specWalk (skip : Nat) : Nat → Nat → List (List Char) → Option (List Ev)
  | o, n, [] => if o = 0 ∧ n = 0 then some [] else none
  | o, n, l :: ls =>
    if o = 0 ∧ n = 0 then
      match outKind l with
      | .header =>
        match specHeader skip l with
        | some f => (specWalk skip 0 0 ls).map (Ev.file f :: ·)
        | none => none
      | .hunkLine =>
        match strictHunk l with
        | some (b, c, d, after) => (specWalk skip b d ls).map (Ev.hunk c d after :: ·)
        | none => none
      | .plain => (specWalk skip 0 0 ls).map (Ev.other l :: ·)
    else
      match bodyKind l with
      | some (a, b) =>
        if a ≤ o ∧ b ≤ n then (specWalk skip (o - a) (n - b) ls).map (Ev.body l :: ·) else none
      | none => none

/-- The ranges the specification asks for: for each hunk of a file that passes the filter, the
post-image lines `start ..= start + count - 1`, unless the count is 0. -/
def specRanges (accepts : List Char → Bool) : Option (List Char) → List Ev → List FileRange
  | _, [] => []
  | _, .file f :: es => specRanges accepts (some f) es
  | cur, .hunk c d _ :: es =>
    (match cur with
      | some f => if accepts f && d != 0 then [⟨f, c, c + d - 1⟩] else []
      | none => []) ++ specRanges accepts cur es
  | cur, _ :: es => specRanges accepts cur es

/-- The specification: `none` when the text is not a well-formed unified diff. -/
def spec (skip : Nat) (accepts : List Char → Bool) (lines : List (List Char)) :
    Option (List FileRange) :=
  (specWalk skip 0 0 lines).map (specRanges accepts none)

/-- No `+` immediately followed by a `\d`. -/
def noPlusDigit : List Char → Bool
  | [] => true
  | [_] => true
  | c :: d :: r => !(c == '+' && isDigit d) && noPlusDigit (d :: r)

/-- Hypothesis of `scan_eq_spec_partial` for the greedy pattern: after the post-image `+` of each
hunk header (numbers, closing `@@`, section text) there is no further `+digit`. -/
def sectionClean : List Ev → Bool
  | [] => true
  | .hunk _ _ after :: es => noPlusDigit after && sectionClean es
  | _ :: es => sectionClean es

/-- Hypothesis: no hunk body line is taken for a file header by `diff_pattern` (i.e. no added
line whose text starts with `++` + blank and has enough `/`s). -/
def bodyClean (skip : Nat) : List Ev → Bool
  | [] => true
  | .body l :: es => (headerMatch skip l).isNone && bodyClean skip es
  | _ :: es => bodyClean skip es

/-- Hypothesis: every hunk's post-image start and count satisfy `start + count < 2^32`
(so both parse as `u32` and `start + count` does not overflow). -/
def fitsU32 : List Ev → Bool
  | [] => true
  | .hunk c d _ :: es => decide (c + d < 2 ^ 32) && fitsU32 es
  | _ :: es => fitsU32 es

/-- All hypotheses of `scan_eq_spec_partial` in one decidable test (the section-text condition is
only needed for the greedy pattern). -/
def specHyp (lazy : Bool) (skip : Nat) (lines : List (List Char)) : Bool :=
  match specWalk skip 0 0 lines with
  | some evs => (lazy || sectionClean evs) && bodyClean skip evs && fitsU32 evs
  | none => false

/-! ### Reference semantics of the two patterns

A small backtracking matcher over the fragment of regular expressions the two patterns use, with
the preference order of the `regex` crate (leftmost-first: a greedy operator prefers to take more,
a lazy one less; `a?` prefers `a`; the first complete match in that order wins; the match need
not reach the end of the text).  The hand-written matchers above are proved equal to this matcher
run on the abstract syntax of the pattern literals (`Lemmas.FormatDiff.headerRe_eq`,
`hunkRe_eq`).  Stars are only ever applied to a one-character class in the two patterns, which is
what `Re.star` offers. -/

inductive Re where
  | eps
  | chr (p : Char → Bool)                    -- one character of a class
  | seq (a b : Re)
  | opt (a : Re)                             -- greedy `a?`
  | star (greedy : Bool) (p : Char → Bool)   -- `[p]*` (greedy) / `[p]*?` (lazy)
  | group (i : Nat) (a : Re)                 -- capture group number `i`
  | rep (n : Nat) (a : Re)                   -- `a{n}`

/-- Capture groups: most recent binding first. -/
abbrev Caps := List (Nat × List Char)

/-- `[p]*` followed by the continuation `k`: longest first. -/
def starGreedy (p : Char → Bool) (k : List Char → Caps → Option Caps) :
    List Char → Caps → Option Caps
  | [], c => k [] c
  | x :: r, c =>
    if p x then
      match starGreedy p k r c with
      | some m => some m
      | none => k (x :: r) c
    else k (x :: r) c

/-- `[p]*?` followed by the continuation `k`: shortest first. -/
def starLazy (p : Char → Bool) (k : List Char → Caps → Option Caps) :
    List Char → Caps → Option Caps
  | [], c => k [] c
  | x :: r, c =>
    match k (x :: r) c with
    | some m => some m
    | none => if p x then starLazy p k r c else none

def iterK {κ : Type} (f : κ → κ) : Nat → κ → κ
  | 0, k => k
  | n + 1, k => f (iterK f n k)

/-- Match `re` at the head of `s`, then continue with `k`; the first success in preference order. -/
def Re.run : Re → (List Char → Caps → Option Caps) → List Char → Caps → Option Caps
  | .eps, k, s, c => k s c
  | .chr p, k, s, c =>
    match s with
    | x :: r => if p x then k r c else none
    | [] => none
  | .seq a b, k, s, c => a.run (fun s' c' => b.run k s' c') s c
  | .opt a, k, s, c =>
    match a.run k s c with
    | some m => some m
    | none => k s c
  | .star true p, k, s, c => starGreedy p k s c
  | .star false p, k, s, c => starLazy p k s c
  | .group i a, k, s, c =>
    a.run (fun s' c' => k s' ((i, s.take (s.length - s'.length)) :: c')) s c
  | .rep n a, k, s, c => iterK (fun k' => a.run k') n k s c

/-- `Regex::captures` for a pattern that starts with `^`: match at offset 0 only, anywhere-ending. -/
def Re.captures (re : Re) (line : List Char) : Option Caps := re.run (fun _ c => some c) line []

def Re.lit (ch : Char) : Re := .chr (fun x => x == ch)
def Re.plus (p : Char → Bool) : Re := .seq (.chr p) (.star true p)

/-- `^\+\+\+\s(?:.*?/){n}(\S*)`. -/
def headerRe (n : Nat) : Re :=
  .seq (.lit '+') (.seq (.lit '+') (.seq (.lit '+') (.seq (.chr isSpace)
    (.seq (.rep n (.seq (.star false isDot) (.lit '/')))
      (.group 1 (.star true (fun x => !isSpace x)))))))

/-- `^@@.*\+(\d+)(,(\d+))?` (`lazy = false`) and `^@@.*?\+(\d+)(,(\d+))?` (`lazy = true`). -/
def hunkRe (lazy : Bool) : Re :=
  .seq (.lit '@') (.seq (.lit '@') (.seq (.star (!lazy) isDot) (.seq (.lit '+')
    (.seq (.group 1 (.plus isDigit))
      (.opt (.group 2 (.seq (.lit ',') (.group 3 (.plus isDigit)))))))))

end RF.FormatDiff
