import RF.Model.CharClasses
/-!
# Model of the comment machinery of `/repo/src/comment.rs` and the comment string functions of
# `/repo/src/lists.rs`

Modelled literally, quirks included (`none` = the Rust code panics):

  * `UngroupedCommentCodeSlices` (`comment.rs:1580-1634`)           → `ungrouped?`
  * `CommentCodeSlices` with its `//`-connector rule (`:1639-1713`)  → `commentCodeSlices?`
  * `remove_comment_header` (`:1831-1847`)                           → `removeCommentHeader?`
  * `CommentReducer` (`:1788-1829`)                                  → `reduce`, `payload?`
  * `changed_comment_content` (`:1764-1782`)                         → `changedCommentContent?`
  * `recover_comment_removed` (`:1716-1738`) as a pure choice        → `recoverCommentRemoved?`
  * `filter_normal_code` (`:1740-1756`)                              → `filterNormalCode`
  * `find_uncommented` / `find_last_uncommented` (`:1133-1169`)      → `findUncommented`, `findLastUncommented?`
  * `find_comment_end` (`:1175-1189`), `contains_comment` (`:1192`)  → `findCommentEnd`, `containsComment`
  * `lists.rs`: `extract_pre_comment` (`:579`), `extract_post_comment` (`:614`),
    `get_comment_end` (`:663`), `has_extra_newline` (`:717`)

Strings are `List Char`; every position the Rust code returns is a **byte** offset into the UTF-8
text, and the model returns the same number (`utf8Len` of the characters before the position).  A
Rust slice `&s[a..b]` panics when `a` or `b` is not a character boundary or is out of range: the
`…?` helpers below return `none` in exactly those cases.

Also here: the comment oracle of C03 (`commentsPreserved`, `wordsPreserved`) that judges the real
formatter's output from the comment tokens of `rustc_lexer`.

Import-free apart from `RF.Model.CharClasses` (linked into the native driver).
-/
namespace RF.Comment
open RF.CharClasses

/-! ## Rust string primitives -/

/-- `char::is_whitespace` (Unicode `White_Space`). -/
def isWs (c : Char) : Bool :=
  let n := c.toNat
  (9 ≤ n && n ≤ 13) || n == 32 || n == 0x85 || n == 0xA0 || n == 0x1680 ||
  (0x2000 ≤ n && n ≤ 0x200A) || n == 0x2028 || n == 0x2029 || n == 0x202F || n == 0x205F ||
  n == 0x3000

/-- `str::len` of a text: number of UTF-8 bytes. -/
def utf8Len : List Char → Nat
  | [] => 0
  | c :: cs => c.utf8Size + utf8Len cs

/-- `&s[n..]` for a byte offset `n`: `none` when `n` is past the end or inside a character. -/
def dropBytes? : Nat → List Char → Option (List Char)
  | 0, s => some s
  | _ + 1, [] => none
  | n + 1, c :: cs => if c.utf8Size ≤ n + 1 then dropBytes? (n + 1 - c.utf8Size) cs else none

/-- `&s[..n]` for a byte offset `n`. -/
def takeBytes? : Nat → List Char → Option (List Char)
  | 0, _ => some []
  | _ + 1, [] => none
  | n + 1, c :: cs =>
    if c.utf8Size ≤ n + 1 then (takeBytes? (n + 1 - c.utf8Size) cs).map (c :: ·) else none

/-- `str::starts_with(&str)`. -/
def startsWith : List Char → List Char → Bool
  | _, [] => true
  | [], _ :: _ => false
  | c :: cs, p :: ps => c == p && startsWith cs ps

/-- `str::ends_with(&str)`. -/
def endsWith (s p : List Char) : Bool := startsWith s.reverse p.reverse

/-- `str::trim_start` / `trim_end` / `trim` (Unicode white space). -/
def trimStart (s : List Char) : List Char := s.dropWhile isWs
def trimEnd (s : List Char) : List Char := (s.reverse.dropWhile isWs).reverse
def trim (s : List Char) : List Char := trimEnd (trimStart s)

/-- `str::trim_matches(&[' ', '\t'])`. -/
def isBlank (c : Char) : Bool := c == ' ' || c == '\t'
def trimBlanks (s : List Char) : List Char :=
  ((s.dropWhile isBlank).reverse.dropWhile isBlank).reverse

/-- `str::find(&str)`: byte offset of the first occurrence. -/
def findStr (pat : List Char) : List Char → Option Nat
  | [] => if pat.isEmpty then some 0 else none
  | c :: cs =>
    if startsWith (c :: cs) pat then some 0
    else (findStr pat cs).map (· + c.utf8Size)

/-- `str::find(char)`. -/
def findChar (p : Char → Bool) : List Char → Option Nat
  | [] => none
  | c :: cs => if p c then some 0 else (findChar p cs).map (· + c.utf8Size)

/-- `str::rfind(char)`: byte offset of the last character satisfying `p`. -/
def rfindChar (p : Char → Bool) : List Char → Option Nat
  | [] => none
  | c :: cs =>
    match rfindChar p cs with
    | some i => some (i + c.utf8Size)
    | none => if p c then some 0 else none

/-- `str::contains(char)`. -/
def containsChar (c : Char) (s : List Char) : Bool := s.any (· == c)

/-- Splits at every `'\n'` (the separators are dropped; `n` newlines give `n + 1` pieces). -/
def splitNl : List Char → List (List Char)
  | [] => [[]]
  | c :: cs =>
    match splitNl cs with
    | [] => [[c]] -- not reached: `splitNl` never returns `[]`
    | l :: ls => if c = '\n' then [] :: l :: ls else (c :: l) :: ls

/-- `str::lines()`: `split_inclusive('\n')`, each piece without its final `'\n'` and, only if it
had one, without one `'\r'` before it; no final empty piece. -/
def rustLines (s : List Char) : List (List Char) :=
  let ps := splitNl s
  -- the last piece is dropped when empty (text ends with '\n' or is empty)
  let ps' := if ps.getLast? = some [] then ps.dropLast else ps
  -- every piece that was followed by '\n' loses one trailing '\r'
  let n := ps.length
  (ps'.zipIdx).map fun (l, i) => if i + 1 < n then popCr l else l

/-! ## `UngroupedCommentCodeSlices` (`comment.rs:1580-1634`) -/

/-- One item of the slice iterators: `(kind, start_idx, slice)`. -/
structure Slice where
  kind : CodeCharKind
  start : Nat
  text : List Char
  deriving DecidableEq, Repr, Inhabited

/-- `while let Some(&(char_kind, _)) = self.iter.peek() { if char_kind.is_comment() { break } … }`
(`:1602-1607`): the characters consumed and what stays in the iterator. -/
def takeCode : List (Kind × Char) → List Char × List (Kind × Char)
  | [] => ([], [])
  | (k, c) :: rest =>
    if k.isComment then ([], (k, c) :: rest)
    else let (a, b) := takeCode rest; (c :: a, b)

/-- `loop { match self.iter.next() { Some((kind, ..)) if kind.inside_comment() => continue,
_ => break } }` (`:1611-1616`): the element that ends the loop is consumed too. -/
def takeComment : List (Kind × Char) → List Char × List (Kind × Char)
  | [] => ([], [])
  | (k, c) :: rest =>
    if k.insideComment then let (a, b) := takeComment rest; (c :: a, b)
    else ([c], rest)

/-- The iterator collected; `fuel` bounds the number of `next()` calls (each consumes at least one
character, so `length` calls are enough: `RF.Lemmas.Comment.ungroupedGo_concat`).
`none` = the `_ => panic!()` arm (`:1618`). -/
def ungroupedGo : Nat → Nat → List (Kind × Char) → Option (List Slice)
  | 0, _, _ => some []
  | _ + 1, _, [] => some []
  | fuel + 1, off, (k, c) :: rest =>
    match k with
    | .normal | .inString =>
      let (a, b) := takeCode rest
      (ungroupedGo fuel (off + utf8Len (c :: a)) b).map (⟨.normal, off, c :: a⟩ :: ·)
    | .startComment =>
      let (a, b) := takeComment rest
      (ungroupedGo fuel (off + utf8Len (c :: a)) b).map (⟨.comment, off, c :: a⟩ :: ·)
    | _ => none

/-- `UngroupedCommentCodeSlices::new(code).collect()`; `none` = panic. -/
def ungrouped? (code : List Char) : Option (List Slice) :=
  ungroupedGo code.length 0 (classes code)

/-! ## `CommentCodeSlices` (`comment.rs:1639-1713`) -/

/-- `&subslice[..2] == "//"`: `none` when the slice panics (fewer than two bytes, or byte 2 inside
a character). -/
def prefixIsSlashSlash? : List Char → Option Bool
  | c1 :: rest =>
    if c1.utf8Size = 2 then some false
    else if c1.utf8Size = 1 then
      match rest with
      | c2 :: _ => if c2.utf8Size = 1 then some (c1 == '/' && c2 == '/') else none
      | [] => none
    else none
  | [] => none

/-- How the `for` loop of `CommentCodeSlices::next` (`:1668-1689`) ended. -/
inductive Scan where
  /-- `break` at character index `i` with `first_whitespace = fw`; `more` = the iterator still has
  a character after it. -/
  | broke (i : Nat) (fw : Option Nat) (more : Bool)
  /-- the iterator ran out; `first_whitespace = fw` -/
  | finished (fw : Option Nat)
  deriving DecidableEq, Repr

/-- The `for` loop.  `lk` = `self.last_slice_kind`, `ss` = `&subslice[..2] == "//"`, `i` the index
of the head (character index: a slice taken at a byte index on a boundary is the same prefix). -/
def ccsScan (lk : CodeCharKind) (ss : Bool) : Nat → Option Nat → List (Kind × Char) → Scan
  | _, fw, [] => .finished fw
  | i, fw, (k, c) :: rest =>
    let conn := lk == .normal && ss && (c == ' ' || c == '\t')
    let fw1 := if conn && fw.isNone then some i else fw
    if k.toCodeCharKind == lk && !conn then .broke i fw1 (!rest.isEmpty)
    else ccsScan lk ss (i + 1) (if conn then fw1 else none) rest

/-- One `CommentCodeSlices::next` on a non-empty remaining text `rest` (= `&self.slice
[self.last_slice_end..]`): the number of characters of the slice it returns.  `none` = panic
(`&subslice[..2]`, evaluated only when `last_slice_kind == Normal`). -/
def ccsNext? (lk : CodeCharKind) (rest : List Char) : Option Nat :=
  match (if lk == .normal then prefixIsSlashSlash? rest else some false) with
  | none => none
  | some ss =>
    match ccsScan lk ss 0 none (classes rest) with
    | .broke i fw more =>
      let lastIndex := fw.getD i
      -- `if let (None, true) = (iter.next(), sub_slice_end == self.last_slice_end)`
      if lastIndex == 0 && !more then
        some (match fw with | some w => w | none => rest.length)
      else some lastIndex
    | .finished fw => some (match fw with | some w => w | none => rest.length)

def flipKind : CodeCharKind → CodeCharKind
  | .comment => .normal
  | .normal => .comment

/-- The iterator collected (`fuel` = number of `next()` calls; `2 * length + 2` are enough:
`RF.Lemmas.Comment.ccsGo_concat`). -/
def ccsGo : Nat → CodeCharKind → Nat → List Char → Option (List Slice)
  | 0, _, _, _ => some []
  | fuel + 1, lk, off, rest =>
    if rest.isEmpty then some [] -- `self.last_slice_end == self.slice.len()`
    else
      match ccsNext? lk rest with
      | none => none
      | some n =>
        (ccsGo fuel (flipKind lk) (off + utf8Len (rest.take n)) (rest.drop n)).map
          (⟨flipKind lk, off, rest.take n⟩ :: ·)

/-- `CommentCodeSlices::new(s).collect()`. -/
def commentCodeSlices? (s : List Char) : Option (List Slice) :=
  ccsGo (2 * s.length + 2) .comment 0 s

/-! ## `remove_comment_header` and `CommentReducer` (`comment.rs:1788-1847`) -/

/-- `&comment[k..comment.len() - 2]` for a comment whose first `k` characters are ASCII
(`k` = 2 or 3): panics when `len - 2 < k` or when `len - 2` is inside a character. -/
def stripBlock? (k : Nat) (comment : List Char) : Option (List Char) :=
  let len := utf8Len comment
  if len < k + 2 then none
  else (takeBytes? (len - 2) comment).map (·.drop k)

/-- `remove_comment_header`; `none` = a slice or the `assert!` panics. -/
def removeCommentHeader? (comment : List Char) : Option (List Char) :=
  if startsWith comment ['/', '/', '/'] || startsWith comment ['/', '/', '!'] then some (comment.drop 3)
  else if startsWith comment ['/', '/'] then some (comment.drop 2)
  else if (startsWith comment ['/', '*', '*'] && !startsWith comment ['/', '*', '*', '/'])
      || startsWith comment ['/', '*', '!'] then stripBlock? 3 comment
  else if startsWith comment ['/', '*'] then stripBlock? 2 comment
  else none

/-- Where `CommentReducer::next` stands between two characters. -/
inductive RState where
  /-- `at_start_line == false` (or a line comment, where the flag has no effect) -/
  | firstLine
  /-- `is_block && at_start_line`, at the top of the `loop` or inside `while c.is_whitespace()` -/
  | lineStart
  /-- `is_block && at_start_line`, just after `if c == '*' { c = self.iter.next()? }` read the `*` -/
  | afterStar
  deriving DecidableEq, Repr

/-- All the characters `CommentReducer` yields, as a function of the header-less text.
NB (`:1813-1823`): `at_start_line` is set at the first `'\n'` and never cleared, so in a block
comment *every* `*` after the first line that is not directly preceded by another `*` is skipped,
not only the ones that start a line. -/
def reduce (isBlock : Bool) : RState → List Char → List Char
  | _, [] => []
  | .firstLine, c :: rest =>
    if c = '\n' then reduce isBlock (if isBlock then .lineStart else .firstLine) rest
    else if isWs c then reduce isBlock .firstLine rest
    else c :: reduce isBlock .firstLine rest
  | .lineStart, c :: rest =>
    if isWs c then reduce isBlock .lineStart rest
    else if c = '*' then reduce isBlock .afterStar rest
    else c :: reduce isBlock .lineStart rest
  | .afterStar, c :: rest =>
    if isWs c then reduce isBlock .lineStart rest
    else c :: reduce isBlock .lineStart rest

/-- `CommentReducer::new(comment).collect()`; `none` = `remove_comment_header` panics. -/
def payload? (comment : List Char) : Option (List Char) :=
  (removeCommentHeader? comment).map (reduce (startsWith comment ['/', '*']) .firstLine)

/-- A character that is text: neither white space nor comment decoration (`/`, `*`, `!`). -/
def isText (c : Char) : Bool := !isWs c && c != '*' && c != '/' && c != '!'

/-- The comment says something (its body is not blank or pure decoration). -/
def hasText (comment : List Char) : Bool := comment.any isText

/-- Oracle on the real `changed_comment_content(comment, "")` (answer `changed`): a comment with
text must count for the safety net — dropping it altogether has to be a change. -/
def dropIsNoticed (comment : List Char) (changed : Bool) : Bool := !hasText comment || changed

/-! ## `changed_comment_content` and `recover_comment_removed` -/

/-- `code_comment_content(code)` as the lazy stream it is: the payload characters of the comment
slices in order; `none` marks the point where creating the next `CommentReducer` panics (the
stream is never advanced past it). -/
def contentEvents : List Slice → List (Option Char)
  | [] => []
  | sl :: rest =>
    if sl.kind == .comment then
      match payload? sl.text with
      | none => [none]
      | some p => p.map some ++ contentEvents rest
    else contentEvents rest

/-- `Iterator::eq` on two such streams (`iter::eq_by`: advance the left one, then the right one). -/
def streamsEq? : List (Option Char) → List (Option Char) → Option Bool
  | [], [] => some true
  | [], none :: _ => none
  | [], some _ :: _ => some false
  | none :: _, _ => none
  | some _ :: _, [] => some false
  | some _ :: _, none :: _ => none
  | some x :: a, some y :: b => if x = y then streamsEq? a b else some false

/-- `changed_comment_content(orig, new)`; `none` = panic. -/
def changedCommentContent? (orig new : List Char) : Option Bool :=
  match ungrouped? orig, ungrouped? new with
  | some a, some b => (streamsEq? (contentEvents a) (contentEvents b)).map (!·)
  | _, _ => none

/-- All the events of a stream, when none is a panic. -/
def sequence : List (Option Char) → Option (List Char)
  | [] => some []
  | none :: _ => none
  | some c :: rest => (sequence rest).map (c :: ·)

/-- The whole comment payload of a piece of code (what the safety net compares): the payloads of
its comment slices concatenated; `none` when a comment header panics. -/
def commentPayload? (code : List Char) : Option (List Char) :=
  match ungrouped? code with
  | none => none
  | some sl => sequence (contentEvents sl)

/-- `recover_comment_removed(new, span, context)` with `snippet = context.snippet(span)`:
the text returned and whether a `LostComment` error is appended to the report
(`error_on_unformatted`).  `none` = panic. -/
def recoverCommentRemoved? (new snippet : List Char) (errorOnUnformatted : Bool) :
    Option (List Char × Bool) :=
  if snippet = new then some (new, false)
  else
    match changedCommentContent? snippet new with
    | none => none
    | some true => some (snippet, errorOnUnformatted)
    | some false => some (new, false)

/-! ## `filter_normal_code` (`comment.rs:1740-1756`) -/

def filterNormalCode (code : List Char) : List Char :=
  let buffer := (lineClasses code).flatMap fun (k, line) =>
    match k with
    | .normal | .startString | .inString | .endString => line ++ ['\n']
    | _ => []
  if !(code.getLast? == some '\n') && buffer.getLast? == some '\n' then buffer.dropLast else buffer

/-! ## `find_uncommented`, `find_last_uncommented`, `find_comment_end`, `contains_comment` -/

/-- The `for` loop of `find_uncommented` (`:1136-1148`) and the suffix case after it.  `needle` is
what is left in `needle_iter`, `i` the byte offset of the head.  NB: after a mismatch the needle
restarts *at the next character* (the mismatching character is not compared with the first needle
character). -/
def findGo (pat : List Char) : List Char → Nat → List (Kind × Char) → Option Nat
  | needle, i, [] =>
    match needle with
    | [] => some (i - utf8Len pat)
    | _ :: _ => none
  | needle, i, (k, b) :: rest =>
    match needle with
    | [] => some (i - utf8Len pat)
    | c :: needle' =>
      if (k == .normal || k == .inString) && b == c then findGo pat needle' (i + b.utf8Size) rest
      else findGo pat pat (i + b.utf8Size) rest

/-- `s.find_uncommented(pat)`. -/
def findUncommented (s pat : List Char) : Option Nat := findGo pat pat 0 (classes s)

mutual
/-- `s.find_last_uncommented(pat)` with `fuel` levels of recursion; outer `none` = panic
(`self[(result + 1)..]` off a boundary or past the end) or fuel exhausted. -/
def findLastGo : Nat → List Char → List Char → Option (Option Nat)
  | 0, _, _ => none
  | fuel + 1, s, pat =>
    match findUncommented s pat with
    | none => some none
    | some left => (findLastLoop fuel s pat left).map some
/-- `while let Some(next) = self[(result + 1)..].find_last_uncommented(pat) { result += next + 1 }` -/
def findLastLoop : Nat → List Char → List Char → Nat → Option Nat
  | 0, _, _, _ => none
  | fuel + 1, s, pat, result =>
    match dropBytes? (result + 1) s with
    | none => none
    | some t =>
      match findLastGo fuel t pat with
      | none => none
      | some none => some result
      | some (some next) => findLastLoop fuel s pat (result + next + 1)
end

def findLastUncommented? (s pat : List Char) : Option (Option Nat) :=
  findLastGo (2 * s.length + 4) s pat

/-- `find_comment_end` (`:1175-1189`). -/
def findCommentEndGo : Nat → List (Kind × Char) → Option Nat
  | _, [] => none
  | i, (k, c) :: rest =>
    if k == .normal || k == .inString then some i else findCommentEndGo (i + c.utf8Size) rest

def findCommentEnd (s : List Char) : Option Nat :=
  match findCommentEndGo 0 (classes s) with
  | some i => some i
  | none => if endStatus .normal s == .normal then some (utf8Len s) else none

/-- `contains_comment` (`:1192`). -/
def containsComment (s : List Char) : Bool := (classes s).any (·.1.isComment)

/-! ## `lists.rs`: pre- and post-comments of a list item -/

/-- `ListItemCommentStyle` (`lists.rs`). -/
inductive CommentStyle where
  | differentLine
  | sameLine
  | none
  deriving DecidableEq, Repr

/-- `extract_pre_comment` (`lists.rs:579-612`).  (`rfind('/').unwrap()` cannot fail: the trimmed
text ends with `*/`.) -/
def extractPreComment (pre : List Char) : Option (List Char) × CommentStyle :=
  let t := trim pre
  if endsWith t ['*', '/'] then
    match rfindChar (· == '/') pre with
    | some ce =>
      match dropBytes? ce pre with
      | some tail => if containsChar '\n' tail then (some t, .differentLine) else (some t, .sameLine)
      | none => (some t, .sameLine) -- not reached
    | none => (some t, .sameLine) -- not reached
  else if startsWith t ['/', '/'] || startsWith t ['/', '*'] then (some t, .differentLine)
  else (none, .none)

/-- `extract_post_comment` (`lists.rs:614-661`); `none` = a slice panics (`comment_end` off a
boundary, or `post_snippet[1..]` / `[..len - 1]` inside a character). -/
def extractPostComment? (post : List Char) (commentEnd : Nat) (separator : List Char)
    (isLast : Bool) : Option (Option (List Char)) :=
  match takeBytes? commentEnd post with
  | none => none
  | some cut =>
    let ps := trim cut
    let lastInlineEndsWithSep :=
      if isLast then
        match (rustLines ps).getLast? with
        | some line => endsWith line separator && startsWith (trim line) ['/', '/']
        | none => false
      else false
    let trimmed? : Option (List Char) :=
      if (match ps with | c :: _ => c == ',' || c == ':' | [] => false) then
        some (trimBlanks (ps.drop 1))
      else if startsWith ps separator then some (trimBlanks (ps.drop separator.length))
      else if lastInlineEndsWithSep then some (trimBlanks ps)
      else if endsWith ps separator
          && (!startsWith (trim ps) ['/', '/'] || containsChar '\n' (trim ps)) then
        -- `post_snippet[..(post_snippet.len() - 1)]`
        (if utf8Len ps = 0 then none else takeBytes? (utf8Len ps - 1) ps).map trimBlanks
      else some ps
    match trimmed? with
    | none => none
    | some t =>
      let r := trim t
      if !t.isEmpty && (startsWith r ['/', '/'] || startsWith r ['/', '*']) then some (some t)
      else some none

/-- `get_comment_end` (`lists.rs:663-713`); `none` = panic (`find_comment_end(..).unwrap()` on an
unterminated block comment). -/
def getCommentEnd? (post separator terminator : List Char) (isLast : Bool) : Option Nat :=
  if isLast then some ((findUncommented post terminator).getD (utf8Len post))
  else
    let blockOpen0 := findStr ['/', '*'] post
    let blockOpen : Option Nat :=
      match blockOpen0 with
      | some i =>
        let slashBefore := match findChar (· == '/') post with | some j => decide (j < i) | none => false
        if slashBefore then none
        else if (match takeBytes? i post with | some p => endsWith p ['/'] | none => false) then none
        else some i
      | none => none
    let newlineIndex := findChar (· == '\n') post
    match findUncommented post separator with
    | some sepIndex =>
      let blockEnd? (i : Nat) : Option Nat :=
        match dropBytes? i post with
        | some t => (findCommentEnd t).map fun e => Nat.max (e + i) (sepIndex + 1)
        | none => none
      match blockOpen, newlineIndex with
      | some i, none => if i > sepIndex then some (sepIndex + 1) else blockEnd? i
      | some i, some j =>
        if i < j then blockEnd? i
        else if j > sepIndex then some (j + 1) else some (utf8Len post)
      | none, some j => if j > sepIndex then some (j + 1) else some (utf8Len post)
      | none, none => some (utf8Len post)
    | none =>
      match newlineIndex with
      | some j => some (j + 1)
      | none => some 0

/-- `has_extra_newline` (`lists.rs:717-745`); `none` = a slice panics. -/
def hasExtraNewline? (post : List Char) (commentEnd : Nat) : Option Bool :=
  if post.isEmpty || commentEnd == 0 then some false
  else
    match takeBytes? commentEnd post with
    | none => none
    | some cut =>
      match cut.getLast? with
      | none => none -- `.last().unwrap()`
      | some lastc =>
        match dropBytes? (commentEnd - lastc.utf8Size) post with
        | none => none
        | some test =>
          -- from the first '\n' of `test`, the white space up to the next non-blank character
          let afterLine := test.dropWhile (· != '\n')
          let ws := afterLine.takeWhile isWs
          some (decide ((ws.filter (· == '\n')).length > 1))

/-! ## The comment oracle of C03

`ins` / `outs` are the texts of the non-doc comment tokens (`rustc_lexer`) of the source and of the
formatted text, in order. -/

/-- Non-newline white space (blank for the purposes of "re-indentation and trailing blanks"). -/
def isPad (c : Char) : Bool := isWs c && c != '\n'

/-- A line without its leading and trailing blanks. -/
def stripLine (l : List Char) : List Char :=
  ((l.dropWhile isPad).reverse.dropWhile isPad).reverse

/-- A comment up to re-indentation and trailing blanks: its lines, each stripped. -/
def normComment (c : List Char) : List (List Char) := (splitNl c).map stripLine

/-- Every comment of the input reappears, exactly once and in order, with the same text up to
re-indentation and trimming of trailing blanks — and nothing else is a comment in the output. -/
def commentsPreserved (ins outs : List (List Char)) : Bool :=
  ins.map normComment == outs.map normComment

/-- Index and the two normal forms at the first difference (for the report). -/
def firstCommentDiff : Nat → List (List Char) → List (List Char) →
    Option (Nat × Option (List Char) × Option (List Char))
  | _, [], [] => none
  | i, a :: _, [] => some (i, some a, none)
  | i, [], b :: _ => some (i, none, some b)
  | i, a :: as, b :: bs =>
    if normComment a == normComment b then firstCommentDiff (i + 1) as bs else some (i, some a, some b)

/-- Decoration characters of comments: openers, closers, the `*` gutter. -/
def isDecor (c : Char) : Bool := c == '/' || c == '*' || c == '!'

/-- Splits at white space; empty pieces dropped (`cur` = the current piece, reversed). -/
def splitWsGo : List Char → List Char → List (List Char)
  | cur, [] => if cur.isEmpty then [] else [cur.reverse]
  | cur, c :: cs =>
    if isWs c then (if cur.isEmpty then splitWsGo [] cs else cur.reverse :: splitWsGo [] cs)
    else splitWsGo (c :: cur) cs

def splitWs (s : List Char) : List (List Char) := splitWsGo [] s

/-- A word with the decoration characters at its two ends removed (`/*word` → `word`, `word*/` →
`word`, `//word` → `word`); pure decoration disappears. -/
def stripDecor (w : List Char) : List Char :=
  ((w.dropWhile isDecor).reverse.dropWhile isDecor).reverse

/-- The words of a comment: white-space separated pieces, decoration stripped, empties dropped. -/
def commentWords (c : List Char) : List (List Char) :=
  ((splitWs c).map stripDecor).filter (!·.isEmpty)

/-- With the comment-rewriting options (`wrap_comments`, `normalize_comments`): the words of the
input's comments occur in the output's comments, in order (a subsequence: a rewritten comment may
gain decoration or swallow neighbouring text, which is not this property's concern). -/
def wordsPreserved (ins outs : List (List Char)) : Bool :=
  (ins.flatMap commentWords).isSublist (outs.flatMap commentWords)

/-! ### Order-insensitive variants (fixture files: imports, modules and impl items may be reordered,
and their comments move with them) -/

/-- Lexicographic order on texts (by code point); any total order would do. -/
def leChars : List Char → List Char → Bool
  | [], _ => true
  | _ :: _, [] => false
  | a :: as, b :: bs =>
    if a.toNat < b.toNat then true else if b.toNat < a.toNat then false else leChars as bs

/-- Merge of two sorted lists (`fuel` ≥ the sum of the lengths). -/
def mergeGo : Nat → List (List Char) → List (List Char) → List (List Char)
  | _, [], ys => ys
  | _, xs, [] => xs
  | 0, xs, ys => xs ++ ys
  | fuel + 1, x :: xs, y :: ys =>
    if leChars x y then x :: mergeGo fuel xs (y :: ys) else y :: mergeGo fuel (x :: xs) ys

def mergeTexts (xs ys : List (List Char)) : List (List Char) :=
  mergeGo (xs.length + ys.length) xs ys

def mergePairs : List (List (List Char)) → List (List (List Char))
  | a :: b :: rest => mergeTexts a b :: mergePairs rest
  | l => l

/-- Bottom-up merge sort; `fuel` passes (`length` passes are more than enough). -/
def mergeAll : Nat → List (List (List Char)) → List (List Char)
  | _, [] => []
  | _, [a] => a
  | 0, a :: _ => a
  | fuel + 1, runs => mergeAll fuel (mergePairs runs)

def sortTexts (l : List (List Char)) : List (List Char) := mergeAll l.length (l.map ([·]))

/-- A normalised comment as one text. -/
def flatComment (c : List Char) : List Char := List.intercalate ['\n'] (normComment c)

/-- The same comments up to re-indentation and trailing blanks, as multisets. -/
def commentsPreservedUnordered (ins outs : List (List Char)) : Bool :=
  sortTexts (ins.map flatComment) == sortTexts (outs.map flatComment)

/-- Multiset inclusion of two sorted lists. -/
def subMultisetSorted : List (List Char) → List (List Char) → Bool
  | [], _ => true
  | _ :: _, [] => false
  | a :: as, b :: bs =>
    if a == b then subMultisetSorted as bs
    else if leChars b a then subMultisetSorted (a :: as) bs else false

/-- Every word of the input's comments occurs in the output's comments at least as often. -/
def wordsPreservedUnordered (ins outs : List (List Char)) : Bool :=
  subMultisetSorted (sortTexts (ins.flatMap commentWords)) (sortTexts (outs.flatMap commentWords))

end RF.Comment
