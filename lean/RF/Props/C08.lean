import RF.Lemmas.Newline
import RF.Lemmas.Shape

/-!
# C08  Emitted text obeys the whitespace and newline discipline

Theorems about `RF.Model.Newline` (the model of `newline_style.rs`, of the trailing-newline truncation
in `format_lines`, of `push_vertical_spaces`, `push_str` and `remove_trailing_white_spaces`) and about
`Indent::to_string*` of `RF.Model.Shape`.  Quantification: every text (`List Char`), every buffer state,
every request, every pair of bounds, every `Indent`, every `tab_spaces ≥ 1`.

Statements of the design that are false of the code are kept as `_partial` with the exact hypothesis,
next to a `_counterexample`:
  * `unix_no_crlf_partial`, `unix_only_terminators_partial`, `unix_idempotent_partial` (`\r\r\n`, F5b);
  * `exactly_one_final_newline_partial` (`\r` after a `\n` in the trailing run of the buffer);
  * `clamp_bounds` needs `lower ≤ upper` (F17);
  * `removeTrailingWhitespace_idem_partial` (the `CharClasses` char-literal look-ahead);
  * `processMissingCode_strips_partial` (runs of two or more trailing blanks are not stripped).
-/
namespace RF.Props.C08
open RF.Newline RF.Shape
open RF.Lemmas.Newline (EndsInText CrLfOnly)

/-! ## Windows converter -/

/-- In the output of the Windows converter every `\n` has a `\r` immediately before it. -/
theorem windows_every_lf_has_cr (t pre suf : List Char)
    (h : convertToWindows t = pre ++ '\n' :: suf) : pre.getLast? = some '\r' := by
  have h1 := (RF.Lemmas.Newline.everyLfAfterCr_iff _ none).mp
    (RF.Lemmas.Newline.everyLfAfterCr_windows t none) pre suf h
  rwa [RF.Lemmas.Newline.prevOf_none] at h1

example : convertToWindows ['a', '\n', 'b', '\r', '\n'] = ['a', '\r'] ++ '\n' :: ['b', '\r', '\n'] := by
  decide

/-- … stated with the oracle the harness runs on emitted text. -/
theorem windows_style_ok (t : List Char) : styleOk .windows (convertToWindows t) = true := by
  rw [RF.Lemmas.Newline.styleOk_windows]; exact RF.Lemmas.Newline.everyLfAfterCr_windows t none

/-- The oracle `styleOk .windows` means what it should. -/
theorem styleOk_windows_iff (t : List Char) :
    styleOk .windows t = true ↔ ∀ pre suf, t = pre ++ '\n' :: suf → pre.getLast? = some '\r' := by
  rw [RF.Lemmas.Newline.styleOk_windows, RF.Lemmas.Newline.everyLfAfterCr_iff]
  simp only [RF.Lemmas.Newline.prevOf_none]

/-- The Windows converter changes nothing but terminators: the line contents (text between
terminators, a terminator being `\n` or `\r\n`) and the number of lines are the same. -/
theorem windows_only_terminators (t : List Char) : lines (convertToWindows t) = lines t :=
  RF.Lemmas.Newline.lines_windows t

/-- Converting twice is converting once. -/
theorem windows_idempotent (t : List Char) :
    convertToWindows (convertToWindows t) = convertToWindows t :=
  RF.Lemmas.Newline.windows_idempotent t

/-! ## Unix converter -/

/-- The output of the Unix converter contains `\r\n` exactly when the input contains `\r\r\n`; in
particular (the `_partial` statement) no CRLF is left when the input has no `\r\r\n`. -/
theorem unix_crlf_iff (t : List Char) : hasCrLf (convertToUnix t) = hasCrCrLf t :=
  RF.Lemmas.Newline.hasCrLf_unix t

theorem unix_no_crlf_partial (t : List Char) (h : ¬ ∃ a b, t = a ++ '\r' :: '\r' :: '\n' :: b) :
    ¬ ∃ pre suf, convertToUnix t = pre ++ '\r' :: '\n' :: suf := by
  rw [← RF.Lemmas.Newline.hasCrLf_iff, unix_crlf_iff, RF.Lemmas.Newline.hasCrCrLf_iff]
  exact h

/-- non-vacuity: a mixed text without `\r\r\n` -/
example : ¬ ∃ a b, ['a', '\r', '\n', 'b', '\n', '\r', 'c'] = a ++ '\r' :: '\r' :: '\n' :: b := by
  rw [← RF.Lemmas.Newline.hasCrCrLf_iff]; decide

/-- `str::replace` is a single pass: `a\r\r\n` becomes `a\r\n`, which still holds a CRLF. -/
theorem unix_crlf_counterexample :
    ∃ t pre suf, convertToUnix t = pre ++ '\r' :: '\n' :: suf :=
  ⟨['a', '\r', '\r', '\n'], ['a'], [], by decide⟩

theorem unix_style_ok_partial (t : List Char) (h : hasCrCrLf t = false) :
    styleOk .unix (convertToUnix t) = true := by
  rw [RF.Lemmas.Newline.styleOk_unix, unix_crlf_iff, h]; rfl

/-- The oracle `styleOk .unix` means "no `\r\n`". -/
theorem styleOk_unix_iff (t : List Char) :
    styleOk .unix t = true ↔ ¬ ∃ pre suf, t = pre ++ '\r' :: '\n' :: suf := by
  rw [RF.Lemmas.Newline.styleOk_unix, ← RF.Lemmas.Newline.hasCrLf_iff]; simp

/-- Without `\r\r\n` in the input the Unix converter changes nothing but terminators. -/
theorem unix_only_terminators_partial (t : List Char) (h : hasCrCrLf t = false) :
    lines (convertToUnix t) = lines t :=
  RF.Lemmas.Newline.lines_unix t h

example : hasCrCrLf ['a', '\r', '\n', 'b', '\n', '\r', 'c'] = false := by decide

/-- With `\r\r\n` the content of a line changes: `a\r` becomes `a`. -/
theorem unix_only_terminators_counterexample :
    ∃ t, lines (convertToUnix t) ≠ lines t :=
  ⟨['a', '\r', '\r', '\n'], by decide⟩

/-- Without `\r\r\n` in the input, converting twice is converting once. -/
theorem unix_idempotent_partial (t : List Char) (h : hasCrCrLf t = false) :
    convertToUnix (convertToUnix t) = convertToUnix t :=
  RF.Lemmas.Newline.unix_idempotent t h

theorem unix_idempotent_counterexample :
    ∃ t, convertToUnix (convertToUnix t) ≠ convertToUnix t :=
  ⟨['a', '\r', '\r', '\n'], by decide⟩

/-! ## Auto detection, apply -/

/-- `Auto` follows the first terminator of the text it is given: Windows iff the first `\n` has a `\r`
immediately before it. -/
theorem auto_follows_first_terminator (pre suf : List Char) (h : '\n' ∉ pre) :
    autoDetect (pre ++ '\n' :: suf) =
      if pre.getLast? = some '\r' then Effective.windows else Effective.unix :=
  RF.Lemmas.Newline.autoDetect_first pre suf h

example : '\n' ∉ ['a', '\r'] := by decide

/-- A text without `\n` gets the native style (Unix on the platform modelled). -/
theorem auto_no_terminator_native (t : List Char) (h : '\n' ∉ t) : autoDetect t = .unix :=
  RF.Lemmas.Newline.autoDetect_no_lf t h

example : '\n' ∉ ['a', '\r', 'b'] := by decide

/-- `apply_newline_style` is one of the two converters, chosen by the style (and, for `Auto`, by the
raw input only). -/
theorem apply_is_converter (style : Style) (formatted raw : List Char) :
    applyNewlineStyle style formatted raw =
      match effective style raw with
      | .windows => convertToWindows formatted
      | .unix => convertToUnix formatted := rfl

/-! ## Final newline -/

/-- `append_newline` followed by the truncation never panics (no `usize` underflow, `truncate` always on
a char boundary). -/
theorem finalize_never_panics (b : List Char) : (finalize b).isSome = true :=
  RF.Lemmas.Newline.finalize_isSome b

/-- For a buffer without `\r` that holds at least one char other than `\n`, the text after
`append_newline` and truncation is the buffer with its trailing `\n`s replaced by exactly one. -/
theorem exactly_one_final_newline (b : List Char) (hcr : '\r' ∉ b) (hne : ∃ x ∈ b, x ≠ '\n') :
    ∃ p k, b = p ++ List.replicate k '\n' ∧ p ≠ [] ∧ p.getLast? ≠ some '\n' ∧
      finalize b = some (p ++ ['\n']) :=
  RF.Lemmas.Newline.finalize_no_cr b hcr hne

example : '\r' ∉ ['a', '\n', '\n', '\n'] ∧ ∃ x ∈ ['a', '\n', '\n', '\n'], x ≠ '\n' := by decide

/-- General form: when the trailing run of the buffer is `\r* \n*` (after a part that is empty or ends in
a char other than `\n`, `\r`), the result is that part, the `\r`s, and exactly one `\n`. -/
theorem exactly_one_final_newline_partial (p : List Char) (c k : Nat)
    (hp : ∀ x, p.getLast? = some x → x ≠ '\n' ∧ x ≠ '\r') :
    finalize (p ++ List.replicate c '\r' ++ List.replicate k '\n') =
      some (p ++ List.replicate c '\r' ++ ['\n']) :=
  RF.Lemmas.Newline.finalize_cr_lf p c k hp

example : ∀ x, ['a', ';'].getLast? = some x → x ≠ '\n' ∧ x ≠ '\r' := by simp

/-- `newline_count` skips `\r` but the truncation removes bytes: a buffer ending in `\n\r` loses the
appended `\n` and ends without terminator; one ending in `\n\n\r` ends in two `\n`. -/
theorem exactly_one_final_newline_counterexample :
    finalize ['a', '\n', '\r'] = some ['a', '\n', '\r'] ∧
    finalize ['a', '\n', '\n', '\r'] = some ['a', '\n', '\n'] := by
  constructor <;> decide

/-- What the truncation does in general (`p` empty or ending in ordinary text, `r` made of `\n`/`\r`):
it removes `count('\n', r) - 1` chars from the end. -/
theorem truncate_exact (p r : List Char) (hp : ∀ x, p.getLast? = some x → x ≠ '\n' ∧ x ≠ '\r')
    (hr : ∀ c ∈ r, c = '\n' ∨ c = '\r') :
    formatLinesTruncate (p ++ r) = some (p ++ r.take (r.length - (r.count '\n' - 1))) :=
  RF.Lemmas.Newline.formatLinesTruncate_decomp p r hp hr

example : (∀ x, ['a'].getLast? = some x → x ≠ '\n' ∧ x ≠ '\r') ∧
    (∀ c ∈ ['\n', '\r', '\n'], c = '\n' ∨ c = '\r') := by decide

/-- Soundness of the oracle `finalOk` run on emitted text. -/
theorem finalOk_sound (t : List Char) (h : finalOk t = true) :
    ∃ body, (t = body ++ ['\n'] ∨ t = body ++ ['\r', '\n']) ∧ body ≠ [] ∧
      body.getLast? ≠ some '\n' ∧ startsWithBlankLine t = false :=
  RF.Lemmas.Newline.finalOk_sound t h

example : finalOk ['f', 'n', '\r', '\n'] = true ∧ finalOk ['a', '\n', '\n'] = false ∧
    finalOk [' ', '\n', 'a', '\n'] = false := by decide

/-! ## Blank lines -/

/-- With `off` newlines at the end of the buffer and any request `n` (0 included), the run of `\n`
after `push_vertical_spaces` has length in `[lower+1, max off (upper+1)]`, provided `lower ≤ upper`. -/
theorem clamp_bounds (off n lower upper : Nat) (h : lower ≤ upper) :
    lower + 1 ≤ clampBlank off n lower upper ∧
      clampBlank off n lower upper ≤ max off (upper + 1) :=
  RF.Lemmas.Newline.clamp_bounds off n lower upper h

/-- default bounds (0, 1): one newline in the buffer, five requested, one more is pushed -/
example : (0 : Nat) ≤ 1 ∧ clampBlank 1 5 0 1 = 2 ∧ pushVerticalSpaces 1 5 0 1 = 1 := by decide

/-- The exact value. -/
theorem clamp_exact (off n lower upper : Nat) (h : lower ≤ upper) :
    clampBlank off n lower upper = max off (max (lower + 1) (min (off + n) (upper + 1))) :=
  RF.Lemmas.Newline.clamp_eq off n lower upper h

/-- `blank_lines_lower_bound = 2`, `blank_lines_upper_bound = 1` (F17): a request of one newline yields
three (two blank lines, above the upper bound); a request of three yields two (one blank line, below the
lower bound). -/
theorem clamp_lower_gt_upper_counterexample :
    ¬ (clampBlank 0 1 2 1 ≤ max 0 (1 + 1)) ∧ ¬ (2 + 1 ≤ clampBlank 0 3 2 1) := by
  decide

/-- `clampBlank` really is the run at the end of the visitor's buffer after the call. -/
theorem clampBlank_is_buffer_run (v : Visitor) (n lower upper : Nat) :
    trailingNewlines (v.pushVerticalSpaces n lower upper).buffer =
      clampBlank (trailingNewlines v.buffer) n lower upper :=
  RF.Lemmas.Newline.visitor_pushVerticalSpaces v n lower upper

/-- Clamping is idempotent: asking again for nothing adds nothing. -/
theorem clampBlank_idem (off n lower upper : Nat) (h : lower ≤ upper) :
    clampBlank (clampBlank off n lower upper) 0 lower upper = clampBlank off n lower upper :=
  RF.Lemmas.Newline.clamp_idem off n lower upper h

/-- … and a gap that was produced by the clamp (from an empty run) is reproduced when it is the
request of a second formatting pass. -/
theorem clampBlank_reformat (n lower upper : Nat) (h : lower ≤ upper) :
    clampBlank 0 (clampBlank 0 n lower upper) lower upper = clampBlank 0 n lower upper :=
  RF.Lemmas.Newline.clamp_reformat n lower upper h

/-- With contradictory bounds the clamp is not idempotent. -/
theorem clampBlank_idem_counterexample :
    clampBlank (clampBlank 0 3 2 1) 0 2 1 ≠ clampBlank 0 3 2 1 := by decide

/-- `push_str` keeps `line_number` equal to the number of `\n` in the buffer (the `debug_assert` of
`format_file`, formatting.rs:224-229). -/
theorem line_number_invariant (v : Visitor) (s : List Char)
    (h : v.lineNumber = countNewlines v.buffer) :
    (v.pushStr s).lineNumber = countNewlines (v.pushStr s).buffer :=
  RF.Lemmas.Newline.pushStr_lineNumber v s h

example : (Visitor.mk [] 0).lineNumber = countNewlines (Visitor.mk [] 0).buffer := rfl

/-! ## process_missing_code -/

/-- One line of copied code through the loop of `process_missing_code` (line inside `file_lines`):
`body` is the line up to its last non-blank, `ws` its trailing blanks.  What is pushed is the line with
at most one blank removed — the last one, and only when the number of trailing blanks is odd — because
a blank that follows a blank clears `last_wspace` (missed_spans.rs:352-356). -/
theorem processMissingCode_line (pre body ws post rest : List Char) (cl : Nat → Bool) (l : Nat)
    (out : List Char) (hb : '\n' ∉ body)
    (hbl : ∀ x, body.getLast? = some x → isWhitespace x = false)
    (hws : ∀ c ∈ ws, isWhitespace c = true ∧ c ≠ '\n') (hcl : cl l = true) :
    pmcLoop (pre ++ body ++ ws ++ '\n' :: post) cl pre.length (body ++ ws ++ '\n' :: rest)
        ⟨pre.length, none, l⟩ out =
      pmcLoop (pre ++ body ++ ws ++ '\n' :: post) cl (pre.length + body.length + ws.length + 1) rest
        ⟨pre.length + body.length + ws.length + 1, none, l + 1⟩
        (out ++ body ++ ws.take (ws.length - ws.length % 2) ++ ['\n']) :=
  RF.Lemmas.Newline.pmcLoop_line pre body ws post rest cl l out hb hbl hws hcl

/-- Hence trailing blanks are stripped from a copied line exactly when there is at most one. -/
theorem processMissingCode_strips_partial (ws : List Char) (h : ws.length ≤ 1) :
    ws.take (ws.length - ws.length % 2) = [] := by
  match ws, h with
  | [], _ => rfl
  | [_], _ => rfl

example : ∀ c ∈ [' '], isWhitespace c = true ∧ c ≠ '\n' := by decide

/-- Two trailing blanks survive; of three, two survive (observed on the built binary with a block
comment cut by `--file-lines`: `b  ` stays `b  `, `b ` becomes `b`). -/
theorem processMissingCode_strip_counterexample :
    (processMissingCode ['b', ' ', ' ', '\n', 'c'] 0 5 (fun _ => true) [] ⟨0, none, 1⟩).map (·.1) =
      some ['b', ' ', ' ', '\n', 'c'] ∧
    (processMissingCode ['b', ' ', ' ', ' ', '\n', 'c'] 0 6 (fun _ => true) [] ⟨0, none, 1⟩).map (·.1) =
      some ['b', ' ', ' ', '\n', 'c'] ∧
    (processMissingCode ['b', ' ', '\n', 'c'] 0 4 (fun _ => true) [] ⟨0, none, 1⟩).map (·.1) =
      some ['b', '\n', 'c'] := by
  refine ⟨?_, ?_, ?_⟩ <;> decide

/-! ## Indentation -/

/-- `Indent::to_string` is `block_indent / tab_spaces` tabs followed by `alignment` spaces under
`hard_tabs` (a remainder `block_indent % tab_spaces` is dropped, not turned into spaces), and
`block_indent + alignment` spaces otherwise — for every width, i.e. the static-buffer path (≤ 80) and
the allocating path agree. -/
theorem indent_shape (i : Indent) (c : Config) (hts : 1 ≤ c.tab_spaces) :
    i.to_string c = .ok
      (if c.hard_tabs then
        List.replicate (i.block_indent / c.tab_spaces) '\t' ++ List.replicate i.alignment ' '
       else List.replicate (i.block_indent + i.alignment) ' ') :=
  RF.Lemmas.Shape.to_string_eq i c (fun _ => hts)

example : 1 ≤ (Config.mk true 4 100 80).tab_spaces := by decide

/-- The same with the leading `\n` (`Indent::to_string_with_newline`, `Shape::to_string_with_newline`,
the latter with `offset` in place of `alignment`). -/
theorem indent_shape_with_newline (i : Indent) (s : Shape) (c : Config) (hts : 1 ≤ c.tab_spaces) :
    i.to_string_with_newline c = .ok ('\n' :: RF.Lemmas.Shape.indentChars i c) ∧
    s.to_string_with_newline c =
      .ok ('\n' :: RF.Lemmas.Shape.indentChars { s.indent with alignment := s.offset } c) :=
  ⟨RF.Lemmas.Shape.to_string_with_newline_eq i c (fun _ => hts),
   RF.Lemmas.Shape.shape_to_string_with_newline_eq s c (fun _ => hts)⟩

/-- The alphabet claim: only spaces without hard tabs; tabs then spaces with. -/
theorem indent_alphabet (i : Indent) (c : Config) (hts : 1 ≤ c.tab_spaces) :
    ∃ nt ns, i.to_string c = .ok (List.replicate nt '\t' ++ List.replicate ns ' ') ∧
      (c.hard_tabs = false → nt = 0) := by
  rw [indent_shape i c hts]
  cases h : c.hard_tabs
  · exact ⟨0, i.block_indent + i.alignment, by simp, fun _ => rfl⟩
  · exact ⟨i.block_indent / c.tab_spaces, i.alignment, by simp, by simp⟩

/-- Under `hard_tabs` the emitted indentation, with a tab counted as `tab_spaces` columns, is as wide as
`Indent::width` says only when `block_indent` is a multiple of `tab_spaces` (the invariant the comment
on the field asks for): the remainder is lost. -/
theorem indent_visual_width (i : Indent) (c : Config) :
    c.tab_spaces * (i.block_indent / c.tab_spaces) + i.alignment + i.block_indent % c.tab_spaces =
      i.width := by
  have := Nat.div_add_mod i.block_indent c.tab_spaces
  simp only [Indent.width]; omega

/-- width 81 and 200 take the allocating path -/
example : (Indent.mk 81 0).to_string ⟨false, 4, 100, 80⟩ = .ok (List.replicate 81 ' ') := by decide
example : (Indent.mk 8 3).to_string ⟨true, 4, 100, 80⟩ = .ok ['\t', '\t', ' ', ' ', ' '] := by decide

/-! ## remove_trailing_white_spaces -/

/-- `CharClasses`, hence `remove_trailing_white_spaces`, never hits one of its assertions. -/
theorem removeTrailingWhitespace_never_panics (t : List Char) :
    (removeTrailingWhiteSpaces t).isSome = true :=
  RF.Lemmas.Newline.removeTrailingWhiteSpaces_isSome t

/-- The loop is idempotent on a fixed classification of the chars. -/
theorem removeTrailingWhitespace_idem (ks : List (CC.Kind × Char)) :
    rtwTagged [] (rtwTagged [] ks) = rtwTagged [] ks :=
  RF.Lemmas.Newline.rtwTagged_idem ks

/-- The whole function is idempotent on texts whose classification survives the removal
(`rtwStable`, decidable, exposed as `nl.oracle.rtwstable`). -/
theorem removeTrailingWhitespace_idem_partial (t out : List Char) (hs : rtwStable t = true)
    (h : removeTrailingWhiteSpaces t = some out) : removeTrailingWhiteSpaces out = some out := by
  unfold rtwStable at hs
  unfold removeTrailingWhiteSpaces at h ⊢
  cases hc : CC.classify t with
  | none => simp [hc] at h
  | some ks =>
    simp only [hc, decide_eq_true_eq] at hs
    simp only [hc, Option.map_some, Option.some.injEq] at h
    subst h
    rw [hs]
    simp [RF.Lemmas.Newline.rtwTagged_idem]

example : rtwStable ['a', ' ', '\n', '"', ' ', '\n', '"', ' ', '/', '/', ' ', '\n'] = true := by decide

/-- The whole function is idempotent on every text that contains no `'`: the only look-ahead of
`CharClasses` that a removed blank can disturb is the two-char one after `'`. -/
theorem removeTrailingWhitespace_idem_no_quote_partial (t out : List Char) (hq : '\'' ∉ t)
    (h : removeTrailingWhiteSpaces t = some out) : removeTrailingWhiteSpaces out = some out :=
  RF.Lemmas.Newline.removeTrailingWhiteSpaces_idem_no_quote t out hq h

example : '\'' ∉ ['a', ' ', '\n', '"', ' ', '\n', '"'] := by decide

/-- Not so in general: in `' \n'"'" \n` the first `'` is followed by a blank; once the blank is removed
the look-ahead of `CharClasses` sees `'\n'` as a char literal, the string literals shift, and the blank
before the second `\n`, kept by the first pass as "inside a string", is removed by the second.
(Not lexable Rust: no token starts with `'` followed by a blank.) -/
theorem removeTrailingWhitespace_idem_counterexample :
    removeTrailingWhiteSpaces ['\'', ' ', '\n', '\'', '"', '\'', '"', ' ', '\n'] =
      some ['\'', '\n', '\'', '"', '\'', '"', ' ', '\n'] ∧
    removeTrailingWhiteSpaces ['\'', '\n', '\'', '"', '\'', '"', ' ', '\n'] =
      some ['\'', '\n', '\'', '"', '\'', '"', '\n'] := by
  constructor <;> decide

/-- In the output no blank other than `\n` stands before a `\n` — unless `CharClasses` classified that
`\n` as inside a string literal — nor at the end of the text. -/
theorem removeTrailingWhitespace_no_trailing_blank (t : List Char) :
    ∃ ks, CC.classify t = some ks ∧
      removeTrailingWhiteSpaces t = some ((rtwTagged [] ks).map Prod.snd) ∧
      noTrailingBlankT none (rtwTagged [] ks) = true := by
  have h := RF.Lemmas.Newline.classify_isSome t
  cases hc : CC.classify t with
  | none => simp [hc] at h
  | some ks =>
    exact ⟨ks, rfl, by simp [removeTrailingWhiteSpaces, hc],
      RF.Lemmas.Newline.rtwTagged_noTrailingBlankT ks [] none rfl RF.Lemmas.Newline.WsOnly_nil⟩

/-- When no `\n` of the text is inside a string literal the plain oracle holds of the output. -/
theorem removeTrailingWhitespace_no_trailing_blank_plain (t out : List Char)
    (ks : List (CC.Kind × Char)) (hc : CC.classify t = some ks)
    (hstr : ∀ x ∈ ks, x.2 = '\n' → x.1 ≠ .inString)
    (h : removeTrailingWhiteSpaces t = some out) : noTrailingBlank none out = true := by
  simp only [removeTrailingWhiteSpaces, hc, Option.map_some, Option.some.injEq] at h
  subst h
  rw [RF.Lemmas.Newline.noTrailingBlankT_plain]
  · exact RF.Lemmas.Newline.rtwTagged_noTrailingBlankT ks [] none rfl RF.Lemmas.Newline.WsOnly_nil
  · intro x hx
    rcases RF.Lemmas.Newline.rtwTagged_mem ks [] x hx with h | h
    · simp at h
    · exact hstr x h

example : ∃ ks, CC.classify ['a', ' ', '\n', '/', '/', ' ', '\n'] = some ks ∧
    ∀ x ∈ ks, x.2 = '\n' → x.1 ≠ .inString := ⟨_, rfl, by decide⟩

/-- Meaning of the plain oracle. -/
theorem noTrailingBlank_iff (t : List Char) :
    noTrailingBlank none t = true ↔
      (∀ pre suf, t = pre ++ '\n' :: suf →
          ∀ w, pre.getLast? = some w → w = '\n' ∨ isWhitespace w = false) ∧
        (∀ w, t.getLast? = some w → w = '\n' ∨ isWhitespace w = false) := by
  rw [RF.Lemmas.Newline.noTrailingBlank_iff]
  simp only [RF.Lemmas.Newline.prevOf_none]
  have key : ∀ o : Option Char, RF.Lemmas.Newline.prevOk o = true ↔
      ∀ w, o = some w → w = '\n' ∨ isWhitespace w = false := by
    intro o
    cases o <;> simp [RF.Lemmas.Newline.prevOk]
  constructor
  · rintro ⟨h1, h2⟩
    exact ⟨fun pre suf e => (key _).mp (h1 pre suf e), (key _).mp h2⟩
  · rintro ⟨h1, h2⟩
    exact ⟨fun pre suf e => (key _).mpr (h1 pre suf e), (key _).mpr h2⟩

end RF.Props.C08
