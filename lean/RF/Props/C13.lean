import RF.Lemmas.Modules
import RF.Lemmas.ModMacros

/-!
# C13  Exactly the reachable, non-excluded files are formatted, each once

Theorems about `RF.Model.Modules`: the model of `ModResolver` (`src/modules.rs`), of the path helpers
it uses (`parse/parser.rs`, `parse/session.rs`, rustc's `default_submod_path`,
`Input::to_directory_ownership`) and of the file filters of `format_project` (`src/formatting.rs`).

Quantification: every tree on disk `fs` (any association list of paths to files/directories, `.`
and `..` in paths included), every input path, every declaration tree.  The refinement theorems
need three hypotheses, each necessary (a proved counter-example follows each):

* `fsPlain fs` — no `#[cfg_attr(.., path = "..")]` (the `MultiExternal` code path is modelled and
  compared with the implementation by the correspondence, but not proved);
* `UniqueOwnership` — no file is reached under two different directory ownerships;
* `ProbeAgrees` — the `exists()` probe of `push_inline_mod_directory` never fires.

The specification is the inductive closure `Reach false fs root` (rustc's rules, `probe = false`)
with the error predicate `SpecErr`, and its executable form `reachable`.
"The resolver and the specification report the same error kind" is stated as: the kind the resolver
reports is the kind of a declaration of a file of the crate that the specification also rejects;
and when the resolver succeeds the specification rejects nothing.  (With several failing
declarations the specification has several kinds; the resolver reports the first in its walk.)
-/
namespace RF.Props.C13
open RF.Modules RF.Lemmas.Modules RF.Lemmas.ModMacros

/-! ## Example trees used for non-vacuity and counter-examples -/

def libRs : Comp := ['l', 'i', 'b', '.', 'r', 's']
def aRs : Comp := ['a', '.', 'r', 's']
def bRs : Comp := ['b', '.', 'r', 's']
def xRs : Comp := ['x', '.', 'r', 's']
def wRs : Comp := ['w', '.', 'r', 's']
def fooRs : Comp := ['f', 'o', 'o', '.', 'r', 's']
def childRs : Comp := ['c', 'h', 'i', 'l', 'd', '.', 'r', 's']
def a : Comp := ['a']
def b : Comp := ['b']
def x : Comp := ['x']
def z : Comp := ['z']
def w : Comp := ['w']
def foo : Comp := ['f', 'o', 'o']
def child : Comp := ['c', 'h', 'i', 'l', 'd']
def sub : Comp := ['s', 'u', 'b']

/-- `lib.rs: mod a; mod b { mod x; }`, `a.rs: mod w;`, `a/w.rs`, `b/x/mod.rs`, and a decoy `z.rs`.
Mixes `name.rs`, `name/mod.rs`, an inline module and a nested non-`mod.rs` file. -/
def fsGood : FS :=
  [ ([libRs], .file false false [.ext a [], .inline b [] [.ext x []]]),
    ([aRs], .file false false [.ext w []]),
    ([a, wRs], .file false true []),
    ([b, x, modRs], .file false false []),
    ([['z', '.', 'r', 's']], .file false false []) ]

def rootGood : Ctx := ⟨[libRs], .unownedViaBlock⟩

def ctxsGood : List Ctx :=
  [rootGood, ⟨[aRs], .owned (some a)⟩, ⟨[a, wRs], .owned (some w)⟩, ⟨[b, x, modRs], .owned none⟩]

theorem fsGood_plain : fsPlain fsGood := fsPlain_of_fsPlainB (by decide)
theorem fsGood_unique : UniqueOwnership false fsGood rootGood :=
  unique_of_uniqueB (S := ctxsGood) (by decide) (by decide) (by decide)
theorem fsGood_probe : ProbeAgrees fsGood rootGood :=
  probeAgrees_of_B (S := ctxsGood) (by decide) (by decide) (by decide)

/-- The probe quirk: `lib.rs: mod x;`, `x.rs: mod z { mod w; }`, `x/w.rs`, and no `x/z/`. -/
def fsProbe : FS :=
  [ ([libRs], .file false false [.ext x []]),
    ([xRs], .file false false [.inline z [] [.ext w []]]),
    ([x, wRs], .file false false []) ]

/-- Two routes, two ownerships: `lib.rs: #[path = "foo.rs"] mod a; mod foo;`, `foo.rs: mod child;`,
`child.rs`, `foo/child.rs`. -/
def fsTwoRoutes : FS :=
  [ ([libRs], .file false false [.ext a [.path ['f', 'o', 'o', '.', 'r', 's']], .ext foo []]),
    ([fooRs], .file false false [.ext child []]),
    ([childRs], .file false false []),
    ([foo, childRs], .file false false []) ]

/-- `lib.rs: mod a; #[cfg_attr(.., path = "b.rs")] mod a;`, `a.rs` with `#![rustfmt::skip]`, `b.rs`. -/
def fsClone : FS :=
  [ ([libRs], .file false false [.ext a [], .ext a [.cfgAttrPath ['b', '.', 'r', 's']]]),
    ([aRs], .file true false []),
    ([bRs], .file false false []) ]

/-- `lib.rs: mod a; #[path = "sub/../a.rs"] mod b;`, `a.rs`, `sub/x.rs`. -/
def fsDotDot : FS :=
  [ ([libRs], .file false false
      [.ext a [], .ext b [.path ['s', 'u', 'b', '/', '.', '.', '/', 'a', '.', 'r', 's']]]),
    ([aRs], .file false false []),
    ([sub, xRs], .file false false []) ]

/-! ## The resolver refines the specification -/

/-- **resolver_refines_spec, proved fragment.** For a tree without `cfg_attr(path)` in which no file
is reached under two ownerships and the `exists()` probe never fires: if `visit_crate` succeeds, the
key set of its file map is exactly the set of files of the crate according to rustc's rules (root
included) and no declaration of the crate fails to resolve; if it fails with kind `k`, either the
fuel ran out or some declaration of a file of the crate fails with kind `k` in the specification.

The full statement (the same without `huniq` and `hprobe`):
`∀ fs …, fsPlain fs → nodeAt fs root = some (.file rootSkip g rootItems) → <the same conclusion>`
is false; see the two `_counterexample` theorems. -/
theorem resolver_refines_spec_partial (fs : FS) (fuel : Nat) (root : Path) (rootSkip g : Bool)
    (rootItems : List Decl) (own : Ownership)
    (hplain : fsPlain fs)
    (hroot : nodeAt fs root = some (.file rootSkip g rootItems))
    (huniq : UniqueOwnership false fs ⟨root, own⟩) (hprobe : ProbeAgrees fs ⟨root, own⟩) :
    match visitCrate fs fuel (.real root) rootSkip rootItems own true with
    | .ok m =>
      (∀ k, k ∈ keys m ↔ ∃ p own', k = .real p ∧ Reach false fs ⟨root, own⟩ ⟨p, own'⟩) ∧
      (∀ k, ¬ SpecErr false fs ⟨root, own⟩ k) ∧
      ∀ e ∈ m, e.2.spanFile = e.1 ∧ (e.2.innerSkip = true ↔ e.1 = .real root ∧ rootSkip = true)
    | .error k => k = .fuel ∨ SpecErr false fs ⟨root, own⟩ k :=
  visitCrate_refines fs hplain fuel root rootSkip g rootItems own hroot huniq hprobe

/-- Non-vacuity: `fsGood` satisfies the hypotheses, and the resolver finds its four files. -/
example :
    fsPlain fsGood ∧ UniqueOwnership false fsGood rootGood ∧ ProbeAgrees fsGood rootGood ∧
    (visitCrate fsGood 5 (.real [libRs]) false (itemsAt fsGood [libRs]) .unownedViaBlock true).map keys
      = .ok [.real [aRs], .real [a, wRs], .real [b, x, modRs], .real [libRs]] :=
  ⟨fsGood_plain, fsGood_unique, fsGood_probe, rfl⟩

/-- **The decidable check `hypsB` (driver op `mod.hyps`) establishes the three hypotheses.** -/
theorem hyps_check_sound (fs : FS) (rounds : Nat) (root : Path) (own : Ownership)
    (h : hypsB fs rounds root own = true) :
    fsPlain fs ∧ UniqueOwnership false fs ⟨root, own⟩ ∧ ProbeAgrees fs ⟨root, own⟩ :=
  hypsB_sound h

example : hypsB fsGood 4 [libRs] .unownedViaBlock = true := by decide
example : hypsB fsProbe 4 [libRs] .unownedViaBlock = false := by decide
example : hypsB fsTwoRoutes 4 [libRs] .unownedViaBlock = false := by decide

/-- **The same for rustfmt's own directory rule** (`probe = true`), where no probe hypothesis is
needed: the resolver computes exactly the closure of its rules. -/
theorem resolver_computes_closure (fs : FS) (fuel : Nat) (root : Path) (rootSkip g : Bool)
    (rootItems : List Decl) (own : Ownership)
    (hplain : fsPlain fs)
    (hroot : nodeAt fs root = some (.file rootSkip g rootItems))
    (huniq : UniqueOwnership true fs ⟨root, own⟩) :
    match visitCrate fs fuel (.real root) rootSkip rootItems own true with
    | .ok m =>
      (∀ k, k ∈ keys m ↔ ∃ p own', k = .real p ∧ Reach true fs ⟨root, own⟩ ⟨p, own'⟩) ∧
      (∀ k, ¬ SpecErr true fs ⟨root, own⟩ k) ∧
      ∀ e ∈ m, e.2.spanFile = e.1 ∧ (e.2.innerSkip = true ↔ e.1 = .real root ∧ rootSkip = true)
    | .error k => k = .fuel ∨ SpecErr true fs ⟨root, own⟩ k :=
  visitCrate_closure fs hplain fuel root rootSkip g rootItems own hroot huniq

example : UniqueOwnership true fsGood rootGood :=
  unique_probe fsGood_probe fsGood_unique

/-- **Counter-example 1 (the `exists()` probe).** `x.rs` declares `mod z { mod w; }`, the directory
`x/` exists and `x/z/` does not: rustc looks for `x/z/w.rs` and fails; `push_inline_mod_directory`
stops at `x/`, so rustfmt finds and formats `x/w.rs`, a file that is not part of the crate.
The tree is plain and every file has one ownership, so only `ProbeAgrees` fails. -/
theorem resolver_refines_spec_counterexample_probe :
    fsPlain fsProbe ∧
    (visitCrate fsProbe 5 (.real [libRs]) false (itemsAt fsProbe [libRs]) .unownedViaBlock true).map
        keys = .ok [.real [xRs], .real [x, wRs], .real [libRs]] ∧
    reachable fsProbe 5 [libRs] (itemsAt fsProbe [libRs]) .unownedViaBlock = .error .notfound ∧
    SpecErr false fsProbe ⟨[libRs], .unownedViaBlock⟩ .notfound := by
  refine ⟨fsPlain_of_fsPlainB (by decide), rfl, rfl, ?_⟩
  have h := reachable_spec fsProbe 5 [libRs] false false (itemsAt fsProbe [libRs]) .unownedViaBlock rfl
  have e : reachable fsProbe 5 [libRs] (itemsAt fsProbe [libRs]) .unownedViaBlock
      = .error .notfound := rfl
  rw [e] at h
  rcases h with h | h | h
  · cases h
  · cases h
  · exact h

/-- **Counter-example 2 (one file, two ownerships).** `foo.rs` is reached first through
`#[path = "foo.rs"] mod a;` (then its `mod child;` is `child.rs`) and again through `mod foo;` (then
its `mod child;` is `foo/child.rs`). rustc compiles both children; the resolver skips the second
visit (`is_file_parsed`) and never formats `foo/child.rs`. -/
theorem resolver_refines_spec_counterexample_ownership :
    fsPlain fsTwoRoutes ∧
    (visitCrate fsTwoRoutes 5 (.real [libRs]) false (itemsAt fsTwoRoutes [libRs]) .unownedViaBlock
        true).map keys = .ok [.real [fooRs], .real [childRs], .real [libRs]] ∧
    Reach false fsTwoRoutes ⟨[libRs], .unownedViaBlock⟩ ⟨[foo, childRs], .owned (some child)⟩ := by
  refine ⟨fsPlain_of_fsPlainB (by decide), rfl, ?_⟩
  have h1 : Reach false fsTwoRoutes ⟨[libRs], .unownedViaBlock⟩ ⟨[fooRs], .owned (some foo)⟩ :=
    Reach.step (via := false) Reach.root (by decide) ⟨false, [.ext child []], rfl⟩
  exact Reach.step (via := false) h1 (by decide) ⟨false, [], rfl⟩

/-! ## The executable specification -/

/-- **`reachable` (the tree recursion the driver runs for `mod.spec`) computes the declarative
specification**: on success its result plus the root is exactly the set of files of the crate and no
declaration fails; a failure other than `fuel`/`circular` is a failure of the specification. -/
theorem reachable_sound_complete (fs : FS) (fuel : Nat) (root : Path) (rootSkip g : Bool)
    (rootItems : List Decl) (own : Ownership)
    (hroot : nodeAt fs root = some (.file rootSkip g rootItems)) :
    match reachable fs fuel root rootItems own with
    | .ok ps =>
      (∀ p, (p = root ∨ p ∈ ps) ↔ ∃ own', Reach false fs ⟨root, own⟩ ⟨p, own'⟩) ∧
      ∀ k, ¬ SpecErr false fs ⟨root, own⟩ k
    | .error k => k = .fuel ∨ k = .circular ∨ SpecErr false fs ⟨root, own⟩ k :=
  reachable_spec fs fuel root rootSkip g rootItems own hroot

/-- **Resolver vs executable specification** (what the harness compares through `mod.filemap` and
`mod.reachable`): in the proved fragment, when both succeed they name the same files; the resolver
cannot succeed where the specification reports a resolution error, nor the other way round. -/
theorem resolver_matches_reachable_partial (fs : FS) (fuel fuel' : Nat) (root : Path)
    (rootSkip g : Bool) (rootItems : List Decl) (own : Ownership)
    (hplain : fsPlain fs)
    (hroot : nodeAt fs root = some (.file rootSkip g rootItems))
    (huniq : UniqueOwnership false fs ⟨root, own⟩) (hprobe : ProbeAgrees fs ⟨root, own⟩) :
    match visitCrate fs fuel (.real root) rootSkip rootItems own true,
      reachable fs fuel' root rootItems own with
    | .ok m, .ok ps => ∀ k, k ∈ keys m ↔ ∃ p, k = .real p ∧ (p = root ∨ p ∈ ps)
    | .ok _, .error k' => k' = .fuel ∨ k' = .circular
    | .error k, .ok _ => k = .fuel
    | .error k, .error k' =>
      (k = .fuel ∨ SpecErr false fs ⟨root, own⟩ k) ∧
      (k' = .fuel ∨ k' = .circular ∨ SpecErr false fs ⟨root, own⟩ k') := by
  have h1 := resolver_refines_spec_partial fs fuel root rootSkip g rootItems own hplain hroot huniq
    hprobe
  have h2 := reachable_sound_complete fs fuel' root rootSkip g rootItems own hroot
  cases hv : visitCrate fs fuel (.real root) rootSkip rootItems own true with
  | ok m =>
    rw [hv] at h1
    cases hr : reachable fs fuel' root rootItems own with
    | ok ps =>
      rw [hr] at h2
      dsimp only at h1 h2 ⊢
      intro k
      rw [h1.1 k]
      constructor
      · rintro ⟨p, own', rfl, hreach⟩
        exact ⟨p, rfl, (h2.1 p).2 ⟨own', hreach⟩⟩
      · rintro ⟨p, rfl, hp⟩
        obtain ⟨own', hreach⟩ := (h2.1 p).1 hp
        exact ⟨p, own', rfl, hreach⟩
    | error k' =>
      rw [hr] at h2
      dsimp only at h1 h2 ⊢
      rcases h2 with h | h | h
      · exact Or.inl h
      · exact Or.inr h
      · exact absurd h (h1.2.1 k')
  | error k =>
    rw [hv] at h1
    cases hr : reachable fs fuel' root rootItems own with
    | ok ps =>
      rw [hr] at h2
      dsimp only at h1 h2 ⊢
      rcases h1 with h | h
      · exact h
      · exact absurd h (h2.2 k)
    | error k' =>
      rw [hr] at h2
      exact ⟨h1, h2⟩

/-! ## Each file once -/

/-- **each_file_once.** Whatever the tree, the declarations (`cfg_attr(path)` included), the number
of routes to a file and the fuel: the file map `visit_crate` returns has no two entries with the same
path, so `format_project` passes each path to `format_file` at most once. -/
theorem each_file_once (fs : FS) (fuel : Nat) (rootName : FileName) (rootSkip : Bool)
    (rootItems : List Decl) (own : Ownership) (recursive : Bool) (m : List (FileName × Mod))
    (h : visitCrate fs fuel rootName rootSkip rootItems own recursive = .ok m) :
    (keys m).Nodup :=
  visitCrate_nodup fs fuel rootName rootSkip rootItems own recursive m h

/-- … and the formatted list is a sublist of those keys, so it has no duplicate either. -/
theorem formatted_each_once (fs : FS) (fuel : Nat) (p : Path) (cfg : Config) (names : List FileName)
    (h : formatProject fs fuel (.file p) cfg = .ok names) : names.Nodup := by
  unfold formatProject at h
  dsimp only at h
  split at h
  · cases h; exact List.nodup_nil
  · split at h
    · split at h
      · cases h
      · rename_i files hv
        cases h
        have := each_file_once _ _ _ _ _ _ _ _ hv
        exact (List.filter_sublist.map _).nodup this
    · cases h

example : (visitCrate fsTwoRoutes 5 (.real [libRs]) false (itemsAt fsTwoRoutes [libRs])
    .unownedViaBlock true).map keys = .ok [.real [fooRs], .real [childRs], .real [libRs]] := rfl

/-- **"Once" is per spelling of the path, not per file.** The keys are compared as `PathBuf`s
(component-wise, `..` not resolved): `a.rs` reached as `a.rs` and as `sub/../a.rs` gives two entries
for one file on disk, which is then formatted (and reported) twice. -/
theorem each_file_once_counterexample_canonical :
    (visitCrate fsDotDot 5 (.real [libRs]) false (itemsAt fsDotDot [libRs]) .unownedViaBlock true).map
        keys = .ok [.real [aRs], .real [sub, dotdot, aRs], .real [libRs]] ∧
    normAux fsDotDot [] [aRs] = normAux fsDotDot [] [sub, dotdot, aRs] := ⟨rfl, rfl⟩

/-! ## The directory is restored -/

/-- **directory_restored.** After `visit_sub_mod` on any item (external, inline, skipped, with any
recursion into files) the resolver's directory — path and ownership — is what it was before; this is
what makes the resolution of an item independent of its elder siblings' subtrees. -/
theorem directory_restored (fs : FS) (rec : RecFn) (cur : FileName) (st st' : St) (d : Decl)
    (h : visitSubModW fs rec cur st d = .ok st') : st'.dir = st.dir :=
  visitSubModW_dir fs rec cur st st' d h

/-- The same for a whole item list (`visit_mod_from_ast`). -/
theorem directory_restored_items (fs : FS) (rec : RecFn) (cur : FileName) (ds : List Decl)
    (st st' : St) (h : visitItemsW fs rec cur st ds = .ok st') : st'.dir = st.dir :=
  visitItemsW_dir fs rec cur ds st st' h

/-- Non-vacuity: an inline module with a `#[path]` really changes the directory on the way down. -/
example : pushInlineModDirectory true fsGood ⟨[], .owned (some a)⟩ b [.path ['x']]
    = ⟨[x], .owned none⟩ := rfl

/-! ## Which entries are formatted -/

/-- **filters_table (1): the decision of `should_skip_module`** as a closed formula of its seven
inputs; proved over all 128 rows. -/
theorem filters_table (innerSkip skipChildren isMain inputIsStdin ignored formatGenerated generated : Bool) :
    skipDecision innerSkip skipChildren isMain inputIsStdin ignored formatGenerated generated =
      (innerSkip || (skipChildren && !isMain) || (!inputIsStdin && ignored) ||
        (!inputIsStdin && !formatGenerated && generated)) :=
  skipDecision_table _ _ _ _ _ _ _

/-- **filters_table (2): a name is formatted iff it is in the file map and no exclusion applies.**
For a file input that parses and is not the `skip_children` + ignored special case, the list handed
to `format_file` consists exactly of the entries `(k, v)` of the resolver's map for which: the
module has no inner skip attribute, `skip_children` is off or `k` is the input itself, `k` is not
ignored, and generated files are formatted or the file holding the module's span has no marker. -/
theorem formatted_iff (fs : FS) (fuel : Nat) (p : Path) (cfg : Config) (skip g : Bool)
    (items : List Decl) (m : List (FileName × Mod))
    (hroot : nodeAt fs p = some (.file skip g items))
    (hnot : (cfg.skipChildren && cfg.ignored p) = false)
    (hm : visitCrate fs fuel (.real p) skip items
      ((toDirectoryOwnership fs p).getD .unownedViaBlock) (!cfg.skipChildren) = .ok m) :
    ∃ names, formatProject fs fuel (.file p) cfg = .ok names ∧
      ∀ k, k ∈ names ↔ ∃ v, (k, v) ∈ m ∧ v.innerSkip = false ∧
        (cfg.skipChildren = true → k = .real p) ∧ ignoreFile cfg k = false ∧
        (cfg.formatGeneratedFiles = true ∨ generatedAt fs v.spanFile = false) := by
  rw [formatProject_file fs fuel p cfg skip g items hroot hnot, hm]
  refine ⟨_, rfl, ?_⟩
  intro k
  rw [mem_keys_filter]
  constructor
  · rintro ⟨v, hv, hf⟩
    refine ⟨v, hv, ?_⟩
    simp only [shouldSkipModule, skipDecision_table, Bool.not_false, Bool.true_and] at hf
    cases h1 : v.innerSkip <;> cases h2 : cfg.skipChildren <;> cases h3 : ignoreFile cfg k <;>
      cases h4 : cfg.formatGeneratedFiles <;> cases h5 : generatedAt fs v.spanFile <;>
      simp_all
  · rintro ⟨v, hv, h1, h2, h3, h4⟩
    refine ⟨v, hv, ?_⟩
    simp only [shouldSkipModule, skipDecision_table, Bool.not_false, Bool.true_and, h1, h3]
    cases h5 : cfg.skipChildren
    · rcases h4 with h4 | h4 <;> simp [h4]
    · have := h2 h5
      subst this
      rcases h4 with h4 | h4 <;> simp [h4]

/-- Non-vacuity: on `fsGood` with generated files excluded, `a/w.rs` (marked `@generated`) drops out,
the decoy `z.rs` is never touched. -/
example : formatProject fsGood 5 (.file [libRs]) ⟨false, false, fun _ => false⟩
    = .ok [.real [aRs], .real [b, x, modRs], .real [libRs]] := rfl

/-- `skip_children`: only the input; an ignored input with `skip_children`: nothing;
stdin: the input unless it has a crate-level skip. -/
example : formatProject fsGood 5 (.file [libRs]) ⟨true, true, fun _ => false⟩ = .ok [.real [libRs]] := rfl
example : formatProject fsGood 5 (.file [libRs]) ⟨true, true, fun _ => true⟩ = .ok [] := rfl
example : formatProject fsGood 5 (.text false [.ext a []]) ⟨false, true, fun _ => false⟩
    = .ok [.stdin] := rfl
example : formatProject fsGood 5 (.text true [.ext a []]) ⟨false, true, fun _ => false⟩ = .ok [] := rfl

/-- **Stdin never recurses**: whatever the declarations and the tree, a text input yields only
`stdin` (or nothing when it carries a crate-level skip), and never an error. -/
theorem stdin_no_children (fs : FS) (fuel : Nat) (skip : Bool) (items : List Decl) (cfg : Config) :
    formatProject fs fuel (.text skip items) cfg = .ok (if skip then [] else [.stdin]) := by
  cases skip <;> rfl

/-- **`skip_children` never recurses**: only the input can be formatted and a missing child is not
even noticed. -/
theorem skip_children_only_root (fs : FS) (fuel : Nat) (p : Path) (cfg : Config)
    (hsc : cfg.skipChildren = true) (names : List FileName)
    (h : formatProject fs fuel (.file p) cfg = .ok names) : ∀ k ∈ names, k = .real p := by
  unfold formatProject at h
  dsimp only at h
  split at h
  · cases h; simp
  · split at h
    · simp only [hsc, Bool.not_true, visitCrate] at h
      cases h
      intro k hk
      obtain ⟨e, he, rfl⟩ := List.mem_map.1 hk
      have := (List.mem_filter.1 he).1
      simp only [insertReplace, List.mem_singleton] at this
      rw [this]
    · cases h

/-- **The formatted set, in the proved fragment**: with `skip_children` off, a path is formatted iff
it is a file of the crate by rustc's rules and none of: it is the input and the input has a
crate-level skip; it is ignored; it carries the generated marker while generated files are excluded. -/
theorem formatted_iff_reachable_partial (fs : FS) (fuel : Nat) (p : Path) (cfg : Config)
    (skip g : Bool) (items : List Decl) (names : List FileName)
    (hplain : fsPlain fs)
    (hroot : nodeAt fs p = some (.file skip g items))
    (hsc : cfg.skipChildren = false)
    (huniq : UniqueOwnership false fs ⟨p, (toDirectoryOwnership fs p).getD .unownedViaBlock⟩)
    (hprobe : ProbeAgrees fs ⟨p, (toDirectoryOwnership fs p).getD .unownedViaBlock⟩)
    (h : formatProject fs fuel (.file p) cfg = .ok names) :
    ∀ k, k ∈ names ↔ ∃ q, k = .real q ∧
      (∃ own', Reach false fs ⟨p, (toDirectoryOwnership fs p).getD .unownedViaBlock⟩ ⟨q, own'⟩) ∧
      ¬ (q = p ∧ skip = true) ∧ cfg.ignored q = false ∧
      (cfg.formatGeneratedFiles = true ∨ generatedAt fs (.real q) = false) := by
  have hnot : (cfg.skipChildren && cfg.ignored p) = false := by simp [hsc]
  have href := resolver_refines_spec_partial fs fuel p skip g items _ hplain hroot huniq hprobe
  rw [formatProject_file fs fuel p cfg skip g items hroot hnot] at h
  simp only [hsc, Bool.not_false] at h
  split at href
  · rename_i m hm
    obtain ⟨names', hn', hiff⟩ := formatted_iff fs fuel p cfg skip g items m hroot hnot
      (by simpa [hsc] using hm)
    rw [formatProject_file fs fuel p cfg skip g items hroot hnot] at hn'
    simp only [hsc, Bool.not_false] at hn'
    rw [hn'] at h
    cases h
    intro k
    rw [hiff k]
    constructor
    · rintro ⟨v, hv, h1, _, h3, h4⟩
      have hk : k ∈ keys m := List.mem_map.2 ⟨(k, v), hv, rfl⟩
      obtain ⟨q, own', rfl, hreach⟩ := (href.1 k).1 hk
      have hent := href.2.2 _ hv
      refine ⟨q, rfl, ⟨own', hreach⟩, ?_, by simpa [ignoreFile] using h3, ?_⟩
      · rintro ⟨rfl, hs⟩
        have := hent.2.2 ⟨rfl, hs⟩
        rw [h1] at this
        cases this
      · have hsp : v.spanFile = .real q := hent.1
        rw [hsp] at h4
        exact h4
    · rintro ⟨q, rfl, ⟨own', hreach⟩, h1, h3, h4⟩
      have hk : FileName.real q ∈ keys m := (href.1 _).2 ⟨q, own', rfl, hreach⟩
      obtain ⟨⟨k', v⟩, hv, hkv⟩ := List.mem_map.1 hk
      dsimp only at hkv
      subst hkv
      have hent := href.2.2 _ hv
      refine ⟨v, hv, ?_, by simp [hsc], by simpa [ignoreFile] using h3, ?_⟩
      · cases hi : v.innerSkip with
        | false => rfl
        | true =>
          have := hent.2.1 hi
          exact absurd ⟨FileName.real.inj this.1, this.2⟩ h1
      · have hsp : v.spanFile = .real q := hent.1
        rw [hsp]
        exact h4
  · rename_i k hm
    rw [show (visitCrate fs fuel (.real p) skip items
      ((toDirectoryOwnership fs p).getD .unownedViaBlock) true) = .error k from hm] at h
    cases h

/-- **`mod.resolve` vs `mod.spec`** (the implementation model of `format_project` against the
executable specification `specFormatted`), in the proved fragment: when both succeed they list the
same paths; one cannot succeed where the other reports a resolution error (only `fuel`/`circular`,
i.e. a module cycle, may separate them). -/
theorem formatProject_matches_spec_partial (fs : FS) (fuel fuel' : Nat) (p : Path) (cfg : Config)
    (skip g : Bool) (items : List Decl)
    (hplain : fsPlain fs)
    (hroot : nodeAt fs p = some (.file skip g items))
    (huniq : UniqueOwnership false fs ⟨p, (toDirectoryOwnership fs p).getD .unownedViaBlock⟩)
    (hprobe : ProbeAgrees fs ⟨p, (toDirectoryOwnership fs p).getD .unownedViaBlock⟩) :
    match formatProject fs fuel (.file p) cfg, specFormatted fs fuel' p cfg with
    | .ok names, .ok ps => ∀ k, k ∈ names ↔ ∃ q, k = .real q ∧ q ∈ ps
    | .ok _, .error k' => k' = .fuel ∨ k' = .circular
    | .error k, .ok _ => k = .fuel
    | .error _, .error _ => True := by
  cases hnot : (cfg.skipChildren && cfg.ignored p) with
  | true =>
    have h1 : formatProject fs fuel (.file p) cfg = .ok [] := by
      simp [formatProject, ignoreFile, hnot]
    have h2 : specFormatted fs fuel' p cfg = .ok [] := by simp [specFormatted, hnot]
    rw [h1, h2]
    simp
  | false =>
    cases hsc : cfg.skipChildren with
    | true =>
      have h1 := formatProject_file fs fuel p cfg skip g items hroot hnot
      simp only [hsc, Bool.not_true, visitCrate, Bool.false_eq_true, if_false] at h1
      have h2 : specFormatted fs fuel' p cfg = .ok ((dedup [p]).filter fun q =>
          !(q = p && skip) && !(cfg.skipChildren && q ≠ p) && !cfg.ignored q
            && (cfg.formatGeneratedFiles || !generatedAt fs (.real q))) := by
        unfold specFormatted
        rw [hnot]
        simp only [Bool.false_eq_true, ↓reduceIte, hroot, hsc]
      rw [h1, h2]
      dsimp only
      intro k
      simp only [insertReplace, mem_keys_filter, List.mem_singleton, List.mem_filter, mem_dedup]
      constructor
      · rintro ⟨v, hv, hf⟩
        cases hv
        refine ⟨p, rfl, rfl, ?_⟩
        simp only [shouldSkipModule, skipDecision_table, ignoreFile] at hf
        cases skip <;> cases hi : cfg.ignored p <;> cases hg : cfg.formatGeneratedFiles <;>
          cases hgen : generatedAt fs (.real p) <;> simp_all
      · rintro ⟨q, rfl, rfl, hf⟩
        refine ⟨_, rfl, ?_⟩
        simp only [shouldSkipModule, skipDecision_table, ignoreFile]
        cases skip <;> cases hi : cfg.ignored q <;> cases hg : cfg.formatGeneratedFiles <;>
          cases hgen : generatedAt fs (.real q) <;> simp_all
    | false =>
      have h1 := formatProject_file fs fuel p cfg skip g items hroot hnot
      simp only [hsc, Bool.not_false] at h1
      have h2 : specFormatted fs fuel' p cfg =
          match reachable fs fuel' p items ((toDirectoryOwnership fs p).getD .unownedViaBlock) with
          | .error e => .error e
          | .ok ps => .ok ((dedup (p :: ps)).filter fun q =>
            !(q = p && skip) && !(cfg.skipChildren && q ≠ p) && !cfg.ignored q
              && (cfg.formatGeneratedFiles || !generatedAt fs (.real q))) := by
        unfold specFormatted
        rw [hnot]
        simp only [Bool.false_eq_true, ↓reduceIte, hroot, hsc]
        cases reachable fs fuel' p items ((toDirectoryOwnership fs p).getD .unownedViaBlock) <;> rfl
      have hm := resolver_matches_reachable_partial fs fuel fuel' p skip g items _ hplain hroot
        huniq hprobe
      have hsound := reachable_sound_complete fs fuel' p skip g items
        ((toDirectoryOwnership fs p).getD .unownedViaBlock) hroot
      cases hv : visitCrate fs fuel (.real p) skip items
          ((toDirectoryOwnership fs p).getD .unownedViaBlock) true with
      | error k =>
        rw [hv] at h1 hm
        rw [h1, h2]
        cases hr : reachable fs fuel' p items
            ((toDirectoryOwnership fs p).getD .unownedViaBlock) with
        | error k' => simp
        | ok rs =>
          rw [hr] at hm
          exact hm
      | ok m =>
        rw [hv] at hm
        have hfp := h1
        rw [hv] at h1
        rw [h2]
        cases hr : reachable fs fuel' p items
            ((toDirectoryOwnership fs p).getD .unownedViaBlock) with
        | error k' =>
          rw [hr] at hm
          rw [h1]
          exact hm
        | ok rs =>
          rw [hr] at hsound
          rw [h1]
          dsimp only at hsound ⊢
          have hiff := formatted_iff_reachable_partial fs fuel p cfg skip g items _ hplain hroot hsc
            huniq hprobe (hfp.trans (by rw [hv]))
          intro k
          rw [hiff k]
          constructor
          · rintro ⟨q, rfl, hreach, hns, hi, hg⟩
            refine ⟨q, rfl, ?_⟩
            rw [List.mem_filter, mem_dedup]
            refine ⟨?_, ?_⟩
            · rcases (hsound.1 q).2 hreach with h | h
              · exact h ▸ List.mem_cons_self
              · exact List.mem_cons_of_mem _ h
            · have hns' : (decide (q = p) && skip) = false := by
                cases skip
                · simp
                · simp only [Bool.and_true, decide_eq_false_iff_not]
                  exact fun h => hns ⟨h, rfl⟩
              rcases hg with hg | hg <;> simp [hns', hsc, hi, hg]
          · rintro ⟨q, rfl, hq⟩
            rw [List.mem_filter, mem_dedup] at hq
            refine ⟨q, rfl, ?_, ?_⟩
            · apply (hsound.1 q).1
              rcases List.mem_cons.1 hq.1 with h | h
              · exact Or.inl h
              · exact Or.inr h
            · have hf := hq.2
              simp only [hsc, Bool.false_and, Bool.not_false, Bool.and_true, Bool.and_eq_true,
                Bool.not_eq_true', Bool.or_eq_true] at hf
              obtain ⟨⟨h1', h2'⟩, h3'⟩ := hf
              refine ⟨?_, h2', ?_⟩
              · rintro ⟨rfl, rfl⟩
                simp at h1'
              · rcases h3' with h | h
                · exact Or.inl h
                · exact Or.inr h

/-! ## The module of an entry belongs to the entry's file -/

/-- In the proved fragment every entry of the map carries a module parsed from the file that is
its key (part of `resolver_refines_spec_partial`). With `cfg_attr(path)` this fails:

**Counter-example (data loss).** `lib.rs: mod a; #[cfg_attr(.., path = "b.rs")] mod a;` where `a.rs`
has `#![rustfmt::skip]`. The second `mod a;` finds `a.rs` already parsed (but not in the map, being
skipped) and inserts, under the key `a.rs`, a clone of the *declaration's* module: no items, span in
`lib.rs`. `format_file` then writes `lib.rs`'s text into `a.rs` (observed on the real binary). -/
theorem span_matches_key_counterexample :
    (visitCrate fsClone 5 (.real [libRs]) false (itemsAt fsClone [libRs]) .unownedViaBlock true).map
      (fun m => m.map fun e => (e.1, e.2.spanFile)) =
    .ok [(.real [bRs], .real [bRs]), (.real [aRs], .real [libRs]), (.real [libRs], .real [libRs])] :=
  rfl

/-! ## Macro-based module discovery: `cfg_if!` / `cfg_match!`

Model: `RF/Model/ModMacros.lean` (`SItem` = declarations, macro calls with their blocks, other items,
unparsable tokens; `visitItemsS` … = the literal walk of `visit_mod_from_ast` / `visit_mod_outside_ast`
/ `visit_cfg_if` / `visit_cfg_match`; `discItems` = the list of `mod` items that walk visits;
`expItems` = the specification: what rustc has after expansion, over all `cfg` valuations, see the
header of the model file for the rule and its justification). -/

def yRs : Comp := ['y', '.', 'r', 's']
def zRs : Comp := ['z', '.', 'r', 's']
def y : Comp := ['y']

/-- **visit_cfg_if is a sibling walk.** For every recursion into loaded files, every state and every
item list: the walk of the code (a `mod` found in any block of a `cfg_if!`/`cfg_match!` call is handed
to `visit_sub_mod` under the directory of the call, with its own attributes; inline modules are
walked by the same loop; rejected macro bodies, nested calls and other items are passed over) is the
walk `visitItemsW` of the flat list `discItems`. -/
theorem visit_cfg_if_flattens (fs : FS) (rec : RecFn) (cur : FileName) (st : St)
    (items : List SItem) :
    visitItemsS fs rec cur st items = visitItemsW fs rec cur st (discItems items) :=
  visitItemsS_eq fs rec cur st items

/-- … hence `visit_crate` on a tree with macro calls is `visit_crate` on the tree of discovered
declarations. -/
theorem visit_crate_discovers (sfs : SFS) (fuel : Nat) (rootName : FileName) (rootSkip : Bool)
    (rootItems : List SItem) (own : Ownership) (recursive : Bool) :
    visitCrateS sfs fuel rootName rootSkip rootItems own recursive =
      visitCrate (codeFS sfs) fuel rootName rootSkip (discItems rootItems) own recursive :=
  visitCrateS_eq sfs fuel rootName rootSkip rootItems own recursive

/-- **What is visited is what the parser returned**: `parse_cfg_if` / `parse_cfg_match` give all
`mod` items of all blocks in source order, or nothing at all. -/
theorem discovered_is_parsed (sh : MacShape) (bs : List (List SItem)) :
    discItem (.cfgIf sh bs) = (match parseMacroBody sh bs with
      | some mods => discItems mods
      | none => []) ∧
    discItem (.cfgMatch sh bs) = (match parseMacroBody sh bs with
      | some mods => discItems mods
      | none => []) :=
  parse_then_visit sh bs

/-- Every block counts, not only the first; an outer `#[path]` / `#[rustfmt::skip]` of a `mod` in a
block is kept for `peek_sub_mod`; an inline module of a block keeps its content, macro calls inside
it discovered in turn. -/
example : discItems [.cfgIf .chain [[.ext x [.path ['w', '.', 'r', 's']], .other], [.ext y [.skip]],
      [.inline z [] [.cfgMatch .chain [[.ext w []]]]]]]
    = [.ext x [.path ['w', '.', 'r', 's']], .ext y [.skip], .inline z [] [.ext w []]] := rfl

/-- **On tame trees the code discovers what the specification expands** (every macro call a
well-formed chain, every block parses, no macro call directly inside a block). -/
theorem discovery_matches_expansion (items : List SItem) (h : tameItems items = true) :
    discItems items = expItems items :=
  disc_eq_exp.2.1 items h

example : tameItems [.cfgIf .chain [[.ext x [], .other], [.inline z [] [.cfgMatch .chain [[.ext w []]]]]]]
    = true := by decide

/-- lib.rs: `cfg_if! { if #[cfg(a)] { mod x; fn f() {} } else { mod y; mod x; } }`, x.rs: a
`cfg_match!` with `mod w;` in its second arm; x/w.rs, y.rs, a decoy z.rs. -/
def sfsGood : SFS :=
  [ ([libRs], .file false false [.cfgIf .chain [[.ext x [], .other], [.ext y [], .ext x []]]]),
    ([xRs], .file false false [.cfgMatch .chain [[], [.ext w []]]]),
    ([x, wRs], .file false false []),
    ([yRs], .file false false []),
    ([zRs], .file false false []) ]

def ctxsGoodS : List Ctx :=
  [rootGood, ⟨[xRs], .owned (some x)⟩, ⟨[x, wRs], .owned (some w)⟩, ⟨[yRs], .owned (some y)⟩]

/-- **resolver_refines_spec on trees with `cfg_if!` / `cfg_match!`, proved fragment.**  For a tame
tree whose expansion satisfies the three hypotheses of `resolver_refines_spec_partial`: the key set
of the file map `visit_crate` builds (walking macro bodies as the code does) is exactly the set of
files of the expanded crate — every `mod x;` of every block is reachable and resolves like a sibling
of the macro call —, or both sides report an error of the same kind.

Without `htame` the statement is false in both directions: see the three `_counterexample`s. -/
theorem resolver_refines_spec_macros_partial (sfs : SFS) (fuel : Nat) (root : Path)
    (rootSkip g : Bool) (rootItems : List SItem) (own : Ownership)
    (htame : sfsTame sfs = true) (htameRoot : tameItems rootItems = true)
    (hplain : fsPlain (specFS sfs))
    (hroot : nodeAt (specFS sfs) root = some (.file rootSkip g (expItems rootItems)))
    (huniq : UniqueOwnership false (specFS sfs) ⟨root, own⟩)
    (hprobe : ProbeAgrees (specFS sfs) ⟨root, own⟩) :
    match visitCrateS sfs fuel (.real root) rootSkip rootItems own true with
    | .ok m =>
      (∀ k, k ∈ keys m ↔ ∃ p own', k = .real p ∧ Reach false (specFS sfs) ⟨root, own⟩ ⟨p, own'⟩) ∧
      (∀ k, ¬ SpecErr false (specFS sfs) ⟨root, own⟩ k) ∧
      ∀ e ∈ m, e.2.spanFile = e.1 ∧ (e.2.innerSkip = true ↔ e.1 = .real root ∧ rootSkip = true)
    | .error k => k = .fuel ∨ SpecErr false (specFS sfs) ⟨root, own⟩ k := by
  rw [visitCrateS_eq, codeFS_eq_specFS sfs htame, discovery_matches_expansion rootItems htameRoot]
  exact resolver_refines_spec_partial (specFS sfs) fuel root rootSkip g (expItems rootItems) own
    hplain hroot huniq hprobe

/-- Non-vacuity: `sfsGood` satisfies the hypotheses; the resolver finds x.rs (declared in both
blocks), x/w.rs (second arm of a `cfg_match!`) and y.rs (`else` block), not the decoy. -/
example :
    sfsTame sfsGood = true ∧ fsPlain (specFS sfsGood) ∧
    UniqueOwnership false (specFS sfsGood) rootGood ∧ ProbeAgrees (specFS sfsGood) rootGood ∧
    (visitCrateS sfsGood 5 (.real [libRs]) false
        [.cfgIf .chain [[.ext x [], .other], [.ext y [], .ext x []]]] .unownedViaBlock true).map keys
      = .ok [.real [xRs], .real [x, wRs], .real [yRs], .real [libRs]] :=
  ⟨by decide, fsPlain_of_fsPlainB (by decide),
   unique_of_uniqueB (S := ctxsGoodS) (by decide) (by decide) (by decide),
   probeAgrees_of_B (S := ctxsGoodS) (by decide) (by decide) (by decide), rfl⟩

/-- The decidable check the driver runs (`mod.hyps`, field `macros`) establishes `htame`; with
`hypsB` on the expanded tree it establishes all hypotheses. -/
theorem hyps_check_sound_macros (sfs : SFS) (rounds : Nat) (root : Path) (own : Ownership)
    (h : (sfsTame sfs && hypsB (specFS sfs) rounds root own) = true) :
    codeFS sfs = specFS sfs ∧ fsPlain (specFS sfs) ∧
    UniqueOwnership false (specFS sfs) ⟨root, own⟩ ∧ ProbeAgrees (specFS sfs) ⟨root, own⟩ := by
  rw [Bool.and_eq_true] at h
  exact ⟨codeFS_eq_specFS sfs h.1, hypsB_sound h.2⟩

example : (sfsTame sfsGood && hypsB (specFS sfsGood) 4 [libRs] .unownedViaBlock) = true := by decide

/-- **`mod.resolve` vs `mod.spec` on trees with macro calls** (what the harness compares through
`mod.resolvec` and `mod.oracle`): in the proved fragment the implementation model on the discovered
tree and the specification on the expanded tree list the same files. -/
theorem formatProject_matches_spec_macros_partial (sfs : SFS) (fuel fuel' : Nat) (p : Path)
    (cfg : Config) (skip g : Bool) (items : List Decl)
    (htame : sfsTame sfs = true)
    (hplain : fsPlain (specFS sfs))
    (hroot : nodeAt (specFS sfs) p = some (.file skip g items))
    (huniq : UniqueOwnership false (specFS sfs)
      ⟨p, (toDirectoryOwnership (specFS sfs) p).getD .unownedViaBlock⟩)
    (hprobe : ProbeAgrees (specFS sfs)
      ⟨p, (toDirectoryOwnership (specFS sfs) p).getD .unownedViaBlock⟩) :
    match formatProject (codeFS sfs) fuel (.file p) cfg, specFormatted (specFS sfs) fuel' p cfg with
    | .ok names, .ok ps => ∀ k, k ∈ names ↔ ∃ q, k = .real q ∧ q ∈ ps
    | .ok _, .error k' => k' = .fuel ∨ k' = .circular
    | .error k, .ok _ => k = .fuel
    | .error _, .error _ => True := by
  rw [codeFS_eq_specFS sfs htame]
  exact formatProject_matches_spec_partial (specFS sfs) fuel fuel' p cfg skip g items hplain hroot
    huniq hprobe

/-- lib.rs: `cfg_if! { if #[cfg(a)] { cfg_if! { if #[cfg(b)] { mod x; } } mod y; } }`, x.rs, y.rs. -/
def sfsNested : SFS :=
  [ ([libRs], .file false false [.cfgIf .chain [[.cfgIf .chain [[.ext x []]], .ext y []]]]),
    ([xRs], .file false false []),
    ([yRs], .file false false []) ]

/-- **Counter-example 1 (nested call).** A `cfg_if!` directly inside a block of a `cfg_if!` is an item
of kind `MacCall`, which `parse_cfg_if` drops: `mod x;` of the inner call is never visited and
x.rs is never formatted, although rustc compiles it when both `cfg`s hold. -/
theorem discovery_counterexample_nested :
    (visitCrateS sfsNested 5 (.real [libRs]) false
        [.cfgIf .chain [[.cfgIf .chain [[.ext x []]], .ext y []]]] .unownedViaBlock true).map keys
      = .ok [.real [yRs], .real [libRs]] ∧
    reachable (specFS sfsNested) 5 [libRs] (itemsAt (specFS sfsNested) [libRs]) .unownedViaBlock
      = .ok [[xRs], [yRs]] := ⟨rfl, rfl⟩

/-- lib.rs: `cfg_if! { if #[cfg(a)] { mod x; } else { this is junk } }`, x.rs. -/
def sfsJunk : SFS :=
  [ ([libRs], .file false false [.cfgIf .chain [[.ext x []], [.junk]]]),
    ([xRs], .file false false []) ]

/-- **Counter-example 2 (all or nothing).** One block whose tokens `parse_item` rejects makes
`parse_cfg_if` return `Err`, and the `mod x;` already collected from the first block is thrown away
with it: x.rs is never formatted.  For rustc the `else` block is a token tree that is only parsed
when it is selected; with `a` set the crate compiles and contains x.rs. -/
theorem discovery_counterexample_junk_branch :
    (visitCrateS sfsJunk 5 (.real [libRs]) false [.cfgIf .chain [[.ext x []], [.junk]]]
        .unownedViaBlock true).map keys = .ok [.real [libRs]] ∧
    reachable (specFS sfsJunk) 5 [libRs] (itemsAt (specFS sfsJunk) [libRs]) .unownedViaBlock
      = .ok [[xRs]] := ⟨rfl, rfl⟩

/-- lib.rs: `cfg_if! { if #[cfg(a)] { mod x; } else { mod y; } else { mod z; } }`. -/
def sfsLoose : SFS :=
  [ ([libRs], .file false false [.cfgIf .loose [[.ext x []], [.ext y []], [.ext z []]]]),
    ([xRs], .file false false []), ([yRs], .file false false []), ([zRs], .file false false []) ]

/-- **Counter-example 3 (the other direction).** `parse_cfg_if` accepts chains the macro itself
rejects (a second `else` block): the files are formatted although no `cfg` valuation makes them part
of a crate that compiles. -/
theorem discovery_counterexample_loose_chain :
    (visitCrateS sfsLoose 5 (.real [libRs]) false
        [.cfgIf .loose [[.ext x []], [.ext y []], [.ext z []]]] .unownedViaBlock true).map keys
      = .ok [.real [xRs], .real [yRs], .real [zRs], .real [libRs]] ∧
    reachable (specFS sfsLoose) 5 [libRs] (itemsAt (specFS sfsLoose) [libRs]) .unownedViaBlock
      = .ok [] := ⟨rfl, rfl⟩

/-- **each_file_once with macro calls**: the same `mod x;` in two blocks (both name the same file), or
any other number of routes: one entry per path. -/
theorem each_file_once_macros (sfs : SFS) (fuel : Nat) (rootName : FileName) (rootSkip : Bool)
    (rootItems : List SItem) (own : Ownership) (recursive : Bool) (m : List (FileName × Mod))
    (h : visitCrateS sfs fuel rootName rootSkip rootItems own recursive = .ok m) :
    (keys m).Nodup := by
  rw [visitCrateS_eq] at h
  exact each_file_once _ _ _ _ _ _ _ _ h

/-- `cfg_if! { if #[cfg(a)] { mod x; } else { mod x; } }`: x.rs once. -/
example : (visitCrateS sfsJunk 5 (.real [libRs]) false [.cfgIf .chain [[.ext x []], [.ext x []]]]
    .unownedViaBlock true).map keys = .ok [.real [xRs], .real [libRs]] := rfl

/-- **directory_restored with macro calls**: after any item — a `mod`, an inline module with macro
calls inside, a `cfg_if!` / `cfg_match!` call with any number of blocks — the resolver's directory
is what it was, so the `mod`s of a block resolve like siblings of the call, independently of the
blocks before them. -/
theorem directory_restored_macros (fs : FS) (rec : RecFn) (cur : FileName) (st st' : St)
    (it : SItem) (h : visitItemS fs rec cur st it = .ok st') : st'.dir = st.dir := by
  rw [(visitS_eq fs rec cur).1 it st] at h
  exact visitItemsW_dir fs rec cur _ st st' h

theorem directory_restored_items_macros (fs : FS) (rec : RecFn) (cur : FileName)
    (items : List SItem) (st st' : St) (h : visitItemsS fs rec cur st items = .ok st') :
    st'.dir = st.dir := by
  rw [visitItemsS_eq] at h
  exact visitItemsW_dir fs rec cur _ st st' h

/-! ## Fuel -/

/-- **The fuel suffices.** In a tree without `cfg_attr(path)`, if every file the resolver loads is
named by one of the paths `keysL` (for a tree whose `#[path]` strings and input path have no
`.`/`..` detours: the keys of `fs`), then fuel `keysL.length` is enough: each load adds a new member
of `keysL` to the source map.  Without the hypothesis the code itself may not terminate:
`a.rs: #[path = "sub/../a.rs"] mod a;` loads `sub/../a.rs`, `sub/../sub/../a.rs`, … (the real
binary overflows its stack; the model answers `fuel`). -/
theorem fuel_suffices (fs : FS) (fuel : Nat) (root : Path) (rootSkip g : Bool)
    (rootItems : List Decl) (own : Ownership) (hplain : fsPlain fs)
    (hroot : nodeAt fs root = some (.file rootSkip g rootItems))
    (keysL : List Path) (hk : KeyedLocs fs ⟨root, own⟩ keysL) (hfuel : keysL.length ≤ fuel) :
    visitCrate fs fuel (.real root) rootSkip rootItems own true ≠ .error .fuel :=
  visitCrate_fuel fs hplain fuel root rootSkip g rootItems own hroot keysL hk hfuel

/-- **The fuel suffices, syntactic form.** If no module name, `#[path]` string or the input path
has a `.` or `..` component (and no `cfg_attr(path)`), then fuel = number of entries of the tree is
enough: the resolver terminates without a `fuel` outcome. -/
theorem fuel_suffices_dotfree (fs : FS) (fuel : Nat) (root : Path) (rootSkip g : Bool)
    (rootItems : List Decl) (own : Ownership) (hplain : fsPlain fs)
    (hroot : nodeAt fs root = some (.file rootSkip g rootItems))
    (hdot : fsDotFree fs = true) (hrootp : pathPlain root = true) (hown : ownPlain own = true)
    (hfuel : fs.length ≤ fuel) :
    visitCrate fs fuel (.real root) rootSkip rootItems own true ≠ .error .fuel :=
  fuel_suffices fs fuel root rootSkip g rootItems own hplain hroot (fs.map (·.1))
    (keyedLocs_of_dotFree hdot hrootp hown) (by simpa using hfuel)

example : fsDotFree fsGood = true ∧ pathPlain [libRs] = true ∧
    ownPlain .unownedViaBlock = true ∧ fsGood.length ≤ 5 := by decide

/-- Non-vacuity: `fsGood` with `keysL` = its five keys. -/
example : KeyedLocs fsGood rootGood (fsGood.map (·.1)) :=
  keyedLocs_of_B (S := ctxsGood) (by decide) (by decide) (by decide)

/-- `a.rs: #[path = "sub/../a.rs"] mod a;` with a directory `sub/`: fuel never suffices. -/
def fsLoop : FS :=
  [ ([aRs], .file false false [.ext a [.path ['s', 'u', 'b', '/', '.', '.', '/', 'a', '.', 'r', 's']]]),
    ([sub, xRs], .file false false []) ]

theorem fuel_counterexample_dotdot :
    visitCrate fsLoop 4 (.real [aRs]) false (itemsAt fsLoop [aRs]) .unownedViaBlock true
      = .error .fuel := rfl

end RF.Props.C13
