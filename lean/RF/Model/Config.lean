import RF.Gen.Options
/-!
Model of rustfmt's configuration resolution (property C14; also used by C15).

Sources: `src/config/config_type.rs` (the `create_config!` macro), `src/config/mod.rs`,
`src/config/options.rs`, `src/config/style_edition.rs`, `src/bin/main.rs` (`GetOptsOptions`).

The option table (names, type structs, stability), the per-type defaults and the three
hand-maintained key-dispatch lists are NOT written here: they come from `RF.Gen.Options`, which the
translator regenerates from the Rust source on every run.

A `Config` is an association list `option name ↦ (value, was_set, was_set_cli)`; values are
`nat`/`bool`/`str` (`str` holds the variant name of an enum option, e.g. `"Max"`, `"2024"`, `"Crate"`,
or an opaque rendering for structured options).  The tuple fields `.0` (`Cell<bool>` "accessed") and
`.3` (stable; static, read from the generated table) are not stored.

What is deliberately NOT modelled (assumptions of the theorems, aimed at by the correspondence):
  * TOML / `FromStr` parsing of values: the model receives typed values; `checkVal` stands for
    "`val.parse::<T>()` / serde succeeded" and is a type-tag check plus the variant lists of the
    four enums the logic inspects (`Heuristics`, `StyleEdition`, `Edition`, `Version`);
  * `set_ignore` (prefixes the ignore paths, touches no other option), the `eprintln!` warnings,
    symlinks / `canonicalize` (paths are assumed canonical), I/O errors other than "not found";
  * a `--config-path` naming a file that is not called `rustfmt.toml` / `.rustfmt.toml`.
-/
namespace RF.Config
open RF.Gen.Options

/-! ## Values, entries, the association list -/

inductive Val where
  | nat (n : Nat)
  | bool (b : Bool)
  | str (s : String)
  deriving DecidableEq, Repr, Inhabited

inductive Tag where
  | nat | bool | str
  deriving DecidableEq, Repr

def Val.tag : Val → Tag
  | .nat _ => .nat
  | .bool _ => .bool
  | .str _ => .str

/-- `usize` payload; `0` for a non-`nat` value (unreachable for well-formed configs, see `WF`). -/
def Val.toNat : Val → Nat
  | .nat n => n
  | _ => 0

/-- config_type.rs:83-96: `.1` was_set, `.2` value, `.4` was_set_cli. -/
structure Entry where
  val : Val
  wasSet : Bool
  wasSetCli : Bool
  deriving DecidableEq, Repr

abbrev Config := List (String × Entry)

/-- Entry reported for a name that is not in the list (never the case for a well-formed config). -/
def dflt : Entry := ⟨.nat 0, false, false⟩

def getE (c : Config) (k : String) : Entry :=
  match c.lookup k with
  | some e => e
  | none => dflt

/-- Update the entry of `k` (the one `getE` sees); a missing name is appended, so that
`getE (upd c k f) k = f (getE c k)` holds unconditionally.  Never appends on well-formed configs. -/
def upd : Config → String → (Entry → Entry) → Config
  | [], k, f => [(k, f dflt)]
  | (k', e) :: r, k, f => if k' = k then (k', f e) :: r else (k', e) :: upd r k f

def setVal (c : Config) (k : String) (v : Val) : Config := upd c k fun e => { e with val := v }
def setWasSet (c : Config) (k : String) : Config := upd c k fun e => { e with wasSet := true }
def setWasSetCli (c : Config) (k : String) : Config := upd c k fun e => { e with wasSetCli := true }

def natOf (c : Config) (k : String) : Nat := (getE c k).val.toNat
def wasSet (c : Config) (k : String) : Bool := (getE c k).wasSet
def wasSetCli (c : Config) (k : String) : Bool := (getE c k).wasSetCli

/-- `all_options` (config_type.rs:313-319): every option with its current value. -/
def allOptions (c : Config) : List (String × Val) := c.map fun p => (p.1, p.2.val)

/-! ## Schema from the generated tables -/

def optionNames : List String := options.map (·.1)

/-- `is_valid_name` (config_type.rs:278-285). -/
def isValidName (k : String) : Bool := optionNames.contains k

/-- `$stb` of the option (config_type.rs:220). -/
def stableOf (k : String) : Bool :=
  match options.lookup k with
  | some (_, stb) => stb
  | none => false

/-- `<$ty as StyleEditionDefault>::ConfigType`, as the text the translator found. -/
def cfgTypeOf (k : String) : Option String :=
  match options.lookup k with
  | some (ty, _) =>
    match defaults.lookup ty with
    | some (cty, _, _) => some cty
    | none => none
  | none => none

def tagOfCfgType (t : String) : Tag :=
  if t = "usize" then .nat else if t = "bool" then .bool else .str

def tagOf (k : String) : Option Tag := (cfgTypeOf k).map tagOfCfgType

def usizeMax : Nat := 2 ^ 64 - 1

/-- Variant lists of the enums whose values the logic inspects (options.rs:89-96 `Heuristics`,
:514-536 `StyleEdition`, :444-461 `Edition`, :208-213 `Version`), in their canonical spelling
(the Rust `FromStr` is case-insensitive; the driver's caller canonicalises). -/
def enumOk (k s : String) : Bool :=
  if k = "use_small_heuristics" then ["Off", "Max", "Default"].contains s
  else if k = "style_edition" then ["2015", "2018", "2021", "2024", "2027"].contains s
  else if k = "edition" then ["2015", "2018", "2021", "2024"].contains s
  else if k = "version" then ["One", "Two"].contains s
  else true

/-- "`val.parse::<ConfigType>()` succeeds" / "serde accepts the TOML value": known option, right
type tag, `usize` range, known variant for the four inspected enums. -/
def checkVal (k : String) (v : Val) : Bool :=
  match tagOf k, v with
  | some .nat, .nat n => n ≤ usizeMax
  | some .bool, .bool _ => true
  | some .str, .str s => enumOk k s
  | _, _ => false

/-! ## Style editions -/

inductive StyleEdition where
  | e2015 | e2018 | e2021 | e2024 | e2027
  deriving DecidableEq, Repr

inductive Edition where
  | e2015 | e2018 | e2021 | e2024
  deriving DecidableEq, Repr

inductive Version where
  | one | two
  deriving DecidableEq, Repr

/-- options.rs:480-489 `impl From<Edition> for StyleEdition`. -/
def Edition.toStyleEdition : Edition → StyleEdition
  | .e2015 => .e2015
  | .e2018 => .e2018
  | .e2021 => .e2021
  | .e2024 => .e2024

def StyleEdition.toStr : StyleEdition → String
  | .e2015 => "2015" | .e2018 => "2018" | .e2021 => "2021" | .e2024 => "2024" | .e2027 => "2027"

def Edition.toStr : Edition → String
  | .e2015 => "2015" | .e2018 => "2018" | .e2021 => "2021" | .e2024 => "2024"

def StyleEdition.ofStr? (s : String) : Option StyleEdition :=
  if s = "2015" then some .e2015 else if s = "2018" then some .e2018
  else if s = "2021" then some .e2021 else if s = "2024" then some .e2024
  else if s = "2027" then some .e2027 else none

def Edition.ofStr? (s : String) : Option Edition :=
  if s = "2015" then some .e2015 else if s = "2018" then some .e2018
  else if s = "2021" then some .e2021 else if s = "2024" then some .e2024 else none

def Version.ofStr? (s : String) : Option Version :=
  if s = "One" then some .one else if s = "Two" then some .two else none

def StyleEdition.ofVal? : Val → Option StyleEdition
  | .str s => StyleEdition.ofStr? s
  | _ => none

def Edition.ofVal? : Val → Option Edition
  | .str s => Edition.ofStr? s
  | _ => none

def Version.ofVal? : Val → Option Version
  | .str s => Version.ofStr? s
  | _ => none

/-- style_edition.rs:22-39: the second arm of `style_edition_default!` gives the `Edition2024`
default to 2024 and 2027 and the `_` default to 2015/2018/2021. -/
def StyleEdition.takes2024Default : StyleEdition → Bool
  | .e2024 | .e2027 => true
  | _ => false

/-! ## Defaults -/

def parseNatAux : List Char → Nat → Option Nat
  | [], acc => some acc
  | c :: r, acc => if '0' ≤ c ∧ c ≤ '9' then parseNatAux r (acc * 10 + (c.toNat - 48)) else none

/-- Decimal digits only, at least one. -/
def parseNat (cs : List Char) : Option Nat :=
  match cs with
  | [] => none
  | _ => parseNatAux cs 0

/-- Text after the last `::` (`Heuristics::Default` ↦ `Default`). -/
def afterColons : List Char → List Char → List Char
  | acc, [] => acc.reverse
  | _, ':' :: ':' :: r => afterColons [] r
  | acc, c :: r => afterColons (c :: acc) r

def dropEditionPrefix : List Char → List Char
  | 'E' :: 'd' :: 'i' :: 't' :: 'i' :: 'o' :: 'n' :: r => r
  | cs => cs

/-- The default expression of the generated table as a `Val`: `usize` literals are numbers, `bool`
literals booleans, a path `Type::Variant` its variant (`StyleEdition::Edition2024` ↦ `"2024"`, the
user-facing spelling), anything else (`FileLines::all()`, …) the expression text, opaque. -/
def defaultVal (cfgTy expr : String) : Val :=
  if cfgTy = "usize" then
    match parseNat expr.toList with
    | some n => .nat n
    | none => .str expr
  else if cfgTy = "bool" then
    if expr = "true" then .bool true else if expr = "false" then .bool false else .str expr
  else if cfgTy = "StyleEdition" ∨ cfgTy = "Edition" then
    .str (String.ofList (dropEditionPrefix (afterColons [] expr.toList)))
  else .str (String.ofList (afterColons [] expr.toList))

/-- `<$ty as StyleEditionDefault>::style_edition_default(style_edition)` through the generated
`defaults` table. -/
def defaultValFor (se : StyleEdition) (ty : String) : Val :=
  match defaults.lookup ty with
  | some (cty, d, d24) =>
    defaultVal cty (if se.takes2024Default then (match d24 with | some x => x | none => d) else d)
  | none => .str "?"

/-- config_type.rs:211-225 `default_with_style_edition`. -/
def defaultWithStyleEdition (se : StyleEdition) : Config :=
  options.map fun o => (o.1, ⟨defaultValFor se o.2.1, false, false⟩)

/-- mod.rs:279-301 `default_for_possible_style_edition`; `(None, None, None)` is
`Config::default()` = `default_with_style_edition(Edition2015)` (config_type.rs:608-612). -/
def defaultForPossibleStyleEdition (se : Option StyleEdition) (ed : Option Edition)
    (ver : Option Version) : Config :=
  match se, ver, ed with
  | some se, _, _ => defaultWithStyleEdition se
  | none, some .two, _ => defaultWithStyleEdition .e2024
  | none, some .one, _ => defaultWithStyleEdition .e2015
  | none, none, some e => defaultWithStyleEdition e.toStyleEdition
  | none, none, none => defaultWithStyleEdition .e2015

/-- The style edition whose defaults `default_for_possible_style_edition` takes. -/
def chosenStyleEdition (se : Option StyleEdition) (ed : Option Edition) (ver : Option Version) :
    StyleEdition :=
  match se, ver, ed with
  | some se, _, _ => se
  | none, some .two, _ => .e2024
  | none, some .one, _ => .e2015
  | none, none, some e => e.toStyleEdition
  | none, none, none => .e2015

/-- Well-formed: exactly the generated option names, in order, each value with the tag of its
config type.  Proved for the default configurations (`RF.Props.C14.default_wf`); the operations
below only ever store values that passed `checkVal` or values they computed with the right tag.
No theorem of C14 assumes it: the `get`/`upd` algebra is total. -/
def schema : List (String × Option Tag) := optionNames.map fun k => (k, tagOf k)

def WF (c : Config) : Prop := c.map (fun p => (p.1, some p.2.val.tag)) = schema

instance (c : Config) : Decidable (WF c) := by unfold WF; infer_instance

/-! ## Width heuristics -/

/-- options.rs:237-261. -/
structure WidthHeuristics where
  fnCallWidth : Nat
  attrFnLikeWidth : Nat
  structLitWidth : Nat
  structVariantWidth : Nat
  arrayWidth : Nat
  chainWidth : Nat
  singleLineIfElseMaxWidth : Nat
  singleLineLetElseMaxWidth : Nat
  deriving DecidableEq, Repr

/-- options.rs:271-282 `WidthHeuristics::null`. -/
def WidthHeuristics.null : WidthHeuristics :=
  ⟨usizeMax, usizeMax, 0, 0, usizeMax, usizeMax, 0, 0⟩

/-- options.rs:284-295 `WidthHeuristics::set`. -/
def WidthHeuristics.set (maxWidth : Nat) : WidthHeuristics :=
  ⟨maxWidth, maxWidth, maxWidth, maxWidth, maxWidth, maxWidth, maxWidth, maxWidth⟩

/-- Ten times `max_width_ratio` of options.rs:300-306:
`if max_width > 100 { (max_width as f32 / 100.0 * 10.0).round() / 10.0 } else { 1.0 }`;
`f32::round` is half away from zero, hence `(max_width + 5) / 10`. -/
def ratio10 (maxWidth : Nat) : Nat :=
  if maxWidth > 100 then (maxWidth + 5) / 10 else 10

/-- `(base as f32 * max_width_ratio).round() as usize` with `max_width_ratio = r10 / 10`. -/
def scaleBy (r10 base : Nat) : Nat := (base * r10 + 5) / 10

/-- options.rs:298-317 `WidthHeuristics::scaled`, in integer arithmetic.  The f32 code and this
agree for every `max_width ≤ 10_485_783` (checked exhaustively against a copy of the Rust function;
`scaledF32` below is the exact f32 emulation and `RF.Props.C14.scaled_eq_scaledF32` proves the
agreement up to 1000); from `10_485_784` on the f32 product `ratio * 10.0` is no longer exact
enough and the two differ. -/
def WidthHeuristics.scaled (maxWidth : Nat) : WidthHeuristics :=
  let r := ratio10 maxWidth
  ⟨scaleBy r 60, scaleBy r 70, scaleBy r 18, scaleBy r 35, scaleBy r 60, scaleBy r 60,
   scaleBy r 50, scaleBy r 50⟩

/-- The eight width options in the order `set_width_heuristics` (config_type.rs:448-510) assigns
them, with the heuristic value for each. -/
def WidthHeuristics.toList (h : WidthHeuristics) : List (String × Nat) :=
  [("fn_call_width", h.fnCallWidth), ("attr_fn_like_width", h.attrFnLikeWidth),
   ("struct_lit_width", h.structLitWidth), ("struct_variant_width", h.structVariantWidth),
   ("array_width", h.arrayWidth), ("chain_width", h.chainWidth),
   ("single_line_if_else_max_width", h.singleLineIfElseMaxWidth),
   ("single_line_let_else_max_width", h.singleLineLetElseMaxWidth)]

def widthKeys : List String :=
  ["fn_call_width", "attr_fn_like_width", "struct_lit_width", "struct_variant_width",
   "array_width", "chain_width", "single_line_if_else_max_width",
   "single_line_let_else_max_width"]

/-! ### Exact emulation of the f32 computation (positive finite values only) -/

/-- A non-negative dyadic rational `m / 2^40`. All intermediate values of `scaled` are either `0`
or at least `1`, far above the `2^-16` needed for the 24-bit rounding below to be exact. -/
abbrev Dy := Nat

def dyScale : Nat := 2 ^ 40

/-- Round the rational `num / den` (`den > 0`) to the nearest f32 (24-bit significand, ties to
even), returned as a `Dy`.  Exponent range is not an issue here (values < 2^72). -/
def roundF32 (num den : Nat) : Dy :=
  let n := num * dyScale
  let q := n / den
  if q = 0 then 0 else
  let bits := Nat.log2 q + 1
  if bits ≤ 24 then q  -- exactly representable at this scale only if n % den = 0 (not used)
  else
    let drop := bits - 24
    let unit := den * 2 ^ drop
    let m := n / unit
    let rem := n % unit
    let m' := if 2 * rem > unit then m + 1 else if 2 * rem = unit ∧ m % 2 = 1 then m + 1 else m
    m' * 2 ^ drop

/-- `usize as f32`. -/
def f32OfNat (n : Nat) : Dy := roundF32 n 1
/-- f32 division and multiplication: exact result, then one rounding. -/
def f32Div (a b : Dy) : Dy := if b = 0 then 0 else roundF32 a b
def f32Mul (a b : Dy) : Dy := roundF32 (a * b) (dyScale * dyScale)
/-- `f32::round`: nearest integer, half away from zero (result is exactly representable). -/
def f32Round (a : Dy) : Dy := ((2 * a + dyScale) / (2 * dyScale)) * dyScale
/-- `f32 as usize`: truncation, saturating at `usize::MAX`. -/
def f32ToUsize (a : Dy) : Nat := min (a / dyScale) usizeMax

/-- options.rs:298-317 `WidthHeuristics::scaled`, operation by operation in emulated f32. -/
def WidthHeuristics.scaledF32 (maxWidth : Nat) : WidthHeuristics :=
  let ten := f32OfNat 10
  let ratio :=
    if maxWidth > 100 then
      let ratio := f32Div (f32OfNat maxWidth) (f32OfNat 100)
      f32Div (f32Round (f32Mul ratio ten)) ten
    else f32OfNat 1
  let w (base : Nat) : Nat := f32ToUsize (f32Round (f32Mul (f32OfNat base) ratio))
  ⟨w 60, w 70, w 18, w 35, w 60, w 60, w 50, w 50⟩

/-! ## `set_width_heuristics`, `set_heuristics` -/

/-- config_type.rs:428-446, the closure `get_width_value`. -/
def getWidthValue (maxWidth : Nat) (wasSet : Bool) (overrideValue heuristicValue : Nat) : Nat :=
  if !wasSet then heuristicValue
  else if overrideValue > maxWidth then maxWidth
  else overrideValue

/-- One of the eight assignments of config_type.rs:448-510. -/
def setOneWidth (maxWidth : Nat) (c : Config) (kh : String × Nat) : Config :=
  setVal c kh.1 (.nat (getWidthValue maxWidth (wasSet c kh.1) (natOf c kh.1) kh.2))

/-- config_type.rs:426-511 `set_width_heuristics`. -/
def setWidthHeuristics (c : Config) (h : WidthHeuristics) : Config :=
  h.toList.foldl (setOneWidth (natOf c "max_width")) c

inductive Heuristics where
  | off | max | default
  deriving DecidableEq, Repr

def Heuristics.ofVal? : Val → Option Heuristics
  | .str s =>
    if s = "Off" then some .off else if s = "Max" then some .max
    else if s = "Default" then some .default else none
  | _ => none

/-- config_type.rs:513-521 `set_heuristics`.  A `use_small_heuristics` value outside the enum
cannot exist in Rust; the model leaves the config alone then (excluded by `checkVal`). -/
def setHeuristics (c : Config) : Config :=
  let maxWidth := natOf c "max_width"
  match Heuristics.ofVal? (getE c "use_small_heuristics").val with
  | some .default => setWidthHeuristics c (WidthHeuristics.scaled maxWidth)
  | some .max => setWidthHeuristics c (WidthHeuristics.set maxWidth)
  | some .off => setWidthHeuristics c WidthHeuristics.null
  | none => c

/-! ## Deprecated aliases -/

/-- config_type.rs:527-541 `set_merge_imports`. -/
def setMergeImports (c : Config) : Config :=
  if wasSet c "merge_imports" then
    if !wasSet c "imports_granularity" then
      setVal c "imports_granularity"
        (.str (if (getE c "merge_imports").val = .bool true then "Crate" else "Preserve"))
    else c
  else c

/-- config_type.rs:543-553 `set_fn_args_layout`. -/
def setFnArgsLayout (c : Config) : Config :=
  if wasSet c "fn_args_layout" then
    if !wasSet c "fn_params_layout" then
      setVal c "fn_params_layout" (getE c "fn_args_layout").val
    else c
  else c

/-- `!b` on a boolean value (anything else, unreachable for well-formed configs, is kept). -/
def negBool : Val → Val
  | .bool b => .bool (!b)
  | v => v

/-- config_type.rs:555-565 `set_hide_parse_errors`: `show_parse_errors = !hide_parse_errors`
(since `fix: hide_parse_errors = true must turn show_parse_errors off`; the pinned tree copied the
value without negating it). -/
def setHideParseErrors (c : Config) : Config :=
  if wasSet c "hide_parse_errors" then
    if !wasSet c "show_parse_errors" then
      setVal c "show_parse_errors" (negBool (getE c "hide_parse_errors").val)
    else c
  else c

/-- config_type.rs:567-589 `set_version`: only prints warnings. -/
def setVersion (c : Config) : Config := c

/-! ## Key dispatch (through the GENERATED tables) -/

/-- The method named by a dispatch table row. -/
def applyMethod (m : String) (c : Config) : Config :=
  if m = "set_heuristics" then setHeuristics c
  else if m = "set_merge_imports" then setMergeImports c
  else if m = "set_fn_args_layout" then setFnArgsLayout c
  else if m = "set_hide_parse_errors" then setHideParseErrors c
  else if m = "set_version" then setVersion c
  else c

def knownMethods : List String :=
  ["set_heuristics", "set_merge_imports", "set_fn_args_layout", "set_hide_parse_errors",
   "set_version"]

/-- First arm of the `match key { … }` whose pattern list contains `k`. -/
def methodFor (table : List (List String × String)) (k : String) : Option String :=
  match table.find? (fun row => row.1.contains k) with
  | some row => some row.2
  | none => none

def dispatch (table : List (List String × String)) (k : String) (c : Config) : Config :=
  match methodFor table k with
  | some m => applyMethod m c
  | none => c

/-- config_type.rs:117-141 `ConfigSetter::$i`: stores `.2` only (NOT `.1`), then dispatches.
`none`: the call would not type-check in Rust (unknown option / wrong value type). -/
def configSet (c : Config) (k : String) (v : Val) : Option Config :=
  if checkVal k v then some (dispatch configSetterDispatch k (setVal c k v)) else none

/-- config_type.rs:146-171 `CliConfigSetter::$i`: stores `.2`, sets `.4` (NOT `.1`), dispatches. -/
def configSetCli (c : Config) (k : String) (v : Val) : Option Config :=
  if checkVal k v then
    some (dispatch cliConfigSetterDispatch k (setWasSetCli (setVal c k v) k))
  else none

/-- config_type.rs:322-369 `override_value`: `.1 = true`, `.2 = value`, then dispatches.
`none` is the panic (`Unknown config key` / `Failed to parse override`). -/
def overrideValue (c : Config) (k : String) (v : Val) : Option Config :=
  if checkVal k v then
    some (dispatch overrideValueDispatch k (setVal (setWasSet c k) k v))
  else none

/-! ## Loading from a parsed file -/

structure Env where
  /-- `is_nightly_channel!()` (release_channel.rs:12-16). -/
  nightly : Bool
  deriving DecidableEq, Repr

/-- `stable_variant()`: the only `#[unstable_variant]` of the tree is `StyleEdition::Edition2027`
(options.rs:533). -/
def variantStable (k : String) (v : Val) : Bool := !(k = "style_edition" ∧ v = .str "2027")

/-- config_type.rs:616-647 `is_stable_option_and_value`. -/
def isStableOptionAndValue (env : Env) (k : String) (v : Val) : Bool :=
  match env.nightly, stableOf k, variantStable k v with
  | false, false, _ => false
  | false, true, false => false
  | _, _, _ => true

/-- config_type.rs:249-257: one `if let Some(option_value) = parsed.$i { … }`. -/
def fillStore (env : Env) (parsed : List (String × Val)) (c : Config) (k : String) : Config :=
  match parsed.lookup k with
  | some v => if isStableOptionAndValue env k v then setVal (setWasSet c k) k v else c
  | none => c

/-- config_type.rs:247-266 `fill_from_parsed_config`: the stores in declaration order, ONE
`set_heuristics`, (`set_ignore`, not modelled), then the alias setters in this order. -/
def fillFromParsedConfig (env : Env) (c : Config) (parsed : List (String × Val)) : Config :=
  let c := optionNames.foldl (fillStore env parsed) c
  let c := setHeuristics c
  let c := setMergeImports c
  let c := setFnArgsLayout c
  let c := setHideParseErrors c
  setVersion c

def orElse {α} : Option α → Option α → Option α
  | some a, _ => some a
  | none, b => b

def parsedStyleEdition (parsed : List (String × Val)) : Option StyleEdition :=
  match parsed.lookup "style_edition" with
  | some v => StyleEdition.ofVal? v
  | none => none

def parsedEdition (parsed : List (String × Val)) : Option Edition :=
  match parsed.lookup "edition" with
  | some v => Edition.ofVal? v
  | none => none

def parsedVersion (parsed : List (String × Val)) : Option Version :=
  match parsed.lookup "version" with
  | some v => Version.ofVal? v
  | none => none

/-- mod.rs:225-238 `PartialConfig::to_parsed_config`. -/
def toParsedConfig (env : Env) (parsed : List (String × Val)) (seOv : Option StyleEdition)
    (edOv : Option Edition) (verOv : Option Version) : Config :=
  fillFromParsedConfig env
    (defaultForPossibleStyleEdition (orElse seOv (parsedStyleEdition parsed))
      (orElse edOv (parsedEdition parsed)) (orElse verOv (parsedVersion parsed)))
    parsed

/-- Typed view of "`parsed.try_into::<PartialConfig>()` succeeds" (mod.rs:433): every key that is
an option carries a value of its type; unknown keys only produce a warning (mod.rs:426-431). -/
def validParsed (parsed : List (String × Val)) : Bool :=
  parsed.all fun kv => !isValidName kv.1 || checkVal kv.1 kv.2

/-- mod.rs:412-453 `from_toml_for_style_edition` after TOML parsing; `none` is the `Err`. -/
def fromToml (env : Env) (parsed : List (String × Val)) (ed : Option Edition)
    (se : Option StyleEdition) (ver : Option Version) : Option Config :=
  if validParsed parsed then some (toParsedConfig env parsed se ed ver) else none

/-! ## Directory search -/

/-- A directory path, root first (`[]` is `/`).  A config file: its directory and whether it is
the dotted name. -/
structure ConfigFile (α : Type) where
  dir : List α
  dotted : Bool
  deriving DecidableEq, Repr

/-- The existing directories that matter: `(dir, has .rustfmt.toml, has rustfmt.toml)`.  A
directory that is not listed has neither file. -/
abbrev Tree (α : Type) := List (List α × Bool × Bool)

def dirEntry {α} [DecidableEq α] (t : Tree α) (d : List α) : Option (Bool × Bool) :=
  match t.find? (fun e => e.1 = d) with
  | some e => some e.2
  | none => none

def hasDotted {α} [DecidableEq α] (t : Tree α) (d : List α) : Bool :=
  match dirEntry t d with
  | some (a, _) => a
  | none => false

def hasPlain {α} [DecidableEq α] (t : Tree α) (d : List α) : Bool :=
  match dirEntry t d with
  | some (_, b) => b
  | none => false

def dirExists {α} [DecidableEq α] (t : Tree α) (d : List α) : Bool := (dirEntry t d).isSome

def fileExists {α} [DecidableEq α] (t : Tree α) (f : ConfigFile α) : Bool :=
  if f.dotted then hasDotted t f.dir else hasPlain t f.dir

/-- mod.rs:495-516 `get_toml_path`: `CONFIG_FILE_NAMES = [".rustfmt.toml", "rustfmt.toml"]`, first
existing regular file wins. -/
def getTomlPath {α} [DecidableEq α] (t : Tree α) (d : List α) : Option (ConfigFile α) :=
  [true, false].findSome? fun dotted =>
    if fileExists t ⟨d, dotted⟩ then some ⟨d, dotted⟩ else none

/-- `dir`, its parent, …, the root: the directories the loop of mod.rs:366-377 visits
(`current.pop()` fails at the root). -/
def ancestorsRev {α} : List α → List (List α)
  | [] => [[]]
  | x :: r => (x :: r).reverse :: ancestorsRev r

def ancestors {α} (d : List α) : List (List α) := ancestorsRev d.reverse

structure FS (α : Type) where
  tree : Tree α
  /-- `dirs::home_dir()` -/
  home : Option (List α)
  /-- `dirs::config_dir()` -/
  configDir : Option (List α)
  /-- the path component `rustfmt` pushed onto the config dir (mod.rs:388) -/
  rustfmtName : α
  /-- content of a config file after TOML parsing; `none`: unreadable or not TOML -/
  read : ConfigFile α → Option (List (String × Val))

inductive LoadErr where
  | notFound      -- `--config-path` does not exist / holds no config file; `canonicalize` of a
                  -- missing start directory (`ErrorKind::NotFound` as well)
  | io            -- unreadable file
  | invalidData   -- TOML / type error in the file
  | panic         -- `override_value` panicked in `apply_to`
  deriving DecidableEq, Repr

/-- mod.rs:357-395 `resolve_project_file`: the ancestors of `dir`, nearest first, then the home
directory, then `<config dir>/rustfmt`.  `fs::canonicalize` fails for a missing `dir`
(`ErrorKind::NotFound`). -/
def resolveProjectFile {α} [DecidableEq α] (fs : FS α) (dir : List α) :
    Except LoadErr (Option (ConfigFile α)) :=
  if !dirExists fs.tree dir then .error .notFound
  else
    let candidates := ancestors dir ++ fs.home.toList ++
      (fs.configDir.map (· ++ [fs.rustfmtName])).toList
    .ok (candidates.findSome? (getTomlPath fs.tree))

/-- mod.rs:326-337 `from_toml_path`. -/
def fromTomlPath {α} (env : Env) (fs : FS α) (f : ConfigFile α) (ed : Option Edition)
    (se : Option StyleEdition) (ver : Option Version) : Except LoadErr Config :=
  match fs.read f with
  | none => .error .io
  | some parsed =>
    match fromToml env parsed ed se ver with
    | some c => .ok c
    | none => .error .invalidData

/-- mod.rs:348-405 `from_resolved_toml_path`. -/
def fromResolvedTomlPath {α} [DecidableEq α] (env : Env) (fs : FS α) (dir : List α)
    (ed : Option Edition) (se : Option StyleEdition) (ver : Option Version) :
    Except LoadErr (Config × Option (ConfigFile α)) :=
  match resolveProjectFile fs dir with
  | .error e => .error e
  | .ok none => .ok (defaultForPossibleStyleEdition se ed ver, none)
  | .ok (some f) =>
    match fromTomlPath env fs f ed se ver with
    | .error e => .error e
    | .ok c => .ok (c, some f)

/-! ## Command line (`GetOptsOptions`, bin/main.rs:535-758) -/

/-- The argument of `--config-path`: a file (with one of the two names) or a directory. -/
inductive PathArg (α : Type) where
  | file (f : ConfigFile α)
  | dir (d : List α)
  deriving DecidableEq, Repr

/-- bin/main.rs:535-551.  `inlineConfig` is the `HashMap` of `--config key=val` pairs *in the
order its iterator yields them* (an arbitrary permutation of the command line's pairs after
`dedupLast`); the theorems quantify over that order.  Values of enum-typed flags are the variant
names (`"Diff"`, `"Always"`, …); `fileLines` is opaque. -/
structure CliOptions (α : Type) where
  skipChildren : Option Bool := none
  quiet : Bool := false
  verbose : Bool := false
  configPath : Option (PathArg α) := none
  inlineConfig : List (String × Val) := []
  emitMode : Option String := none
  backup : Bool := false
  check : Bool := false
  edition : Option Edition := none
  styleEdition : Option StyleEdition := none
  color : Option String := none
  /-- `None` stands for `FileLines::all()` (`is_all()`), `some s` for a restriction -/
  fileLines : Option String := none
  unstableFeatures : Bool := false
  errorOnUnformatted : Option Bool := none
  printMisformattedFileNames : Bool := false

/-- bin/main.rs:601-622: collecting `(key, val)` pairs into a `HashMap` keeps the LAST value of a
repeated key (position in the result is irrelevant: the map's order is arbitrary anyway). -/
def dedupLast : List (String × Val) → List (String × Val)
  | [] => []
  | (k, v) :: r => if (r.lookup k).isSome then dedupLast r else (k, v) :: dedupLast r

/-- bin/main.rs:740-744 `edition()`: a `--config edition=…` pair shadows the flag, even when its
value does not parse. -/
def CliOptions.editionOv {α} (o : CliOptions α) : Option Edition :=
  match o.inlineConfig.lookup "edition" with
  | some v => Edition.ofVal? v
  | none => o.edition

/-- bin/main.rs:746-750 `style_edition()`. -/
def CliOptions.styleEditionOv {α} (o : CliOptions α) : Option StyleEdition :=
  match o.inlineConfig.lookup "style_edition" with
  | some v => StyleEdition.ofVal? v
  | none => o.styleEdition

/-- bin/main.rs:752-757 `version()`. -/
def CliOptions.versionOv {α} (o : CliOptions α) : Option Version :=
  match o.inlineConfig.lookup "version" with
  | some v => Version.ofVal? v
  | none => none

def bindO {α β} : Option α → (α → Option β) → Option β
  | some a, f => f a
  | none, _ => none

/-- `for (key, val) in self.inline_config { config.override_value(&key, &val) }`
(bin/main.rs:731-733); `none` = a panic. -/
def applyInline : List (String × Val) → Config → Option Config
  | [], c => some c
  | (k, v) :: r, c =>
    match overrideValue c k v with
    | some c' => applyInline r c'
    | none => none

/-- The dedicated flags of `apply_to` (bin/main.rs:685-729), as the list of setter calls made, in
order: `(cli?, key, value)` for `config.set_cli().key(value)` / `config.set().key(value)`. -/
def flagCalls {α} (o : CliOptions α) : List (Bool × String × Val) :=
  [ if o.verbose then (true, "verbose", .str "Verbose")
    else if o.quiet then (true, "verbose", .str "Quiet")
    else (false, "verbose", .str "Normal") ] ++
  [ match o.fileLines with
    | none => (false, "file_lines", .str "all()")
    | some s => (true, "file_lines", .str s) ] ++
  [ if o.unstableFeatures then (true, "unstable_features", .bool true)
    else (false, "unstable_features", .bool false) ] ++
  (match o.skipChildren with | some b => [(true, "skip_children", .bool b)] | none => []) ++
  (match o.errorOnUnformatted with
    | some b => [(true, "error_on_unformatted", .bool b)] | none => []) ++
  (match o.edition with
    | some e => [(true, "edition", .str e.toStr)] | none => []) ++
  (match o.styleEdition with | some e => [(true, "style_edition", .str e.toStr)] | none => []) ++
  (if o.check then [(true, "emit_mode", .str "Diff")]
   else match o.emitMode with | some m => [(true, "emit_mode", .str m)] | none => []) ++
  (if o.backup then [(true, "make_backup", .bool true)] else []) ++
  (match o.color with | some s => [(true, "color", .str s)] | none => []) ++
  (if o.printMisformattedFileNames then [(true, "print_misformatted_file_names", .bool true)]
   else [])

def applyFlagCalls : List (Bool × String × Val) → Config → Option Config
  | [], c => some c
  | (cli, k, v) :: r, c =>
    match (if cli then configSetCli c k v else configSet c k v) with
    | some c' => applyFlagCalls r c'
    | none => none

/-- The `max_width` pair(s) first, the other pairs behind in their order. -/
def maxWidthFirst (l : List (String × Val)) : List (String × Val) :=
  l.filter (fun kv => kv.1 == "max_width") ++ l.filter (fun kv => !(kv.1 == "max_width"))

/-- The order in which `apply_to` feeds the `--config` pairs to `override_value`, given the
iteration order `l` of the `HashMap`: since the repair of F3 (`fix: apply a --config max_width
override before the other overrides`) the `max_width` pair comes first.  Which of the two shapes the
source has is read off bin/main.rs by the translator (`inlineMaxWidthFirst`). -/
def orderInline (l : List (String × Val)) : List (String × Val) :=
  if inlineMaxWidthFirst then maxWidthFirst l else l

/-- bin/main.rs:684-741 `GetOptsOptions::apply_to`: the dedicated flags, then every `--config`
pair through `override_value`: `max_width` first, the rest in the map's iteration order. -/
def applyTo {α} (o : CliOptions α) (c : Config) : Option Config :=
  bindO (applyFlagCalls (flagCalls o) c) (applyInline (orderInline o.inlineConfig))

/-- mod.rs:518-547 `config_path`. -/
def configPath {α} [DecidableEq α] (t : Tree α) (o : CliOptions α) :
    Except LoadErr (Option (ConfigFile α)) :=
  match o.configPath with
  | none => .ok none
  | some (.file f) => if fileExists t f then .ok (some f) else .error .notFound
  | some (.dir d) =>
    if !dirExists t d then .error .notFound
    else match getTomlPath t d with
      | some f => .ok (some f)
      | none => .error .notFound

/-- mod.rs:462-470: the `--config-path` override and the three edition overrides of the options. -/
def loadPre {α} [DecidableEq α] (fs : FS α) (opts : Option (CliOptions α)) :
    Except LoadErr
      (Option (ConfigFile α) × Option Edition × Option StyleEdition × Option Version) :=
  match opts with
  | some o =>
    match configPath fs.tree o with
    | .error e => .error e
    | .ok p => .ok (p, o.editionOv, o.styleEditionOv, o.versionOv)
  | none => .ok (none, none, none, none)

/-- mod.rs:472-482: `--config-path` given ⇒ that file only; else resolve from the file's
directory; else the defaults. -/
def loadResult {α} [DecidableEq α] (env : Env) (fs : FS α) (filePath : Option (List α))
    (overRide : Option (ConfigFile α)) (ed : Option Edition) (se : Option StyleEdition)
    (ver : Option Version) : Except LoadErr (Config × Option (ConfigFile α)) :=
  match overRide with
  | some f =>
    match fromTomlPath env fs f ed se ver with
    | .error e => .error e
    | .ok c => .ok (c, some f)
  | none =>
    match filePath with
    | some d => fromResolvedTomlPath env fs d ed se ver
    | none => .ok (defaultForPossibleStyleEdition se ed ver, none)

/-- mod.rs:458-490 `load_config`. -/
def loadConfig {α} [DecidableEq α] (env : Env) (fs : FS α) (filePath : Option (List α))
    (opts : Option (CliOptions α)) : Except LoadErr (Config × Option (ConfigFile α)) :=
  match loadPre fs opts with
  | .error e => .error e
  | .ok (overRide, ed, se, ver) =>
    match loadResult env fs filePath overRide ed se ver with
    | .error e => .error e
    | .ok (c, p) =>
      match opts with
      | some o =>
        match applyTo o c with
        | some c' => .ok (c', p)
        | none => .error .panic
      | none => .ok (c, p)

/-! ## Printing (`--print-config`) -/

def i64Max : Nat := 2 ^ 63 - 1

/-- mod.rs:210-223 `PartialConfig::to_toml` applied to `all_options()` (what `--print-config
default|current` prints): every option except the generated list `tomlHidden`, in declaration
order; `none` is the serialisation error of the `toml` crate for an integer above `i64::MAX`
(F8: the four `usize::MAX` widths of `use_small_heuristics = "Off"`). -/
def toToml (c : Config) : Option (List (String × Val)) :=
  let l := (allOptions c).filter fun kv => !tomlHidden.contains kv.1
  if l.all (fun kv => match kv.2 with | .nat n => n ≤ i64Max | _ => true) then some l else none

/-- Print, then load the text as a config file (`from_toml`, no overrides): `none` when the
configuration cannot be printed or the text is rejected. -/
def roundTrip (env : Env) (c : Config) : Option Config :=
  match toToml c with
  | some l => fromToml env l none none none
  | none => none

/-- The printable option names (not in `tomlHidden`) on whose VALUE two configurations differ, in
declaration order. -/
def valueDiff (a b : Config) : List String :=
  optionNames.filter fun k => !tomlHidden.contains k && decide ((getE a k).val ≠ (getE b k).val)

/-! ## Operation sequences (for the driver's `cfg.apply` and the invariant theorems) -/

inductive Op where
  /-- `fill_from_parsed_config` on the current config -/
  | file (parsed : List (String × Val))
  /-- `from_toml_for_style_edition(toml, None, None, None)`: a fresh config replaces the current -/
  | toml (parsed : List (String × Val))
  | override (k : String) (v : Val)
  | set (k : String) (v : Val)
  | setCli (k : String) (v : Val)
  deriving Repr

def runOp (env : Env) (c : Config) : Op → Option Config
  | .file parsed => if validParsed parsed then some (fillFromParsedConfig env c parsed) else none
  | .toml parsed => fromToml env parsed none none none
  | .override k v => overrideValue c k v
  | .set k v => configSet c k v
  | .setCli k v => configSetCli c k v

def runOps (env : Env) : List Op → Config → Option Config
  | [], c => some c
  | op :: r, c =>
    match runOp env c op with
    | some c' => runOps env r c'
    | none => none

end RF.Config
