import RF.Model.FileLines
/-!
Lemmas about the `Range` / `FileLines` model (C17).
-/
namespace RF.Lemmas.FileLines
open RF.FileLines RF.FileLines.Range

/-! ### Range algebra -/

theorem hasLine_iff (r : Range) (n : Nat) : r.hasLine n = true ↔ r.lo ≤ n ∧ n ≤ r.hi := by
  simp [hasLine]

theorem hasLine_false_iff (r : Range) (n : Nat) : r.hasLine n = false ↔ ¬ (r.lo ≤ n ∧ n ≤ r.hi) := by
  rw [← hasLine_iff]; simp

theorem isEmpty_iff (r : Range) : r.isEmpty = true ↔ r.hi < r.lo := by simp [isEmpty]

theorem isEmpty_false_iff (r : Range) : r.isEmpty = false ↔ r.lo ≤ r.hi := by
  simp [isEmpty]

theorem isEmpty_iff_no_line (r : Range) : r.isEmpty = true ↔ ∀ n, r.hasLine n = false := by
  constructor
  · intro h n
    rw [hasLine_false_iff]; rw [isEmpty_iff] at h; omega
  · intro h
    rw [isEmpty_iff]
    have := h r.lo
    rw [hasLine_false_iff] at this; omega

theorem intersects_char (a b : Range) :
    a.intersects b = true ↔ a.lo ≤ a.hi ∧ b.lo ≤ b.hi ∧
      ((a.lo ≤ b.hi ∧ b.hi ≤ a.hi) ∨ (b.lo ≤ a.hi ∧ a.hi ≤ b.hi)) := by
  unfold intersects isEmpty
  by_cases h1 : a.lo > a.hi <;> by_cases h2 : b.lo > b.hi <;> simp [h1, h2] <;> omega

theorem intersects_iff (a b : Range) :
    a.intersects b = true ↔ ∃ n, a.hasLine n = true ∧ b.hasLine n = true := by
  simp only [hasLine_iff, intersects_char]
  constructor
  · rintro ⟨h1, h2, h | h⟩
    · exact ⟨b.hi, by omega⟩
    · exact ⟨a.hi, by omega⟩
  · rintro ⟨n, h1, h2⟩
    omega

theorem intersects_comm (a b : Range) : a.intersects b = b.intersects a := by
  rw [Bool.eq_iff_iff, intersects_iff, intersects_iff]
  constructor <;> (rintro ⟨n, h1, h2⟩; exact ⟨n, h2, h1⟩)

theorem adjacentTo_iff (a b : Range) :
    a.adjacentTo b = true ↔
      a.lo ≤ a.hi ∧ b.lo ≤ b.hi ∧ (a.hi + 1 = b.lo ∨ b.hi + 1 = a.lo) := by
  unfold adjacentTo isEmpty
  by_cases h1 : a.lo > a.hi <;> by_cases h2 : b.lo > b.hi <;> simp [h1, h2] <;> omega

theorem merge_eq_some_iff (a b m : Range) :
    a.merge b = some m ↔
      (a.adjacentTo b = true ∨ a.intersects b = true) ∧ m = ⟨min a.lo b.lo, max a.hi b.hi⟩ := by
  unfold merge
  by_cases h : (a.adjacentTo b || a.intersects b) = true
  · rw [if_pos h]; rw [Bool.or_eq_true] at h
    constructor
    · intro hm; exact ⟨h, (Option.some.inj hm).symm⟩
    · rintro ⟨_, rfl⟩; rfl
  · rw [if_neg h]; rw [Bool.or_eq_true] at h; simp [h]

theorem merge_eq_none_iff (a b : Range) :
    a.merge b = none ↔ a.adjacentTo b = false ∧ a.intersects b = false := by
  unfold merge
  by_cases h : (a.adjacentTo b || a.intersects b) = true
  · rw [if_pos h]; rw [Bool.or_eq_true] at h; simp; intro h'; simp_all
  · rw [if_neg h]; simpa using h

/-- `merge` returns exactly the union of the two ranges. -/
theorem merge_is_union (a b m : Range) (h : a.merge b = some m) (n : Nat) :
    m.hasLine n = true ↔ a.hasLine n = true ∨ b.hasLine n = true := by
  rw [merge_eq_some_iff] at h
  obtain ⟨h, rfl⟩ := h
  simp only [hasLine_iff]
  rcases h with h | h
  · rw [adjacentTo_iff] at h; omega
  · rw [intersects_iff] at h
    obtain ⟨k, hk1, hk2⟩ := h
    rw [hasLine_iff] at hk1 hk2
    omega

/-- `merge` fails exactly when no line is shared and no line of one neighbours a line of the
other (or one of the two is empty). -/
theorem merge_none_iff (a b : Range) :
    a.merge b = none ↔
      (a.isEmpty = true ∨ b.isEmpty = true ∨ a.hi + 1 < b.lo ∨ b.hi + 1 < a.lo) := by
  rw [merge_eq_none_iff, ← Bool.not_eq_true, ← Bool.not_eq_true, adjacentTo_iff, intersects_char,
    isEmpty_iff, isEmpty_iff]
  omega

/-! ### Sorting -/

theorem le_total (a b : Range) : a.le b = true ∨ b.le a = true := by
  simp only [le, Bool.or_eq_true, decide_eq_true_eq, Bool.and_eq_true]; omega

theorem le_trans (a b c : Range) (h1 : a.le b = true) (h2 : b.le c = true) : a.le c = true := by
  simp only [le, Bool.or_eq_true, decide_eq_true_eq, Bool.and_eq_true] at *; omega

theorem le_antisymm (a b : Range) (h1 : a.le b = true) (h2 : b.le a = true) : a = b := by
  simp only [le, Bool.or_eq_true, decide_eq_true_eq, Bool.and_eq_true] at *
  cases a; cases b; simp only [Range.mk.injEq]; simp only at h1 h2; omega

theorem le_lo (a b : Range) (h : a.le b = true) : a.lo ≤ b.lo := by
  simp only [le, Bool.or_eq_true, decide_eq_true_eq, Bool.and_eq_true] at h; omega

def Sorted (l : List Range) : Prop := l.Pairwise (fun a b => a.le b = true)

theorem mem_insertRange (r x : Range) (l : List Range) :
    x ∈ insertRange r l ↔ x = r ∨ x ∈ l := by
  induction l with
  | nil => simp [insertRange]
  | cons y ys ih =>
    simp only [insertRange]
    split
    · simp
    · simp only [List.mem_cons, ih]
      constructor
      · rintro (h | h | h) <;> simp [h]
      · rintro (h | h | h) <;> simp [h]

theorem insertRange_perm (r : Range) (l : List Range) : (insertRange r l).Perm (r :: l) := by
  induction l with
  | nil => simp [insertRange]
  | cons y ys ih =>
    simp only [insertRange]
    split
    · exact List.Perm.refl _
    · exact (List.Perm.cons y ih).trans (List.Perm.swap r y ys)

theorem sortRanges_perm (l : List Range) : (sortRanges l).Perm l := by
  induction l with
  | nil => exact List.Perm.refl _
  | cons r rs ih =>
    simp only [sortRanges]
    exact (insertRange_perm r _).trans (List.Perm.cons r ih)

theorem mem_sortRanges (x : Range) (l : List Range) : x ∈ sortRanges l ↔ x ∈ l :=
  (sortRanges_perm l).mem_iff

theorem insertRange_sorted (r : Range) (l : List Range) (h : Sorted l) :
    Sorted (insertRange r l) := by
  induction l with
  | nil => simp [insertRange, Sorted]
  | cons y ys ih =>
    unfold Sorted at h ih ⊢
    rw [List.pairwise_cons] at h
    simp only [insertRange]
    split
    · rename_i hle
      rw [List.pairwise_cons]
      refine ⟨?_, List.pairwise_cons.mpr h⟩
      intro a ha
      rcases List.mem_cons.mp ha with rfl | ha
      · exact hle
      · exact le_trans _ _ _ hle (h.1 a ha)
    · rename_i hle
      rw [List.pairwise_cons]
      refine ⟨?_, ih h.2⟩
      intro a ha
      rcases (mem_insertRange r a ys).mp ha with rfl | ha
      · rcases le_total a y with h' | h'
        · exact absurd h' hle
        · exact h'
      · exact h.1 a ha

theorem sortRanges_sorted (l : List Range) : Sorted (sortRanges l) := by
  induction l with
  | nil => simp [sortRanges, Sorted]
  | cons r rs ih => exact insertRange_sorted r _ ih

/-- A sorted permutation is unique: whatever (correct) algorithm `slice::sort` uses, it returns
`sortRanges`. -/
theorem sorted_perm_unique (l₁ l₂ : List Range) (h1 : Sorted l₁) (h2 : Sorted l₂)
    (p : l₁.Perm l₂) : l₁ = l₂ :=
  List.Perm.eq_of_pairwise (fun a b _ _ hab hba => le_antisymm a b hab hba) h1 h2 p

theorem sort_unique (l out : List Range) (hs : Sorted out) (hp : out.Perm l) :
    out = sortRanges l :=
  sorted_perm_unique _ _ hs (sortRanges_sorted l) (hp.trans (sortRanges_perm l).symm)

/-! ### `normalize_ranges` keeps exactly the selected lines -/

theorem containsLine_iff (rs : List Range) (n : Nat) :
    containsLine rs n = true ↔ ∃ r ∈ rs, r.hasLine n = true := by
  simp [containsLine, List.any_eq_true]

theorem containsLine_perm (l₁ l₂ : List Range) (p : l₁.Perm l₂) (n : Nat) :
    containsLine l₁ n = containsLine l₂ n := by
  rw [Bool.eq_iff_iff, containsLine_iff, containsLine_iff]
  constructor <;> (rintro ⟨r, hr, h⟩)
  · exact ⟨r, p.mem_iff.mp hr, h⟩
  · exact ⟨r, p.mem_iff.mpr hr, h⟩

theorem containsLine_cons (r : Range) (rs : List Range) (n : Nat) :
    containsLine (r :: rs) n = (r.hasLine n || containsLine rs n) := by
  simp [containsLine]

theorem containsLine_mergeLoop (cur : Range) (rest : List Range) (n : Nat) :
    containsLine (mergeLoop cur rest) n = (cur.hasLine n || containsLine rest n) := by
  induction rest generalizing cur with
  | nil => simp [mergeLoop, containsLine]
  | cons p rest ih =>
    simp only [mergeLoop]
    split
    · rename_i m hm
      rw [ih, containsLine_cons, ← Bool.or_assoc]
      congr 1
      rw [Bool.eq_iff_iff, Bool.or_eq_true]
      exact merge_is_union cur p m hm n
    · rw [containsLine_cons, ih, containsLine_cons]

theorem containsLine_normalize (rs : List Range) (n : Nat) :
    containsLine (normalizeRanges rs) n = containsLine rs n := by
  rw [← containsLine_perm _ _ (sortRanges_perm rs) n]
  unfold normalizeRanges
  split
  · rename_i h; rw [h]
  · rename_i r rest h
    rw [h, containsLine_mergeLoop, containsLine_cons]

/-- The normalised list selects exactly the lines of the given ranges — for every list,
including empty, inverted, duplicated, overlapping and adjacent ranges. -/
theorem normalize_same_lines (rs : List Range) (n : Nat) :
    containsLine (normalizeRanges rs) n = true ↔ ∃ r ∈ rs, r.hasLine n = true := by
  rw [containsLine_normalize, containsLine_iff]

theorem mergeLoop_ne_nil (cur : Range) (rest : List Range) : mergeLoop cur rest ≠ [] := by
  induction rest generalizing cur with
  | nil => simp [mergeLoop]
  | cons p rest ih =>
    simp only [mergeLoop]
    split
    · exact ih _
    · simp

theorem normalize_eq_nil_iff (rs : List Range) : normalizeRanges rs = [] ↔ rs = [] := by
  unfold normalizeRanges
  split
  · rename_i h
    have := (sortRanges_perm rs).length_eq
    rw [h] at this
    simp only [List.length_nil] at this
    simp [List.length_eq_zero_iff.mp this.symm]
  · rename_i r rest h
    constructor
    · intro h'; exact absurd h' (mergeLoop_ne_nil _ _)
    · intro h'; subst h'; simp [sortRanges] at h

/-! ### Sorted, disjoint, non-adjacent output when no input range is empty -/

/-- "b starts at least two lines after a ends": disjoint and not adjacent. -/
def Gap (a b : Range) : Prop := a.hi + 1 < b.lo

theorem mergeLoop_gap (cur : Range) (rest : List Range)
    (hcur : cur.lo ≤ cur.hi)
    (hne : ∀ r ∈ rest, r.lo ≤ r.hi)
    (hlo : ∀ r ∈ rest, cur.lo ≤ r.lo)
    (hs : rest.Pairwise (fun a b => a.lo ≤ b.lo)) :
    (mergeLoop cur rest).Pairwise Gap ∧
    (∀ r ∈ mergeLoop cur rest, r.lo ≤ r.hi ∧ cur.lo ≤ r.lo) := by
  induction rest generalizing cur with
  | nil =>
    simp only [mergeLoop, List.pairwise_cons, List.not_mem_nil, false_imp_iff, implies_true,
      List.Pairwise.nil, and_self, List.mem_singleton, forall_eq, Nat.le_refl, and_true, true_and]
    exact hcur
  | cons p rest ih =>
    rw [List.pairwise_cons] at hs
    have hp := hne p (List.mem_cons_self)
    have hcp := hlo p (List.mem_cons_self)
    simp only [mergeLoop]
    split
    · rename_i m hm
      rw [merge_eq_some_iff] at hm
      obtain ⟨_, rfl⟩ := hm
      have hmlo : min cur.lo p.lo = cur.lo := by omega
      have := ih ⟨min cur.lo p.lo, max cur.hi p.hi⟩ (by simp only; omega)
        (fun r hr => hne r (List.mem_cons_of_mem _ hr))
        (fun r hr => by simp only; have := hlo r (List.mem_cons_of_mem _ hr); omega)
        hs.2
      simp only [hmlo] at this ⊢
      exact this
    · rename_i hm
      rw [merge_none_iff, isEmpty_iff, isEmpty_iff] at hm
      have hgap : cur.hi + 1 < p.lo := by omega
      have := ih p hp (fun r hr => hne r (List.mem_cons_of_mem _ hr)) hs.1 hs.2
      obtain ⟨h1, h2⟩ := this
      refine ⟨?_, ?_⟩
      · rw [List.pairwise_cons]
        refine ⟨?_, h1⟩
        intro r hr
        have := (h2 r hr).2
        unfold Gap; omega
      · intro r hr
        rcases List.mem_cons.mp hr with rfl | hr
        · exact ⟨hcur, Nat.le_refl _⟩
        · have := h2 r hr; omega

theorem sorted_lo (l : List Range) (h : Sorted l) : l.Pairwise (fun a b => a.lo ≤ b.lo) :=
  List.Pairwise.imp (fun {a b} hab => le_lo a b hab) h

/-- If no input range is empty, the normalised ranges are non-empty, ordered by start, pairwise
disjoint and pairwise non-adjacent (each starts at least two lines after the previous ends). -/
theorem normalize_sorted_disjoint (rs : List Range) (h : ∀ r ∈ rs, r.isEmpty = false) :
    (normalizeRanges rs).Pairwise Gap ∧ ∀ r ∈ normalizeRanges rs, r.isEmpty = false := by
  have hs := sortRanges_sorted rs
  have hne : ∀ r ∈ sortRanges rs, r.lo ≤ r.hi := fun r hr =>
    (isEmpty_false_iff r).mp (h r ((mem_sortRanges r rs).mp hr))
  unfold normalizeRanges
  split
  · simp
  · rename_i r rest heq
    rw [heq] at hs hne
    unfold Sorted at hs
    rw [List.pairwise_cons] at hs
    have := mergeLoop_gap r rest (hne r List.mem_cons_self)
      (fun x hx => hne x (List.mem_cons_of_mem _ hx))
      (fun x hx => le_lo _ _ (hs.1 x hx)) (sorted_lo rest hs.2)
    exact ⟨this.1, fun x hx => (isEmpty_false_iff x).mpr (this.2 x hx).1⟩

/-! ### `contains_range` on a normalised list -/

theorem contains_iff (a b : Range) :
    a.contains b = true ↔ (b.hi < b.lo ∨ (a.lo ≤ a.hi ∧ a.lo ≤ b.lo ∧ b.hi ≤ a.hi)) := by
  unfold contains isEmpty
  by_cases h1 : a.lo > a.hi <;> by_cases h2 : b.lo > b.hi <;> simp [h1, h2] <;> omega

theorem containsRange_iff (rs : List Range) (lo hi : Nat) :
    containsRange rs lo hi = true ↔ ∃ r ∈ rs, r.contains ⟨lo, hi⟩ = true := by
  simp [containsRange, List.any_eq_true]

theorem gap_trichotomy (l : List Range) (hg : l.Pairwise Gap) :
    ∀ a ∈ l, ∀ b ∈ l, a = b ∨ Gap a b ∨ Gap b a := by
  induction l with
  | nil => intro a ha; cases ha
  | cons x xs ihx =>
    rw [List.pairwise_cons] at hg
    intro a ha b hb
    rcases List.mem_cons.mp ha with ha | ha <;> rcases List.mem_cons.mp hb with hb | hb
    · exact Or.inl (ha.trans hb.symm)
    · exact Or.inr (Or.inl (ha ▸ hg.1 b hb))
    · exact Or.inr (Or.inr (hb ▸ hg.1 a ha))
    · exact ihx hg.2 a ha b hb

/-- In a list whose members are separated by gaps, an interval of selected lines lies inside one
member. -/
theorem gap_interval (l : List Range) (hg : l.Pairwise Gap) (lo hi : Nat) (hle : lo ≤ hi)
    (hall : ∀ n, lo ≤ n → n ≤ hi → ∃ r ∈ l, r.hasLine n = true) :
    ∃ r ∈ l, r.lo ≤ lo ∧ hi ≤ r.hi := by
  -- induction on the length of the interval
  obtain ⟨d, rfl⟩ : ∃ d, hi = lo + d := ⟨hi - lo, by omega⟩
  clear hle
  induction d with
  | zero =>
    obtain ⟨r, hr, h⟩ := hall lo (Nat.le_refl _) (by omega)
    rw [hasLine_iff] at h
    exact ⟨r, hr, by omega, by omega⟩
  | succ d ih =>
    obtain ⟨r, hr, hr1, hr2⟩ := ih (fun n h1 h2 => hall n h1 (by omega))
    obtain ⟨s, hs, hs'⟩ := hall (lo + (d + 1)) (by omega) (Nat.le_refl _)
    rw [hasLine_iff] at hs'
    by_cases hcase : lo + (d + 1) ≤ r.hi
    · exact ⟨r, hr, hr1, hcase⟩
    · -- then `s ≠ r`, and the gap between them is violated
      exfalso
      have hrel := gap_trichotomy l hg
      rcases hrel r hr s hs with rfl | h | h
      · omega
      · unfold Gap at h; omega
      · unfold Gap at h; omega

/-- When no given range is empty and the queried range is not empty, `contains_range` on the
normalised list answers "every queried line is selected". -/
theorem containsRange_iff_of_nonempty (rs : List Range) (h : ∀ r ∈ rs, r.isEmpty = false)
    (lo hi : Nat) (hle : lo ≤ hi) :
    containsRange (normalizeRanges rs) lo hi = true ↔
      ∀ n, lo ≤ n → n ≤ hi → ∃ r ∈ rs, r.hasLine n = true := by
  obtain ⟨hg, hne⟩ := normalize_sorted_disjoint rs h
  rw [containsRange_iff]
  constructor
  · rintro ⟨r, hr, hc⟩ n h1 h2
    rw [← normalize_same_lines]
    rw [containsLine_iff]
    refine ⟨r, hr, ?_⟩
    rw [contains_iff] at hc
    rw [hasLine_iff]
    simp only at hc
    omega
  · intro hall
    have hall' : ∀ n, lo ≤ n → n ≤ hi → ∃ r ∈ normalizeRanges rs, r.hasLine n = true := by
      intro n h1 h2
      rw [← containsLine_iff, containsLine_normalize, containsLine_iff]
      exact hall n h1 h2
    obtain ⟨r, hr, h1, h2⟩ := gap_interval _ hg lo hi hle hall'
    refine ⟨r, hr, ?_⟩
    rw [contains_iff]
    simp only
    omega

/-- For an empty (inverted) query the answer is "the file has at least one range". -/
theorem containsRange_empty_query (rs : List Range) (lo hi : Nat) (hlt : hi < lo) :
    containsRange (normalizeRanges rs) lo hi = true ↔ rs ≠ [] := by
  rw [containsRange_iff]
  constructor
  · rintro ⟨r, hr, _⟩ hnil
    subst hnil
    simp [normalizeRanges, sortRanges] at hr
  · intro hne
    have : normalizeRanges rs ≠ [] := fun h => hne ((normalize_eq_nil_iff rs).mp h)
    obtain ⟨r, t, heq⟩ := List.exists_cons_of_ne_nil this
    refine ⟨r, by simp [heq], ?_⟩
    rw [contains_iff]; simp only; omega

theorem intersectsRange_iff (rs : List Range) (lo hi : Nat) :
    intersectsRange rs lo hi = true ↔
      ∃ n, lo ≤ n ∧ n ≤ hi ∧ containsLine rs n = true := by
  simp only [intersectsRange, List.any_eq_true, intersects_iff, containsLine_iff, hasLine_iff]
  constructor
  · rintro ⟨r, hr, n, h1, h2⟩
    exact ⟨n, h2.1, h2.2, r, hr, h1⟩
  · rintro ⟨n, h1, h2, r, hr, h3⟩
    exact ⟨r, hr, n, h3, h1, h2⟩

/-! ### The decidable oracles decide what they are named after -/

theorem unionRange_iff (rs : List Range) (lo hi : Nat) :
    unionRange rs lo hi = true ↔ ∀ n, lo ≤ n → n ≤ hi → ∃ r ∈ rs, r.hasLine n = true := by
  unfold unionRange
  by_cases hlt : hi < lo
  · simp only [hlt, decide_true, Bool.true_or, true_iff]
    intro n h1 h2; omega
  · have hfilter : ∀ r ∈ rs.filter (fun r => !r.isEmpty), r.isEmpty = false := by
      intro r hr
      have := (List.mem_filter.mp hr).2
      simpa using this
    simp only [hlt, decide_false, Bool.false_or]
    rw [containsRange_iff_of_nonempty _ hfilter lo hi (by omega)]
    constructor
    · intro h n h1 h2
      obtain ⟨r, hr, hl⟩ := h n h1 h2
      exact ⟨r, (List.mem_filter.mp hr).1, hl⟩
    · intro h n h1 h2
      obtain ⟨r, hr, hl⟩ := h n h1 h2
      refine ⟨r, List.mem_filter.mpr ⟨hr, ?_⟩, hl⟩
      rw [hasLine_iff] at hl
      simp only [Bool.not_eq_eq_eq_not, Bool.not_true, isEmpty_false_iff]
      omega

theorem unionMeets_iff (rs : List Range) (lo hi : Nat) :
    unionMeets rs lo hi = true ↔ ∃ n, lo ≤ n ∧ n ≤ hi ∧ ∃ r ∈ rs, r.hasLine n = true := by
  simp only [unionMeets, List.any_eq_true, decide_eq_true_eq, hasLine_iff]
  constructor
  · rintro ⟨r, hr, h⟩
    exact ⟨max r.lo lo, by omega, by omega, r, hr, by omega, by omega⟩
  · rintro ⟨n, h1, h2, r, hr, h3⟩
    exact ⟨r, hr, by omega⟩

theorem sortedDisjoint_iff (l : List Range) :
    sortedDisjoint l = true ↔ l.Pairwise Gap ∧ ∀ r ∈ l, r.isEmpty = false := by
  constructor
  · intro h
    suffices hh : l.Pairwise Gap ∧ (∀ r ∈ l, r.isEmpty = false) ∧
        ∀ a t, l = a :: t → ∀ r ∈ t, a.hi + 1 < r.lo from ⟨hh.1, hh.2.1⟩
    induction l with
    | nil => simp
    | cons a t ih =>
      cases t with
      | nil =>
        simp only [sortedDisjoint, Bool.not_eq_eq_eq_not, Bool.not_true] at h
        simp [h]
      | cons b rest =>
        simp only [sortedDisjoint, Bool.and_eq_true, Bool.not_eq_eq_eq_not, Bool.not_true,
          decide_eq_true_eq] at h
        obtain ⟨⟨ha, hab⟩, hrest⟩ := h
        obtain ⟨ih1, ih2, ih3⟩ := ih hrest
        have hb := (isEmpty_false_iff b).mp (ih2 b List.mem_cons_self)
        have hall : ∀ r ∈ b :: rest, a.hi + 1 < r.lo := by
          intro r hr
          rcases List.mem_cons.mp hr with rfl | hr
          · exact hab
          · have := ih3 b rest rfl r hr; omega
        refine ⟨List.pairwise_cons.mpr ⟨hall, ih1⟩, ?_, ?_⟩
        · intro r hr
          rcases List.mem_cons.mp hr with rfl | hr
          · exact ha
          · exact ih2 r hr
        · intro a' t' heq r hr
          obtain ⟨rfl, rfl⟩ := List.cons.inj heq
          exact hall r hr
  · rintro ⟨hp, hne⟩
    induction l with
    | nil => rfl
    | cons a t ih =>
      rw [List.pairwise_cons] at hp
      have ha := hne a List.mem_cons_self
      cases t with
      | nil => simp [sortedDisjoint, ha]
      | cons b rest =>
        have := ih hp.2 (fun r hr => hne r (List.mem_cons_of_mem _ hr))
        have hab : a.hi + 1 < b.lo := hp.1 b List.mem_cons_self
        simp [sortedDisjoint, ha, hab, this]

/-! ### The overflow check of `adjacent_to` -/

theorem adjacentToChecked_eq (a b : Range) (ha : a.hi < usizeMax) (hb : b.hi < usizeMax) :
    a.adjacentToChecked b = some (a.adjacentTo b) := by
  simp only [adjacentToChecked, adjacentTo]
  split
  · rfl
  · rw [if_neg (by omega)]
    split
    · simp_all
    · rw [if_neg (by omega)]; simp_all

theorem mergeChecked_eq (a b : Range) (ha : a.hi < usizeMax) (hb : b.hi < usizeMax) :
    a.mergeChecked b = some (a.merge b) := by
  simp only [mergeChecked, adjacentToChecked_eq a b ha hb, merge]
  split <;> rfl

theorem mergeLoopChecked_eq (cur : Range) (rest : List Range) (hc : cur.hi < usizeMax)
    (hr : ∀ r ∈ rest, r.hi < usizeMax) :
    mergeLoopChecked cur rest = some (mergeLoop cur rest) := by
  induction rest generalizing cur with
  | nil => rfl
  | cons p rest ih =>
    have hp := hr p List.mem_cons_self
    have hr' : ∀ r ∈ rest, r.hi < usizeMax := fun r h => hr r (List.mem_cons_of_mem _ h)
    simp only [mergeLoopChecked, mergeLoop, mergeChecked_eq cur p hc hp]
    cases hm : cur.merge p with
    | none => simp only [ih p hp hr']
    | some m =>
      simp only
      apply ih m _ hr'
      rw [merge_eq_some_iff] at hm
      obtain ⟨_, rfl⟩ := hm
      simp only; omega

/-- No `hi + 1` overflows when every upper bound is below `usize::MAX`. -/
theorem normalizeChecked_eq (rs : List Range) (h : ∀ r ∈ rs, r.hi < usizeMax) :
    normalizeRangesChecked rs = some (normalizeRanges rs) := by
  have h' : ∀ r ∈ sortRanges rs, r.hi < usizeMax := fun r hr => h r ((mem_sortRanges r rs).mp hr)
  unfold normalizeRangesChecked normalizeRanges
  split
  · rfl
  · rename_i r rest heq
    rw [heq] at h'
    exact mergeLoopChecked_eq r rest (h' r List.mem_cons_self)
      (fun x hx => h' x (List.mem_cons_of_mem _ hx))

/-! ### `FileLines` -/

variable {α : Type} [DecidableEq α]

theorem lookup_map_normalize (m : List (α × List Range)) (f : α) :
    lookup (m.map fun (p : α × List Range) => (p.1, normalizeRanges p.2)) f =
      (lookup m f).map normalizeRanges := by
  induction m with
  | nil => rfl
  | cons p rest ih =>
    obtain ⟨k, v⟩ := p
    simp only [List.map_cons, lookup]
    split
    · rfl
    · exact ih

/-- The ranges the selection holds for `file` (after canonicalisation), if any. -/
def rangesOf (m : List (α × List Range)) (canon : α → Option α) (file : α) : List Range :=
  match canon file with
  | none => []
  | some f' => (lookup m f').getD []

theorem fileRangeMatches_map (m : List (α × List Range)) (canon : α → Option α) (file : α)
    (f : Range → Bool) :
    (FileLines.map m).fileRangeMatches canon file f = (rangesOf m canon file).any f := by
  simp only [FileLines.fileRangeMatches, rangesOf]
  cases canon file with
  | none => rfl
  | some f' =>
    simp only
    cases lookup m f' <;> rfl

theorem rangesOf_fromRanges (m : List (α × List Range)) (canon : α → Option α) (file : α) :
    rangesOf (m.map fun (p : α × List Range) => (p.1, normalizeRanges p.2)) canon file =
      normalizeRanges (rangesOf m canon file) := by
  simp only [rangesOf]
  split
  · rfl
  · rw [lookup_map_normalize]
    cases lookup m _ <;> rfl

theorem fromRanges_containsLine (m : List (α × List Range)) (canon : α → Option α) (file : α)
    (n : Nat) :
    (FileLines.fromRanges m).containsLine canon file n = true ↔
      ∃ r ∈ rangesOf m canon file, r.hasLine n = true := by
  unfold FileLines.fromRanges RF.FileLines.FileLines.containsLine
  rw [fileRangeMatches_map, rangesOf_fromRanges]
  exact normalize_same_lines _ n

theorem map_containsLine (m : List (α × List Range)) (canon : α → Option α) (file : α)
    (n : Nat) :
    (FileLines.map m).containsLine canon file n = containsLine (rangesOf m canon file) n := by
  unfold RF.FileLines.FileLines.containsLine
  rw [fileRangeMatches_map]; rfl

theorem guard_iff (fl : FileLines α) (canon : α → Option α) (range : LineRange α) :
    outOfFileLinesRange fl canon range = true ↔
      fl.isAll = false ∧
      ¬ ∃ n, range.lo ≤ n ∧ n ≤ range.hi ∧ fl.containsLine canon range.file n = true := by
  cases fl with
  | all => simp [outOfFileLinesRange, FileLines.isAll]
  | map m =>
    simp only [outOfFileLinesRange, FileLines.isAll, Bool.not_false, Bool.true_and,
      Bool.not_eq_true', true_and, FileLines.intersects, map_containsLine,
      fileRangeMatches_map]
    rw [← Bool.not_eq_true]
    apply not_congr
    exact intersectsRange_iff _ range.lo range.hi

theorem guard_of_no_ranges (m : List (α × List Range)) (canon : α → Option α)
    (range : LineRange α) (h : rangesOf m canon range.file = []) :
    outOfFileLinesRange (.map m) canon range = true := by
  simp [outOfFileLinesRange, FileLines.isAll, FileLines.intersects, fileRangeMatches_map, h]

end RF.Lemmas.FileLines
