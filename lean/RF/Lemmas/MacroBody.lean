import RF.Model.MacroBody
import RF.Lemmas.Skip
import RF.Lemmas.CharClasses
/-! Lemmas about the re-indentation fold of `MacroBranch::rewrite` (`RF.Model.MacroBody`). -/
namespace RF.MacroBody
open RF.CharClasses

theorem reindentLines_length (ind : List Char) (ranges : List (Nat × Nat)) (c : Cfg) :
    ∀ (cls : List (Kind × List Char)) (i : Nat) (need : Bool),
      (reindentLines ind ranges c i need cls).length = cls.length
  | [], _, _ => rfl
  | (_, _) :: rest, i, need => by
    simp [reindentLines, reindentLines_length ind ranges c rest]

/-- A line inside a recorded range is emitted as it is. -/
theorem reindentLines_covered (ind : List Char) (ranges : List (Nat × Nat)) (c : Cfg) :
    ∀ (cls : List (Kind × List Char)) (i : Nat) (need : Bool) (k : Nat) (hk : k < cls.length),
      isLineNonFormatted ranges (i + k + 1) = true →
      (reindentLines ind ranges c i need cls)[k]? = some (cls[k].2)
  | [], _, _, k, hk, _ => by simp at hk
  | (kind, l) :: rest, i, need, 0, _, h => by
    simp only [Nat.add_zero] at h
    simp [reindentLines, h]
  | (kind, l) :: rest, i, need, k + 1, hk, h => by
    have hk' : k < rest.length := by simpa using hk
    have h' : isLineNonFormatted ranges (i + 1 + k + 1) = true := by
      have : i + 1 + k + 1 = i + (k + 1) + 1 := by omega
      rw [this]; exact h
    have := reindentLines_covered ind ranges c rest (i + 1) (indentNextLine c kind l) k hk' h'
    simpa [reindentLines] using this

/-- Every line is emitted either as it is or behind the indentation string. -/
theorem reindentLines_line (ind : List Char) (ranges : List (Nat × Nat)) (c : Cfg) :
    ∀ (cls : List (Kind × List Char)) (i : Nat) (need : Bool) (k : Nat) (hk : k < cls.length),
      (reindentLines ind ranges c i need cls)[k]? = some (cls[k].2) ∨
      (reindentLines ind ranges c i need cls)[k]? = some (ind ++ cls[k].2)
  | [], _, _, k, hk => by simp at hk
  | (kind, l) :: rest, i, need, 0, _ => by
    simp only [reindentLines]
    split <;> simp
  | (kind, l) :: rest, i, need, k + 1, hk => by
    have hk' : k < rest.length := by simpa using hk
    have := reindentLines_line ind ranges c rest (i + 1) (indentNextLine c kind l) k hk'
    simpa [reindentLines] using this

/-- When no line ends inside a string literal (more precisely: `indent_next_line` is true after
every line), `need_indent` is true all along, and a non-blank line outside every range gets the
indentation string in front. -/
theorem reindentLines_uncovered (ind : List Char) (ranges : List (Nat × Nat)) (c : Cfg) :
    ∀ (cls : List (Kind × List Char)) (i : Nat) (k : Nat) (hk : k < cls.length),
      (∀ kl ∈ cls, indentNextLine c kl.1 kl.2 = true) →
      isLineNonFormatted ranges (i + k + 1) = false → isEmptyLine (cls[k].2) = false →
      (reindentLines ind ranges c i true cls)[k]? = some (ind ++ cls[k].2)
  | [], _, k, hk, _, _, _ => by simp at hk
  | (kind, l) :: rest, i, 0, _, _, h, he => by
    simp only [Nat.add_zero] at h
    simp only [List.getElem_cons_zero] at he
    simp [reindentLines, h, he]
  | (kind, l) :: rest, i, k + 1, hk, hall, h, he => by
    have hk' : k < rest.length := by simpa using hk
    have h' : isLineNonFormatted ranges (i + 1 + k + 1) = false := by
      have : i + 1 + k + 1 = i + (k + 1) + 1 := by omega
      rw [this]; exact h
    have hn : indentNextLine c kind l = true := hall (kind, l) (by simp)
    have hall' : ∀ kl ∈ rest, indentNextLine c kl.1 kl.2 = true :=
      fun kl hm => hall kl (by simp [hm])
    have he' : isEmptyLine (rest[k].2) = false := by simpa using he
    have := reindentLines_uncovered ind ranges c rest (i + 1) k hk' hall' h' he'
    simpa [reindentLines, hn] using this

theorem isLineNonFormatted_of_mem {ranges : List (Nat × Nat)} {a b n : Nat}
    (hm : (a, b) ∈ ranges) (ha : a ≤ n) (hb : n ≤ b) : isLineNonFormatted ranges n = true := by
  simp only [isLineNonFormatted, List.any_eq_true]
  exact ⟨(a, b), hm, by simp [ha, hb]⟩

theorem joinLines_append (a b : List (List Char)) : joinLines (a ++ b) = joinLines a ++ joinLines b := by
  induction a with
  | nil => rfl
  | cons l r ih => simp [joinLines, ih]

/-- The block of lines `a..b` (1-based, inclusive) of a recorded range comes out as it went in. -/
theorem reindentLines_block (ind : List Char) (ranges : List (Nat × Nat)) (c : Cfg)
    (cls : List (Kind × List Char)) (need : Bool) {a b : Nat} (hm : (a, b) ∈ ranges)
    (ha : 1 ≤ a) :
    ((reindentLines ind ranges c 0 need cls).drop (a - 1)).take (b + 1 - a) =
      ((cls.map (·.2)).drop (a - 1)).take (b + 1 - a) := by
  apply List.ext_getElem?
  intro k
  simp only [List.getElem?_take, List.getElem?_drop]
  by_cases hk : k < b + 1 - a
  · simp only [hk, if_true]
    by_cases hlen : a - 1 + k < cls.length
    · have hcov : isLineNonFormatted ranges (0 + (a - 1 + k) + 1) = true :=
        isLineNonFormatted_of_mem hm (by omega) (by omega)
      rw [reindentLines_covered ind ranges c cls 0 need (a - 1 + k) hlen hcov]
      simp [hlen]
    · have h1 : (reindentLines ind ranges c 0 need cls).length ≤ a - 1 + k := by
        rw [reindentLines_length]; omega
      have h2 : (cls.map (·.2)).length ≤ a - 1 + k := by simp; omega
      rw [List.getElem?_eq_none h1, List.getElem?_eq_none h2]
  · simp [hk]

/-- Splitting a list of lines around a block. -/
theorem split_block {α} (l : List α) (n m : Nat) :
    l = l.take n ++ ((l.drop n).take m) ++ (l.drop n).drop m := by
  rw [List.append_assoc, List.take_append_drop, List.take_append_drop]

/-! ## The lines of a text that hold a given piece of it -/
open RF.Skip

theorem splitNl_length (s : List Char) : (splitNl s).length = countNl s + 1 := by
  induction s with
  | nil => rfl
  | cons c r ih =>
    simp only [splitNl, countNl]
    split
    · simp [ih]; omega
    · have := splitNl_ne_nil r
      match hr : splitNl r, this with
      | l :: ls, _ => rw [hr] at ih; simp at ih ⊢; omega

theorem splitNl_snoc (a : List Char) : ∃ A la, splitNl a = A ++ [la] := by
  have h := splitNl_ne_nil a
  exact ⟨(splitNl a).dropLast, (splitNl a).getLast h, (List.dropLast_concat_getLast h).symm⟩

theorem splitNl_cons (b : List Char) : ∃ hb B, splitNl b = hb :: B := by
  have h := splitNl_ne_nil b
  match hb : splitNl b, h with
  | x :: B, _ => exact ⟨x, B, rfl⟩

/-- Lines of a concatenation: the last line of `a` and the first line of `b` are one line. -/
theorem splitNl_append : ∀ (a b : List Char) (A : List (List Char)) (la hb : List Char)
    (B : List (List Char)), splitNl a = A ++ [la] → splitNl b = hb :: B →
    splitNl (a ++ b) = A ++ [la ++ hb] ++ B
  | [], b, A, la, hb, B, ha, hb' => by
    simp only [splitNl] at ha
    have : A = [] ∧ la = [] := by
      cases A with
      | nil => simp at ha; exact ⟨rfl, ha⟩
      | cons x xs => cases xs <;> simp at ha
    obtain ⟨rfl, rfl⟩ := this
    simp [hb']
  | c :: r, b, A, la, hb, B, ha, hb' => by
    obtain ⟨A', la', hr⟩ := splitNl_snoc r
    have ih := splitNl_append r b A' la' hb B hr hb'
    simp only [List.cons_append, splitNl] at ha ⊢
    by_cases hc : c = '\n'
    · simp only [hc, if_true] at ha ⊢
      rw [hr] at ha
      have hA : A ++ [la] = ([] :: A') ++ [la'] := by simpa using ha.symm
      obtain ⟨rfl, h2⟩ := List.append_inj' hA rfl
      have : la = la' := by simpa using h2
      subst this
      rw [ih]; simp
    · simp only [hc, if_false] at ha ⊢
      rw [hr] at ha
      rw [ih]
      cases A' with
      | nil =>
        simp only [List.nil_append] at ha ⊢
        have hA : A ++ [la] = [] ++ [c :: la'] := by simpa using ha.symm
        obtain ⟨rfl, h2⟩ := List.append_inj' hA rfl
        have : la = c :: la' := by simpa using h2
        subst this
        simp
      | cons x xs =>
        simp only [List.cons_append] at ha ⊢
        have hA : A ++ [la] = ((c :: x) :: xs) ++ [la'] := by simpa using ha.symm
        obtain ⟨rfl, h2⟩ := List.append_inj' hA rfl
        have : la = la' := by simpa using h2
        subst this
        simp

theorem joinNl_cons_ne_nil (l : List Char) {ls : List (List Char)} (h : ls ≠ []) :
    joinNl (l :: ls) = l ++ '\n' :: joinNl ls := by
  cases ls with
  | nil => exact absurd rfl h
  | cons x xs => rfl

theorem joinNl_snoc_append : ∀ (S : List (List Char)) (l q : List Char),
    joinNl (S ++ [l ++ q]) = joinNl (S ++ [l]) ++ q
  | [], l, q => by simp [joinNl]
  | x :: S, l, q => by
    have h1 : S ++ [l ++ q] ≠ [] := by simp
    have h2 : S ++ [l] ≠ [] := by simp
    rw [List.cons_append, List.cons_append, joinNl_cons_ne_nil x h1, joinNl_cons_ne_nil x h2,
      joinNl_snoc_append S l q]
    simp

/-- The lines `countNl pre + 1 ..= countNl pre + countNl s + 1` (1-based) of `pre ++ s ++ post`
are, joined by line breaks, `s` between the rest of the line it starts on and the rest of the line
it ends on. -/
theorem splitNl_block (pre s post : List Char) :
    ∃ (A M B : List (List Char)) (p q : List Char),
      splitNl (pre ++ s ++ post) = A ++ M ++ B ∧ A.length = countNl pre ∧
      M.length = countNl s + 1 ∧ joinNl M = p ++ s ++ q ∧ '\n' ∉ p ∧ '\n' ∉ q := by
  obtain ⟨P, lp, hP⟩ := splitNl_snoc pre
  obtain ⟨hq, Q, hQ⟩ := splitNl_cons post
  obtain ⟨S, ls, hS⟩ := splitNl_snoc s
  have hlenP : P.length = countNl pre := by
    have := splitNl_length pre; rw [hP] at this; simpa using this
  have hlenS : S.length = countNl s := by
    have := splitNl_length s; rw [hS] at this; simpa using this
  have hlp : '\n' ∉ lp := splitNl_no_nl pre lp (by rw [hP]; simp)
  have hhq : '\n' ∉ hq := splitNl_no_nl post hq (by rw [hQ]; simp)
  have hsq : splitNl (s ++ post) = S ++ [ls ++ hq] ++ Q := splitNl_append s post S ls hq Q hS hQ
  have hjoin : joinNl (S ++ [ls]) = s := by rw [← hS]; exact joinNl_splitNl s
  cases S with
  | nil =>
    have h1 : splitNl (s ++ post) = (ls ++ hq) :: Q := by simpa using hsq
    have h2 := splitNl_append pre (s ++ post) P lp (ls ++ hq) Q hP h1
    refine ⟨P, [lp ++ (ls ++ hq)], Q, lp, hq, ?_, hlenP, ?_, ?_, hlp, hhq⟩
    · rw [List.append_assoc pre s post]; exact h2
    · simp at hlenS ⊢; omega
    · have : ls = s := by simpa [joinNl] using hjoin
      simp [joinNl, this]
  | cons h S' =>
    have h1 : splitNl (s ++ post) = h :: (S' ++ [ls ++ hq] ++ Q) := by simpa using hsq
    have h2 := splitNl_append pre (s ++ post) P lp h (S' ++ [ls ++ hq] ++ Q) hP h1
    refine ⟨P, (lp ++ h) :: (S' ++ [ls ++ hq]), Q, lp, hq, ?_, hlenP, ?_, ?_, hlp, hhq⟩
    · rw [List.append_assoc pre s post, h2]; simp
    · simp at hlenS ⊢; omega
    · have hne : S' ++ [ls ++ hq] ≠ [] := by simp
      have hne' : S' ++ [ls] ≠ [] := by simp
      rw [joinNl_cons_ne_nil _ hne, joinNl_snoc_append]
      rw [List.cons_append, joinNl_cons_ne_nil _ hne'] at hjoin
      rw [← hjoin]; simp

theorem joinLines_eq_joinNl : ∀ (M : List (List Char)), M ≠ [] → joinLines M = joinNl M ++ ['\n']
  | [l], _ => by simp [joinLines, joinNl]
  | l :: x :: xs, _ => by
    have := joinLines_eq_joinNl (x :: xs) (by simp)
    simp only [joinLines] at this ⊢
    rw [this]; simp [joinNl]

/-! ## The lines `LineClasses` yields are the lines of the text -/

theorem popCr_of_no_cr {l : List Char} (h : '\r' ∉ l) : popCr l = l := by
  unfold popCr
  split
  · rename_i hl
    exact absurd (List.mem_of_getLast? hl) h
  · rfl

theorem linesGo_cons_nl (start : Kind) (acc : List Char) (last k : Kind) (kc : Kind × Char)
    (rest' : List (Kind × Char)) :
    linesGo start acc last ((k, '\n') :: kc :: rest') =
      (lineEndKind start k, popCr acc) :: linesGo kc.1 [] kc.1 (kc :: rest') := by
  obtain ⟨k', c'⟩ := kc
  rw [linesGo.eq_def]
  simp only [if_true]

theorem linesGo_cons_ne (start : Kind) (acc : List Char) (last k : Kind) {c : Char}
    (rest : List (Kind × Char)) (h : c ≠ '\n') :
    linesGo start acc last ((k, c) :: rest) = linesGo start (acc ++ [c]) k rest := by
  rw [linesGo.eq_def]
  simp only [h, if_false]

theorem splitNl_cons_nl (r : List Char) : splitNl ('\n' :: r) = [] :: splitNl r := by
  rw [splitNl]; simp only [if_true]

theorem splitNl_cons_ne {c : Char} (r : List Char) (h : c ≠ '\n') (x : List Char)
    (xs : List (List Char)) (hr : splitNl r = x :: xs) : splitNl (c :: r) = (c :: x) :: xs := by
  rw [splitNl]; simp only [h, if_false, hr]

theorem linesGo_lines : ∀ (T : List (Kind × Char)) (start : Kind) (acc : List Char) (last : Kind),
    '\r' ∉ acc → '\r' ∉ T.map (·.2) → (T.map (·.2)).getLast? ≠ some '\n' →
    ∃ h t, splitNl (T.map (·.2)) = h :: t ∧
      (linesGo start acc last T).map (·.2) = (acc ++ h) :: t
  | [], start, acc, last, hacc, _, _ => by
    refine ⟨[], [], rfl, ?_⟩
    simp [linesGo, popCr_of_no_cr hacc]
  | (k, c) :: rest, start, acc, last, hacc, hT, hlast => by
    have hrest : '\r' ∉ rest.map (·.2) := fun hm => hT (by simp [hm])
    have hc : c ≠ '\r' := fun h => hT (by simp [h])
    by_cases hnl : c = '\n'
    · subst hnl
      cases rest with
      | nil => simp at hlast
      | cons kc rest' =>
        have hlast' : ((kc :: rest').map (·.2)).getLast? ≠ some '\n' := by
          simpa [List.getLast?_cons_cons] using hlast
        obtain ⟨h, t, hs, ih⟩ := linesGo_lines (kc :: rest') kc.1 [] kc.1 (by simp) hrest hlast'
        refine ⟨[], h :: t, ?_, ?_⟩
        · rw [List.map_cons, splitNl_cons_nl, hs]
        · rw [linesGo_cons_nl, List.map_cons, ih]
          simp [popCr_of_no_cr hacc]
    · have hlast' : (rest.map (·.2)).getLast? ≠ some '\n' := by
        cases rest with
        | nil => simp
        | cons kc rest' => simpa [List.getLast?_cons_cons] using hlast
      have hacc' : '\r' ∉ acc ++ [c] := by
        simp only [List.mem_append, List.mem_singleton, not_or]
        exact ⟨hacc, fun h => hc h.symm⟩
      obtain ⟨h, t, hs, ih⟩ := linesGo_lines rest start (acc ++ [c]) k hacc' hrest hlast'
      refine ⟨c :: h, t, ?_, ?_⟩
      · rw [List.map_cons]; exact splitNl_cons_ne _ hnl h t hs
      · rw [linesGo_cons_ne _ _ _ _ _ hnl, ih]; simp

/-- For a non-empty text without carriage returns that does not end in a line break, the lines of
`LineClasses` are the pieces between its line breaks. -/
theorem lineClasses_lines {t : List Char} (hne : t ≠ []) (hcr : '\r' ∉ t)
    (hlast : t.getLast? ≠ some '\n') : (lineClasses t).map (·.2) = splitNl t := by
  unfold lineClasses lineClassesOf
  have hmap := RF.Lemmas.CharClasses.classes_map_snd t
  match hcl : classes t with
  | [] => rw [hcl] at hmap; exact absurd hmap.symm hne
  | (k, c) :: rest =>
    obtain ⟨h, tl, hs, hl⟩ := linesGo_lines ((k, c) :: rest) k [] k (by simp)
      (by rw [← hcl, hmap]; exact hcr) (by rw [← hcl, hmap]; exact hlast)
    rw [← hcl, hmap] at hs
    simp only [hl, hs, List.nil_append]

theorem trimEnd_getLast (s : List Char) :
    ∀ c, (RF.Skip.trimEnd s).getLast? = some c → RF.Skip.isWhitespace c = false := by
  intro c h
  unfold RF.Skip.trimEnd at h
  rw [List.getLast?_reverse] at h
  have := List.head?_dropWhile_not (p := RF.Skip.isWhitespace) (l := s.reverse)
  rw [h] at this
  simpa using this

end RF.MacroBody
