#!/bin/sh
# Builds the frozen rustfmt binary of the audited commit (C09 compares the working tree against it).
# The build tree lives outside /repo and /verif and is removed afterwards.
set -e
cd "$(dirname "$0")"
PINNED=$(cat frozen/PINNED_SHA)
if [ -x frozen/rustfmt-pinned ] && [ "$(cat frozen/BUILT_FROM 2>/dev/null)" = "$PINNED" ]; then
  echo "frozen binary already built from $PINNED"; exit 0
fi
D=$(mktemp -d /tmp/rf-frozen-XXXXXX)
trap 'rm -rf "$D"' EXIT
git -C /repo archive "$PINNED" | tar -x -C "$D"
(cd "$D" && CARGO_NET_OFFLINE=true cargo build --offline --bin rustfmt 2>&1 | tail -3)
cp "$D/target/debug/rustfmt" frozen/rustfmt-pinned
strip frozen/rustfmt-pinned 2>/dev/null || true
echo "$PINNED" > frozen/BUILT_FROM
sha256sum frozen/rustfmt-pinned | cut -d' ' -f1 > frozen/rustfmt-pinned.sha256
echo "frozen binary built: $(cat frozen/rustfmt-pinned.sha256)"
