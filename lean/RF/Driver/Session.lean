import RF.Model.Proto
import RF.Model.Session
import RF.Model.Project
import RF.Model.ParseErrors
/-!
Line-protocol operations for the session / project control-flow models (C05, C15; the exit formulas are
also C06's).

  sess.exit <check> <flags>                 -> 0|1        exit status of `format` (main.rs:387-395)
  sess.exitstdin <flags>                    -> 0|1        exit status of `format_string` (main.rs:323-328)
  sess.add <flags> <flags>                  -> flags      `ReportedErrors::add`
  sess.noerrors <flags>                     -> 0|1        `Session::has_no_errors`
  sess.fold <check> <items>                 -> flags:exit:count
        the `for file in files` loop of `format` fed with per-file results; `count` = number of paths
        processed before the loop ended or was aborted
  proj.run <phases> <steps> <emitter> <cfg> <crate>        -> result     `format_project` (`runProject`)
  proj.input <steps> <emitter> <vcfg> <crate>              -> result     `format_input_inner` (`runInput`,
        generated step list, generated phases; `<steps>` as in proj.run)
  proj.cli <check> <usePath> <emitter> <vcfg> <roots>      -> exit:flags:entries    `format` over several
        roots with the generated lists (`runCli` with `projectF`); `<vcfg>` is the global configuration
  proj.faulty <cfg> <crate>                 -> 0|1        hypothesis `faultyE` of `fault_implies_no_write` (a reachable file with a fault)
  proj.resolve <cfg> <crate>                -> err | list of ids    `visit_crate`: keys of the file map in map order
  proj.safe <phases>                        -> 0|1        `phasesSafe`
  proj.filesafe <steps>                     -> 0|1        `fileStepsSafe`

Encodings (all blank-free)
  flags     seven characters `0`/`1`: operational parsing formatting macro_failure check diff unformatted
  check, usePath   `0` | `1`
  items     `_` or `,`-joined; each item is a flag vector (`Ok(report)` with these flags), `e` (`Err(_)`
            from `Session::format`), `m` (path missing or a directory), `x` (`load_config` for the path failed)
  phases    `gen` (the generated `RF.Gen.Phases.formatProject`) or `,`-joined names out of
            newParseSess ignoreRootCheck parseCrate resolveModules filterFiles formatLoop
  steps     `gen` (`RF.Gen.Phases.formatFile`) or `,`-joined names out of
            visit appendNewline formatLines applyNewlineStyle emit
  emitter   files | filesWithBackup | stdout | json | modifiedLines | checkstyle | diff
            (the kind `create_emitter` picked when the session was created)
  cfg       two characters `0`/`1`: skip_children, ignore-list-compiles
  vcfg      four characters `0`/`1`: version_meets_requirement, disable_all_formatting, skip_children, ignore-list-compiles
  crate     file records joined by `;`, the first one is the root.  A record is
              id:parse:bits:lineflags:orig:visited:children
            id        decimal; stands for the path, numeric order must be the `FileName` order
            parse     what the rustc parser does on the file; the status `File.parse` that `format_project` sees is
                      COMPUTED from it by the error bookkeeping (`RF.ParseErrors.annotateRoot` with the generated
                      tables), in the session state left by the files parsed before it:
                        ok  no diagnostic
                        r   recoverable syntax error: one error located in the file, the parser returns `Ok`
                        s   one *stashed* error located in the file (`static X = 1;`), the parser returns `Ok`
                        w   one warning located in the file, `Ok`
                        u   unrecoverable: one error located in the file, then `Err(e)` with `e` located in the file
                        x   unclosed delimiter: errors located in the file; a module's call unwinds
                            (`unwrap_or_emit_fatal`), the root's `ParserBuilder::build` returns `Ok(Err(_))`
                        f   lexer-fatal error: one `Fatal` diagnostic located in the file, the call unwinds
                        z   the file cannot be read: one `Fatal` diagnostic without a span, the call unwinds
                      and, kept for older requests, statuses that do not depend on the ignore list (their
                      diagnostics are located outside every local file): lex | syntax (an error, `Ok`),
                      unclosed (an error, unwinds), panic (a fatal diagnostic, unwinds)
            bits      five characters `0`/`1`: inner `#![rustfmt::skip]`, on the ignore list, generated-file
                      marker (and `format_generated_files=false`), macro rewrite failure, emitter I/O error
            lineflags flags that `format_lines` → `track_errors` sets for this file
            orig      bytes on disk, hex (`-` empty)
            visited   the visitor's buffer for the file, hex: the formatted text without its final newline
                      (the driver's text passes are: `format_lines` = identity, `apply_newline_style` = identity)
            children  `_` or `,`-joined references, one per `mod m;` item in source order:
                      `f<id>` resolved to the record with that id, `s` not visited (`#[rustfmt::skip] mod m;`
                      or already parsed), `n` no file, `m` both `m.rs` and `m/mod.rs`,
                      `c<id>+<id>…/<d>` a `mod m;` with nested paths (`#[cfg_attr(pred, path = "..")]`): the
                      candidates that exist, in attribute order, then the default look-up `<d>` = `f<id>` | `n` | `m`
                      (what `find_external_module` does with each parse result is computed from the generated arms)
            Records are expanded into a tree from the root; a record referenced twice is visited twice; a
            reference cycle or an unknown id is a protocol error (`?`).
  roots     joined by `|`; each is `m` (missing), `x` (local configuration fails to load) or `<vcfg>@<crate>`
  result    `<outcome>:<log>`; outcome = `ok.<flags>` | `err` | `stuck`; log = `_` or entries joined by `;`,
            each `id,op,text` with op = `w<P>` write, `r<P><P>` rename, `d<P>` remove, `c<P><P>` copy,
            `<P>` = `F` the file, `T` its `.tmp`, `B` its `.bk`; text = hex of the text handed to the emitter
  entries   `_` or joined by `|`: `m`, or `<report>@<log>` with report = `ok.<flags>` | `err` and
            log = `-` when the formatter was not run (version mismatch, disable_all_formatting)
-/
namespace RF.Driver.Session
open RF.Proto RF.Session RF.Project RF.Gen.Phases RF.Gen.Emitters
open RF.ParseErrors (FileParse Diag Level Loc Raw genParse genMods annotateRoot faultyE)

def bit (b : Bool) : Char := if b then '1' else '0'

def decBit (c : Char) : Option Bool :=
  if c == '0' then some false else if c == '1' then some true else none

def decBits (n : Nat) (s : String) : Option (List Bool) := do
  let l ← s.toList.mapM decBit
  if l.length == n then some l else none

def encFlags (f : Flags) : String := String.ofList (f.toList.map bit)

def decFlags (s : String) : Option Flags := do
  let l ← decBits 7 s
  Flags.ofList l

def decBool (s : String) : Option Bool :=
  match s.toList with
  | [c] => decBit c
  | _ => none

def decPhase : String → Option Phase
  | "newParseSess" => some .newParseSess
  | "ignoreRootCheck" => some .ignoreRootCheck
  | "parseCrate" => some .parseCrate
  | "resolveModules" => some .resolveModules
  | "filterFiles" => some .filterFiles
  | "formatLoop" => some .formatLoop
  | _ => none

def decPhases (s : String) : Option (List Phase) :=
  if s == "gen" then some formatProject
  else if s == "_" then some []
  else (s.splitOn ",").mapM decPhase

def decStep : String → Option FileStep
  | "visit" => some .visit
  | "appendNewline" => some .appendNewline
  | "formatLines" => some .formatLines
  | "applyNewlineStyle" => some .applyNewlineStyle
  | "emit" => some .emit
  | _ => none

def decSteps (s : String) : Option (List FileStep) :=
  if s == "gen" then some formatFile
  else if s == "_" then some []
  else (s.splitOn ",").mapM decStep

def decEmitter : String → Option EmitterKind
  | "files" => some .files
  | "filesWithBackup" => some .filesWithBackup
  | "stdout" => some .stdout
  | "json" => some .json
  | "modifiedLines" => some .modifiedLines
  | "checkstyle" => some .checkstyle
  | "diff" => some .diff
  | _ => none

def decCfg (s : String) : Option Cfg := do
  match ← decBits 2 s with
  | [a, b] => some { skipChildren := a, ignoreGlobOk := b }
  | _ => none

def decVCfg (s : String) : Option (Config Cfg) := do
  match ← decBits 4 s with
  | [v, d, a, b] => some ⟨v, d, { skipChildren := a, ignoreGlobOk := b }⟩
  | _ => none

/-- what the parser does on a file of the given class (`own` = where diagnostics of the file itself lie) -/
def decParse (w : String) (ignored root : Bool) : Option FileParse :=
  let own : Loc := .localFile ignored
  let err (l : Loc) : Diag := { level := .error, loc := l }
  match w with
  | "ok" => some {}
  | "r" => some { diags := [err own] }
  | "s" => some { diags := [{ level := .error, loc := own, stashed := true }] }
  | "w" => some { diags := [{ level := .warning, loc := own }] }
  | "u" => some { diags := [err own], raw := .err (err own) }
  | "x" =>
    if root then some { diags := [err own], raw := .err (err own), stage := .build }
    else some { diags := [err own], raw := .unwound }
  | "f" => some { diags := [{ level := .fatal, loc := own }], raw := .unwound, stage := .build }
  | "z" => some { diags := [{ level := .fatal, loc := .noSpan }], raw := .unwound, stage := .build }
  | "lex" => some { diags := [err .notLocal] }
  | "syntax" => some { diags := [err .notLocal] }
  | "unclosed" => some { diags := [err .notLocal], raw := .unwound, stage := .build }
  | "panic" => some { diags := [{ level := .fatal, loc := .notLocal }], raw := .unwound, stage := .build }
  | _ => none

inductive Child where
  | found (id : Nat) | skipped | notFound | multiple
  | cfgAttr (alts : List Nat) (dk : DfltKind) (dflt : Nat)

def decChild (s : String) : Option Child :=
  match s.toList with
  | ['s'] => some .skipped
  | ['n'] => some .notFound
  | ['m'] => some .multiple
  | 'f' :: r => (String.ofList r).toNat?.map .found
  | 'c' :: r =>
    match (String.ofList r).splitOn "/" with
    | [alts, d] => do
      let alts ← if alts == "" then some [] else (alts.splitOn "+").mapM (·.toNat?)
      match d.toList with
      | ['n'] => some (.cfgAttr alts .notFound 0)
      | ['m'] => some (.cfgAttr alts .multiple 0)
      | 'f' :: i => (String.ofList i).toNat?.map (.cfgAttr alts .found)
      | _ => none
    | _ => none
  | _ => none

structure Rec where
  file : File
  children : List Child
  word : String := "ok"     -- the parse class, turned into a `FileParse` once the root is known

def decRec (s : String) : Option Rec :=
  match s.splitOn ":" with
  | [id, parse, bits, lf, orig, visited, ch] => do
    let id ← id.toNat?
    let _ ← decParse parse false false
    let lf ← decFlags lf
    let orig ← decChars orig
    let visited ← decChars visited
    let ch ← if ch == "_" then some [] else (ch.splitOn ",").mapM decChild
    match ← decBits 5 bits with
    | [a, b, c, d, e] =>
      some ⟨{ path := id, parse := .ok, orig, visited, skipAttr := a, ignored := b, generated := c,
              lineFlags := lf, macroFailure := d, ioErr := e }, ch, parse⟩
    | _ => none
  | _ => none

def buildAlts (rec : Nat → Option Tree) : List Nat → Option Alts
  | [] => some .nil
  | id :: r => do
    let t ← rec id
    let a ← buildAlts rec r
    pure (.cons .use t a)

/-- `parent`: the declaring file (what the file map holds for a path that is registered with the declaring
item's module has the parent's text) -/
def buildMods (rec : Nat → Option Tree) (parent : File) : List Child → Option Mods
  | [] => some .nil
  | .found id :: r => do
    let t ← rec id
    let m ← buildMods rec parent r
    pure (.found t m)
  | .skipped :: r => (buildMods rec parent r).map .skipped
  | .notFound :: r => (buildMods rec parent r).map .notFound
  | .multiple :: r => (buildMods rec parent r).map .multiple
  | .cfgAttr alts dk d :: r => do
    let a ← buildAlts rec alts
    let dummy : Tree := .node { path := 0, parse := .ok, orig := [], visited := [] } .nil
    let dt ← if dk == .found then rec d else some dummy
    let m ← buildMods rec parent r
    pure (.cfgAttr a dk .file dt { dt.file with visited := parent.visited } m)

def buildTree (recs : List Rec) : Nat → Nat → Option Tree
  | 0, _ => none
  | fuel + 1, id => do
    let r ← recs.find? (·.file.path == id)
    let m ← buildMods (buildTree recs fuel) r.file r.children
    pure (.node r.file m)

/-- the crate as written (every `File.parse` still `.ok`) and, per path, what the parser does on the file -/
def decCrateRaw (s : String) : Option (Tree × (Nat → FileParse)) := do
  let recs ← (s.splitOn ";").mapM decRec
  match recs with
  | [] => none
  | r :: _ =>
    let t ← buildTree recs (recs.length + 1) r.file.path
    let table := recs.map fun x =>
      (x.file.path, (decParse x.word x.file.ignored (x.file.path == r.file.path)).getD {})
    pure (t, fun id => ((table.find? (·.1 == id)).map (·.2)).getD {})

/-- the crate as `format_project` sees it under `cfg`: statuses computed by the generated bookkeeping -/
def decCrate (cfg : Cfg) (s : String) : Option Tree := do
  let (t, pi) ← decCrateRaw s
  pure (annotateRoot genParse genMods pi cfg t)

def encP : P → String
  | .file => "F" | .tmp => "T" | .bk => "B"

def encOp : FsOp → String
  | .write d => "w" ++ encP d
  | .rename a b => "r" ++ encP a ++ encP b
  | .remove a => "d" ++ encP a
  | .copy a b => "c" ++ encP a ++ encP b

def encLog (l : List Effect) : String :=
  if l.isEmpty then "_"
  else String.intercalate ";" (l.map fun e => s!"{e.path},{encOp e.op},{encChars e.text}")

def encOutcome : Outcome → String
  | .ok fl => "ok." ++ encFlags fl
  | .err => "err"
  | .stuck => "stuck"

def encResult (r : Result) : String := encOutcome r.outcome ++ ":" ++ encLog r.log

/-- the driver's text passes: identity (see `visited` above) -/
def idOps : FileOps := ⟨fun t => t, fun t _ => t⟩

/-- per-file results as inputs of the generic loop -/
inductive Item where
  | ok (f : Flags) | err | missing | badCfg

def decItem (s : String) : Option Item :=
  if s == "e" then some .err
  else if s == "m" then some .missing
  else if s == "x" then some .badCfg
  else (decFlags s).map .ok

def itemF : Config Unit → Option Flags → Unit × Option Flags := fun _ r => ((), r)

def itemArg : Item → Arg Unit (Option Flags)
  | .ok f => .file (some ⟨true, false, ()⟩) (some f)
  | .err => .file (some ⟨true, false, ()⟩) none
  | .missing => .missing
  | .badCfg => .file none none

def decRoot (s : String) : Option (Arg Cfg Tree) :=
  if s == "m" then some .missing
  else if s == "x" then some (.file none (.node { path := 0, parse := .ok, orig := [], visited := [] } .nil))
  else
    match s.splitOn "@" with
    | [c, t] => do
      let c ← decVCfg c
      let t ← decCrate c.opts t
      pure (.file (some c) t)
    | _ => none

def encEntry : Entry (List Effect) → String
  | .missing => "m"
  | .formatted o =>
    (match o.report with | some fl => "ok." ++ encFlags fl | none => "err") ++ "@" ++
    (match o.emitted with | some l => encLog l | none => "-")

def handle (op : String) (args : List String) : Option String :=
  match op, args with
  | "sess.exit", [c, f] => do
    let c ← decBool c
    let f ← decFlags f
    pure (toString (exitFormat c f))
  | "sess.exitstdin", [f] => do
    let f ← decFlags f
    pure (toString (exitStdin f))
  | "sess.add", [a, b] => do
    let a ← decFlags a
    let b ← decFlags b
    pure (encFlags (a.add b))
  | "sess.noerrors", [f] => do
    let f ← decFlags f
    pure (String.ofList [bit f.hasNoErrors])
  | "sess.fold", [c, items] => do
    let c ← decBool c
    let items ← if items == "_" then some [] else (items.splitOn ",").mapM decItem
    let r := runCli itemF ⟨true, false, ()⟩ false (items.map itemArg)
    pure s!"{encFlags r.sess.errors}:{r.exit c}:{r.entries.length}"
  | "proj.run", [ps, st, em, cfg, crate] => do
    let ps ← decPhases ps
    let st ← decSteps st
    let em ← decEmitter em
    let cfg ← decCfg cfg
    let t ← decCrate cfg crate
    pure (encResult (runProject ps st idOps em cfg t))
  | "proj.input", [st, em, c, crate] => do
    let st ← decSteps st
    let em ← decEmitter em
    let c ← decVCfg c
    let t ← decCrate c.opts crate
    pure (encResult (runInput formatInputInner formatProject st idOps em c t))
  | "proj.cli", [c, u, em, g, roots] => do
    let c ← decBool c
    let u ← decBool u
    let em ← decEmitter em
    let g ← decVCfg g
    let roots ← if roots == "_" then some [] else (roots.splitOn "|").mapM decRoot
    let r := runCli (projectF formatProject formatFile idOps em) g u roots
    let es := if r.entries.isEmpty then "_" else String.intercalate "|" (r.entries.map encEntry)
    pure s!"{r.exit c}:{encFlags r.sess.errors}:{es}"
  | "proj.faulty", [cfg, crate] => do
    let cfg ← decCfg cfg
    let (t, pi) ← decCrateRaw crate
    pure (String.ofList [bit (faultyE pi cfg t)])
  | "proj.resolve", [cfg, crate] => do
    let cfg ← decCfg cfg
    let t ← decCrate cfg crate
    match visitCrate (!cfg.skipChildren) t with
    | none => pure "err"
    | some fs => pure (if fs.isEmpty then "_" else String.intercalate "," (fs.map fun f => toString f.path))
  | "proj.safe", [ps] => do
    let ps ← decPhases ps
    pure (String.ofList [bit (phasesSafe ps)])
  | "proj.filesafe", [st] => do
    let st ← decSteps st
    pure (String.ofList [bit (fileStepsSafe st)])
  | _, _ => none

end RF.Driver.Session
