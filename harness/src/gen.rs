//! Generators shared by the whole-formatter searches: option sets, widths, token-preserving
//! re-layout and token-level mutation (lexing with rustc_lexer, independent of rustfmt's scanners).
use rustfmt_nightly::Config;

use crate::util::Rng;

pub const OPTION_TABLE: &[(&str, &[&str])] = &[
    ("hard_tabs", &["true"]),
    ("tab_spaces", &["1", "2", "3", "8"]),
    ("newline_style", &["Unix", "Windows"]),
    ("indent_style", &["Visual"]),
    ("use_small_heuristics", &["Off", "Max"]),
    ("wrap_comments", &["true"]),
    ("format_code_in_doc_comments", &["true"]),
    ("normalize_comments", &["true"]),
    ("normalize_doc_attributes", &["true"]),
    ("format_strings", &["true"]),
    ("format_macro_matchers", &["true"]),
    ("format_macro_bodies", &["false"]),
    ("hex_literal_case", &["Upper", "Lower"]),
    ("float_literal_trailing_zero", &["Always", "IfNoPostfix", "Never"]),
    ("empty_item_single_line", &["false"]),
    ("struct_lit_single_line", &["false"]),
    ("fn_single_line", &["true"]),
    ("where_single_line", &["true"]),
    ("imports_indent", &["Visual"]),
    ("imports_layout", &["Vertical", "Horizontal", "HorizontalVertical"]),
    ("imports_granularity", &["Crate", "Module", "Item", "One"]),
    ("group_imports", &["StdExternalCrate", "One"]),
    ("reorder_imports", &["false"]),
    ("reorder_modules", &["false"]),
    ("reorder_impl_items", &["true"]),
    ("type_punctuation_density", &["Compressed"]),
    ("space_before_colon", &["true"]),
    ("space_after_colon", &["false"]),
    ("spaces_around_ranges", &["true"]),
    ("binop_separator", &["Back"]),
    ("remove_nested_parens", &["false"]),
    ("combine_control_expr", &["false"]),
    ("short_array_element_width_threshold", &["0", "20"]),
    ("overflow_delimited_expr", &["true"]),
    ("struct_field_align_threshold", &["20"]),
    ("enum_discrim_align_threshold", &["20"]),
    ("match_arm_blocks", &["false"]),
    ("match_arm_leading_pipes", &["Always", "Preserve"]),
    ("match_arm_indent", &["false"]),
    ("force_multiline_blocks", &["true"]),
    ("fn_params_layout", &["Compressed", "Vertical"]),
    ("brace_style", &["AlwaysNextLine", "PreferSameLine"]),
    ("control_brace_style", &["AlwaysNextLine", "ClosingNextLine"]),
    ("trailing_semicolon", &["false"]),
    ("trailing_comma", &["Always", "Never"]),
    ("match_block_trailing_comma", &["true"]),
    ("blank_lines_upper_bound", &["0", "2", "3"]),
    ("blank_lines_lower_bound", &["1"]),
    ("inline_attribute_width", &["50"]),
    ("merge_derives", &["false"]),
    ("use_try_shorthand", &["true"]),
    ("use_field_init_shorthand", &["true"]),
    ("force_explicit_abi", &["false"]),
    ("condense_wildcard_suffixes", &["true"]),
    ("edition", &["2018", "2021", "2024"]),
    ("style_edition", &["2018", "2021", "2024"]),
];

pub const WIDTHS_QUICK: &[usize] = &[20, 23, 37, 50, 60, 80, 100, 137, 200];

/// every (key, value) of the table that the current tree accepts
pub fn option_singles() -> Vec<(String, String)> {
    let mut v = vec![];
    for (k, vals) in OPTION_TABLE {
        for val in *vals {
            if Config::is_valid_key_val(k, val) {
                v.push((k.to_string(), val.to_string()));
            }
        }
    }
    v
}

/// a random option set of `n` distinct keys
pub fn random_option_set(rng: &mut Rng, n: usize) -> Vec<(String, String)> {
    let singles = option_singles();
    let mut res: Vec<(String, String)> = vec![];
    let mut guard = 0;
    while res.len() < n && guard < 100 {
        guard += 1;
        let (k, v) = rng.pick(&singles).clone();
        if !res.iter().any(|(k2, _)| *k2 == k) {
            res.push((k, v));
        }
    }
    res
}

/// merge: later entries override earlier ones with the same key
pub fn merge_cfg(base: &[(String, String)], extra: &[(String, String)]) -> Vec<(String, String)> {
    let mut res: Vec<(String, String)> = base.to_vec();
    for (k, v) in extra {
        if let Some(e) = res.iter_mut().find(|(k2, _)| k2 == k) {
            e.1 = v.clone();
        } else {
            res.push((k.clone(), v.clone()));
        }
    }
    res
}

pub fn cfg_get<'a>(cfg: &'a [(String, String)], key: &str) -> Option<&'a str> {
    cfg.iter().rev().find(|(k, _)| k == key).map(|(_, v)| v.as_str())
}

pub fn cfg_text(cfg: &[(String, String)]) -> String {
    cfg.iter().map(|(k, v)| format!("{}={}", k, v)).collect::<Vec<_>>().join(",")
}

// ------------------------------------------------------------------------------------------------
// lexing

#[derive(Clone, Debug, PartialEq, Eq)]
pub enum TokClass {
    Ws,
    LineComment { doc: bool },
    BlockComment { doc: bool, terminated: bool },
    Ident,
    RawIdent,
    Lifetime,
    Literal,
    Punct,
    Open,
    Close,
    Unknown,
}

#[derive(Clone, Debug)]
pub struct Tok {
    pub class: TokClass,
    pub text: String,
}

pub fn lex(src: &str) -> Vec<Tok> {
    use rustc_lexer::TokenKind as K;
    let mut res = vec![];
    let mut pos = 0usize;
    // a shebang line is not a token for rustc_lexer::tokenize; keep it as whitespace-like prefix
    if let Some(n) = rustc_lexer::strip_shebang(src) {
        res.push(Tok { class: TokClass::Unknown, text: src[..n].to_string() });
        pos = n;
    }
    for t in rustc_lexer::tokenize(&src[pos..]) {
        let len = t.len as usize;
        let text = src[pos..pos + len].to_string();
        pos += len;
        let class = match t.kind {
            K::Whitespace => TokClass::Ws,
            K::LineComment { doc_style } => TokClass::LineComment { doc: doc_style.is_some() },
            K::BlockComment { doc_style, terminated } => TokClass::BlockComment { doc: doc_style.is_some(), terminated },
            K::Ident | K::InvalidIdent => TokClass::Ident,
            K::RawIdent => TokClass::RawIdent,
            K::Lifetime { .. } | K::RawLifetime => TokClass::Lifetime,
            K::Literal { .. } => TokClass::Literal,
            K::OpenParen | K::OpenBrace | K::OpenBracket => TokClass::Open,
            K::CloseParen | K::CloseBrace | K::CloseBracket => TokClass::Close,
            K::Eof => continue,
            K::Unknown | K::UnknownPrefix | K::UnknownPrefixLifetime | K::GuardedStrPrefix => TokClass::Unknown,
            _ => TokClass::Punct,
        };
        res.push(Tok { class, text });
    }
    res
}

fn is_comment(t: &Tok) -> bool {
    matches!(t.class, TokClass::LineComment { .. } | TokClass::BlockComment { .. })
}

/// Could the two token texts fuse into a different token sequence when written without a blank?
fn must_separate(a: &Tok, b: &Tok) -> bool {
    use TokClass::*;
    let wordy = |t: &Tok| matches!(t.class, Ident | RawIdent | Lifetime | Literal);
    if wordy(a) && wordy(b) {
        return true;
    }
    if a.class == Punct && b.class == Punct {
        return true; // `=` `=`, `-` `>`, `&` `&`, `.` `.`, `<` `-`, `/` `/` …: keep a blank between puncts only when there was one
    }
    if a.class == Punct && (wordy(b)) && (a.text == "'" || a.text == "-" || a.text == "." || a.text == "#") {
        return true;
    }
    if wordy(a) && b.class == Punct && (b.text == "." || b.text == "'" || b.text == "#" || b.text == "\"") {
        return true;
    }
    if a.class == Punct && a.text == "/" && (is_comment(b) || b.text == "*" || b.text == "/") {
        return true;
    }
    false
}

/// Re-emit the tokens of `src` with random but lexically safe spacing and line breaks.
/// Comments keep their text; a line comment is always followed by a line break. Where the original
/// had no whitespace between two tokens, none is inserted unless harmless (after `{`, `;`, `,`).
pub fn relayout(src: &str, rng: &mut Rng) -> String {
    let toks = lex(src);
    let mut out = String::with_capacity(src.len() * 2);
    let mut i = 0;
    let mode = rng.below(4); // 0: squeeze, 1: one token per line-ish, 2: random, 3: wide
    let mut prev: Option<Tok> = None;
    while i < toks.len() {
        let t = &toks[i];
        if t.class == TokClass::Ws {
            // decide replacement
            let had_newline = t.text.contains('\n');
            let prev_is_line_comment = prev.as_ref().map(|p| matches!(p.class, TokClass::LineComment { .. })).unwrap_or(false);
            let blank_lines = t.text.matches('\n').count();
            let ws = if prev_is_line_comment {
                "\n".to_string()
            } else {
                match mode {
                    0 => if had_newline && rng.chance(1, 3) { "\n".to_string() } else { " ".to_string() },
                    1 => if rng.chance(2, 3) { "\n".to_string() } else { " ".to_string() },
                    3 => {
                        let n = rng.range(1, 6);
                        if rng.chance(1, 3) { format!("\n{}", " ".repeat(n)) } else { " ".repeat(n) }
                    }
                    _ => match rng.below(6) {
                        0 => "\n".to_string(),
                        1 => "\n\n".to_string(),
                        2 => "\t".to_string(),
                        3 => format!("\n{}", " ".repeat(rng.below(12))),
                        4 => "  ".to_string(),
                        _ => " ".to_string(),
                    },
                }
            };
            // keep at least the blank-line structure class (0 / 1 / many) sometimes, to vary both ways
            let ws = if blank_lines >= 2 && rng.chance(1, 2) && !ws.contains("\n\n") { format!("{}\n\n", ws.trim_end_matches(' ')) } else { ws };
            out.push_str(&ws);
            i += 1;
            continue;
        }
        // no whitespace token between prev and t in the source: keep adjacency
        out.push_str(&t.text);
        if matches!(t.class, TokClass::LineComment { .. }) {
            // the lexer's line comment does not include the newline; the following Ws token has it
        }
        prev = Some(t.clone());
        // optionally insert harmless whitespace after `{` `;` `,` when the next token is adjacent
        if i + 1 < toks.len() && toks[i + 1].class != TokClass::Ws {
            let next = &toks[i + 1];
            if (t.text == "{" || t.text == ";" || t.text == ",") && t.class != TokClass::Literal && rng.chance(1, 4) && !must_separate(t, next) {
                // only outside macro-sensitive adjacency: `,` `;` `{` followed by anything is safe to space
                out.push_str(if rng.chance(1, 2) { "\n" } else { " " });
            }
        }
        i += 1;
    }
    if !out.ends_with('\n') && rng.chance(3, 4) {
        out.push('\n');
    }
    out
}

/// Token-level mutation for robustness testing: deletion, duplication, swap, truncation, delimiter
/// imbalance, non-ASCII insertion.
pub fn mutate(src: &str, rng: &mut Rng) -> String {
    let mut toks: Vec<Tok> = lex(src);
    if toks.is_empty() {
        return src.to_string();
    }
    let n_mut = rng.range(1, 4);
    for _ in 0..n_mut {
        if toks.is_empty() {
            break;
        }
        let i = rng.below(toks.len());
        match rng.below(8) {
            0 => {
                toks.remove(i);
            }
            1 => {
                let t = toks[i].clone();
                toks.insert(i, t);
            }
            2 => {
                let j = rng.below(toks.len());
                toks.swap(i, j);
            }
            3 => {
                toks.truncate(i + 1);
            }
            4 => {
                let d = *rng.pick(&["(", ")", "{", "}", "[", "]", "<", ">"]);
                toks.insert(i, Tok { class: TokClass::Punct, text: d.to_string() });
            }
            5 => {
                let s = *rng.pick(&["é", "→", "\u{1f98a}", "\u{200b}", "ß", "\u{feff}", "ａ", "\u{301}"]);
                toks.insert(i, Tok { class: TokClass::Unknown, text: s.to_string() });
            }
            6 => {
                // cut a token in the middle (unterminated string/comment, half identifier)
                let t = &mut toks[i];
                let cs: Vec<char> = t.text.chars().collect();
                if cs.len() > 1 {
                    let k = rng.range(1, cs.len() - 1);
                    t.text = cs[..k].iter().collect();
                }
            }
            _ => {
                let s = *rng.pick(&["#[rustfmt::skip]", "// c\n", "/* c */", "'", "\"", "r#\"", "b'", "::", "..=", "=>", "macro_rules!", "where", "async", "unsafe", "0x", "1e", "'a"]);
                toks.insert(i, Tok { class: TokClass::Unknown, text: s.to_string() });
            }
        }
    }
    toks.iter().map(|t| t.text.as_str()).collect()
}

/// `depth` nested `mod m { … }` / `fn f() { … }` / blocks around a small body.
pub fn nested_program(rng: &mut Rng, depth: usize) -> String {
    let mut s = String::new();
    let mode = rng.below(3);
    let switch = rng.below(depth + 1);
    let kinds: Vec<usize> = (0..depth).map(|d| match mode { 0 => 0, 1 => if d < switch { 0 } else { 4 }, _ => rng.below(5) }).collect();
    let mut in_fn = false;
    let mut closers = vec![];
    for (d, k) in kinds.iter().enumerate() {
        if !in_fn {
            match k {
                0 | 1 => { s.push_str(&format!("mod m{} {{\n", d)); closers.push("}\n"); }
                2 => { s.push_str(&format!("impl T{} {{\n", d)); closers.push("}\n"); s.push_str(&format!("fn f{}() {{\n", d)); closers.push("}\n"); in_fn = true; }
                3 => { s.push_str(&format!("trait Tr{} {{\n", d)); closers.push("}\n"); s.push_str(&format!("fn f{}() {{\n", d)); closers.push("}\n"); in_fn = true; }
                _ => { s.push_str(&format!("fn f{}() {{\n", d)); closers.push("}\n"); in_fn = true; }
            }
        } else {
            match k {
                0 => { s.push_str("if a {\n"); closers.push("}\n"); }
                1 => { s.push_str("match x { _ => {\n"); closers.push("} }\n"); }
                2 => { s.push_str("let _ = || {\n"); closers.push("};\n"); }
                3 => { s.push_str("loop {\n"); closers.push("}\n"); }
                _ => { s.push_str("{\n"); closers.push("}\n"); }
            }
        }
    }
    let body = if in_fn {
        *rng.pick(&["// comment\nlet x = 1;\n", "// only a comment\n", "/* block */\n", "/* block */ foo(a, b, c);\n", "let long_name = some_function(argument_one, argument_two, argument_three);\n", "x.iter().map(|y| y + 1).filter(|z| *z > 2).collect::<Vec<_>>();\n", ""])
    } else {
        *rng.pick(&["// comment\nuse a::b;\n", "/* c */ struct S { a: u32, b: u32 }\n", "// only a comment\n", "/* only a block comment */\n", "// a comment that is fairly long so that it has to be wrapped somewhere\nfn g() {}\n", "fn g(a: u32, b: u32) -> u32 { a + b }\n", ""])
    };
    s.push_str(body);
    for c in closers.iter().rev() {
        s.push_str(c);
    }
    s
}
