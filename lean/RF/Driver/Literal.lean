import RF.Model.Proto
import RF.Model.Literal
/-!
Line-protocol operations for the literal rewriters (C01 mechanism, `RF/Model/Literal.lean`).

  lit.float <fz> <symbol> <suffix>        -> <hex of the literal as printed>     `rewrite_float_lit` (the snippet
                                             `symbol ++ suffix` where the code keeps it)
  lit.int <hex> <fz> <symbol> <suffix>    -> <hex of the literal as printed>     `rewrite_int_lit`
  lit.parse <symbol>                      -> none | <ip>:<fp or ~>:<exp or ~>     `parse_float_symbol`
  lit.den <symbol>                        -> none | <int digits>:<frac digits>:<exponent>   ORACLE: the denotation

fz      P | A | I | N      float_literal_trailing_zero = Preserve | Always | IfNoPostfix | Never
hex     P | U | L          hex_literal_case = Preserve | Upper | Lower
strings hex of the UTF-8 bytes, `-` for the empty string
-/
namespace RF.Driver.Literal
open RF.Proto RF.Lit

def decFz : String → Option TrailingZero
  | "P" => some .preserve | "A" => some .always | "I" => some .ifNoPostfix | "N" => some .never | _ => none
def decHex : String → Option HexCase
  | "P" => some .preserve | "U" => some .upper | "L" => some .lower | _ => none

def encOpt : Option (List Char) → String
  | none => "~"
  | some s => encChars s

def handle (op : String) (args : List String) : Option String :=
  match op, args with
  | "lit.float", [fz, sym, suf] => some <| (do
      let fz ← decFz fz
      let sym ← decChars sym
      let suf ← decChars suf
      pure (encChars ((rewriteFloatLit fz sym suf).getD (sym ++ suf)))).getD "err"
  | "lit.int", [hx, fz, sym, suf] => some <| (do
      let hx ← decHex hx
      let fz ← decFz fz
      let sym ← decChars sym
      let suf ← decChars suf
      pure (encChars ((rewriteIntLit hx fz sym suf).getD (sym ++ suf)))).getD "err"
  | "lit.parse", [sym] => some <| (do
      let sym ← decChars sym
      pure (match parseFloatSymbol sym with
        | none => "none"
        | some p => encChars p.integerPart ++ ":" ++ encOpt p.fractionalPart ++ ":" ++ encOpt p.exponent)).getD "err"
  | "lit.den", [sym] => some <| (do
      let sym ← decChars sym
      pure (match parseFloatSymbol sym with
        | none => "none"
        | some p => let d := p.den; encChars d.intDigits ++ ":" ++ encChars d.fracDigits ++ ":" ++ encChars d.exponent)).getD "err"
  | _, _ => none

end RF.Driver.Literal
