import RF.Model.Lists
import RF.Lemmas.Shape
/-!
Helper lemmas about the model of `write_list` (`RF/Model/Lists.lean`): what one iteration of the loop
pushes, piece by piece, and the invariants of the loop.
-/
namespace RF.Lemmas.Lists
open RF.Lists RF.Shape

/-! ### Pieces -/

/-- The pieces that are not blanks. -/
def nonBlank (ps : List Piece) : List Piece := ps.filter (fun p => p.kind != .blank)

def AllBlank (ps : List Piece) : Prop := ∀ p ∈ ps, p.kind = .blank

@[simp] theorem nonBlank_nil : nonBlank [] = [] := rfl

@[simp] theorem nonBlank_append (a b : List Piece) : nonBlank (a ++ b) = nonBlank a ++ nonBlank b := by
  simp [nonBlank]

theorem nonBlank_of_allBlank {ps : List Piece} (h : AllBlank ps) : nonBlank ps = [] := by
  simp only [nonBlank, List.filter_eq_nil_iff]
  intro p hp
  simp [h p hp]

@[simp] theorem allBlank_nil : AllBlank [] := by simp [AllBlank]

theorem allBlank_append {a b : List Piece} (ha : AllBlank a) (hb : AllBlank b) : AllBlank (a ++ b) := by
  intro p hp
  rcases List.mem_append.mp hp with h | h
  · exact ha p h
  · exact hb p h

@[simp] theorem allBlank_bl1 (s : List Char) : AllBlank [bl s] := by simp [AllBlank, bl]
@[simp] theorem allBlank_bl2 (s t : List Char) : AllBlank [bl s, bl t] := by simp [AllBlank, bl]

@[simp] theorem render_nil : render [] = [] := rfl
@[simp] theorem render_append (a b : List Piece) : render (a ++ b) = render a ++ render b := by
  simp [render]
@[simp] theorem render_cons (p : Piece) (ps : List Piece) : render (p :: ps) = p.text ++ render ps := by
  simp [render]

/-! ### The blank in front of the item -/

theorem tacticBlank_allBlank (f : ListFormatting) (e : IterEnv) (item : ListItem) (rendered : List Char)
    (separate ts pp pn : Bool) (ll : Nat) :
    AllBlank (tacticBlank f e item rendered separate ts pp pn ll).1 := by
  unfold tacticBlank
  split
  · split <;> simp
  · split
    · simp
    · split
      · simp
      · split <;> simp
  · split <;> simp
  · simp only
    split
    · simp
    · split <;> simp

/-- The value of `separate` after the tactic block: only Mixed changes it, for the last item of a list
that ends with a newline. -/
theorem tacticBlank_separate (f : ListFormatting) (e : IterEnv) (item : ListItem) (rendered : List Char)
    (separate ts pp pn : Bool) (ll : Nat) :
    (tacticBlank f e item rendered separate ts pp pn ll).2.1 =
      if f.tactic = .mixed ∧ e.last = true ∧ f.endsWithNewline = true then f.trailingSeparator != .never
      else separate := by
  unfold tacticBlank
  split
  · rename_i h; split <;> simp [h]
  · rename_i n h
    split
    · simp [h]
    · split
      · simp [h]
      · split <;> simp [h]
  · rename_i h; split <;> simp [h]
  · rename_i h
    simp only [h, true_and]
    split <;> simp_all

/-- `trailing_separator` after the tactic block: unchanged, or set in a Mixed list that ends with a newline. -/
theorem tacticBlank_trailing (f : ListFormatting) (e : IterEnv) (item : ListItem) (rendered : List Char)
    (separate ts pp pn : Bool) (ll : Nat) :
    (tacticBlank f e item rendered separate ts pp pn ll).2.2.1 = ts ∨
      (f.tactic = .mixed ∧ f.endsWithNewline = true) := by
  unfold tacticBlank
  split
  · split <;> simp
  · split
    · simp
    · split
      · simp
      · split <;> simp
  · split <;> simp
  · rename_i h
    simp only [h, true_and]
    split
    · cases f.endsWithNewline <;> simp
    · split <;> simp

/-! ### Blank pieces hold blanks -/

/-- Every blank piece consists of spaces, newlines and characters of the indentation string. -/
def BlanksOK (ind : List Char) (ps : List Piece) : Prop :=
  ∀ p ∈ ps, p.kind = .blank → ∀ c ∈ p.text, c = ' ' ∨ c = '\n' ∨ c ∈ ind

@[simp] theorem blanksOK_nil (ind : List Char) : BlanksOK ind [] := by simp [BlanksOK]

theorem blanksOK_append {ind : List Char} {a b : List Piece} (ha : BlanksOK ind a) (hb : BlanksOK ind b) :
    BlanksOK ind (a ++ b) := by
  intro p hp
  rcases List.mem_append.mp hp with h | h
  · exact ha p h
  · exact hb p h

theorem blanksOK_cons {ind : List Char} {p : Piece} {ps : List Piece}
    (hp : p.kind = .blank → ∀ c ∈ p.text, c = ' ' ∨ c = '\n' ∨ c ∈ ind) (h : BlanksOK ind ps) :
    BlanksOK ind (p :: ps) := by
  intro q hq
  rcases List.mem_cons.mp hq with rfl | h'
  · exact hp
  · exact h q h'

@[simp] theorem blanksOK_space (ind : List Char) (ps : List Piece) :
    BlanksOK ind (bl [' '] :: ps) ↔ BlanksOK ind ps := by
  constructor
  · intro h p hp; exact h p (List.mem_cons_of_mem _ hp)
  · intro h; exact blanksOK_cons (by simp) h

@[simp] theorem blanksOK_newline (ind : List Char) (ps : List Piece) :
    BlanksOK ind (bl ['\n'] :: ps) ↔ BlanksOK ind ps := by
  constructor
  · intro h p hp; exact h p (List.mem_cons_of_mem _ hp)
  · intro h; exact blanksOK_cons (by simp) h

@[simp] theorem blanksOK_indent (ind : List Char) (ps : List Piece) :
    BlanksOK ind (bl ind :: ps) ↔ BlanksOK ind ps := by
  constructor
  · intro h p hp; exact h p (List.mem_cons_of_mem _ hp)
  · intro h; exact blanksOK_cons (by intro _ c hc; exact Or.inr (Or.inr hc)) h

@[simp] theorem blanksOK_spaces (ind : List Char) (n : Nat) (ps : List Piece) :
    BlanksOK ind (bl (List.replicate n ' ') :: ps) ↔ BlanksOK ind ps := by
  constructor
  · intro h p hp; exact h p (List.mem_cons_of_mem _ hp)
  · intro h
    refine blanksOK_cons ?_ h
    intro _ c hc
    simp only [List.mem_replicate] at hc
    exact Or.inl hc.2

@[simp] theorem blanksOK_nonblank (ind : List Char) (k : PieceKind) (t : List Char) (ps : List Piece)
    (hk : k ≠ .blank) : BlanksOK ind (⟨k, t⟩ :: ps) ↔ BlanksOK ind ps := by
  constructor
  · intro h p hp; exact h p (List.mem_cons_of_mem _ hp)
  · intro h; exact blanksOK_cons (by intro hk'; exact absurd hk' hk) h

theorem blanksOK_of_allBlank_tactic (f : ListFormatting) (e : IterEnv) (item : ListItem)
    (rendered : List Char) (separate ts pp pn : Bool) (ll : Nat) :
    BlanksOK e.indentStr (tacticBlank f e item rendered separate ts pp pn ll).1 := by
  unfold tacticBlank
  split
  · split <;> simp
  · split
    · simp
    · split
      · simp
      · split <;> simp
  · split <;> simp
  · simp only
    split
    · simp
    · split <;> simp

/-! ### The pre-comment -/

theorem preCommentPieces_shape {f : ListFormatting} {rc : Rc} {e : IterEnv} {item : ListItem} {ll : Nat}
    {ps : List Piece} {ll' : Nat} {reset : Bool}
    (h : preCommentPieces f rc e item ll = some (ps, ll', reset)) :
    BlanksOK e.indentStr ps ∧
    match item.preComment with
    | none => nonBlank ps = []
    | some c => ∃ r, rc c (f.tactic == .horizontal) f.shape = some r ∧ nonBlank ps = [⟨.pre, r⟩] := by
  unfold preCommentPieces at h
  cases hpre : item.preComment with
  | none => simp [hpre] at h; obtain ⟨rfl, _, _⟩ := h; simp
  | some c =>
    simp only [hpre] at h
    cases hrc : rc c (f.tactic == .horizontal) f.shape with
    | none => simp [hrc] at h
    | some r =>
      simp only [hrc] at h
      refine ⟨?_, r, hrc, ?_⟩
      · repeat' split at h
        all_goals (simp only [Option.some.injEq, Prod.mk.injEq] at h; obtain ⟨rfl, _, _⟩ := h; simp)
      · repeat' split at h
        all_goals (simp only [Option.some.injEq, Prod.mk.injEq] at h; obtain ⟨rfl, _, _⟩ := h; simp [nonBlank, bl])

/-! ### Separator in front and the item -/

theorem itemPieces_shape (f : ListFormatting) (e : IterEnv) (separate : Bool) :
    BlanksOK e.indentStr (itemPieces f e separate) ∧
    nonBlank (itemPieces f e separate) =
      (if separate && e.sepPlace.isFront && !e.first then [⟨.sep, trim f.separator⟩] else []) ++
        [⟨.item, e.innerItem⟩] := by
  unfold itemPieces
  split <;> simp [nonBlank, bl]

/-! ### Post-comment in horizontal mode -/

theorem horizontalPostPieces_shape {f : ListFormatting} {rc : Rc} {item : ListItem} {ps : List Piece}
    (ind : List Char) (h : horizontalPostPieces f rc item = some ps) :
    BlanksOK ind ps ∧
    if f.tactic = .horizontal then
      match item.postComment with
      | none => nonBlank ps = []
      | some c => ∃ r, rc c true (Shape.legacy f.shape.width Indent.empty) = some r ∧
          nonBlank ps = [⟨.post, r⟩]
    else ps = [] := by
  unfold horizontalPostPieces at h
  split at h
  · rename_i c ht hc
    split at h
    · simp at h
    · rename_i r hr
      simp only [Option.some.injEq] at h
      subst h
      simp [ht, hc, hr, nonBlank, bl]
  · rename_i hne
    simp only [Option.some.injEq] at h
    subst h
    refine ⟨by simp, ?_⟩
    split
    · rename_i ht
      cases hc : item.postComment with
      | none => simp
      | some c => exact absurd hc (hne c ht)
    · rfl

/-! ### Separator behind the item -/

theorem backSepPieces_shape (f : ListFormatting) (e : IterEnv) (separate : Bool) :
    BlanksOK e.indentStr (backSepPieces f e separate) ∧
    nonBlank (backSepPieces f e separate) =
      if separate && e.sepPlace.isBack then [⟨.sep, f.separator⟩] else [] := by
  unfold backSepPieces
  split <;> simp [nonBlank]

/-! ### Post-comment outside horizontal mode -/

/-- Whatever the closure `rewrite_post_comment` returns is `rewrite_comment` applied to the comment
without its leading white space. -/
theorem rewritePostComment_snd (f : ListFormatting) (rc : Rc) (e : IterEnv) (its : List ListItem)
    (c : List Char) (oh : Nat) (imw : Option Nat) :
    ∃ bs sh, (rewritePostComment f rc e its c oh imw).2 = rc (trimStart c) bs sh :=
  ⟨_, _, rfl⟩

theorem alignPostComment_shape {f : ListFormatting} {rc : Rc} {e : IterEnv} {its : List ListItem}
    {c : List Char} {oh : Nat} {rendered : List Char} {imw : Option Nat} {fc : List Char}
    {ps : List Piece} {imw' : Option Nat} {fc' : List Char}
    (h : alignPostComment f rc e its c oh rendered imw fc = some (ps, imw', fc')) :
    BlanksOK e.indentStr ps ∧ nonBlank ps = [] ∧
      (fc' = fc ∨ ∃ bs sh, rc (trimStart c) bs sh = some fc') := by
  unfold alignPostComment at h
  by_cases hal : f.alignComments = true
  · simp only [hal, ↓reduceIte] at h
    by_cases hgt : firstLineWidth fc + lastLineWidth rendered +
        postCommentAlignment imw (strWidth e.innerItem) + 1 > f.config.max_width
    · simp only [hgt, ↓reduceIte] at h
      obtain ⟨bs, sh, hrw⟩ := rewritePostComment_snd f rc e its c oh none
      split at h
      · simp at h
      · rename_i imw2 fc2 heq
        simp only [Option.some.injEq, Prod.mk.injEq] at h
        obtain ⟨rfl, rfl, rfl⟩ := h
        rw [heq] at hrw
        exact ⟨by simp, by simp [nonBlank, bl], Or.inr ⟨bs, sh, hrw.symm⟩⟩
    · simp only [hgt, ↓reduceIte, Option.some.injEq, Prod.mk.injEq] at h
      obtain ⟨rfl, rfl, rfl⟩ := h
      exact ⟨by simp, by simp [nonBlank, bl], Or.inl rfl⟩
  · simp only [hal, Bool.false_eq_true, ↓reduceIte, Option.some.injEq, Prod.mk.injEq] at h
    obtain ⟨rfl, rfl, rfl⟩ := h
    exact ⟨by simp, by simp, Or.inl rfl⟩

theorem extraSpace_shape (f : ListFormatting) (e : IterEnv) (separate : Bool) (imw : Option Nat) :
    BlanksOK e.indentStr (extraSpace f e separate imw) ∧ nonBlank (extraSpace f e separate imw) = [] := by
  unfold extraSpace
  split <;> simp [nonBlank, bl]

theorem verticalPostPieces_shape {f : ListFormatting} {rc : Rc} {e : IterEnv} {item : ListItem}
    {its : List ListItem} {rendered : List Char} {separate : Bool} {imw : Option Nat}
    {ps : List Piece} {imw' : Option Nat}
    (h : verticalPostPieces f rc e item its rendered separate imw = some (ps, imw')) :
    BlanksOK e.indentStr ps ∧
    if f.tactic = .horizontal then ps = []
    else
      match item.postComment with
      | none => ps = []
      | some c => ∃ r bs sh, rc (trimStart c) bs sh = some r ∧ nonBlank ps = [⟨.post, r⟩] := by
  unfold verticalPostPieces at h
  cases hpost : item.postComment with
  | none =>
    simp only [hpost, Option.some.injEq, Prod.mk.injEq] at h
    obtain ⟨rfl, _⟩ := h
    simp
  | some c =>
    simp only [hpost] at h
    by_cases ht : f.tactic = .horizontal
    · simp only [ht, bne_self_eq_false, Bool.false_eq_true, ↓reduceIte, Option.some.injEq,
        Prod.mk.injEq] at h
      obtain ⟨rfl, _⟩ := h
      simp [ht]
    · have hne : (f.tactic != DefinitiveListTactic.horizontal) = true := by simp [ht]
      simp only [hne, ↓reduceIte] at h
      simp only [ht, ↓reduceIte]
      obtain ⟨bs, sh, hrw⟩ :=
        rewritePostComment_snd f rc e its c (lastLineWidth rendered + firstLineWidth (trim c)) imw
      split at h
      · simp at h
      · rename_i imw1 fc1 heq
        rw [heq] at hrw
        simp only at hrw
        split at h
        · split at h
          · simp at h
          · rename_i ps2 imw2 fc2 hal
            obtain ⟨hb, hnb, hfc⟩ := alignPostComment_shape hal
            obtain ⟨hb2, hnb2⟩ := extraSpace_shape f e separate imw2
            simp only [Option.some.injEq, Prod.mk.injEq] at h
            obtain ⟨rfl, _⟩ := h
            refine ⟨blanksOK_append (blanksOK_append hb hb2) (by simp), ?_⟩
            have hrc : ∃ bs sh, rc (trimStart c) bs sh = some fc2 := by
              rcases hfc with rfl | h'
              · exact ⟨bs, sh, hrw.symm⟩
              · exact h'
            obtain ⟨bs', sh', h'⟩ := hrc
            exact ⟨fc2, bs', sh', h', by rw [nonBlank_append, nonBlank_append, hnb, hnb2]; simp [nonBlank]⟩
        · simp only [Option.some.injEq, Prod.mk.injEq] at h
          obtain ⟨rfl, _⟩ := h
          exact ⟨by simp, fc1, bs, sh, hrw.symm, by simp [nonBlank, bl]⟩

theorem preserveNewlinePieces_shape (f : ListFormatting) (e : IterEnv) (item : ListItem) :
    BlanksOK e.indentStr (preserveNewlinePieces f e item) ∧
      nonBlank (preserveNewlinePieces f e item) = [] := by
  unfold preserveNewlinePieces
  split <;> simp [nonBlank, bl]

/-! ### One iteration -/

/-- Loop invariant: `trailing_separator` is still what `needs_trailing_separator` said, unless the
list is Mixed and ends with a newline (where the value is not read for the last item). -/
def TSInv (f : ListFormatting) (st : State) : Prop :=
  st.trailingSeparator = f.needsTrailingSeparator ∨ (f.tactic = .mixed ∧ f.endsWithNewline = true)

/-- The piece a pre-comment becomes: the comment as some call of the rewriter returned it. -/
def PreOK (rc : Rc) (item : ListItem) (ps : List Piece) : Prop :=
  match item.preComment with
  | none => ps = []
  | some c => ∃ r bs sh, rc c bs sh = some r ∧ ps = [⟨.pre, r⟩]

/-- The piece a post-comment becomes (the rewriter is given the comment, or the comment without its
leading white space). -/
def PostOK (rc : Rc) (item : ListItem) (ps : List Piece) : Prop :=
  match item.postComment with
  | none => ps = []
  | some c => ∃ r bs sh, (rc c bs sh = some r ∨ rc (trimStart c) bs sh = some r) ∧ ps = [⟨.post, r⟩]

def sepFront (f : ListFormatting) (sp : SeparatorPlace) (i : Nat) (last : Bool) : List Piece :=
  if separateSpec f sp i last && sp.isFront && i != 0 then [⟨.sep, trim f.separator⟩] else []

def sepBack (f : ListFormatting) (sp : SeparatorPlace) (i : Nat) (last : Bool) : List Piece :=
  if separateSpec f sp i last && sp.isBack then [⟨.sep, f.separator⟩] else []

/-- The non-blank pieces one written item contributes. -/
def blockTokens (f : ListFormatting) (sp : SeparatorPlace) (i : Nat) (last : Bool) (inner : List Char)
    (pre post : List Piece) : List Piece :=
  pre ++ sepFront f sp i last ++ [⟨.item, inner⟩] ++
    (if f.tactic = .horizontal then post ++ sepBack f sp i last else sepBack f sp i last ++ post)

theorem separate_eq_spec {f : ListFormatting} {st : State} (hinv : TSInv f st) (sp : SeparatorPlace)
    (i : Nat) (last : Bool) :
    (if f.tactic = .mixed ∧ last = true ∧ f.endsWithNewline = true then f.trailingSeparator != .never
     else separate0 sp i last st.trailingSeparator) = separateSpec f sp i last := by
  unfold separateSpec separate0
  by_cases hm : f.tactic = .mixed ∧ last = true ∧ f.endsWithNewline = true
  · obtain ⟨h1, h2, h3⟩ := hm
    simp [h1, h2, h3]
  · have hm' : (f.tactic == DefinitiveListTactic.mixed && last && f.endsWithNewline) = false := by
      cases hl : last <;> cases he : f.endsWithNewline <;> simp_all
    simp only [hm, ↓reduceIte, hm', Bool.false_eq_true]
    cases sp with
    | front => simp [bne]
    | back =>
      simp only
      rcases hinv with h | ⟨h1, h2⟩
      · rw [h]
      · have : last = false := by
          cases hl : last
          · rfl
          · exact absurd ⟨h1, hl, h2⟩ hm
        simp [this]

theorem stepBody_shape {f : ListFormatting} {rc : Rc} {e : IterEnv} {i : Nat}
    {item : ListItem} {rest : List ListItem} {st st' : State}
    (hefirst : e.first = (i == 0)) (helast : e.last = rest.isEmpty)
    (h : stepBody f rc e item rest st (separate0 e.sepPlace i rest.isEmpty st.trailingSeparator) = some st')
    (hinv : TSInv f st) :
    TSInv f st' ∧ (BlanksOK e.indentStr st.pieces → BlanksOK e.indentStr st'.pieces) ∧
      ∃ pre post, PreOK rc item pre ∧ PostOK rc item post ∧
        nonBlank st'.pieces =
          nonBlank st.pieces ++ blockTokens f e.sepPlace i rest.isEmpty e.innerItem pre post := by
  unfold stepBody at h
  generalize hsep0 : separate0 e.sepPlace i rest.isEmpty st.trailingSeparator = sep0 at h
  generalize htb : tacticBlank f e item (render st.pieces) sep0 st.trailingSeparator
    st.prevItemHadPostComment st.prevItemIsNestedImport st.lineLen = tb at h
  have h1 := tacticBlank_allBlank f e item (render st.pieces) sep0 st.trailingSeparator
    st.prevItemHadPostComment st.prevItemIsNestedImport st.lineLen
  have h1b := blanksOK_of_allBlank_tactic f e item (render st.pieces) sep0 st.trailingSeparator
    st.prevItemHadPostComment st.prevItemIsNestedImport st.lineLen
  have h1s := tacticBlank_separate f e item (render st.pieces) sep0 st.trailingSeparator
    st.prevItemHadPostComment st.prevItemIsNestedImport st.lineLen
  have h1t := tacticBlank_trailing f e item (render st.pieces) sep0 st.trailingSeparator
    st.prevItemHadPostComment st.prevItemIsNestedImport st.lineLen
  rw [htb] at h1 h1b h1s h1t
  obtain ⟨p1, separate, ts, ll⟩ := tb
  simp only at h h1 h1b h1s h1t
  have hsepspec : separate = separateSpec f e.sepPlace i rest.isEmpty := by
    rw [h1s, helast, ← hsep0]
    exact separate_eq_spec hinv e.sepPlace i rest.isEmpty
  split at h
  · simp at h
  · rename_i p2 ll2 reset hpre
    obtain ⟨h2b, h2⟩ := preCommentPieces_shape hpre
    split at h
    · simp at h
    · rename_i p4 hhp
      obtain ⟨h4b, h4⟩ := horizontalPostPieces_shape e.indentStr hhp
      split at h
      · simp at h
      · rename_i p6 imw6 hvp
        obtain ⟨h6b, h6⟩ := verticalPostPieces_shape hvp
        obtain ⟨h3b, h3⟩ := itemPieces_shape f e separate
        obtain ⟨h5b, h5⟩ := backSepPieces_shape f e separate
        obtain ⟨h7b, h7⟩ := preserveNewlinePieces_shape f e item
        simp only [Option.some.injEq] at h
        subst h
        clear h1s
        subst hsepspec
        refine ⟨?_, ?_, ?_⟩
        · -- invariant
          rcases h1t with h' | h'
          · rcases hinv with hi | hi
            · exact Or.inl (by simp only; rw [h', hi])
            · exact Or.inr hi
          · exact Or.inr h'
        · intro hst
          simp only
          exact blanksOK_append (blanksOK_append (blanksOK_append (blanksOK_append (blanksOK_append
            (blanksOK_append (blanksOK_append hst h1b) h2b) h3b) h4b) h5b) h6b) h7b
        · -- the comment pieces
          have hpreEx : ∃ pre, PreOK rc item pre ∧ nonBlank p2 = pre := by
            unfold PreOK
            cases hc : item.preComment with
            | none => simp only [hc] at h2; exact ⟨[], rfl, h2⟩
            | some c =>
              simp only [hc] at h2
              obtain ⟨r, hr, hn⟩ := h2
              exact ⟨[⟨.pre, r⟩], ⟨r, _, _, hr, rfl⟩, hn⟩
          obtain ⟨pre, hpreOK, hpre2⟩ := hpreEx
          by_cases ht : f.tactic = .horizontal
          · -- horizontal: the post-comment precedes the separator
            simp only [ht, ↓reduceIte] at h4 h6
            have hpostEx : ∃ post, PostOK rc item post ∧ nonBlank p4 = post := by
              unfold PostOK
              cases hc : item.postComment with
              | none => simp only [hc] at h4; exact ⟨[], rfl, h4⟩
              | some c =>
                simp only [hc] at h4
                obtain ⟨r, hr, hn⟩ := h4
                exact ⟨[⟨.post, r⟩], ⟨r, _, _, Or.inl hr, rfl⟩, hn⟩
            obtain ⟨post, hpostOK, hpost4⟩ := hpostEx
            refine ⟨pre, post, hpreOK, hpostOK, ?_⟩
            subst h6
            simp only [nonBlank_append, nonBlank_of_allBlank h1, hpre2, h3, hpost4, h5, h7,
              blockTokens, sepFront, sepBack, ht, ↓reduceIte, hefirst,
              List.append_nil, List.append_assoc]
            cases i <;> simp
          · simp only [ht, ↓reduceIte] at h4 h6
            have hpostEx : ∃ post, PostOK rc item post ∧ nonBlank p6 = post := by
              unfold PostOK
              cases hc : item.postComment with
              | none => simp only [hc] at h6; subst h6; exact ⟨[], rfl, rfl⟩
              | some c =>
                simp only [hc] at h6
                obtain ⟨r, bs, sh, hr, hn⟩ := h6
                exact ⟨[⟨.post, r⟩], ⟨r, bs, sh, Or.inr hr, rfl⟩, hn⟩
            obtain ⟨post, hpostOK, hpost6⟩ := hpostEx
            refine ⟨pre, post, hpreOK, hpostOK, ?_⟩
            subst h4
            simp only [nonBlank_append, nonBlank_of_allBlank h1, hpre2, h3, hpost6, h5, h7,
              blockTokens, sepFront, sepBack, ht, ↓reduceIte, hefirst,
              List.append_nil, List.append_assoc]
            cases i <;> simp

theorem step_shape {f : ListFormatting} {rc : Rc} {ind : List Char} {sp : SeparatorPlace} {i : Nat}
    {item : ListItem} {rest : List ListItem} {st st' : State}
    (h : step f rc ind sp i item rest st = some st') (hinv : TSInv f st) :
    TSInv f st' ∧ (BlanksOK ind st.pieces → BlanksOK ind st'.pieces) ∧
    ∃ inner, item.item = some inner ∧
      if item.isSubstantial then
        ∃ pre post, PreOK rc item pre ∧ PostOK rc item post ∧
          nonBlank st'.pieces = nonBlank st.pieces ++ blockTokens f sp i rest.isEmpty inner pre post
      else st' = st := by
  unfold step at h
  cases hit : item.item with
  | none => simp [hit] at h
  | some inner =>
    simp only [hit] at h
    cases hs : item.isSubstantial with
    | false =>
      simp only [hs, Bool.not_false, ↓reduceIte, Option.some.injEq] at h
      subst h
      exact ⟨hinv, id, inner, rfl, by simp⟩
    | true =>
      simp only [hs, Bool.not_true, Bool.false_eq_true, ↓reduceIte] at h
      have := stepBody_shape (i := i) (e := mkEnv f ind sp i item rest inner
        (separate0 sp i rest.isEmpty st.trailingSeparator)) rfl rfl h hinv
      obtain ⟨h1, h2, h3⟩ := this
      exact ⟨h1, h2, inner, rfl, by simpa [mkEnv] using h3⟩

/-! ### The loop -/

/-- The non-blank pieces of the whole result, item by item (from index `i` on): a skipped item
contributes nothing; a written one its block (`blockTokens`): pre-comment, separator in front, the item,
post-comment and separator behind. -/
inductive TokensOK (f : ListFormatting) (rc : Rc) (sp : SeparatorPlace) :
    Nat → List ListItem → List Piece → Prop where
  | nil (i : Nat) : TokensOK f rc sp i [] []
  | skip {i : Nat} {item : ListItem} {rest : List ListItem} {ts : List Piece} (inner : List Char) :
      item.item = some inner → item.isSubstantial = false → TokensOK f rc sp (i + 1) rest ts →
      TokensOK f rc sp i (item :: rest) ts
  | write {i : Nat} {item : ListItem} {rest : List ListItem} {ts : List Piece} (inner : List Char)
      (pre post : List Piece) :
      item.item = some inner → item.isSubstantial = true → PreOK rc item pre → PostOK rc item post →
      TokensOK f rc sp (i + 1) rest ts →
      TokensOK f rc sp i (item :: rest) (blockTokens f sp i rest.isEmpty inner pre post ++ ts)

theorem loop_shape {f : ListFormatting} {rc : Rc} {ind : List Char} {sp : SeparatorPlace} :
    ∀ (items : List ListItem) (i : Nat) (st st' : State),
      loop f rc ind sp i items st = some st' → TSInv f st →
      (BlanksOK ind st.pieces → BlanksOK ind st'.pieces) ∧
        ∃ ts, TokensOK f rc sp i items ts ∧ nonBlank st'.pieces = nonBlank st.pieces ++ ts := by
  intro items
  induction items with
  | nil =>
    intro i st st' h _
    simp only [loop, Option.some.injEq] at h
    subst h
    exact ⟨id, [], .nil i, by simp⟩
  | cons item rest ih =>
    intro i st st' h hinv
    simp only [loop] at h
    split at h
    · simp at h
    · rename_i st1 hstep
      obtain ⟨hinv1, hb1, inner, hit, hsub⟩ := step_shape hstep hinv
      obtain ⟨hb2, ts, hts, hnb⟩ := ih (i + 1) st1 st' h hinv1
      refine ⟨fun hb => hb2 (hb1 hb), ?_⟩
      cases hs : item.isSubstantial with
      | false =>
        simp only [hs, Bool.false_eq_true, ↓reduceIte] at hsub
        subst hsub
        exact ⟨ts, .skip inner hit hs hts, hnb⟩
      | true =>
        simp only [hs, ↓reduceIte] at hsub
        obtain ⟨pre, post, hpre, hpost, hnb1⟩ := hsub
        exact ⟨_, .write inner pre post hit hs hpre hpost hts, by rw [hnb, hnb1, List.append_assoc]⟩

theorem tsInv_init (f : ListFormatting) : TSInv f (State.init f) := Or.inl rfl

/-- The shape of `write_list`'s result. -/
theorem writeListPieces_shape {f : ListFormatting} {rc : Rc} {items : List ListItem} {ps : List Piece}
    (h : writeListPieces f rc items = some ps) :
    BlanksOK (indentString f.shape.indent f.config) ps ∧
      TokensOK f rc (SeparatorPlace.fromTactic f.separatorPlace f.tactic f.separator) 0 items
        (nonBlank ps) := by
  unfold writeListPieces at h
  simp only [Option.map_eq_some_iff] at h
  obtain ⟨st', hloop, rfl⟩ := h
  obtain ⟨hb, ts, hts, hnb⟩ := loop_shape items 0 _ st' hloop (tsInv_init f)
  refine ⟨hb (by simp [State.init]), ?_⟩
  simpa [hnb, State.init] using hts

/-- An item whose rewrite failed makes the loop fail. -/
theorem loop_none_of_missing {f : ListFormatting} {rc : Rc} {ind : List Char} {sp : SeparatorPlace} :
    ∀ (items : List ListItem) (i : Nat) (st : State),
      (∃ it ∈ items, it.item = none) → loop f rc ind sp i items st = none := by
  intro items
  induction items with
  | nil => intro i st h; simp at h
  | cons item rest ih =>
    intro i st h
    simp only [loop]
    cases hstep : step f rc ind sp i item rest st with
    | none => rfl
    | some st1 =>
      simp only
      obtain ⟨it, hmem, hnone⟩ := h
      rcases List.mem_cons.mp hmem with rfl | hmem'
      · simp [step, hnone] at hstep
      · exact ih (i + 1) st1 ⟨it, hmem', hnone⟩

/-! ### Projections of the token list -/

def itemTexts (ts : List Piece) : List (List Char) := (ts.filter (fun p => p.kind == .item)).map (·.text)

def commentTexts (ts : List Piece) : List (List Char) :=
  (ts.filter (fun p => p.kind == .pre || p.kind == .post)).map (·.text)

def sepTexts (ts : List Piece) : List (List Char) := (ts.filter (fun p => p.kind == .sep)).map (·.text)

@[simp] theorem itemTexts_append (a b : List Piece) : itemTexts (a ++ b) = itemTexts a ++ itemTexts b := by
  simp [itemTexts]
@[simp] theorem commentTexts_append (a b : List Piece) :
    commentTexts (a ++ b) = commentTexts a ++ commentTexts b := by simp [commentTexts]
@[simp] theorem sepTexts_append (a b : List Piece) : sepTexts (a ++ b) = sepTexts a ++ sepTexts b := by
  simp [sepTexts]

theorem preOK_kinds {rc : Rc} {item : ListItem} {ps : List Piece} (h : PreOK rc item ps) :
    itemTexts ps = [] ∧ sepTexts ps = [] ∧ ∀ p ∈ ps, p.kind = .pre := by
  unfold PreOK at h
  split at h
  · subst h; simp [itemTexts, sepTexts]
  · obtain ⟨r, _, _, _, rfl⟩ := h; simp [itemTexts, sepTexts]

theorem postOK_kinds {rc : Rc} {item : ListItem} {ps : List Piece} (h : PostOK rc item ps) :
    itemTexts ps = [] ∧ sepTexts ps = [] ∧ ∀ p ∈ ps, p.kind = .post := by
  unfold PostOK at h
  split at h
  · subst h; simp [itemTexts, sepTexts]
  · obtain ⟨r, _, _, _, rfl⟩ := h; simp [itemTexts, sepTexts]

theorem sepFront_kinds (f : ListFormatting) (sp : SeparatorPlace) (i : Nat) (last : Bool) :
    itemTexts (sepFront f sp i last) = [] ∧ commentTexts (sepFront f sp i last) = [] := by
  unfold sepFront; split <;> simp [itemTexts, commentTexts]

theorem sepBack_kinds (f : ListFormatting) (sp : SeparatorPlace) (i : Nat) (last : Bool) :
    itemTexts (sepBack f sp i last) = [] ∧ commentTexts (sepBack f sp i last) = [] := by
  unfold sepBack; split <;> simp [itemTexts, commentTexts]

theorem itemTexts_block {rc : Rc} {item : ListItem} {pre post : List Piece} (f : ListFormatting)
    (sp : SeparatorPlace) (i : Nat) (last : Bool) (inner : List Char)
    (hpre : PreOK rc item pre) (hpost : PostOK rc item post) :
    itemTexts (blockTokens f sp i last inner pre post) = [inner] := by
  unfold blockTokens
  have h1 := (preOK_kinds hpre).1
  have h2 := (postOK_kinds hpost).1
  have h3 := (sepFront_kinds f sp i last).1
  have h4 := (sepBack_kinds f sp i last).1
  split <;> simp only [itemTexts_append, h1, h2, h3, h4, List.nil_append, List.append_nil] <;>
    simp [itemTexts]

/-- **Items.**  The item pieces are exactly the item strings of the written items, in order. -/
theorem tokens_items {f : ListFormatting} {rc : Rc} {sp : SeparatorPlace} {i : Nat}
    {items : List ListItem} {ts : List Piece} (h : TokensOK f rc sp i items ts) :
    itemTexts ts = itemStrings items := by
  induction h with
  | nil i => simp [itemTexts, itemStrings]
  | skip inner hit hs _ ih => simpa [itemStrings, hs] using ih
  | write inner pre post hit hs hpre hpost _ ih =>
    rw [itemTexts_append, itemTexts_block f sp _ _ inner hpre hpost, ih]
    simp [itemStrings, hs, ListItem.innerAsRef, hit]

/-- The comments of the written items as the caller passed them (pre-comment, then post-comment). -/
def rawComments (items : List ListItem) : List (List Char) :=
  (items.filter ListItem.isSubstantial).flatMap fun it => it.preComment.toList ++ it.postComment.toList

/-- `t` is what the rewriter made of `c` (or of `c` without its leading white space). -/
def Rewritten (rc : Rc) (t c : List Char) : Prop :=
  ∃ bs sh, rc c bs sh = some t ∨ rc (trimStart c) bs sh = some t

/-- Two lists related element by element (core has no `Forall₂`). -/
inductive Forall2 {α β : Type} (R : α → β → Prop) : List α → List β → Prop where
  | nil : Forall2 R [] []
  | cons {a : α} {b : β} {as : List α} {bs : List β} : R a b → Forall2 R as bs → Forall2 R (a :: as) (b :: bs)

theorem commentTexts_pre {rc : Rc} {item : ListItem} {ps : List Piece} (h : PreOK rc item ps) :
    Forall2 (Rewritten rc) (commentTexts ps) item.preComment.toList := by
  unfold PreOK at h
  split at h
  · rename_i hc; subst h; simp only [hc, commentTexts, Option.toList]; exact Forall2.nil
  · rename_i c hc
    obtain ⟨r, bs, sh, hr, rfl⟩ := h
    simp only [hc, commentTexts, Option.toList]
    exact Forall2.cons ⟨bs, sh, Or.inl hr⟩ Forall2.nil

theorem commentTexts_post {rc : Rc} {item : ListItem} {ps : List Piece} (h : PostOK rc item ps) :
    Forall2 (Rewritten rc) (commentTexts ps) item.postComment.toList := by
  unfold PostOK at h
  split at h
  · rename_i hc; subst h; simp only [hc, commentTexts, Option.toList]; exact Forall2.nil
  · rename_i c hc
    obtain ⟨r, bs, sh, hr, rfl⟩ := h
    simp only [hc, commentTexts, Option.toList]
    exact Forall2.cons ⟨bs, sh, hr⟩ Forall2.nil

theorem forall₂_append {α β : Type} {R : α → β → Prop} {a1 a2 : List α} {b1 b2 : List β}
    (h1 : Forall2 R a1 b1) (h2 : Forall2 R a2 b2) : Forall2 R (a1 ++ a2) (b1 ++ b2) := by
  induction h1 with
  | nil => simpa using h2
  | cons h _ ih => exact Forall2.cons h ih

theorem commentTexts_block {pre post : List Piece} (f : ListFormatting)
    (sp : SeparatorPlace) (i : Nat) (last : Bool) (inner : List Char) :
    commentTexts (blockTokens f sp i last inner pre post) = commentTexts pre ++ commentTexts post := by
  unfold blockTokens
  have h3 := (sepFront_kinds f sp i last).2
  have h4 := (sepBack_kinds f sp i last).2
  split <;> simp only [commentTexts_append, h3, h4, List.nil_append, List.append_nil] <;>
    simp [commentTexts]

/-- **Comments.**  The comment pieces are, one for one and in order, the rewritten comments of the
written items (pre-comment of an item before its post-comment). -/
theorem tokens_comments {f : ListFormatting} {rc : Rc} {sp : SeparatorPlace} {i : Nat}
    {items : List ListItem} {ts : List Piece} (h : TokensOK f rc sp i items ts) :
    Forall2 (Rewritten rc) (commentTexts ts) (rawComments items) := by
  induction h with
  | nil i => simp only [commentTexts, rawComments]; exact Forall2.nil
  | skip inner hit hs _ ih => simpa [rawComments, hs] using ih
  | write inner pre post hit hs hpre hpost _ ih =>
    rename_i i' item rest ts' _
    rw [commentTexts_append, commentTexts_block f sp _ _ inner]
    have : rawComments (item :: rest) =
        (item.preComment.toList ++ item.postComment.toList) ++ rawComments rest := by
      simp [rawComments, hs]
    rw [this]
    exact forall₂_append (forall₂_append (commentTexts_pre hpre) (commentTexts_post hpost)) ih

/-- The separators `write_list` must write, item by item. -/
def sepSpecGo (f : ListFormatting) (sp : SeparatorPlace) : Nat → List ListItem → List (List Char)
  | _, [] => []
  | i, item :: rest =>
    (if item.isSubstantial then
      (if separateSpec f sp i rest.isEmpty && sp.isFront && i != 0 then [trim f.separator] else []) ++
      (if separateSpec f sp i rest.isEmpty && sp.isBack then [f.separator] else [])
     else []) ++ sepSpecGo f sp (i + 1) rest

theorem sepTexts_block {rc : Rc} {item : ListItem} {pre post : List Piece} (f : ListFormatting)
    (sp : SeparatorPlace) (i : Nat) (last : Bool) (inner : List Char)
    (hpre : PreOK rc item pre) (hpost : PostOK rc item post) :
    sepTexts (blockTokens f sp i last inner pre post) =
      (if separateSpec f sp i last && sp.isFront && i != 0 then [trim f.separator] else []) ++
      (if separateSpec f sp i last && sp.isBack then [f.separator] else []) := by
  unfold blockTokens sepFront sepBack
  have h1 := (preOK_kinds hpre).2.1
  have h2 := (postOK_kinds hpost).2.1
  split <;> split <;> split <;>
    simp only [sepTexts_append, h1, h2, List.nil_append, List.append_nil] <;> simp [sepTexts]

/-- **Separators.**  The separator pieces are exactly those `separateSpec` demands. -/
theorem tokens_seps {f : ListFormatting} {rc : Rc} {sp : SeparatorPlace} {i : Nat}
    {items : List ListItem} {ts : List Piece} (h : TokensOK f rc sp i items ts) :
    sepTexts ts = sepSpecGo f sp i items := by
  induction h with
  | nil i => simp [sepTexts, sepSpecGo]
  | skip inner hit hs _ ih => simpa [sepSpecGo, hs] using ih
  | write inner pre post hit hs hpre hpost _ ih =>
    rw [sepTexts_append, sepTexts_block f sp _ _ inner hpre hpost, ih]
    simp [sepSpecGo, hs]

/-! ### White space -/

theorem squeeze_append (a b : List Char) : squeeze (a ++ b) = squeeze a ++ squeeze b := by
  simp [squeeze]

theorem squeeze_of_ws {s : List Char} (h : ∀ c ∈ s, isWhitespace c = true) : squeeze s = [] := by
  simp only [squeeze, List.filter_eq_nil_iff]
  intro c hc
  simp [h c hc]

theorem squeeze_trimStart (s : List Char) : squeeze (trimStart s) = squeeze s := by
  induction s with
  | nil => rfl
  | cons c cs ih =>
    simp only [trimStart, List.dropWhile_cons]
    split
    · rename_i hc
      simp only [trimStart] at ih
      rw [ih]
      simp [squeeze, hc]
    · rfl

theorem squeeze_trimEnd (s : List Char) : squeeze (trimEnd s) = squeeze s := by
  induction s with
  | nil => rfl
  | cons c cs ih =>
    simp only [trimEnd]
    split
    · rename_i h
      simp only [Bool.and_eq_true, List.isEmpty_iff] at h
      obtain ⟨h1, h2⟩ := h
      rw [h1] at ih
      simp only [squeeze, List.filter_cons, h2, Bool.not_true, Bool.false_eq_true, ↓reduceIte]
      simpa [squeeze] using ih
    · simp only [squeeze, List.filter_cons] at ih ⊢
      rw [ih]

theorem squeeze_trim (s : List Char) : squeeze (trim s) = squeeze s := by
  rw [trim, squeeze_trimEnd, squeeze_trimStart]

/-- The indentation string is white space. -/
theorem indentString_ws (indent : Indent) (config : Config) :
    ∀ c ∈ indentString indent config, isWhitespace c = true := by
  intro c hc
  unfold indentString at hc
  split at hc
  · rename_i s hs
    unfold Indent.to_string Indent.to_string_inner at hs
    have key : ∀ {x : Nat × Nat}, (if x.1 = 0 ∧ x.1 + x.2 + 1 ≤ INDENT_BUFFER_LEN then
        sliceInclusive INDENT_BUFFER 1 (x.1 + x.2)
        else .ok ((if (1 : Nat) = 0 then ['\n'] else []) ++ List.replicate x.1 '\t' ++
          List.replicate x.2 ' ')) = Except.ok s → c = '\n' ∨ c = ' ' ∨ c = '\t' := by
      intro x hx
      split at hx
      · unfold sliceInclusive at hx
        split at hx
        · simp only [Except.ok.injEq] at hx
          subst hx
          have h1 := List.mem_of_mem_take hc
          have h2 := List.mem_of_mem_drop h1
          simp only [INDENT_BUFFER, List.mem_cons, List.mem_replicate] at h2
          rcases h2 with h | h
          · exact Or.inl h
          · exact Or.inr (Or.inl h.2)
        · simp at hx
      · simp only [Except.ok.injEq] at hx
        subst hx
        simp only [Nat.succ_ne_zero, ↓reduceIte, List.nil_append, List.mem_append,
          List.mem_replicate] at hc
        rcases hc with h | h
        · exact Or.inr (Or.inr h.2)
        · exact Or.inr (Or.inl h.2)
    have hcws : c = '\n' ∨ c = ' ' ∨ c = '\t' := by
      split at hs
      · split at hs
        · simp at hs
        · rename_i t ht
          exact key (x := (t, indent.alignment)) hs
      · exact key (x := (0, indent.width)) hs
    rcases hcws with rfl | rfl | rfl <;> decide
  · simp at hc

/-- Without its blanks, the result is the concatenation of its non-blank pieces. -/
theorem squeeze_render {ind : List Char} (hind : ∀ c ∈ ind, isWhitespace c = true) :
    ∀ (ps : List Piece), BlanksOK ind ps →
      squeeze (render ps) = (nonBlank ps).flatMap (fun p => squeeze p.text) := by
  intro ps
  induction ps with
  | nil => intro _; rfl
  | cons p ps ih =>
    intro hb
    have hb' : BlanksOK ind ps := fun q hq => hb q (List.mem_cons_of_mem _ hq)
    rw [render_cons, squeeze_append, ih hb']
    by_cases hk : p.kind = .blank
    · have hws : ∀ c ∈ p.text, isWhitespace c = true := by
        intro c hc
        rcases hb p (List.mem_cons_self) hk c hc with rfl | rfl | h
        · decide
        · decide
        · exact hind c h
      rw [squeeze_of_ws hws]
      simp [nonBlank, hk]
    · simp [nonBlank, hk]

/-! ### Content -/

theorem content_pre {rc : Rc} {item : ListItem} {ps : List Piece}
    (hrc : ∀ c bs sh r, rc c bs sh = some r → squeeze r = squeeze c) (h : PreOK rc item ps) :
    ps.flatMap (fun p => squeeze p.text) = squeeze (item.preComment.getD []) := by
  unfold PreOK at h
  split at h
  · rename_i hc; subst h; simp [hc, squeeze]
  · rename_i c hc
    obtain ⟨r, bs, sh, hr, rfl⟩ := h
    simp [hc, hrc c bs sh r hr]

theorem content_post {rc : Rc} {item : ListItem} {ps : List Piece}
    (hrc : ∀ c bs sh r, rc c bs sh = some r → squeeze r = squeeze c) (h : PostOK rc item ps) :
    ps.flatMap (fun p => squeeze p.text) = squeeze (item.postComment.getD []) := by
  unfold PostOK at h
  split at h
  · rename_i hc; subst h; simp [hc, squeeze]
  · rename_i c hc
    obtain ⟨r, bs, sh, hr, rfl⟩ := h
    rcases hr with hr | hr
    · simp [hc, hrc c bs sh r hr]
    · simp [hc, hrc _ bs sh r hr, squeeze_trimStart]

theorem content_block {rc : Rc} {item : ListItem} {pre post : List Piece} (f : ListFormatting)
    (sp : SeparatorPlace) (i : Nat) (last : Bool) (inner : List Char)
    (hrc : ∀ c bs sh r, rc c bs sh = some r → squeeze r = squeeze c)
    (hit : item.item = some inner) (hs : item.isSubstantial = true)
    (hpre : PreOK rc item pre) (hpost : PostOK rc item post) :
    (blockTokens f sp i last inner pre post).flatMap (fun p => squeeze p.text) =
      itemContent f sp i last item := by
  unfold blockTokens itemContent sepFront sepBack
  have h1 := content_pre hrc hpre
  have h2 := content_post hrc hpost
  simp only [hs, Bool.not_true, Bool.false_eq_true, ↓reduceIte, List.flatMap_append, h1,
    ListItem.innerAsRef, hit, Option.getD_some]
  by_cases ht : f.tactic = .horizontal
  · simp only [ht, ↓reduceIte, beq_self_eq_true, List.flatMap_append, h2]
    split <;> split <;> simp [squeeze_trim]
  · have ht' : (f.tactic == DefinitiveListTactic.horizontal) = false := by simp [ht]
    simp only [ht, ↓reduceIte, ht', Bool.false_eq_true, List.flatMap_append, h2]
    split <;> split <;> simp [squeeze_trim]

/-- **Content.**  If the comment rewriter keeps the non-blank characters of a comment, the non-blank
characters of the token list are those of `contentGo`. -/
theorem tokens_content {f : ListFormatting} {rc : Rc} {sp : SeparatorPlace} {i : Nat}
    {items : List ListItem} {ts : List Piece}
    (hrc : ∀ c bs sh r, rc c bs sh = some r → squeeze r = squeeze c)
    (h : TokensOK f rc sp i items ts) :
    ts.flatMap (fun p => squeeze p.text) = contentGo f sp i items := by
  induction h with
  | nil i => simp [contentGo]
  | skip inner hit hs _ ih => simpa [contentGo, itemContent, hs] using ih
  | write inner pre post hit hs hpre hpost _ ih =>
    rw [List.flatMap_append, content_block f sp _ _ inner hrc hit hs hpre hpost, ih]
    simp [contentGo]

/-! ### definitive_tactic -/

theorem calculateWidth_go (items : List ListItem) (a b : Nat) :
    items.foldl (fun acc it => (acc.1 + 1, acc.2 + totalItemWidth it)) (a, b) =
      (a + items.length, b + (items.map totalItemWidth).sum) := by
  induction items generalizing a b with
  | nil => simp
  | cons it rest ih =>
    simp only [List.foldl_cons, List.length_cons, List.map_cons, List.sum_cons]
    rw [ih]
    congr 1 <;> omega

/-- `calculate_width` returns the number of items and the sum of their widths. -/
theorem calculateWidth_eq (items : List ListItem) :
    calculateWidth items = (items.length, (items.map totalItemWidth).sum) := by
  simpa [calculateWidth] using calculateWidth_go items 0 0

/-- What `definitive_tactic` measures: the widths of the items plus one separator between
neighbours. -/
def realTotal (items : List ListItem) (sep : Separator) : Nat :=
  (items.map totalItemWidth).sum + sep.len * (items.length - 1)

/-- The limit the measured width is compared with. -/
def tacticLimit (tactic : ListTactic) (width : Nat) : Nat :=
  match tactic with
  | .limitedHorizontalVertical limit => min width limit
  | _ => width

theorem definitiveTactic_eq (items : List ListItem) (tactic : ListTactic) (sep : Separator) (width : Nat) :
    definitiveTactic items tactic sep width =
      if items.any ListItem.hasSingleLineComment then .vertical
      else match tactic with
        | .horizontal => .horizontal
        | .vertical => .vertical
        | _ =>
          if realTotal items sep ≤ tacticLimit tactic width ∧ items.any ListItem.isMultiline = false then
            .horizontal
          else if tactic = .mixed then .mixed else .vertical := by
  unfold definitiveTactic
  simp only [calculateWidth_eq, realTotal, tacticLimit]
  split
  · rfl
  · cases tactic <;> simp <;> (split <;> simp_all)

theorem trimEnd_prefix (s : List Char) : trimEnd s <+: s := by
  induction s with
  | nil => exact List.prefix_refl _
  | cons a cs ih =>
    simp only [trimEnd]
    split
    · exact List.nil_prefix
    · exact (List.prefix_cons_inj a).2 ih

theorem trimEnd_cons_of_not_ws {a : Char} (h : isWhitespace a = false) (s : List Char) :
    trimEnd (a :: s) = a :: trimEnd s := by
  simp [trimEnd, h]

theorem startsWith_trimEnd_slashes (t : List Char) :
    startsWith ['/', '/'] (trimEnd t) = startsWith ['/', '/'] t := by
  have hw : isWhitespace '/' = false := by decide
  cases h : startsWith ['/', '/'] t with
  | true =>
    obtain ⟨r, hr⟩ := List.isPrefixOf_iff_prefix.mp h
    subst hr
    simp [trimEnd_cons_of_not_ws hw, startsWith]
  | false =>
    cases h' : startsWith ['/', '/'] (trimEnd t) with
    | false => rfl
    | true =>
      have := (List.isPrefixOf_iff_prefix.mp h').trans (trimEnd_prefix t)
      have h2 : startsWith ['/', '/'] t = true := List.isPrefixOf_iff_prefix.mpr this
      rw [h2] at h
      exact absurd h (by simp)

theorem dropWhile_head_not {p : Char → Bool} :
    ∀ (l : List Char) (y : Char) (ys : List Char), l.dropWhile p = y :: ys → p y = false := by
  intro l
  induction l with
  | nil => intro y ys h; simp at h
  | cons a as ih =>
    intro y ys h
    simp only [List.dropWhile_cons] at h
    split at h
    · exact ih y ys h
    · rename_i hpa
      simp only [List.cons.injEq] at h
      obtain ⟨rfl, _⟩ := h
      simpa using hpa

/-- `has_single_line_comment` looks at the trimmed comment only. -/
theorem startsWithSlashes_trim (c : List Char) : startsWithSlashes (trim c) = startsWithSlashes c := by
  unfold startsWithSlashes
  have h1 : trimStart (trim c) = trim c := by
    -- `trim c` does not start with white space
    unfold trim
    have : ∀ s : List Char, (∀ x, s.head? = some x → isWhitespace x = false) →
        trimStart (trimEnd s) = trimEnd s := by
      intro s hs
      cases s with
      | nil => rfl
      | cons x xs =>
        have hx := hs x rfl
        simp only [trimEnd]
        split
        · rfl
        · simp [trimStart, hx]
    apply this
    intro x hx
    simp only [trimStart] at hx
    cases hd : List.dropWhile isWhitespace c with
    | nil => simp [hd] at hx
    | cons y ys =>
      simp only [hd, List.head?_cons, Option.some.injEq] at hx
      subst hx
      exact dropWhile_head_not c _ ys hd
  rw [h1, trim, startsWith_trimEnd_slashes]

/-- Two comments that `definitive_tactic` cannot tell apart. -/
def SameComment (a b : Option (List Char)) : Prop :=
  match a, b with
  | none, none => True
  | some c, some c' => trim c' = trim c ∧ hasNewline c' = hasNewline c ∧
      endsWithLineComment c' = endsWithLineComment c
  | _, _ => False

/-- Two items that `definitive_tactic` cannot tell apart. -/
def SameMeasure (a b : ListItem) : Prop :=
  b.item = a.item ∧ SameComment a.preComment b.preComment ∧ SameComment a.postComment b.postComment

theorem sameComment_facts {a b : Option (List Char)} (h : SameComment a b) :
    commentLen b = commentLen a ∧ optAny hasNewline b = optAny hasNewline a ∧
      optAny isOrEndsWithLineComment b = optAny isOrEndsWithLineComment a := by
  unfold SameComment at h
  cases a <;> cases b <;> simp only at h
  · simp
  · rename_i c c'
    obtain ⟨h1, h2, h3⟩ := h
    refine ⟨by simp [commentLen, h1], h2, ?_⟩
    simp only [optAny, isOrEndsWithLineComment, h3]
    rw [← startsWithSlashes_trim c', ← startsWithSlashes_trim c, h1]

theorem sameMeasure_facts {a b : ListItem} (h : SameMeasure a b) :
    totalItemWidth b = totalItemWidth a ∧ b.isMultiline = a.isMultiline ∧
      b.hasSingleLineComment = a.hasSingleLineComment := by
  obtain ⟨hi, hp, hq⟩ := h
  obtain ⟨p1, p2, p3⟩ := sameComment_facts hp
  obtain ⟨q1, q2, q3⟩ := sameComment_facts hq
  refine ⟨?_, ?_, ?_⟩
  · simp [totalItemWidth, p1, q1, hi]
  · simp only [ListItem.isMultiline, ListItem.innerAsRef, hi, p2, q2]
  · simp only [ListItem.hasSingleLineComment, p3, q3]

theorem forall2_measure {items items' : List ListItem} (h : Forall2 SameMeasure items items') :
    items'.length = items.length ∧ items'.map totalItemWidth = items.map totalItemWidth ∧
      items'.any ListItem.isMultiline = items.any ListItem.isMultiline ∧
      items'.any ListItem.hasSingleLineComment = items.any ListItem.hasSingleLineComment := by
  induction h with
  | nil => simp
  | cons hab _ ih =>
    obtain ⟨h1, h2, h3⟩ := sameMeasure_facts hab
    obtain ⟨i1, i2, i3, i4⟩ := ih
    simp [h1, h2, h3, i1, i2, i3, i4]

/-! ### Gaps -/

/-- What may stand between two items: blanks, a separator, a rewritten comment of one of the items. -/
def GapPiece (f : ListFormatting) (rc : Rc) (items : List ListItem) (p : Piece) : Prop :=
  (p.kind = .blank ∧ ∀ c ∈ p.text, c = ' ' ∨ c = '\n' ∨ c ∈ indentString f.shape.indent f.config) ∨
  (p.kind = .sep ∧ (p.text = f.separator ∨ p.text = trim f.separator)) ∨
  (p.kind = .pre ∧ ∃ it ∈ items, ∃ c, it.preComment = some c ∧ Rewritten rc p.text c) ∨
  (p.kind = .post ∧ ∃ it ∈ items, ∃ c, it.postComment = some c ∧ Rewritten rc p.text c)

theorem gapPiece_mono {f : ListFormatting} {rc : Rc} {items : List ListItem} {p : Piece} (it : ListItem)
    (h : GapPiece f rc items p) : GapPiece f rc (it :: items) p := by
  rcases h with h | h | ⟨hk, x, hx, c, hc, hr⟩ | ⟨hk, x, hx, c, hc, hr⟩
  · exact Or.inl h
  · exact Or.inr (Or.inl h)
  · exact Or.inr (Or.inr (Or.inl ⟨hk, x, List.mem_cons_of_mem _ hx, c, hc, hr⟩))
  · exact Or.inr (Or.inr (Or.inr ⟨hk, x, List.mem_cons_of_mem _ hx, c, hc, hr⟩))

theorem tokens_gap {f : ListFormatting} {rc : Rc} {sp : SeparatorPlace} {i : Nat}
    {items : List ListItem} {ts : List Piece} (h : TokensOK f rc sp i items ts) :
    ∀ p ∈ ts, p.kind = .item ∨ GapPiece f rc items p := by
  induction h with
  | nil i => simp
  | skip inner hit hs _ ih =>
    intro p hp
    rcases ih p hp with h | h
    · exact Or.inl h
    · exact Or.inr (gapPiece_mono _ h)
  | write inner pre post hit hs hpre hpost _ ih =>
    rename_i i' item rest ts' _
    intro p hp
    rcases List.mem_append.mp hp with hp | hp
    · have hpreC : ∀ q ∈ pre, GapPiece f rc (item :: rest) q := by
        intro q hq
        unfold PreOK at hpre
        split at hpre
        · subst hpre; simp at hq
        · rename_i c hc
          obtain ⟨r, bs, sh, hr, rfl⟩ := hpre
          simp only [List.mem_singleton] at hq
          subst hq
          exact Or.inr (Or.inr (Or.inl ⟨rfl, item, List.mem_cons_self, c, hc, bs, sh, Or.inl hr⟩))
      have hpostC : ∀ q ∈ post, GapPiece f rc (item :: rest) q := by
        intro q hq
        unfold PostOK at hpost
        split at hpost
        · subst hpost; simp at hq
        · rename_i c hc
          obtain ⟨r, bs, sh, hr, rfl⟩ := hpost
          simp only [List.mem_singleton] at hq
          subst hq
          exact Or.inr (Or.inr (Or.inr ⟨rfl, item, List.mem_cons_self, c, hc, bs, sh, hr⟩))
      have hsf : ∀ q ∈ sepFront f sp i' rest.isEmpty, GapPiece f rc (item :: rest) q := by
        intro q hq
        unfold sepFront at hq
        split at hq
        · simp only [List.mem_singleton] at hq; subst hq; exact Or.inr (Or.inl ⟨rfl, Or.inr rfl⟩)
        · simp at hq
      have hsb : ∀ q ∈ sepBack f sp i' rest.isEmpty, GapPiece f rc (item :: rest) q := by
        intro q hq
        unfold sepBack at hq
        split at hq
        · simp only [List.mem_singleton] at hq; subst hq; exact Or.inr (Or.inl ⟨rfl, Or.inl rfl⟩)
        · simp at hq
      unfold blockTokens at hp
      simp only [List.mem_append, List.mem_singleton] at hp
      rcases hp with ((hp | hp) | hp) | hp
      · exact Or.inr (hpreC p hp)
      · exact Or.inr (hsf p hp)
      · subst hp; exact Or.inl rfl
      · split at hp
        · rcases List.mem_append.mp hp with hp | hp
          · exact Or.inr (hpostC p hp)
          · exact Or.inr (hsb p hp)
        · rcases List.mem_append.mp hp with hp | hp
          · exact Or.inr (hsb p hp)
          · exact Or.inr (hpostC p hp)
    · rcases ih p hp with h | h
      · exact Or.inl h
      · exact Or.inr (gapPiece_mono _ h)

/-- Every piece of the result that is not an item is a gap piece. -/
theorem pieces_gap {f : ListFormatting} {rc : Rc} {items : List ListItem} {ps : List Piece}
    (h : writeListPieces f rc items = some ps) :
    ∀ p ∈ ps, p.kind ≠ .item → GapPiece f rc items p := by
  obtain ⟨hb, hts⟩ := writeListPieces_shape h
  intro p hp hk
  by_cases hbk : p.kind = .blank
  · exact Or.inl ⟨hbk, hb p hp hbk⟩
  · have : p ∈ nonBlank ps := by simp [nonBlank, hp, hbk]
    rcases tokens_gap hts p this with h' | h'
    · exact absurd h' hk
    · exact h'

theorem itemTexts_nonBlank (ps : List Piece) : itemTexts (nonBlank ps) = itemTexts ps := by
  simp only [itemTexts, nonBlank, List.filter_filter]
  congr 1
  apply List.filter_congr
  intro p _
  cases p.kind <;> rfl

theorem commentTexts_nonBlank (ps : List Piece) : commentTexts (nonBlank ps) = commentTexts ps := by
  simp only [commentTexts, nonBlank, List.filter_filter]
  congr 1
  apply List.filter_congr
  intro p _
  cases p.kind <;> rfl

theorem sepTexts_nonBlank (ps : List Piece) : sepTexts (nonBlank ps) = sepTexts ps := by
  simp only [sepTexts, nonBlank, List.filter_filter]
  congr 1
  apply List.filter_congr
  intro p _
  cases p.kind <;> rfl

/-! ### Splitting a piece list at its items -/

/-- `g0 ++ x1 ++ g1 ++ … ++ xn ++ gn` -/
def weave : List (List Char) → List (List Char) → List Char
  | g :: gs, x :: xs => g ++ x ++ weave gs xs
  | g :: _, [] => g
  | [], _ => []

/-- The maximal runs of non-item pieces (one more than there are item pieces). -/
def splitGaps : List Piece → List (List Piece)
  | [] => [[]]
  | p :: ps =>
    match splitGaps ps with
    | g :: gs => if p.kind == .item then [] :: g :: gs else (p :: g) :: gs
    | [] => [[p]]

theorem splitGaps_ne_nil (ps : List Piece) : splitGaps ps ≠ [] := by
  cases ps with
  | nil => simp [splitGaps]
  | cons p ps =>
    simp only [splitGaps]
    split
    · split <;> simp
    · simp

theorem splitGaps_length (ps : List Piece) : (splitGaps ps).length = (itemTexts ps).length + 1 := by
  induction ps with
  | nil => simp [splitGaps, itemTexts]
  | cons p ps ih =>
    simp only [splitGaps]
    split
    · rename_i g gs hg
      rw [hg] at ih
      by_cases hk : p.kind = .item
      · simp [hk, itemTexts] at ih ⊢; omega
      · simp [hk, itemTexts] at ih ⊢; omega
    · rename_i hg
      exact absurd hg (splitGaps_ne_nil ps)

theorem splitGaps_weave (ps : List Piece) :
    render ps = weave ((splitGaps ps).map render) (itemTexts ps) := by
  induction ps with
  | nil => simp [splitGaps, itemTexts, weave]
  | cons p ps ih =>
    simp only [splitGaps]
    split
    · rename_i g gs hg
      rw [hg] at ih
      by_cases hk : p.kind = .item
      · simp only [hk, beq_self_eq_true, ↓reduceIte, List.map_cons, render_cons, ih]
        simp [itemTexts, hk, weave]
      · have hk' : (p.kind == PieceKind.item) = false := by simp [hk]
        simp only [hk', Bool.false_eq_true, ↓reduceIte, List.map_cons, render_cons, ih]
        have hit : itemTexts (p :: ps) = itemTexts ps := by simp [itemTexts, hk]
        rw [hit]
        cases itemTexts ps <;> simp [weave]
    · rename_i hg
      exact absurd hg (splitGaps_ne_nil ps)

theorem splitGaps_mem (ps : List Piece) : ∀ g ∈ splitGaps ps, ∀ p ∈ g, p ∈ ps ∧ p.kind ≠ .item := by
  induction ps with
  | nil => simp [splitGaps]
  | cons q ps ih =>
    simp only [splitGaps]
    split
    · rename_i g gs hg
      rw [hg] at ih
      by_cases hk : q.kind = .item
      · simp only [hk, beq_self_eq_true, ↓reduceIte]
        intro g' hg' p hp
        rcases List.mem_cons.mp hg' with rfl | hg'
        · simp at hp
        · obtain ⟨h1, h2⟩ := ih g' hg' p hp
          exact ⟨List.mem_cons_of_mem _ h1, h2⟩
      · have hk' : (q.kind == PieceKind.item) = false := by simp [hk]
        simp only [hk', Bool.false_eq_true, ↓reduceIte]
        intro g' hg' p hp
        rcases List.mem_cons.mp hg' with rfl | hg'
        · rcases List.mem_cons.mp hp with rfl | hp
          · exact ⟨List.mem_cons_self, hk⟩
          · obtain ⟨h1, h2⟩ := ih g List.mem_cons_self p hp
            exact ⟨List.mem_cons_of_mem _ h1, h2⟩
        · obtain ⟨h1, h2⟩ := ih g' (List.mem_cons_of_mem _ hg') p hp
          exact ⟨List.mem_cons_of_mem _ h1, h2⟩
    · rename_i hg
      exact absurd hg (splitGaps_ne_nil ps)

/-! ### The one-directional relation used for "horizontal again" -/

/-- `b` is `a` after a rewrite that keeps the trimmed text and introduces no newline. -/
def CommentKept (a b : Option (List Char)) : Prop :=
  match a, b with
  | none, none => True
  | some c, some c' => trim c' = trim c ∧ (hasNewline c = false → hasNewline c' = false) ∧
      endsWithLineComment c' = endsWithLineComment c
  | _, _ => False

def ItemKept (a b : ListItem) : Prop :=
  b.item = a.item ∧ CommentKept a.preComment b.preComment ∧ CommentKept a.postComment b.postComment

theorem commentKept_facts {a b : Option (List Char)} (h : CommentKept a b) :
    commentLen b = commentLen a ∧ (optAny hasNewline a = false → optAny hasNewline b = false) ∧
      optAny isOrEndsWithLineComment b = optAny isOrEndsWithLineComment a := by
  unfold CommentKept at h
  cases a <;> cases b <;> simp only at h
  · simp
  · rename_i c c'
    obtain ⟨h1, h2, h3⟩ := h
    refine ⟨by simp [commentLen, h1], h2, ?_⟩
    simp only [optAny, isOrEndsWithLineComment, h3]
    rw [← startsWithSlashes_trim c', ← startsWithSlashes_trim c, h1]

theorem itemKept_facts {a b : ListItem} (h : ItemKept a b) :
    totalItemWidth b = totalItemWidth a ∧ (a.isMultiline = false → b.isMultiline = false) ∧
      b.hasSingleLineComment = a.hasSingleLineComment := by
  obtain ⟨hi, hp, hq⟩ := h
  obtain ⟨p1, p2, p3⟩ := commentKept_facts hp
  obtain ⟨q1, q2, q3⟩ := commentKept_facts hq
  refine ⟨?_, ?_, ?_⟩
  · simp [totalItemWidth, p1, q1, hi]
  · simp only [ListItem.isMultiline, ListItem.innerAsRef, hi, Bool.or_eq_false_iff]
    rintro ⟨⟨h1, h2⟩, h3⟩
    exact ⟨⟨h1, p2 h2⟩, q2 h3⟩
  · simp only [ListItem.hasSingleLineComment, p3, q3]

theorem forall2_kept {items items' : List ListItem} (h : Forall2 ItemKept items items') :
    items'.length = items.length ∧ items'.map totalItemWidth = items.map totalItemWidth ∧
      (items.any ListItem.isMultiline = false → items'.any ListItem.isMultiline = false) ∧
      items'.any ListItem.hasSingleLineComment = items.any ListItem.hasSingleLineComment := by
  induction h with
  | nil => simp
  | cons hab _ ih =>
    obtain ⟨h1, h2, h3⟩ := itemKept_facts hab
    obtain ⟨i1, i2, i3, i4⟩ := ih
    refine ⟨by simp [i1], by simp [h1, i2], ?_, by simp [h3, i4]⟩
    simp only [List.any_cons, Bool.or_eq_false_iff]
    rintro ⟨ha, hr⟩
    exact ⟨h2 ha, i3 hr⟩

theorem trimEnd_idem (s : List Char) : trimEnd (trimEnd s) = trimEnd s := by
  induction s with
  | nil => rfl
  | cons c cs ih =>
    simp only [trimEnd]
    split
    · rfl
    · rename_i h
      simp only [trimEnd, ih]
      simp [h]

theorem trimStart_trim (c : List Char) : trimStart (trim c) = trim c := by
  unfold trim
  have : ∀ s : List Char, (∀ x, s.head? = some x → isWhitespace x = false) →
      trimStart (trimEnd s) = trimEnd s := by
    intro s hs
    cases s with
    | nil => rfl
    | cons x xs =>
      have hx := hs x rfl
      simp only [trimEnd]
      split
      · rfl
      · simp [trimStart, hx]
  apply this
  intro x hx
  simp only [trimStart] at hx
  cases hd : List.dropWhile isWhitespace c with
  | nil => simp [hd] at hx
  | cons y ys =>
    simp only [hd, List.head?_cons, Option.some.injEq] at hx
    subst hx
    exact dropWhile_head_not c _ ys hd

theorem trim_idem (c : List Char) : trim (trim c) = trim c := by
  have h := trimStart_trim c
  unfold trim at h ⊢
  rw [h, trimEnd_idem]

theorem hasNewline_trim (c : List Char) (h : hasNewline c = false) : hasNewline (trim c) = false := by
  cases h' : hasNewline (trim c) with
  | false => rfl
  | true =>
    simp only [hasNewline, List.contains_eq_mem, decide_eq_true_eq] at h'
    have h1 : '\n' ∈ trimStart c := (trimEnd_prefix (trimStart c)).subset h'
    have h2 : '\n' ∈ c := (List.dropWhile_suffix isWhitespace).subset h1
    simp [hasNewline, h2] at h

/-! ### The two embedding oracles are implied by the structure -/

/-- `xs` occur in `s` as disjoint substrings, in this order. -/
inductive Embeds : List (List Char) → List Char → Prop where
  | nil (s : List Char) : Embeds [] s
  | cons (g x : List Char) (xs : List (List Char)) (s : List Char) :
      Embeds xs s → Embeds (x :: xs) (g ++ x ++ s)

theorem Embeds.extend {xs : List (List Char)} {t : List Char} (u : List Char) (h : Embeds xs t) :
    Embeds xs (u ++ t) := by
  cases h with
  | nil => exact .nil _
  | cons g x xs s h' =>
    have : u ++ (g ++ x ++ s) = (u ++ g) ++ x ++ s := by simp [List.append_assoc]
    rw [this]
    exact .cons (u ++ g) x xs s h'

theorem Embeds.append {a b : List (List Char)} {s t : List Char} (h1 : Embeds a s) (h2 : Embeds b t) :
    Embeds (a ++ b) (s ++ t) := by
  induction h1 with
  | nil s => exact h2.extend s
  | cons g x xs s' _ ih =>
    have : g ++ x ++ s' ++ t = g ++ x ++ (s' ++ t) := by simp [List.append_assoc]
    rw [List.cons_append, this]
    exact .cons g x _ _ ih

theorem Embeds.append_right {a : List (List Char)} {s : List Char} (t : List Char) (h : Embeds a s) :
    Embeds a (s ++ t) := by
  simpa using h.append (.nil t)

theorem Embeds.single (x : List Char) : Embeds [x] x := by
  simpa using Embeds.cons [] x [] [] (.nil [])

theorem dropThrough_sound (x : List Char) :
    ∀ (s r : List Char), dropThrough x s = some r → ∃ g, s = g ++ x ++ r := by
  intro s
  induction s with
  | nil =>
    intro r h
    simp only [dropThrough] at h
    split at h
    · rename_i hx
      simp only [Option.some.injEq] at h
      subst h
      exact ⟨[], by simpa using hx⟩
    · simp at h
  | cons c cs ih =>
    intro r h
    simp only [dropThrough] at h
    split at h
    · rename_i hp
      simp only [Option.some.injEq] at h
      obtain ⟨t, ht⟩ := List.isPrefixOf_iff_prefix.mp hp
      refine ⟨[], ?_⟩
      rw [← ht] at h ⊢
      simp only [List.drop_left] at h
      subst h
      simp
    · obtain ⟨g, hg⟩ := ih r h
      exact ⟨c :: g, by simp [hg]⟩

theorem dropThrough_complete (x r : List Char) :
    ∀ g : List Char, ∃ u, dropThrough x (g ++ x ++ r) = some (u ++ r) := by
  intro g
  induction g with
  | nil =>
    cases hxr : x ++ r with
    | nil =>
      have hx : x = [] := (List.append_eq_nil_iff.mp hxr).1
      have hr : r = [] := (List.append_eq_nil_iff.mp hxr).2
      subst hx hr
      exact ⟨[], by simp [dropThrough]⟩
    | cons c cs =>
      refine ⟨[], ?_⟩
      simp only [List.nil_append, hxr, dropThrough]
      have hp : x.isPrefixOf (c :: cs) = true := by
        rw [← hxr]; exact List.isPrefixOf_iff_prefix.mpr (List.prefix_append x r)
      simp only [hp, ↓reduceIte, Option.some.injEq]
      rw [← hxr, List.drop_left]
  | cons a g' ih =>
    simp only [List.cons_append, dropThrough]
    split
    · refine ⟨List.drop x.length (a :: (g' ++ x)), ?_⟩
      have hlen : x.length ≤ (a :: (g' ++ x)).length := by simp; omega
      have : a :: (g' ++ x ++ r) = (a :: (g' ++ x)) ++ r := by simp
      rw [this, List.drop_append_of_le_length hlen]
    · simpa [List.append_assoc] using ih

theorem occursInOrder_extend :
    ∀ (xs : List (List Char)) (r u : List Char), occursInOrder xs r = true →
      occursInOrder xs (u ++ r) = true := by
  intro xs
  induction xs with
  | nil => intro r u _; rfl
  | cons x xs ih =>
    intro r u h
    simp only [occursInOrder] at h ⊢
    split at h
    · rename_i r1 hr1
      obtain ⟨g, hg⟩ := dropThrough_sound x r r1 hr1
      obtain ⟨u', hu'⟩ := dropThrough_complete x r1 (u ++ g)
      have : u ++ r = u ++ g ++ x ++ r1 := by rw [hg]; simp [List.append_assoc]
      rw [this, hu']
      exact ih r1 u' h
    · simp at h

/-- The leftmost matching of `occursInOrder` finds an embedding whenever there is one. -/
theorem occursInOrder_of_embeds {xs : List (List Char)} {s : List Char} (h : Embeds xs s) :
    occursInOrder xs s = true := by
  induction h with
  | nil s => rfl
  | cons g x xs s' _ ih =>
    obtain ⟨u, hu⟩ := dropThrough_complete x s' g
    simp only [occursInOrder, hu]
    exact occursInOrder_extend xs s' u ih

theorem embeds_items (ps : List Piece) : Embeds (itemTexts ps) (render ps) := by
  induction ps with
  | nil => exact .nil _
  | cons p ps ih =>
    rw [render_cons]
    by_cases hk : p.kind = .item
    · have : itemTexts (p :: ps) = p.text :: itemTexts ps := by simp [itemTexts, hk]
      rw [this]
      simpa using Embeds.cons [] p.text _ _ ih
    · have : itemTexts (p :: ps) = itemTexts ps := by simp [itemTexts, hk]
      rw [this]
      exact ih.extend _

theorem embeds_opt (o : Option (List Char)) :
    Embeds (o.toList.map squeeze) (squeeze (o.getD [])) := by
  cases o with
  | none => exact .nil _
  | some c => exact Embeds.single _

theorem embeds_itemContent (f : ListFormatting) (sp : SeparatorPlace) (i : Nat) (last : Bool)
    (item : ListItem) (hs : item.isSubstantial = true) :
    Embeds ((item.preComment.toList ++ item.postComment.toList).map squeeze)
      (itemContent f sp i last item) := by
  unfold itemContent
  simp only [hs, Bool.not_true, Bool.false_eq_true, ↓reduceIte, List.map_append]
  have hpre := embeds_opt item.preComment
  have hpost := embeds_opt item.postComment
  have htail : ∀ (sepB : List Char), Embeds (item.postComment.toList.map squeeze)
      (if (f.tactic == DefinitiveListTactic.horizontal) = true then
        squeeze (item.postComment.getD []) ++ sepB else sepB ++ squeeze (item.postComment.getD [])) := by
    intro sepB
    split
    · exact hpost.append_right _
    · exact hpost.extend _
  have h1 := (hpre.append_right
    (if (separateSpec f sp i last && sp.isFront && i != 0) = true then squeeze f.separator else [])).append_right
      (squeeze item.innerAsRef)
  exact h1.append (htail _)

theorem embeds_comments (f : ListFormatting) (sp : SeparatorPlace) :
    ∀ (items : List ListItem) (i : Nat), Embeds (commentStrings items) (contentGo f sp i items) := by
  intro items
  induction items with
  | nil => intro i; exact .nil _
  | cons item rest ih =>
    intro i
    simp only [contentGo]
    cases hs : item.isSubstantial with
    | false =>
      have : commentStrings (item :: rest) = commentStrings rest := by simp [commentStrings, hs]
      rw [this]
      exact (ih (i + 1)).extend _
    | true =>
      have : commentStrings (item :: rest) =
          (item.preComment.toList ++ item.postComment.toList).map squeeze ++ commentStrings rest := by
        simp [commentStrings, hs]
      rw [this]
      exact (embeds_itemContent f sp i rest.isEmpty item hs).append (ih (i + 1))

/-! ### A comment-free list written horizontally -/

/-- An item without comments whose item string is present and not empty. -/
def Plain (it : ListItem) : Prop :=
  it.preComment = none ∧ it.postComment = none ∧ ∃ s, it.item = some s ∧ s ≠ []

/-- What the loop appends for plain items from index `i` on in a horizontal comma list without a
trailing separator: a space in front of every item but the first, a comma after every item but the last. -/
def horizGo : Nat → List ListItem → List Char
  | _, [] => []
  | i, it :: rest =>
    (if i = 0 then [] else [' ']) ++ it.innerAsRef ++ (if rest.isEmpty then [] else [',']) ++
      horizGo (i + 1) rest

theorem step_plain_horizontal {f : ListFormatting} (rc : Rc) (ind : List Char) (i : Nat)
    (it : ListItem) (rest : List ListItem) (st : State)
    (hf : f.tactic = .horizontal) (hsep : f.separator = [','])
    (hts : st.trailingSeparator = false) (hp : Plain it) :
    (step f rc ind .back i it rest st).map (fun s => (render s.pieces, s.trailingSeparator)) =
      some (render st.pieces ++ ((if i = 0 then [] else [' ']) ++ it.innerAsRef ++
        (if rest.isEmpty then [] else [','])), false) := by
  obtain ⟨hpre, hpost, s, hs, hne⟩ := hp
  have hsub : it.isSubstantial = true := by
    simp [ListItem.isSubstantial, ListItem.emptyOpt, hs, hne]
  by_cases hi : i = 0 <;> cases hr : rest.isEmpty <;>
    simp [step, hs, hsub, stepBody, tacticBlank, hf, preCommentPieces, hpre, horizontalPostPieces, hpost,
      verticalPostPieces, itemPieces, backSepPieces, preserveNewlinePieces, mkEnv, separate0, hts,
      SeparatorPlace.isFront, SeparatorPlace.isBack, hsep, hi, hr, ListItem.innerAsRef, bl]

theorem loop_plain_horizontal {f : ListFormatting} (rc : Rc) (ind : List Char)
    (hf : f.tactic = .horizontal) (hsep : f.separator = [',']) :
    ∀ (items : List ListItem) (i : Nat) (st : State), (∀ it ∈ items, Plain it) →
      st.trailingSeparator = false →
      (loop f rc ind .back i items st).map (fun s => render s.pieces) =
        some (render st.pieces ++ horizGo i items) := by
  intro items
  induction items with
  | nil => intro i st _ _; simp [loop, horizGo]
  | cons it rest ih =>
    intro i st hp hts
    have h1 := step_plain_horizontal rc ind i it rest st hf hsep hts (hp it List.mem_cons_self)
    simp only [Option.map_eq_some_iff, Prod.mk.injEq] at h1
    obtain ⟨st1, hst1, hr1, hts1⟩ := h1
    simp only [loop, hst1]
    rw [ih (i + 1) st1 (fun x hx => hp x (List.mem_cons_of_mem _ hx)) hts1, hr1]
    simp [horizGo, List.append_assoc]

theorem strWidth_cons (x : Char) (l : List Char) :
    strWidth (x :: l) = (if x = '\n' || (x = '\r' && l.head? = some '\n') then 0 else 1) + strWidth l := rfl

theorem strWidth_cons_plain (x : Char) (l : List Char) (h1 : x ≠ '\n') (h2 : x ≠ '\r') :
    strWidth (x :: l) = 1 + strWidth l := by
  simp [strWidth_cons, h1, h2]

/-- `str_width` is additive except across a `\r` | `\n` boundary. -/
theorem strWidth_append (a b : List Char) (hb : b.head? ≠ some '\n') :
    strWidth (a ++ b) = strWidth a + strWidth b := by
  induction a with
  | nil => simp [strWidth]
  | cons x xs ih =>
    cases xs with
    | nil =>
      simp only [List.cons_append, List.nil_append, strWidth_cons, List.head?_nil]
      have : (x = '\r' && b.head? = some '\n') = false := by simp [hb]
      simp [this, strWidth]
    | cons y ys =>
      rw [List.cons_append, strWidth_cons x ((y :: ys) ++ b), strWidth_cons x (y :: ys), ih]
      simp only [List.cons_append, List.head?_cons, Nat.add_assoc]
      congr 1

theorem horizGo_head (i : Nat) (hi : i ≠ 0) (items : List ListItem) :
    (horizGo i items).head? ≠ some '\n' := by
  cases items with
  | nil => simp [horizGo]
  | cons it rest => simp [horizGo, hi]

theorem strWidth_horizGo_succ (items : List ListItem) :
    ∀ i, i ≠ 0 → strWidth (horizGo i items) + (if items.isEmpty then 0 else 1) =
      (items.map fun it => strWidth it.innerAsRef).sum + 2 * items.length := by
  induction items with
  | nil => intro i _; simp [horizGo, strWidth]
  | cons it rest ih =>
    intro i hi
    have hrest := ih (i + 1) (by omega)
    have hh := horizGo_head (i + 1) (by omega) rest
    simp only [horizGo, hi, ↓reduceIte, List.isEmpty_cons, Bool.false_eq_true, List.map_cons,
      List.sum_cons, List.length_cons, List.cons_append, List.nil_append]
    rw [strWidth_cons_plain ' ' _ (by decide) (by decide)]
    cases hr : rest.isEmpty with
    | true =>
      have : rest = [] := by simpa using hr
      subst this
      simp [horizGo]
      omega
    | false =>
      simp only [hr, Bool.false_eq_true, ↓reduceIte] at hrest ⊢
      rw [List.append_assoc, strWidth_append _ _ (by simp), List.cons_append, List.nil_append,
        strWidth_cons_plain ',' _ (by decide) (by decide)]
      omega

/-- The width of a plain list written horizontally is what `definitive_tactic` measures. -/
theorem strWidth_horizGo_zero (items : List ListItem) :
    strWidth (horizGo 0 items) = (items.map fun it => strWidth it.innerAsRef).sum + 2 * (items.length - 1) := by
  cases items with
  | nil => simp [horizGo, strWidth]
  | cons it rest =>
    have hrest := strWidth_horizGo_succ rest 1 (by omega)
    simp only [horizGo, ↓reduceIte, List.nil_append, List.map_cons, List.sum_cons, List.length_cons,
      Nat.add_sub_cancel, Nat.zero_add]
    cases hr : rest.isEmpty with
    | true =>
      have : rest = [] := by simpa using hr
      subst this
      simp [horizGo]
    | false =>
      simp only [hr, Bool.false_eq_true, ↓reduceIte] at hrest ⊢
      rw [List.append_assoc, strWidth_append _ _ (by simp), List.cons_append, List.nil_append,
        strWidth_cons_plain ',' _ (by decide) (by decide)]
      omega

theorem totalItemWidth_plain {it : ListItem} (h : Plain it) : totalItemWidth it = strWidth it.innerAsRef := by
  obtain ⟨h1, h2, s, hs, _⟩ := h
  simp [totalItemWidth, h1, h2, hs, commentLen, ListItem.innerAsRef]

end RF.Lemmas.Lists
