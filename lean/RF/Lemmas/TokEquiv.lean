import RF.Model.TokEquiv
namespace RF.Tok

/-- tokens outside the class `S` -/
def outside (S : Tok → Bool) (ts : List Tok) : List Tok := ts.filter (fun t => !S t)

@[simp] theorem outside_nil (S) : outside S [] = [] := rfl
theorem outside_cons (S t ts) : outside S (t :: ts) = if S t then outside S ts else t :: outside S ts := by
  unfold outside; by_cases h : S t <;> simp [h]
theorem outside_append (S a b) : outside S (a ++ b) = outside S a ++ outside S b := by
  simp [outside]

structure ActLocal (S : Tok → Bool) (t : Tok) (a : Act) : Prop where
  out : outside S a.out = outside S [t]
  close : ∀ o, a.close = some o → outside S o = [] ∧ ∀ c : Tok, c.isClose = true → S c = true
  comma : (a.commaAfter = true ∨ a.skipComma = true) → S (mkP ',') = true

def RuleLocal (S : Tok → Bool) (f : Rule) : Prop :=
  ∀ enc lo p2 p1 t rest a, f enc lo p2 p1 t rest = some a → ActLocal S t a

structure FrameOk (S : Tok → Bool) (fr : Frame) : Prop where
  close : ∀ o, fr.close = some o → outside S o = [] ∧ ∀ c : Tok, c.isClose = true → S c = true
  comma : (fr.commaAfter = true ∨ fr.skipComma = true) → S (mkP ',') = true

theorem isP_eq {t : Tok} {c : Char} (h : t.isP c = true) : t = mkP c := by
  cases t with | mk cls text =>
  simp [Tok.isP, mkP] at h ⊢
  exact h

theorem closeOut_outside (S) (fr : Frame) (hfr : FrameOk S fr) (t lo : Tok) (ht : t.isClose = true) :
    outside S (closeOut fr t lo) = outside S [t] := by
  unfold closeOut
  have hc := hfr.close
  have hm := hfr.comma
  cases hcl : fr.close with
  | none =>
    simp only []
    split
    · rename_i h
      have : S (mkP ',') = true := hm (Or.inl (by simp at h; exact h.1))
      simp [outside_cons, this]
    · rfl
  | some o =>
    have ⟨h1, h2⟩ := hc o hcl
    have h3 := h2 t ht
    simp only []
    split
    · rename_i h
      have : S (mkP ',') = true := hm (Or.inl (by simp at h; exact h.1))
      simp [outside_append, outside_cons, this, h1, h3]
    · simp [outside_cons, h1, h3]

theorem bpass_outside (S : Tok → Bool) (f : Rule) (hf : RuleLocal S f) :
    ∀ (ts : List Tok) (p2 p1 lo : Tok) (skip : Bool) (st : List Frame),
      (∀ fr ∈ st, FrameOk S fr) → (skip = true → S (mkP ',') = true) →
      outside S (bpass f p2 p1 lo skip st ts) = outside S ts := by
  intro ts
  induction ts with
  | nil => intros; simp [bpass]
  | cons t ts ih =>
    intro p2 p1 lo skip st hst hskip
    unfold bpass
    split
    · rename_i h
      simp at h
      have := isP_eq h.2
      subst this
      rw [ih _ _ _ _ _ hst (by simp), outside_cons, hskip h.1]; simp
    · split
      · split
        · rename_i a ha
          have hl := hf _ _ _ _ _ _ _ ha
          rw [outside_append, ih _ _ _ _ _ (by
            intro fr hfr
            simp at hfr
            rcases hfr with rfl | hfr
            · exact ⟨hl.close, hl.comma⟩
            · exact hst fr hfr) (by simp), hl.out]
          simp [outside_cons]; split <;> rfl
        · rw [outside_cons, outside_cons, ih _ _ _ _ _ (by
            intro fr hfr
            simp at hfr
            rcases hfr with rfl | hfr
            · exact ⟨by simp, by simp⟩
            · exact hst fr hfr) (by simp)]
      · split
        · split
          · rename_i hcl _ fr st'
            have hfr : FrameOk S fr := hst fr (by simp)
            rw [outside_append, closeOut_outside S fr hfr t lo hcl,
              ih _ _ _ _ _ (fun fr' h => hst fr' (by simp [h])) (fun h => hfr.comma (Or.inr h))]
            simp [outside_cons]; split <;> rfl
          · rw [outside_cons, outside_cons, ih _ _ _ _ _ (by simp) (by simp)]
        · split
          · rename_i a ha
            have hl := hf _ _ _ _ _ _ _ ha
            rw [outside_append, ih _ _ _ _ _ hst (by simp), hl.out]
            simp [outside_cons]; split <;> rfl
          · rw [outside_cons, outside_cons, ih _ _ _ _ _ hst (by simp)]

theorem runRule_outside (S f) (hf : RuleLocal S f) (ts) : outside S (runRule f ts) = outside S ts :=
  bpass_outside S f hf ts _ _ _ _ _ (by simp) (by simp)

def clsDelim (t : Tok) : Bool := t.isOpen || t.isClose
def clsTry (t : Tok) : Bool := isTryName t || t.isP '!' || t.isP '?' || t.isP ',' || clsDelim t
def clsAbi (t : Tok) : Bool := isAbiC t
def clsVis (t : Tok) : Bool := t.isI kwIn || t.isP ':'
def clsEmpty (t : Tok) : Bool := t.isP '<' || t.isP '>' || t.isI kwFor || t.isI kwWhere || t.isP ':' || t.isP '+'
def clsPipe (t : Tok) : Bool := t.isP '|'
def clsBlock (t : Tok) : Bool := clsDelim t || t.isP ','
def clsSemi (t : Tok) : Bool := t.isP ';'
def clsComma (t : Tok) : Bool := t.isP ','

theorem actLocal_drop (S : Tok → Bool) (t : Tok) (h : S t = true) : ActLocal S t { out := [] } :=
  ⟨by simp [outside_cons, h], by simp, by simp⟩

theorem isO_isOpen {t : Tok} {c} (h : t.isO c = true) : t.isOpen = true := by
  simp [Tok.isO, Tok.isOpen] at *; exact h.1
theorem isC_isClose {t : Tok} {c} (h : t.isC c = true) : t.isClose = true := by
  simp [Tok.isC, Tok.isClose] at *; exact h.1

macro "rule_cases" h:ident : tactic =>
  `(tactic| (repeat' (split at $h:ident)) <;> (try (cases $h:ident; done)))

theorem ruleAbi_local : RuleLocal clsAbi ruleAbi := by
  intro enc lo p2 p1 t rest a h
  unfold ruleAbi at h
  rule_cases h
  all_goals (simp only [drop_, Option.some.injEq] at h; subst h; apply actLocal_drop; simp_all [clsAbi])

theorem ruleVis_local : RuleLocal clsVis ruleVis := by
  intro enc lo p2 p1 t rest a h
  unfold ruleVis at h
  rule_cases h
  all_goals (simp only [drop_, Option.some.injEq] at h; subst h; apply actLocal_drop; simp_all [clsVis])

theorem ruleEmpty_local : RuleLocal clsEmpty ruleEmpty := by
  intro enc lo p2 p1 t rest a h
  unfold ruleEmpty at h
  rule_cases h
  all_goals (simp only [drop_, Option.some.injEq] at h; subst h; apply actLocal_drop; simp_all [clsEmpty])

theorem rulePipe_local : RuleLocal clsPipe rulePipe := by
  intro enc lo p2 p1 t rest a h
  unfold rulePipe at h
  rule_cases h
  all_goals (simp only [drop_, Option.some.injEq] at h; subst h; apply actLocal_drop; simp_all [clsPipe])

theorem semiSep_local : ∀ (ts : List Tok) (st : List (StmtSt × Bool × Bool)) (s : StmtSt) (md al : Bool)
    (start pend : Nat) (lo : Tok),
    outside clsSemi (semiSep st s md al start pend lo ts) = outside clsSemi ts := by
  intro ts
  induction ts with
  | nil => intros; simp [semiSep]
  | cons t ts ih =>
    intro st s md al start pend lo
    unfold semiSep
    simp only []
    repeat' split
    all_goals simp only [outside_cons, ih]
    all_goals simp_all [clsSemi]

theorem ruleComma_local : RuleLocal clsComma ruleComma := by
  intro enc lo p2 p1 t rest a h
  unfold ruleComma at h
  rule_cases h
  · cases h
    exact ⟨rfl, by simp, by simp⟩
  · simp only [drop_, Option.some.injEq] at h; subst h; apply actLocal_drop; simp_all [clsComma]

theorem clsDelim_of_open {t : Tok} (h : t.isOpen = true) : clsDelim t = true := by simp [clsDelim, h]
theorem clsDelim_close : ∀ c : Tok, c.isClose = true → clsDelim c = true := by intro c h; simp [clsDelim, h]

theorem ruleVec_local : RuleLocal clsDelim ruleVec := by
  intro enc lo p2 p1 t rest a h
  unfold ruleVec at h
  rule_cases h
  rename_i hc
  simp only [Option.some.injEq] at h; subst h
  simp only [Bool.and_eq_true] at hc
  refine ⟨?_, ?_, by simp⟩
  · have := hc.1.1
    simp [outside_cons, clsDelim, this]; simp [mkO, Tok.isOpen]
  · intro o ho; simp at ho; subst ho
    exact ⟨by simp [outside_cons, clsDelim, mkC, Tok.isClose], clsDelim_close⟩

theorem ruleTry_local : RuleLocal clsTry ruleTry := by
  intro enc lo p2 p1 t rest a h
  unfold ruleTry at h
  rule_cases h
  · simp only [drop_, Option.some.injEq] at h; subst h; apply actLocal_drop; simp_all [clsTry]
  · simp only [drop_, Option.some.injEq] at h; subst h; apply actLocal_drop; simp_all [clsTry]
  · rename_i hc _
    cases h
    simp only [Bool.and_eq_true] at hc
    refine ⟨?_, ?_, by simp⟩
    · simp [outside_cons, clsTry, clsDelim, hc.1.1]
    · intro o ho; simp at ho; subst ho
      exact ⟨by simp [outside_cons, clsTry, mkP, Tok.isP], fun c h => by simp [clsTry, clsDelim, h]⟩
  · rename_i hc _
    cases h
    simp only [Bool.and_eq_true] at hc
    refine ⟨?_, ?_, by simp⟩
    · have ho := hc.1.1
      simp [outside_cons, clsTry, clsDelim, ho]; simp [mkO, Tok.isOpen, isTryName, Tok.isI, Tok.isP]
    · intro o ho; simp at ho; subst ho
      exact ⟨by simp [outside_cons, clsTry, clsDelim, mkP, mkC, Tok.isP, Tok.isClose], fun c h => by simp [clsTry, clsDelim, h]⟩
  · simp only [drop_, Option.some.injEq] at h; subst h; apply actLocal_drop; simp_all [clsTry]

theorem paren_act_local {t : Tok} (h : t.isO '(' = true) :
    ActLocal clsDelim t { out := [], close := some [] } :=
  ⟨by simp [outside_cons, clsDelim, isO_isOpen h], by
    intro o ho; simp at ho; subst ho; exact ⟨rfl, clsDelim_close⟩, by simp⟩

theorem ruleParen_local : RuleLocal clsDelim ruleParen := by
  intro enc lo p2 p1 t rest a h
  unfold ruleParen at h
  by_cases ht : t.isO '(' = true
  · have hS : clsDelim t = true := clsDelim_of_open (isO_isOpen ht)
    simp only [ht, if_true] at h
    rule_cases h
    all_goals
      cases h
      refine ⟨?_, ?_, by simp⟩
      · simp [outside_cons, hS]
      · intro o ho
        simp only [Option.some.injEq, reduceCtorEq] at ho
        try (subst ho; exact ⟨rfl, clsDelim_close⟩)
  · simp only [ht] at h
    cases h

theorem ruleLitParen_local : RuleLocal clsDelim ruleLitParen := by
  intro enc lo p2 p1 t rest a h
  unfold ruleLitParen at h
  rule_cases h
  all_goals (cases h; apply paren_act_local; simp_all)

theorem ruleClosureParen_local : RuleLocal clsDelim ruleClosureParen := by
  intro enc lo p2 p1 t rest a h
  unfold ruleClosureParen at h
  rule_cases h
  all_goals (cases h; apply paren_act_local; simp_all)


theorem actLocal_mk (S : Tok → Bool) (t : Tok) (a : Act) (h1 : outside S a.out = outside S [t])
    (h2 : ∀ o, a.close = some o → outside S o = []) (h3 : ∀ c : Tok, c.isClose = true → S c = true)
    (h4 : S (mkP ',') = true) : ActLocal S t a :=
  ⟨h1, fun o ho => ⟨h2 o ho, h3⟩, fun _ => h4⟩

theorem ruleBlock_local : RuleLocal clsBlock ruleBlock := by
  intro enc lo p2 p1 t rest a h
  have hcl : ∀ c : Tok, c.isClose = true → clsBlock c = true := fun c h => by simp [clsBlock, clsDelim, h]
  have hcomma : clsBlock (mkP ',') = true := by decide
  have h1 : clsBlock (mkO '{') = true := by decide
  have h2 : clsBlock (mkC '}') = true := by decide
  unfold ruleBlock at h
  rule_cases h
  all_goals (cases h; simp only [Bool.and_eq_true] at *)
  all_goals
    have ht : clsBlock t = true := by
      simp_all [clsBlock, clsDelim, Tok.isO, Tok.isOpen]
  all_goals refine actLocal_mk _ _ _ ?_ ?_ hcl hcomma
  all_goals simp [outside_cons, ht, h1, h2]

theorem whereSep_local : ∀ (ts : List Tok) (w : Bool) (d a : Nat) (pm : Bool),
    outside clsComma (whereSep w d a pm ts) = outside clsComma ts := by
  intro ts
  induction ts with
  | nil => intros; simp [whereSep]
  | cons t ts ih =>
    intro w d a pm
    unfold whereSep
    repeat' split
    all_goals simp only [outside_cons, ih]
    all_goals simp_all [clsComma]

theorem closureSep_local : ∀ (ts : List Tok) (m d : Nat) (p1 : Tok),
    outside clsComma (closureSep m d p1 ts) = outside clsComma ts := by
  intro ts
  induction ts with
  | nil => intro m d p1; unfold closureSep; rfl
  | cons t ts ih =>
    intro m d p1
    unfold closureSep
    repeat' split
    all_goals simp only [outside_cons]
    all_goals simp_all [clsComma]


theorem outside_outside (S S' : Tok → Bool) (h : ∀ t, S t = true → S' t = true) (ts : List Tok) :
    outside S' (outside S ts) = outside S' ts := by
  unfold outside
  rw [List.filter_filter]
  congr 1
  funext t
  cases hs : S t <;> cases hs' : S' t <;> simp_all

theorem outside_mono {S S' : Tok → Bool} (h : ∀ t, S t = true → S' t = true) {a b : List Tok}
    (hab : outside S a = outside S b) : outside S' a = outside S' b := by
  rw [← outside_outside S S' h a, ← outside_outside S S' h b, hab]

theorem hards_eq_outside (cfg : Cfg) (ts : List Tok) : hards cfg ts = outside (soft cfg) ts := rfl

theorem clsDelim_soft (cfg) (t) (h : clsDelim t = true) : soft cfg t = true := by
  simp only [clsDelim, Bool.or_eq_true] at h
  unfold soft; rcases h with h | h <;> simp [h]
theorem clsAbi_soft (cfg) (t) (h : clsAbi t = true) : soft cfg t = true := by
  simp only [clsAbi] at h; unfold soft; simp [h]
theorem clsVis_soft (cfg) (t) (h : clsVis t = true) : soft cfg t = true := by
  simp only [clsVis, Bool.or_eq_true] at h
  unfold soft; rcases h with h | h <;> simp [h]
theorem clsEmpty_soft (cfg) (t) (h : clsEmpty t = true) : soft cfg t = true := by
  simp only [clsEmpty, Bool.or_eq_true] at h
  unfold soft; rcases h with ((((h | h) | h) | h) | h) | h <;> simp [h]
theorem clsPipe_soft (cfg) (t) (h : clsPipe t = true) : soft cfg t = true := by
  simp only [clsPipe] at h; unfold soft; simp [h]
theorem clsSemi_soft (cfg) (t) (h : clsSemi t = true) : soft cfg t = true := by
  simp only [clsSemi] at h; unfold soft; simp [h]
theorem clsComma_soft (cfg) (t) (h : clsComma t = true) : soft cfg t = true := by
  simp only [clsComma] at h; unfold soft; simp [h]
theorem clsBlock_soft (cfg) (t) (h : clsBlock t = true) : soft cfg t = true := by
  simp only [clsBlock, Bool.or_eq_true] at h
  rcases h with h | h
  · exact clsDelim_soft cfg t h
  · unfold soft; simp [h]
theorem clsTry_soft (cfg : Cfg) (hc : cfg.useTry = true) (t) (h : clsTry t = true) : soft cfg t = true := by
  simp only [clsTry, Bool.or_eq_true] at h
  rcases h with (((h | h) | h) | h) | h
  · unfold soft; simp [h, hc]
  · unfold soft; simp [h, hc]
  · unfold soft; simp [h, hc]
  · unfold soft; simp [h]
  · exact clsDelim_soft cfg t h

/-- the soft rules of `post` (everything but the two opt-in hard rewrites) -/
def postSoft (cfg : Cfg) (ts : List Tok) : List Tok :=
  let ts := runRule ruleVec ts
  let ts := runRule ruleAbi ts
  let ts := runRule ruleVis ts
  let ts := whereSep false 0 0 false ts
  let ts := runRule ruleEmpty ts
  let ts := runRule rulePipe ts
  let ts := closureSep 0 0 noTok ts
  let ts := semiSep [] {} false false 1 0 noTok ts
  let ts := runRule ruleBlock ts
  let ts := runRule ruleComma ts
  let ts := onlyIf cfg.parens (runRule ruleParen) ts
  let ts := runRule ruleLitParen ts
  runRule ruleClosureParen ts

theorem post_eq (cfg : Cfg) (ts : List Tok) :
    post cfg ts = postSoft cfg (onlyIf cfg.wild wildCondense
      (onlyIf cfg.useTry (runRule ruleTry) (onlyIf cfg.fis (runRule ruleFis) ts))) := rfl

theorem runRule_hards (cfg : Cfg) {S : Tok → Bool} {f : Rule} (hf : RuleLocal S f)
    (hS : ∀ t, S t = true → soft cfg t = true) (ts : List Tok) :
    hards cfg (runRule f ts) = hards cfg ts :=
  outside_mono hS (runRule_outside S f hf ts)

theorem postSoft_hards (cfg : Cfg) (ts : List Tok) : hards cfg (postSoft cfg ts) = hards cfg ts := by
  unfold postSoft
  simp only []
  rw [runRule_hards cfg ruleClosureParen_local (clsDelim_soft cfg),
      runRule_hards cfg ruleLitParen_local (clsDelim_soft cfg)]
  have hp : ∀ x, hards cfg (onlyIf cfg.parens (runRule ruleParen) x) = hards cfg x := by
    intro x; unfold onlyIf; split
    · exact runRule_hards cfg ruleParen_local (clsDelim_soft cfg) x
    · rfl
  rw [hp, runRule_hards cfg ruleComma_local (clsComma_soft cfg),
      runRule_hards cfg ruleBlock_local (clsBlock_soft cfg),
      hards_eq_outside, outside_mono (clsSemi_soft cfg) (semiSep_local _ [] {} false false 1 0 noTok), ← hards_eq_outside,
      hards_eq_outside, outside_mono (clsComma_soft cfg) (closureSep_local _ 0 0 noTok), ← hards_eq_outside,
      runRule_hards cfg rulePipe_local (clsPipe_soft cfg),
      runRule_hards cfg ruleEmpty_local (clsEmpty_soft cfg),
      hards_eq_outside, outside_mono (clsComma_soft cfg) (whereSep_local _ false 0 0 false), ← hards_eq_outside,
      runRule_hards cfg ruleVis_local (clsVis_soft cfg),
      runRule_hards cfg ruleAbi_local (clsAbi_soft cfg),
      runRule_hards cfg ruleVec_local (clsDelim_soft cfg)]

theorem tryRule_hards (cfg : Cfg) (ts : List Tok) :
    hards cfg (onlyIf cfg.useTry (runRule ruleTry) ts) = hards cfg ts := by
  unfold onlyIf; split
  · rename_i h; exact runRule_hards cfg ruleTry_local (clsTry_soft cfg h) ts
  · rfl

/-- the two opt-in rewrites of hard tokens -/
def hardRw (cfg : Cfg) (ts : List Tok) : List Tok :=
  onlyIf cfg.wild wildCondense (onlyIf cfg.fis (runRule ruleFis) ts)


/-! ## Reorder regions as segments -/

inductive Seg where
  | plain (t : Tok)
  | region (k : Kind) (leaves : List (List Tok))
deriving DecidableEq, Repr

/-- `regionAt` with the canonical leaves instead of their encoding -/
def regionLeavesAt (cfg : Cfg) (ts : List Tok) : Option (Nat × Kind × List (List Tok)) :=
  match itemLen cfg ts with
  | none => none
  | some (k, n) =>
    if cfg.imports || k == 3 then
      let lens := runItemsAux cfg k 0 ts
      let total := sumNat lens
      some (total, k, canonLeaves k (runLeaves k (cutItems lens (ts.take total))))
    else
      some (n, k, canonLeaves k (itemLeaves k (ts.take n)))

theorem regionAt_eq (cfg : Cfg) (ts : List Tok) :
    regionAt cfg ts = (regionLeavesAt cfg ts).map fun x => (x.1, encRegion x.2.1 x.2.2) := by
  unfold regionAt regionLeavesAt
  cases itemLen cfg ts with
  | none => rfl
  | some x =>
    obtain ⟨k, n⟩ := x
    simp only []
    split <;> rfl

def segsAux (cfg : Cfg) : Nat → List Tok → List Seg
  | _, [] => []
  | n + 1, _ :: ts => segsAux cfg n ts
  | 0, t :: ts =>
    match regionLeavesAt cfg (t :: ts) with
    | some (n, k, l) => .region k l :: segsAux cfg (n - 1) ts
    | none => .plain t :: segsAux cfg 0 ts

def segs (cfg : Cfg) (ts : List Tok) : List Seg := segsAux cfg 0 ts

def render : List Seg → List Tok
  | [] => []
  | .plain t :: r => t :: render r
  | .region k l :: r => encRegion k l ++ render r

theorem regionsAux_eq_render (cfg : Cfg) : ∀ (ts : List Tok) (n : Nat),
    regionsAux cfg n ts = render (segsAux cfg n ts) := by
  intro ts
  induction ts with
  | nil => intro n; simp [regionsAux, segsAux, render]
  | cons t ts ih =>
    intro n
    cases n with
    | succ n => simp [regionsAux, segsAux, ih]
    | zero =>
      unfold regionsAux segsAux
      rw [regionAt_eq]
      cases h : regionLeavesAt cfg (t :: ts) with
      | none => simp [render, ih]
      | some x => obtain ⟨n, k, l⟩ := x; simp [render, ih]

theorem regions_eq_render (cfg : Cfg) (ts : List Tok) : regions cfg ts = render (segs cfg ts) :=
  regionsAux_eq_render cfg ts 0

/-- a token of one of the synthetic classes `Ro` `Rs` `Rc` `Rt…` -/
def isR (t : Tok) : Bool := match t.cls with | 'R' :: _ => true | _ => false

theorem isR_hard (cfg : Cfg) (t : Tok) (h : isR t = true) : hard cfg t = true := by
  obtain ⟨cls, text⟩ := t
  unfold isR at h
  split at h
  · rename_i r hr
    simp only at hr
    subst hr
    simp [hard, soft, Tok.isOpen, Tok.isClose, Tok.isP, Tok.isI, isAbiC, isTryName]
  · cases h

theorem isR_wrapTok (t : Tok) : isR (wrapTok t) = true := rfl
theorem isR_regOpen (k) : isR (regOpen k) = true := rfl
theorem isR_regSep : isR regSep = true := rfl
theorem isR_regClose : isR regClose = true := rfl

theorem encLeaves_allR : ∀ (ls : List (List Tok)) (t : Tok), t ∈ encLeaves ls → isR t = true := by
  intro ls
  induction ls with
  | nil => intro t h; simp [encLeaves] at h
  | cons l ls ih =>
    intro t h
    simp only [encLeaves, encLeaf, List.mem_append, List.mem_map, List.mem_singleton] at h
    rcases h with (⟨x, _, rfl⟩ | rfl) | h
    · rfl
    · rfl
    · exact ih t h

theorem encRegion_allR (k : Kind) (ls : List (List Tok)) (t : Tok) (h : t ∈ encRegion k ls) : isR t = true := by
  unfold encRegion at h
  split at h
  · simp at h
  · simp only [List.mem_cons, List.mem_append, List.not_mem_nil, or_false] at h
    rcases h with rfl | h | rfl
    · rfl
    · exact encLeaves_allR ls t h
    · rfl

theorem hards_of_allR (cfg : Cfg) (ts : List Tok) (h : ∀ t ∈ ts, isR t = true) : hards cfg ts = ts := by
  unfold hards
  rw [List.filter_eq_self]
  intro t ht
  exact isR_hard cfg t (h t ht)

def Seg.keep (cfg : Cfg) : Seg → Bool
  | .plain t => hard cfg t
  | .region _ l => !l.isEmpty

theorem hards_append (cfg : Cfg) (a b : List Tok) : hards cfg (a ++ b) = hards cfg a ++ hards cfg b := by
  simp [hards]

theorem hards_render (cfg : Cfg) : ∀ sg : List Seg, hards cfg (render sg) = render (sg.filter (Seg.keep cfg)) := by
  intro sg
  induction sg with
  | nil => rfl
  | cons s sg ih =>
    cases s with
    | plain t =>
      simp only [render, List.filter_cons, Seg.keep]
      by_cases h : hard cfg t = true
      · simp [hards, h, render]; exact ih
      · simp [hards, h]; exact ih
    | region k l =>
      simp only [render, List.filter_cons, Seg.keep, hards_append]
      rw [hards_of_allR cfg _ (encRegion_allR k l), ih]
      cases l with
      | nil => simp [encRegion]
      | cons x xs => simp [render]


theorem wrapTok_inj {a b : Tok} (h : wrapTok a = wrapTok b) : a = b := by
  obtain ⟨c1, t1⟩ := a; obtain ⟨c2, t2⟩ := b
  simp [wrapTok] at h
  simp [h]

theorem wrapTok_ne_sep (a : Tok) : wrapTok a ≠ regSep := by
  intro h; simp [wrapTok, regSep] at h
theorem wrapTok_ne_close (a : Tok) : wrapTok a ≠ regClose := by
  intro h; simp [wrapTok, regClose] at h
theorem regSep_ne_close : regSep ≠ regClose := by decide

theorem encLeaf_inj : ∀ (x y : List Tok) (u v : List Tok),
    x.map wrapTok ++ regSep :: u = y.map wrapTok ++ regSep :: v → x = y ∧ u = v := by
  intro x
  induction x with
  | nil =>
    intro y u v h
    cases y with
    | nil => simp at h; exact ⟨rfl, h⟩
    | cons b y => simp at h; exact absurd h.1.symm (wrapTok_ne_sep b)
  | cons a x ih =>
    intro y u v h
    cases y with
    | nil => simp at h; exact absurd h.1 (wrapTok_ne_sep a)
    | cons b y =>
      simp only [List.map_cons, List.cons_append, List.cons.injEq] at h
      obtain ⟨h1, h2⟩ := ih y u v h.2
      exact ⟨by rw [wrapTok_inj h.1, h1], h2⟩

theorem encLeaves_cons_head (l : List Tok) (ls : List (List Tok)) (r : List Tok) :
    encLeaves (l :: ls) ++ r = l.map wrapTok ++ regSep :: (encLeaves ls ++ r) := by
  simp [encLeaves, encLeaf]

theorem encLeaves_inj : ∀ (l1 l2 : List (List Tok)) (r1 r2 : List Tok),
    encLeaves l1 ++ regClose :: r1 = encLeaves l2 ++ regClose :: r2 → l1 = l2 ∧ r1 = r2 := by
  intro l1
  induction l1 with
  | nil =>
    intro l2 r1 r2 h
    cases l2 with
    | nil => simp [encLeaves] at h; exact ⟨rfl, h⟩
    | cons y ys =>
      rw [encLeaves_cons_head] at h
      simp only [encLeaves, List.nil_append] at h
      cases y with
      | nil => simp at h; exact absurd h.1.symm regSep_ne_close
      | cons b y => simp at h; exact absurd h.1.symm (wrapTok_ne_close b)
  | cons x xs ih =>
    intro l2 r1 r2 h
    cases l2 with
    | nil =>
      rw [encLeaves_cons_head] at h
      simp only [encLeaves, List.nil_append] at h
      cases x with
      | nil => simp at h; exact absurd h.1 regSep_ne_close
      | cons b y => simp at h; exact absurd h.1 (wrapTok_ne_close b)
    | cons y ys =>
      rw [encLeaves_cons_head, encLeaves_cons_head] at h
      obtain ⟨h1, h2⟩ := encLeaf_inj x y _ _ h
      obtain ⟨h3, h4⟩ := ih ys r1 r2 h2
      exact ⟨by rw [h1, h3], h4⟩

def Seg.wf : Seg → Prop
  | .plain t => isR t = false
  | .region _ l => l ≠ []

theorem regOpen_inj {k k' : Kind} (h : regOpen k = regOpen k') : k = k' := by
  simp [regOpen] at h
  exact h

theorem encRegion_cons (k : Kind) (x : List Tok) (xs : List (List Tok)) (r : List Tok) :
    encRegion k (x :: xs) ++ r = regOpen k :: (encLeaves (x :: xs) ++ regClose :: r) := by
  simp [encRegion]

theorem render_inj : ∀ (s1 s2 : List Seg), (∀ s ∈ s1, s.wf) → (∀ s ∈ s2, s.wf) →
    render s1 = render s2 → s1 = s2 := by
  intro s1
  induction s1 with
  | nil =>
    intro s2 _ h2 h
    cases s2 with
    | nil => rfl
    | cons b s2 =>
      cases b with
      | plain t => simp [render] at h
      | region k l =>
        have := h2 _ (List.mem_cons_self)
        cases l with
        | nil => exact absurd rfl this
        | cons x xs => simp only [render] at h; rw [encRegion_cons] at h; cases h
  | cons a s1 ih =>
    intro s2 h1 h2 h
    have ha := h1 a (List.mem_cons_self)
    have h1' : ∀ s ∈ s1, s.wf := fun s hs => h1 s (List.mem_cons_of_mem _ hs)
    cases s2 with
    | nil =>
      cases a with
      | plain t => simp [render] at h
      | region k l =>
        cases l with
        | nil => exact absurd rfl ha
        | cons x xs => simp only [render] at h; rw [encRegion_cons] at h; cases h
    | cons b s2 =>
      have hb := h2 b (List.mem_cons_self)
      have h2' : ∀ s ∈ s2, s.wf := fun s hs => h2 s (List.mem_cons_of_mem _ hs)
      cases a with
      | plain t =>
        cases b with
        | plain u =>
          simp only [render, List.cons.injEq] at h
          rw [h.1, ih s2 h1' h2' h.2]
        | region k l =>
          cases l with
          | nil => exact absurd rfl hb
          | cons x xs =>
            simp only [render] at h; rw [encRegion_cons] at h
            simp only [List.cons.injEq] at h
            have : isR t = true := by rw [h.1]; rfl
            simp [Seg.wf] at ha; rw [ha] at this; cases this
      | region k l =>
        cases l with
        | nil => exact absurd rfl ha
        | cons x xs =>
          cases b with
          | plain u =>
            simp only [render] at h; rw [encRegion_cons] at h
            simp only [List.cons.injEq] at h
            have : isR u = true := by rw [← h.1]; rfl
            simp [Seg.wf] at hb; rw [hb] at this; cases this
          | region k' l' =>
            cases l' with
            | nil => exact absurd rfl hb
            | cons y ys =>
              simp only [render] at h; rw [encRegion_cons, encRegion_cons] at h
              simp only [List.cons.injEq] at h
              have hk := regOpen_inj h.1
              obtain ⟨hl, hr⟩ := encLeaves_inj _ _ _ _ h.2
              rw [hk, hl, ih s2 h1' h2' hr]


/-- no token of a synthetic class (true of everything the lexer sends) -/
def NoR (ts : List Tok) : Prop := ∀ t ∈ ts, isR t = false

theorem NoR_cons {t : Tok} {ts : List Tok} : NoR (t :: ts) ↔ isR t = false ∧ NoR ts := by
  simp [NoR]

theorem NoR_append {a b : List Tok} : NoR (a ++ b) ↔ NoR a ∧ NoR b := by
  simp only [NoR, List.mem_append]
  constructor
  · intro h; exact ⟨fun t ht => h t (Or.inl ht), fun t ht => h t (Or.inr ht)⟩
  · rintro ⟨h1, h2⟩ t (ht | ht); exact h1 t ht; exact h2 t ht

theorem resplitAux_noR : ∀ (ts : List Tok) (dots : Nat), NoR ts → NoR (resplitAux dots ts) := by
  intro ts
  induction ts with
  | nil => intro _ h; simpa [resplitAux] using h
  | cons t ts ih =>
    intro dots h
    rw [NoR_cons] at h
    unfold resplitAux
    split
    · exact NoR_cons.2 ⟨h.1, ih _ h.2⟩
    · split
      · split
        · refine NoR_cons.2 ⟨rfl, NoR_cons.2 ⟨rfl, NoR_cons.2 ⟨rfl, ih _ h.2⟩⟩⟩
        · exact NoR_cons.2 ⟨h.1, ih _ h.2⟩
      · exact NoR_cons.2 ⟨h.1, ih _ h.2⟩

theorem docAttrToks_noR {inner : Bool} {o d e s c : Tok} {x : List Tok}
    (h : docAttrToks inner o d e s c = some x) : NoR x := by
  unfold docAttrToks at h
  split at h
  · simp only [Option.map_eq_some_iff] at h
    obtain ⟨v, _, rfl⟩ := h
    intro t ht
    simp only [List.mem_map] at ht
    obtain ⟨l, _, rfl⟩ := ht
    rfl
  · cases h

theorem docAttrAt_noR {ts : List Tok} {x : List Tok} {n : Nat} (h : docAttrAt ts = some (x, n)) : NoR x := by
  unfold docAttrAt at h
  split at h
  · split at h
    · split at h
      · rename_i y hy; cases h; exact docAttrToks_noR hy
      · split at h
        · split at h
          · simp only [Option.map_eq_some_iff] at h
            obtain ⟨y, hy, hh⟩ := h
            cases hh
            exact docAttrToks_noR hy
          · cases h
        · cases h
    · cases h
  · cases h

theorem docAttrAux_noR : ∀ (ts : List Tok) (n : Nat), NoR ts → NoR (docAttrAux n ts) := by
  intro ts
  induction ts with
  | nil => intro _ h; simpa [docAttrAux] using h
  | cons t ts ih =>
    intro n h
    rw [NoR_cons] at h
    cases n with
    | succ n => simp only [docAttrAux]; exact ih n h.2
    | zero =>
      simp only [docAttrAux]
      split
      · rename_i x n hx
        exact NoR_append.2 ⟨docAttrAt_noR hx, ih n h.2⟩
      · exact NoR_cons.2 ⟨h.1, ih 0 h.2⟩

theorem canonTok_cls (cfg : Cfg) (t : Tok) :
    (canonTok cfg t).cls = t.cls ∨ (t.cls = ['L','i'] ∧ (canonTok cfg t).cls = ['L','f']) := by
  unfold canonTok
  repeat' split
  all_goals simp_all

theorem canonTok_noR (cfg : Cfg) (t : Tok) (h : isR t = false) : isR (canonTok cfg t) = false := by
  rcases canonTok_cls cfg t with h1 | ⟨_, h2⟩
  · unfold isR at *; rw [h1]; exact h
  · simp [isR, h2]

theorem docMergeAux_noR (code : Bool) : ∀ (ts : List Tok) (cur : Option (Bool × List (List Char))),
    NoR ts → NoR (docMergeAux code cur ts) := by
  intro ts
  induction ts with
  | nil =>
    intro cur _
    cases cur with
    | none => simp [docMergeAux, NoR]
    | some x => obtain ⟨i, acc⟩ := x; simp [docMergeAux, NoR, docFlush, isR]
  | cons t ts ih =>
    intro cur h
    rw [NoR_cons] at h
    cases cur with
    | none =>
      simp only [docMergeAux]
      split
      · exact ih _ h.2
      · exact NoR_cons.2 ⟨h.1, ih _ h.2⟩
    | some x =>
      obtain ⟨j, acc⟩ := x
      simp only [docMergeAux]
      split
      · split
        · exact ih _ h.2
        · exact NoR_cons.2 ⟨rfl, ih _ h.2⟩
      · exact NoR_cons.2 ⟨rfl, NoR_cons.2 ⟨h.1, ih _ h.2⟩⟩

theorem mid_noR (cfg : Cfg) (ts : List Tok) (h : NoR ts) : NoR (mid cfg ts) := by
  unfold mid
  simp only []
  have h1 : NoR (resplit ts) := resplitAux_noR ts 0 h
  have h2 : NoR (onlyIf cfg.docattr docAttr (resplit ts)) := by
    unfold onlyIf; split
    · exact docAttrAux_noR _ 0 h1
    · exact h1
  have h3 : NoR ((onlyIf cfg.docattr docAttr (resplit ts)).map (canonTok cfg)) := by
    intro t ht
    simp only [List.mem_map] at ht
    obtain ⟨u, hu, rfl⟩ := ht
    exact canonTok_noR cfg u (h2 u hu)
  unfold onlyIf; split
  · exact docMergeAux_noR _ _ none h3
  · exact h3

theorem segsAux_plain_mem (cfg : Cfg) : ∀ (ts : List Tok) (n : Nat) (t : Tok),
    Seg.plain t ∈ segsAux cfg n ts → t ∈ ts := by
  intro ts
  induction ts with
  | nil => intro n t h; simp [segsAux] at h
  | cons u ts ih =>
    intro n t h
    cases n with
    | succ n => simp only [segsAux] at h; exact List.mem_cons_of_mem _ (ih n t h)
    | zero =>
      simp only [segsAux] at h
      split at h
      · simp only [List.mem_cons, reduceCtorEq, false_or] at h
        exact List.mem_cons_of_mem _ (ih _ t h)
      · simp only [List.mem_cons, Seg.plain.injEq] at h
        rcases h with rfl | h
        · exact List.mem_cons_self
        · exact List.mem_cons_of_mem _ (ih _ t h)

/-- the certificate: the hard tokens outside reorder regions, in order, interleaved with the
(non-empty) reorder regions as canonical leaf lists -/
def hardSeq (cfg : Cfg) (ts : List Tok) : List Seg := (segs cfg (mid cfg ts)).filter (Seg.keep cfg)

theorem hardSeq_wf (cfg : Cfg) (ts : List Tok) (h : NoR ts) : ∀ s ∈ hardSeq cfg ts, s.wf := by
  intro s hs
  unfold hardSeq at hs
  simp only [List.mem_filter] at hs
  cases s with
  | plain t => exact mid_noR cfg ts h t (segsAux_plain_mem cfg _ 0 t hs.1)
  | region k l =>
    have := hs.2
    simp only [Seg.keep, Bool.not_eq_true', List.isEmpty_eq_false_iff] at this
    exact this


/-! ## canonical leaves -/

theorem insertLeaf_perm (x : List Tok) : ∀ l : List (List Tok), (insertLeaf x l).Perm (x :: l) := by
  intro l
  induction l with
  | nil => exact List.Perm.refl _
  | cons y ys ih =>
    unfold insertLeaf
    split
    · exact List.Perm.refl _
    · exact (List.Perm.cons y ih).trans (List.Perm.swap x y ys)

theorem sortLeaves_perm : ∀ l : List (List Tok), (sortLeaves l).Perm l := by
  intro l
  induction l with
  | nil => exact List.Perm.refl _
  | cons x xs ih =>
    unfold sortLeaves
    exact (insertLeaf_perm x _).trans (List.Perm.cons x ih)

theorem dedupAdj_mem (x : List Tok) : ∀ l : List (List Tok), x ∈ dedupAdj l ↔ x ∈ l := by
  intro l
  induction l with
  | nil => simp [dedupAdj]
  | cons a l ih =>
    cases l with
    | nil => simp [dedupAdj]
    | cons b r =>
      unfold dedupAdj
      split
      · rename_i h
        have : a = b := by simpa using h
        subst this
        rw [ih]; simp
      · simp only [List.mem_cons] at ih ⊢
        rw [ih]

/-- What equal canonical leaf lists say about the raw leaf lists of two regions: derives keep their
list; `mod` / `extern crate` runs are permutations of each other; `use` runs import the same set of
paths (the formatter drops a repeated import). -/
theorem canonLeaves_sound (k : Kind) (l1 l2 : List (List Tok)) (h : canonLeaves k l1 = canonLeaves k l2) :
    (k = 3 → l1 = l2) ∧ (k ≠ 3 → k ≠ 0 → l1.Perm l2) ∧ (k = 0 → ∀ x, x ∈ l1 ↔ x ∈ l2) := by
  refine ⟨?_, ?_, ?_⟩
  · intro hk; subst hk; simpa [canonLeaves] using h
  · intro h3 h0
    have e : ∀ l, canonLeaves k l = sortLeaves l := by
      intro l; unfold canonLeaves; simp [h3, h0]
    rw [e, e] at h
    exact (sortLeaves_perm l1).symm.trans (h ▸ sortLeaves_perm l2)
  · intro hk x; subst hk
    have e : ∀ l, canonLeaves 0 l = dedupAdj (sortLeaves l) := by intro l; rfl
    rw [e, e] at h
    rw [← (sortLeaves_perm l1).mem_iff, ← (sortLeaves_perm l2).mem_iff, ← dedupAdj_mem x (sortLeaves l1), h, dedupAdj_mem]

/-! ## the two opt-in rewrites of hard tokens (coarse locality) -/

def clsFis (t : Tok) : Bool := t.isP ':' || t.cls == ['i'] || t.cls == ['r']

theorem ruleFis_local : RuleLocal clsFis ruleFis := by
  intro enc lo p2 p1 t rest a h
  unfold ruleFis at h
  rule_cases h
  all_goals (simp only [drop_, Option.some.injEq] at h; subst h; apply actLocal_drop)
  · simp_all [clsFis]
  · rename_i hc
    simp only [Bool.and_eq_true, Bool.or_eq_true, beq_iff_eq] at hc
    rcases hc.1.1.1 with h | h <;> simp [clsFis, h]

def clsWild (t : Tok) : Bool := isWild t || t.isP ',' || t.isP '.'

theorem wildTailLen_take : ∀ (ts : List Tok) (n : Nat), wildTailLen ts = some n →
    ∀ t ∈ ts.take n, clsWild t = true := by
  intro ts
  fun_induction wildTailLen ts <;> intro n h
  all_goals (try (cases h; done))
  all_goals (try (cases h; simp; done))
  · rename_i c u r hc1 hc2 hc ih
    simp only [Option.map_eq_some_iff] at h
    obtain ⟨m, hm, rfl⟩ := h
    intro t ht
    simp only [List.take_succ_cons, List.mem_cons] at ht
    simp only [Bool.and_eq_true] at hc
    rcases ht with rfl | rfl | ht
    · simp [clsWild, hc.1]
    · simp [clsWild, hc.2]
    · exact ih m hm t ht
  all_goals
    cases h
    intro t ht
    simp only [List.take_succ_cons, List.take_zero, List.mem_cons, List.not_mem_nil, or_false] at ht
    simp only [Bool.and_eq_true] at *
    rcases ht with rfl | rfl | rfl <;> simp_all [clsWild]

theorem outside_eq_nil_of_all (S : Tok → Bool) (ts : List Tok) (h : ∀ t ∈ ts, S t = true) : outside S ts = [] := by
  unfold outside
  rw [List.filter_eq_nil_iff]
  intro t ht; simp [h t ht]

theorem wildAux_local : ∀ (ts : List Tok) (n : Nat) (p1 : Tok), (∀ t ∈ ts.take n, clsWild t = true) →
    outside clsWild (wildAux n p1 ts) = outside clsWild (ts.drop n) := by
  intro ts
  induction ts with
  | nil => intro n p1 _; simp [wildAux]
  | cons t ts ih =>
    intro n p1 h
    cases n with
    | succ n =>
      simp only [wildAux, List.drop_succ_cons]
      exact ih n t (fun u hu => h u (by simp [List.take_succ_cons, hu]))
    | zero =>
      simp only [wildAux, List.drop_zero]
      split
      · rename_i hc
        simp only [Bool.and_eq_true] at hc
        split
        · rename_i n hn
          have hall := wildTailLen_take ts (n + 1) hn
          have hdot : clsWild (mkP '.') = true := by decide
          rw [outside_cons, outside_cons, hdot, ih (n + 1) t hall, outside_cons]
          have ht : clsWild t = true := by simp [clsWild, hc.1]
          simp only [ht, if_true]
          conv => rhs; rw [← List.take_append_drop (n + 1) ts, outside_append, outside_eq_nil_of_all _ _ hall]
          simp
        · rw [outside_cons, outside_cons, ih 0 t (by simp)]; simp
      · rw [outside_cons, outside_cons, ih 0 t (by simp)]; simp

theorem wildCondense_local (ts : List Tok) : outside clsWild (wildCondense ts) = outside clsWild ts := by
  have := wildAux_local ts 0 noTok (by simp)
  simpa [wildCondense] using this

/-- the tokens outside the soft class and outside the classes of the ENABLED opt-in rewrites -/
def softX (cfg : Cfg) (t : Tok) : Bool :=
  soft cfg t || (cfg.fis && clsFis t) || (cfg.wild && clsWild t)

theorem soft_softX (cfg : Cfg) (t : Tok) (h : soft cfg t = true) : softX cfg t = true := by
  simp [softX, h]

theorem softX_eq_soft (cfg : Cfg) (hf : cfg.fis = false) (hw : cfg.wild = false) : softX cfg = soft cfg := by
  funext t; simp [softX, hf, hw]

theorem post_outside_softX (cfg : Cfg) (ts : List Tok) :
    outside (softX cfg) (post cfg ts) = outside (softX cfg) ts := by
  rw [post_eq]
  have h1 := postSoft_hards cfg (onlyIf cfg.wild wildCondense
      (onlyIf cfg.useTry (runRule ruleTry) (onlyIf cfg.fis (runRule ruleFis) ts)))
  rw [hards_eq_outside, hards_eq_outside] at h1
  rw [outside_mono (soft_softX cfg) h1]
  have h2 : ∀ x, outside (softX cfg) (onlyIf cfg.wild wildCondense x) = outside (softX cfg) x := by
    intro x; unfold onlyIf; split
    · rename_i h
      exact outside_mono (fun t ht => by simp [softX, h, ht]) (wildCondense_local x)
    · rfl
  rw [h2]
  have h3 := tryRule_hards cfg (onlyIf cfg.fis (runRule ruleFis) ts)
  rw [hards_eq_outside, hards_eq_outside] at h3
  rw [outside_mono (soft_softX cfg) h3]
  unfold onlyIf; split
  · rename_i h
    exact outside_mono (fun t ht => by simp [softX, h, ht]) (runRule_outside clsFis ruleFis ruleFis_local ts)
  · rfl

theorem post_hards (cfg : Cfg) (hf : cfg.fis = false) (hw : cfg.wild = false) (ts : List Tok) :
    hards cfg (post cfg ts) = hards cfg ts := by
  have := post_outside_softX cfg ts
  rw [softX_eq_soft cfg hf hw] at this
  exact this


instance (ts : List Tok) : Decidable (NoR ts) := by unfold NoR; infer_instance

/-! ## the first half of the pipeline (`mid`): what it can touch -/

def isLit (t : Tok) : Bool := match t.cls with | 'L' :: _ => true | _ => false

theorem canonTok_other (cfg : Cfg) (t : Tok) (h1 : t.isDoc = false) (h2 : isLit t = false) : canonTok cfg t = t := by
  obtain ⟨cls, text⟩ := t
  unfold canonTok
  simp only [Tok.isDoc, isLit] at h1 h2
  have hd : (cls == ['d']) = false := h1
  have hl : ∀ r, cls ≠ 'L' :: r := by
    intro r hr; subst hr; simp at h2
  simp only [hd, Bool.false_eq_true, if_false]
  have e1 : (cls == ['L','s'] || cls == ['L','B'] || cls == ['L','C']) = false := by
    simp [hl]
  have e2 : (cls == ['L','r'] || cls == ['L','R'] || cls == ['L','q']) = false := by
    simp [hl]
  have e3 : (cls == ['L','i']) = false := by simp [hl]
  have e4 : (cls == ['L','f']) = false := by simp [hl]
  simp only [e1, e2, e3, e4, Bool.false_eq_true, if_false]

theorem canonTok_isDoc (cfg : Cfg) (t : Tok) : (canonTok cfg t).isDoc = t.isDoc := by
  rcases canonTok_cls cfg t with h | ⟨h1, h2⟩
  · simp [Tok.isDoc, h]
  · simp [Tok.isDoc, h1, h2]

theorem canonTok_isLit (cfg : Cfg) (t : Tok) : isLit (canonTok cfg t) = isLit t := by
  rcases canonTok_cls cfg t with h | ⟨h1, h2⟩
  · simp [isLit, h]
  · simp [isLit, h1, h2]

/-- literals and doc comments: the tokens `canonTok` may re-spell -/
def clsSpell (t : Tok) : Bool := t.isDoc || isLit t

theorem map_canonTok_outside (cfg : Cfg) (S : Tok → Bool) (hS : ∀ t, clsSpell t = true → S t = true)
    (hS' : ∀ t, S (canonTok cfg t) = S t) :
    ∀ ts : List Tok, outside S (ts.map (canonTok cfg)) = outside S ts := by
  intro ts
  induction ts with
  | nil => rfl
  | cons t ts ih =>
    simp only [List.map_cons, outside_cons, ih, hS']
    split
    · rfl
    · rename_i h
      have : clsSpell t = false := by
        cases hc : clsSpell t
        · rfl
        · exact absurd (hS t hc) h
      simp only [clsSpell, Bool.or_eq_false_iff] at this
      rw [canonTok_other cfg t this.1 this.2]

theorem splitTupleIdx_text {cs a b : List Char} (h : splitTupleIdx cs = some (a, b)) : a ++ '.' :: b = cs := by
  unfold splitTupleIdx at h
  simp only [] at h
  split at h
  · rename_i b' hb
    split at h
    · cases h
      have := List.takeWhile_append_dropWhile (p := isDigit) (l := cs)
      rw [hb] at this
      exact this
    · cases h
  · cases h

theorem resplitAux_text : ∀ (ts : List Tok) (dots : Nat),
    (resplitAux dots ts).flatMap (·.text) = ts.flatMap (·.text) := by
  intro ts
  induction ts with
  | nil => intro _; rfl
  | cons t ts ih =>
    intro dots
    unfold resplitAux
    split
    · simp [ih]
    · split
      · split
        · rename_i a b h
          simp only [List.flatMap_cons, ih, mkP]
          rw [← splitTupleIdx_text h]; simp
        · simp [ih]
      · simp [ih]

/-- numeric literals and `.`: the tokens `resplit` may touch -/
def clsNum (t : Tok) : Bool := isNumLit t || t.isP '.'

theorem resplitAux_outside : ∀ (ts : List Tok) (dots : Nat),
    outside clsNum (resplitAux dots ts) = outside clsNum ts := by
  intro ts
  induction ts with
  | nil => intro _; rfl
  | cons t ts ih =>
    intro dots
    unfold resplitAux
    split
    · simp only [outside_cons, ih]
    · split
      · split
        · rename_i hc _ a b h
          simp only [Bool.and_eq_true] at hc
          have ht : clsNum t = true := by
            have := hc.2; simp only [beq_iff_eq] at this
            simp [clsNum, isNumLit, this]
          have h1 : clsNum ⟨['L','i'], a⟩ = true := by simp [clsNum, isNumLit]
          have h2 : clsNum ⟨['L','i'], b⟩ = true := by simp [clsNum, isNumLit]
          have h3 : clsNum (mkP '.') = true := by decide
          simp only [outside_cons, ih, ht, h1, h2, h3, if_true]
        · simp only [outside_cons, ih]
      · simp only [outside_cons, ih]

/-- the tokens of a `#[doc = "…"]` / `#![doc = "…"]` attribute and doc comments: what `docAttr` may touch -/
def clsDocAttr (t : Tok) : Bool :=
  t.isP '#' || t.isP '!' || t.isO '[' || t.isC ']' || t.isI kwDoc || t.isP '=' || t.cls == ['L','s'] || t.cls == ['L','r'] || t.isDoc

theorem docAttrToks_cls {inner : Bool} {o d e s c : Tok} {x : List Tok}
    (h : docAttrToks inner o d e s c = some x) :
    (clsDocAttr o = true ∧ clsDocAttr d = true ∧ clsDocAttr e = true ∧ clsDocAttr s = true ∧ clsDocAttr c = true) ∧
    ∀ t ∈ x, clsDocAttr t = true := by
  unfold docAttrToks at h
  split at h
  · rename_i hc
    simp only [Bool.and_eq_true, beq_iff_eq] at hc
    refine ⟨⟨by simp [clsDocAttr, hc.1.1.1.1], by simp [clsDocAttr, hc.1.1.1.2], by simp [clsDocAttr, hc.1.1.2],
      by (have := hc.1.2; simp only [Bool.or_eq_true, beq_iff_eq] at this; rcases this with h | h <;> simp [clsDocAttr, h]),
      by simp [clsDocAttr, hc.2]⟩, ?_⟩
    simp only [Option.map_eq_some_iff] at h
    obtain ⟨v, _, rfl⟩ := h
    intro t ht
    simp only [List.mem_map] at ht
    obtain ⟨l, _, rfl⟩ := ht
    simp [clsDocAttr, Tok.isDoc]
  · cases h

theorem docAttrAt_cls {ts : List Tok} {x : List Tok} {n : Nat} (h : docAttrAt ts = some (x, n)) :
    (∀ t ∈ ts.take (n + 1), clsDocAttr t = true) ∧ ∀ t ∈ x, clsDocAttr t = true := by
  unfold docAttrAt at h
  split at h
  · rename_i hd o d e s c r
    split at h
    · rename_i hh
      have hhd : clsDocAttr hd = true := by simp [clsDocAttr, hh]
      split at h
      · rename_i y hy
        cases h
        obtain ⟨⟨h1, h2, h3, h4, h5⟩, h6⟩ := docAttrToks_cls hy
        refine ⟨?_, h6⟩
        intro t ht
        simp only [List.take_succ_cons, List.take_zero, List.mem_cons, List.not_mem_nil, or_false] at ht
        rcases ht with rfl | rfl | rfl | rfl | rfl | rfl <;> assumption
      · split at h
        · rename_i hb
          split at h
          · rename_i c' r'
            simp only [Option.map_eq_some_iff] at h
            obtain ⟨y, hy, hh2⟩ := h
            cases hh2
            obtain ⟨⟨h1, h2, h3, h4, h5⟩, h6⟩ := docAttrToks_cls hy
            refine ⟨?_, h6⟩
            have ho : clsDocAttr o = true := by simp [clsDocAttr, hb]
            intro t ht
            simp only [List.take_succ_cons, List.take_zero, List.mem_cons, List.not_mem_nil, or_false] at ht
            rcases ht with rfl | rfl | rfl | rfl | rfl | rfl | rfl <;> assumption
          · cases h
        · cases h
    · cases h
  · cases h

theorem docAttrAux_outside : ∀ (ts : List Tok) (n : Nat), (∀ t ∈ ts.take n, clsDocAttr t = true) →
    outside clsDocAttr (docAttrAux n ts) = outside clsDocAttr (ts.drop n) := by
  intro ts
  induction ts with
  | nil => intro n _; simp [docAttrAux]
  | cons t ts ih =>
    intro n h
    cases n with
    | succ n =>
      simp only [docAttrAux, List.drop_succ_cons]
      exact ih n (fun u hu => h u (by simp [List.take_succ_cons, hu]))
    | zero =>
      simp only [docAttrAux, List.drop_zero]
      split
      · rename_i x n hx
        obtain ⟨h1, h2⟩ := docAttrAt_cls hx
        have ht : clsDocAttr t = true := h1 t (by simp [List.take_succ_cons])
        have hts : ∀ u ∈ ts.take n, clsDocAttr u = true := fun u hu => h1 u (by simp [List.take_succ_cons, hu])
        rw [outside_append, outside_eq_nil_of_all _ _ h2, ih n hts, outside_cons]
        simp only [ht, if_true, List.nil_append]
        conv => rhs; rw [← List.take_append_drop n ts, outside_append, outside_eq_nil_of_all _ _ hts]
        simp
      · rw [outside_cons, outside_cons, ih 0 (by simp)]; simp

theorem docAttr_outside (ts : List Tok) : outside clsDocAttr (docAttr ts) = outside clsDocAttr ts := by
  simpa [docAttr] using docAttrAux_outside ts 0 (by simp)

theorem docMergeAux_outside (code : Bool) : ∀ (ts : List Tok) (cur : Option (Bool × List (List Char))),
    outside Tok.isDoc (docMergeAux code cur ts) = outside Tok.isDoc ts := by
  intro ts
  have hf : ∀ i acc, Tok.isDoc (docFlush code i acc) = true := fun _ _ => rfl
  induction ts with
  | nil =>
    intro cur
    cases cur with
    | none => simp [docMergeAux]
    | some x => obtain ⟨i, acc⟩ := x; simp [docMergeAux, outside_cons, hf]
  | cons t ts ih =>
    intro cur
    cases cur with
    | none =>
      simp only [docMergeAux]
      split
      · rename_i h; rw [ih, outside_cons, h]; simp
      · rename_i h; rw [outside_cons, outside_cons, ih]
    | some x =>
      obtain ⟨j, acc⟩ := x
      simp only [docMergeAux]
      split
      · rename_i h
        split
        · rw [ih, outside_cons, h]; simp
        · rw [outside_cons, hf, ih, outside_cons, h]; simp
      · rename_i h
        rw [outside_cons, hf, outside_cons, outside_cons, ih]; simp

/-- everything `mid` may touch under `cfg` -/
def clsMid (cfg : Cfg) (t : Tok) : Bool := clsSpell t || clsNum t || (cfg.docattr && clsDocAttr t)

theorem clsMid_canonTok (cfg : Cfg) (t : Tok) : clsMid cfg (canonTok cfg t) = clsMid cfg t := by
  by_cases h : clsSpell t = true
  · have : clsSpell (canonTok cfg t) = true := by
      simp only [clsSpell, canonTok_isDoc, canonTok_isLit] at h ⊢; exact h
    simp [clsMid, h, this]
  · have h' : clsSpell t = false := by simpa using h
    simp only [clsSpell, Bool.or_eq_false_iff] at h'
    rw [canonTok_other cfg t h'.1 h'.2]

theorem mid_outside (cfg : Cfg) (ts : List Tok) : outside (clsMid cfg) (mid cfg ts) = outside (clsMid cfg) ts := by
  unfold mid
  simp only []
  have h1 : outside (clsMid cfg) (resplit ts) = outside (clsMid cfg) ts :=
    outside_mono (fun t ht => by simp [clsMid, ht]) (resplitAux_outside ts 0)
  have h2 : outside (clsMid cfg) (onlyIf cfg.docattr docAttr (resplit ts)) = outside (clsMid cfg) ts := by
    unfold onlyIf; split
    · rename_i h
      rw [outside_mono (fun t ht => by simp [clsMid, h, ht]) (docAttr_outside (resplit ts))]; exact h1
    · exact h1
  have h3 := map_canonTok_outside cfg (clsMid cfg) (fun t ht => by simp [clsMid, ht]) (clsMid_canonTok cfg)
    (onlyIf cfg.docattr docAttr (resplit ts))
  cases hr : cfg.reflow
  · simp only [onlyIf, Bool.false_eq_true, if_false] at h3 h2 ⊢
    rw [h3]; exact h2
  · simp only [onlyIf, if_true] at h3 h2 ⊢
    rw [docMerge, outside_mono (S := Tok.isDoc) (fun t ht => by simp [clsMid, clsSpell, ht]) (docMergeAux_outside _ _ none)]
    rw [h3]; exact h2

theorem mid_eq_map (cfg : Cfg) (h1 : cfg.docattr = false) (h2 : cfg.reflow = false) (ts : List Tok) :
    mid cfg ts = (resplit ts).map (canonTok cfg) := by
  simp [mid, onlyIf, h1, h2]


/-! ## `use_field_init_shorthand`: the precise invariant of `ruleFis` -/

/-- drop an identifier that repeats the token before it (`prev`: that token) -/
def squash : Tok → List Tok → List Tok
  | _, [] => []
  | p, t :: ts => if (t.cls == ['i'] || t.cls == ['r']) && t == p then squash p ts else t :: squash t ts

def FramePlain (fr : Frame) : Prop := fr.close = none ∧ fr.commaAfter = false ∧ fr.skipComma = false

/-- `ruleFis` fires on the current token (it does not look at `enc` / `lo`) -/
def fisDrops (p2 p1 t : Tok) (rest : List Tok) : Bool := (ruleFis 0 noTok p2 p1 t rest).isSome

theorem ruleFis_indep (enc : Nat) (lo p2 p1 t : Tok) (rest : List Tok) :
    ruleFis enc lo p2 p1 t rest = ruleFis 0 noTok p2 p1 t rest := rfl

theorem ruleFis_some {p2 p1 t : Tok} {rest : List Tok} {a : Act} (h : ruleFis 0 noTok p2 p1 t rest = some a) :
    a = { out := [] } ∧ (t.isP ':' = true ∨ ((t.cls = ['i'] ∨ t.cls = ['r']) ∧ p1.isP ':' = true ∧ p2 = t)) := by
  unfold ruleFis at h
  rule_cases h
  all_goals (simp only [drop_, Option.some.injEq] at h; subst h; refine ⟨rfl, ?_⟩; simp_all)

theorem ruleFis_delim {p2 p1 t : Tok} {rest : List Tok} (h : t.isOpen = true ∨ t.isClose = true) :
    ruleFis 0 noTok p2 p1 t rest = none := by
  cases hr : ruleFis 0 noTok p2 p1 t rest with
  | none => rfl
  | some a =>
    obtain ⟨_, h2⟩ := ruleFis_some hr
    obtain ⟨cls, text⟩ := t
    simp only [Tok.isOpen, Tok.isClose, Tok.isP, beq_iff_eq, Bool.and_eq_true] at h h2
    rcases h with h | h <;> rcases h2 with h2 | h2 <;> simp_all

theorem bpass_fis_step (p2 p1 lo t : Tok) (st : List Frame) (ts : List Tok) (hst : ∀ fr ∈ st, FramePlain fr) :
    ∃ lo' st', (∀ fr ∈ st', FramePlain fr) ∧
      bpass ruleFis p2 p1 lo false st (t :: ts) =
        (if fisDrops p2 p1 t ts then [] else [t]) ++ bpass ruleFis p1 t lo' false st' ts := by
  conv => enter [1, lo', 1, st', 2, 1]; unfold bpass
  simp only [Bool.false_and, Bool.false_eq_true, if_false]
  by_cases ho : t.isOpen = true
  · simp only [ho, if_true, ruleFis_indep, ruleFis_delim (Or.inl ho), fisDrops, Option.isSome_none, Bool.false_eq_true, if_false]
    refine ⟨t, _ :: st, ?_, rfl⟩
    intro fr hfr
    simp only [List.mem_cons] at hfr
    rcases hfr with rfl | hfr
    · exact ⟨rfl, rfl, rfl⟩
    · exact hst fr hfr
  · simp only [ho, Bool.false_eq_true, if_false]
    by_cases hc : t.isClose = true
    · simp only [hc, if_true, fisDrops, ruleFis_delim (Or.inr hc), Option.isSome_none, Bool.false_eq_true, if_false]
      cases st with
      | nil => exact ⟨t, [], by simp, rfl⟩
      | cons fr st' =>
        obtain ⟨h1, h2, h3⟩ := hst fr (List.mem_cons_self)
        refine ⟨t, st', fun fr' h => hst fr' (List.mem_cons_of_mem _ h), ?_⟩
        simp [closeOut, h1, h2, h3, lastOf]
    · simp only [hc, Bool.false_eq_true, if_false, ruleFis_indep]
      cases hfd : fisDrops p2 p1 t ts
      · have hr : ruleFis 0 noTok p2 p1 t ts = none := by
          unfold fisDrops at hfd
          cases h : ruleFis 0 noTok p2 p1 t ts with
          | none => rfl
          | some a => rw [h] at hfd; cases hfd
        simp only [hr, Bool.false_eq_true, if_false]
        exact ⟨t, st, hst, by simp⟩
      · obtain ⟨a, hr⟩ : ∃ a, ruleFis 0 noTok p2 p1 t ts = some a := by
          unfold fisDrops at hfd
          exact Option.isSome_iff_exists.1 hfd
        obtain ⟨ha, _⟩ := ruleFis_some hr
        subst ha
        simp only [hr, if_true]
        exact ⟨lo, st, hst, by simp [lastOf]⟩

/-- the squash state `q` is the last token outside `S` seen so far, as far as `p1` / `p2` tell -/
structure FisInv (S : Tok → Bool) (q p2 p1 : Tok) : Prop where
  left : S p1 = false → q = p1
  right : S p1 = true → S p2 = false → q = p2

theorem bpass_fis_squash (S : Tok → Bool) (hS : ∀ t : Tok, t.isP ':' = true → S t = true) :
    ∀ (ts : List Tok) (p2 p1 lo : Tok) (st : List Frame) (q : Tok),
      (∀ fr ∈ st, FramePlain fr) → FisInv S q p2 p1 →
      squash q (outside S (bpass ruleFis p2 p1 lo false st ts)) = squash q (outside S ts) := by
  intro ts
  induction ts with
  | nil => intros; simp [bpass]
  | cons t ts ih =>
    intro p2 p1 lo st q hst hinv
    obtain ⟨lo', st', hst', heq⟩ := bpass_fis_step p2 p1 lo t st ts hst
    rw [heq, outside_append]
    by_cases hSt : S t = true
    · -- `t` is filtered on both sides
      have h1 : outside S (if fisDrops p2 p1 t ts then [] else [t]) = [] := by
        split <;> simp [outside_cons, hSt]
      rw [h1, List.nil_append, outside_cons, hSt, if_pos rfl]
      apply ih _ _ _ _ _ hst'
      refine ⟨fun h => (by rw [hSt] at h; cases h), fun _ h2 => ?_⟩
      exact hinv.left h2
    · have hSt' : S t = false := by simpa using hSt
      have hinv' : ∀ q', q' = t → FisInv S q' p1 t := fun q' hq => ⟨fun _ => hq, fun h => (by rw [hSt'] at h; cases h)⟩
      by_cases hd : fisDrops p2 p1 t ts = true
      · -- the rule drops the identifier `t`: it repeats `p2`, which is the squash state
        unfold fisDrops at hd
        cases hr : ruleFis 0 noTok p2 p1 t ts with
        | none => rw [hr] at hd; cases hd
        | some a =>
          obtain ⟨_, h2⟩ := ruleFis_some hr
          rcases h2 with h2 | ⟨hi, hp1, hp2⟩
          · rw [hS t h2] at hSt'; cases hSt'
          · have hq : q = t := by
              have := hinv.right (hS p1 hp1) (by rw [hp2]; exact hSt')
              rw [this, hp2]
            have hdd : fisDrops p2 p1 t ts = true := by unfold fisDrops; rw [hr]; rfl
            simp only [hdd, if_true, outside_nil, List.nil_append, outside_cons, hSt', Bool.false_eq_true, if_false]
            have : squash q (t :: outside S ts) = squash q (outside S ts) := by
              rw [squash]; rcases hi with hi | hi <;> simp [hi, hq]
            rw [this]
            exact ih _ _ _ _ _ hst' (hinv' q hq)
      · have hd' : fisDrops p2 p1 t ts = false := by simpa using hd
        simp only [hd', Bool.false_eq_true, if_false, outside_cons, hSt', List.cons_append]
        rw [squash, squash]
        by_cases hsq : ((t.cls == ['i'] || t.cls == ['r']) && t == q) = true
        · simp only [hsq, if_true, outside_nil, List.nil_append]
          have hq : q = t := by
            simp only [Bool.and_eq_true, beq_iff_eq] at hsq; exact hsq.2.symm
          exact ih _ _ _ _ _ hst' (hinv' q hq)
        · simp only [hsq]
          simp only [Bool.false_eq_true, if_false, outside_nil, List.nil_append]
          rw [ih _ _ _ _ _ hst' (hinv' t rfl)]

theorem runRule_fis_squash (S : Tok → Bool) (hS : ∀ t : Tok, t.isP ':' = true → S t = true) (ts : List Tok) :
    squash noTok (outside S (runRule ruleFis ts)) = squash noTok (outside S ts) := by
  apply bpass_fis_squash S hS ts noTok noTok noTok [] noTok (by simp)
  exact ⟨fun _ => rfl, fun _ _ => rfl⟩


theorem soft_colon (cfg : Cfg) (t : Tok) (h : t.isP ':' = true) : soft cfg t = true := by
  unfold soft; simp [h]

/-- `post` with `condense_wildcard_suffixes` off, for both values of `use_field_init_shorthand`: the
hard tokens are kept up to an identifier that repeats the hard token before it (`a: a` ~ `a`). -/
theorem post_hards_squash (cfg : Cfg) (hw : cfg.wild = false) (ts : List Tok) :
    squash noTok (hards cfg (post cfg ts)) = squash noTok (hards cfg ts) := by
  rw [post_eq, postSoft_hards]
  simp only [onlyIf, hw, Bool.false_eq_true, if_false]
  have h3 := tryRule_hards cfg (if cfg.fis = true then runRule ruleFis ts else ts)
  simp only [onlyIf] at h3
  rw [h3]
  split
  · exact runRule_fis_squash (soft cfg) (soft_colon cfg) ts
  · rfl

def Seg.plain? : Seg → Option Tok
  | .plain t => some t
  | .region _ _ => none

/-- the plain segments are a subsequence of the token list: order is kept, nothing is invented -/
theorem segsAux_plain_sublist (cfg : Cfg) : ∀ (ts : List Tok) (n : Nat),
    ((segsAux cfg n ts).filterMap Seg.plain?).Sublist ts := by
  intro ts
  induction ts with
  | nil => intro n; simp [segsAux]
  | cons t ts ih =>
    intro n
    cases n with
    | succ n => simp only [segsAux]; exact (ih n).cons t
    | zero =>
      simp only [segsAux]
      split
      · simp only [List.filterMap_cons, Seg.plain?]; exact (ih _).cons t
      · simp only [List.filterMap_cons, Seg.plain?]; exact (ih 0).cons_cons t

theorem filter_keep_plain (cfg : Cfg) (sg : List Seg) :
    ((sg.filter (Seg.keep cfg)).filterMap Seg.plain?) = (sg.filterMap Seg.plain?).filter (hard cfg) := by
  induction sg with
  | nil => rfl
  | cons s sg ih =>
    cases s with
    | plain t =>
      by_cases h : hard cfg t = true
      · simp [Seg.keep, Seg.plain?, h, ih]
      · simp [Seg.keep, Seg.plain?, h, ih]
    | region k l =>
      by_cases h : l.isEmpty = true
      · simp only [List.filter_cons, Seg.keep, h, Bool.not_true, Bool.false_eq_true, if_false, List.filterMap_cons, Seg.plain?]
        exact ih
      · simp only [List.filter_cons, Seg.keep, h, Bool.not_false, if_true, List.filterMap_cons, Seg.plain?]
        exact ih

/-- the hard tokens of the certificate outside regions are a subsequence of the hard tokens of `mid cfg ts` -/
theorem hardSeq_plain_sublist (cfg : Cfg) (ts : List Tok) :
    ((hardSeq cfg ts).filterMap Seg.plain?).Sublist (hards cfg (mid cfg ts)) := by
  unfold hardSeq
  rw [filter_keep_plain]
  exact (segsAux_plain_sublist cfg (mid cfg ts) 0).filter _

/-! ## literal spelling keeps the value -/

theorem upperAF {c : Char} (h : ('A' ≤ c && c ≤ 'F') = true) :
    c = 'A' ∨ c = 'B' ∨ c = 'C' ∨ c = 'D' ∨ c = 'E' ∨ c = 'F' := by
  simp only [Bool.and_eq_true, decide_eq_true_eq] at h
  have h1 : 65 ≤ c.toNat := h.1
  have h2 : c.toNat ≤ 70 := h.2
  have hc : c = Char.ofNat c.toNat := (Char.ofNat_toNat c).symm
  have : c.toNat = 65 ∨ c.toNat = 66 ∨ c.toNat = 67 ∨ c.toNat = 68 ∨ c.toNat = 69 ∨ c.toNat = 70 := by omega
  rcases this with h | h | h | h | h | h <;> rw [h] at hc <;> simp [hc]

/-- what `lowerHex` keeps: the digit value, being a hex digit, being `_` -/
theorem lowerHex_keeps (c : Char) :
    digitVal (lowerHex c) = digitVal c ∧ isHexDigit (lowerHex c) = isHexDigit c ∧ (lowerHex c == '_') = (c == '_') := by
  unfold lowerHex
  split
  · rename_i h
    rcases upperAF h with rfl | rfl | rfl | rfl | rfl | rfl <;> decide
  · exact ⟨rfl, rfl, rfl⟩

def hexP (c : Char) : Bool := (isHexDigit c && digitVal c < 16) || c == '_'

theorem hexP_lower (c : Char) : hexP (lowerHex c) = hexP c := by
  obtain ⟨h1, h2, h3⟩ := lowerHex_keeps c
  simp [hexP, h1, h2, h3]

theorem isDigit_bounds {c : Char} (h : isDigit c = true) : 48 ≤ c.toNat ∧ c.toNat ≤ 57 := by
  simp only [isDigit, Bool.and_eq_true, decide_eq_true_eq] at h
  exact ⟨h.1, h.2⟩

theorem hexDigit_lt16 (c : Char) (h : isHexDigit c = true) : digitVal c < 16 := by
  unfold isHexDigit at h
  unfold digitVal
  by_cases hd : isDigit c = true
  · have := isDigit_bounds hd
    simp only [hd, if_true]; omega
  · simp only [hd, Bool.false_eq_true, if_false]
    by_cases hl : ('a' ≤ c && c ≤ 'f') = true
    · simp only [hl, if_true]
      simp only [Bool.and_eq_true, decide_eq_true_eq] at hl
      have h1 : 97 ≤ c.toNat := hl.1
      have h2 : c.toNat ≤ 102 := hl.2
      omega
    · simp only [hl, Bool.false_eq_true, if_false]
      by_cases hu : ('A' ≤ c && c ≤ 'F') = true
      · simp only [hu, if_true]
        simp only [Bool.and_eq_true, decide_eq_true_eq] at hu
        have h1 : 65 ≤ c.toNat := hu.1
        have h2 : c.toNat ≤ 70 := hu.2
        omega
      · simp [hd, hl, hu] at h

theorem hexP_eq : hexP = (fun c => isHexDigit c || c == '_') := by
  funext c
  unfold hexP
  by_cases h : isHexDigit c = true
  · simp [h, hexDigit_lt16 c h]
  · simp [h]

theorem takeWhile_canon (r : List Char) :
    ((r.takeWhile hexP).map lowerHex ++ r.dropWhile hexP).takeWhile hexP = (r.takeWhile hexP).map lowerHex := by
  induction r with
  | nil => rfl
  | cons c r ih =>
    by_cases h : hexP c = true
    · simp only [List.takeWhile_cons, List.dropWhile_cons, h, if_true, List.map_cons, List.cons_append, hexP_lower, ih]
    · have h' : hexP c = false := by simpa using h
      simp [h']

theorem foldl_lower (r : List Char) : ∀ a : Nat,
    ((r.map lowerHex).filter (· != '_')).foldl (fun a c => a * 16 + digitVal c) a =
      (r.filter (· != '_')).foldl (fun a c => a * 16 + digitVal c) a := by
  induction r with
  | nil => intro a; rfl
  | cons x xs ih =>
    intro a
    obtain ⟨h1, _, h3⟩ := lowerHex_keeps x
    have hne : (lowerHex x != '_') = (x != '_') := by simp [bne, h3]
    simp only [List.map_cons, List.filter_cons, hne]
    split
    · simp only [List.foldl_cons, h1]; exact ih _
    · exact ih a

/-- `hex_literal_case` in the validator: the canonical spelling has the same value (and, the rest of
the text being copied, the same suffix), so two literals with equal canonical spellings have equal
values. -/
theorem intValue_hexCanon (cs : List Char) : intValue (hexCanon cs) = intValue cs := by
  unfold hexCanon
  split
  · rename_i r
    simp only [List.cons_append, intValue, digitsValue]
    have e : (fun c => (isHexDigit c && decide (digitVal c < 16)) || c == '_') = hexP := rfl
    rw [e]
    have e2 : (fun c => isHexDigit c || c == '_') = hexP := hexP_eq.symm
    rw [e2, takeWhile_canon, foldl_lower]
  · rfl

theorem hexCanon_eq_value {a b : List Char} (h : hexCanon a = hexCanon b) : intValue a = intValue b := by
  rw [← intValue_hexCanon a, ← intValue_hexCanon b, h]

/-- `float_literal_trailing_zero` in the validator: the canonical spelling is the text itself, or the
text without a fractional part `.000` that holds no other digit than `0` (`1.0e5` ~ `1e5`, `1.` ~ `1`). -/
theorem floatCanon_shape (cs : List Char) :
    floatCanon cs = cs ∨
    ∃ ip fp rest, cs = ip ++ '.' :: (fp ++ rest) ∧ fp.all (fun c => c == '0' || c == '_') = true ∧
      floatCanon cs = ip ++ rest := by
  unfold floatCanon
  split
  · exact Or.inl rfl
  · exact Or.inl rfl
  · exact Or.inl rfl
  · simp only []
    split
    · rename_i r hr
      split
      · rename_i hz
        refine Or.inr ⟨cs.takeWhile isDecDigit_, r.takeWhile isDecDigit_, r.dropWhile isDecDigit_, ?_, hz, rfl⟩
        rw [List.takeWhile_append_dropWhile, ← hr, List.takeWhile_append_dropWhile]
      · exact Or.inl rfl
    · exact Or.inl rfl


/-! ## a toy lexer for the examples (blank-separated words) -/
def splitSp : List Char → List Char → List (List Char)
  | [], cur => [cur.reverse]
  | c :: r, cur => if c == ' ' then cur.reverse :: splitSp r [] else splitSp r (c :: cur)

def exWord (w : List Char) : List Tok :=
  match w with
  | [] => []
  | '/' :: '/' :: '/' :: _ => [⟨['d'], w⟩]
  | '"' :: _ => [⟨['L','s'], w⟩]
  | '\'' :: _ => [⟨['l'], w⟩]
  | c :: _ =>
    if isDigit c then [⟨if w.contains '.' then ['L','f'] else ['L','i'], w⟩]
    else if c.isAlpha || c == '_' then [⟨['i'], w⟩]
    else w.map fun c =>
      if c == '(' || c == '[' || c == '{' then mkO c
      else if c == ')' || c == ']' || c == '}' then mkC c else mkP c

/-- the characters of a string literal as an explicit list (expanded when the file is elaborated: the
kernel is very slow at `String.toList`) -/
macro "chars%" s:str : term => do
  let cs : Array (Lean.TSyntax `term) :=
    (s.getString.toList.map fun c => (⟨Lean.Syntax.mkCharLit c⟩ : Lean.TSyntax `term)).toArray
  `([$cs,*])

/-- `lexEx (chars% "fn f ( x : u32 , ) { }")`: identifiers, lifetimes, numbers, strings and `///` words
become one token, every other character a punctuation / delimiter token -/
def lexEx (s : List Char) : List Tok := (splitSp s []).flatMap exWord

end RF.Tok
