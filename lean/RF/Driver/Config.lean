import RF.Model.Proto
import RF.Model.Config
/-!
Line-protocol operations for the configuration model (C14, used by C15).

  cfg.scaled <max_width>                 -> w1,…,w8     `WidthHeuristics::scaled`, integer model
  cfg.scaledf32 <max_width>              -> w1,…,w8     the same, operation-by-operation f32 emulation
  cfg.set <max_width>                    -> w1,…,w8     `WidthHeuristics::set`
  cfg.null                               -> w1,…,w8     `WidthHeuristics::null`
  cfg.apply <op> … <op>                  -> fields | err
  cfg.applyget <key,…|*> <op> … <op>     -> fields | err     (same, for the listed option names; `*` = every option)
  cfg.clamped <max_width> <widths>       -> ok | bad:<i>     oracle of `explicit_width_clamped`
  cfg.gettoml <tree> <dir>               -> file | none      `get_toml_path`
  cfg.resolve <tree> <dir> [<home> [<config dir>]]  -> file | none | err   `resolve_project_file`
  cfg.loadall  (same arguments as cfg.load)           -> the same with the fields of EVERY option
  cfg.loadpath (same arguments)                       -> file | none | err:<kind>
  cfg.loadvals <key,…> (same arguments)               -> key=value;… | err:<kind>      (values only)
  cfg.loadtoml (same arguments)                       -> key=value;… | unprintable | err:<kind>
                                            what `--print-config current` prints (`to_toml` of `all_options`)
  cfg.roundtrip <op> … <op>              -> same | diff:<key,…> | unprintable | rejected | err
                                            print the configuration the ops produce (`to_toml` of `all_options`), load
                                            the text with `from_toml` (nightly): the options whose value changed
  cfg.edition <style_edition|-> <version|-> <edition|->  -> <chosen>:<style_edition option>
  cfg.load <nightly> <tree> <home> <config dir> <file dir> <contents> <flags> <inline> -> file|none ; fields | err:<kind>

widths w1,…,w8   fn_call, attr_fn_like, struct_lit, struct_variant, array, chain,
                 single_line_if_else, single_line_let_else (decimal)
key              an option name, sent as is (`[a-z_]+`)
value            decimal number | `true` | `false` | `x<hex of UTF-8>` (`x-` empty) for an enum variant
                 or other string, in rustfmt's canonical spelling (`xMax` is NOT accepted: hex only)
pairs            `key=value` joined by `,`; `_` for none
op               `file:<pairs>`      `fill_from_parsed_config` on the current config
                 `toml:<pairs>`      `from_toml_for_style_edition(…, None, None, None)`: fresh config
                 `override:<key>=<value>`   `override_value`
                 `set:<key>=<value>`        `config.set().key(value)`
                 `setcli:<key>=<value>`     `config.set_cli().key(value)`
                 `stable` / `nightly`       channel for the following `file`/`toml` ops (default nightly)
                 `edition:<2015|2018|2021|2024|2027>`  start again from `default_with_style_edition`
                 The sequence starts from `Config::default()`.
fields           `key=value:was_set:was_set_cli` joined by `;` (bits 0/1); for `cfg.apply` the keys are
                 max_width, use_small_heuristics, the eight widths in the order above,
                 imports_granularity, fn_params_layout, show_parse_errors, style_edition
                 `err`: an op hit a panic / type error (unknown key, ill-typed value)
<widths> (clamped) `value:was_set` for the eight widths joined by `,`
dir              `/` for the root, else `/<hex>/<hex>…` (one hex string per component); `-` for absent
tree             `dir:has_dotted:has_plain` (0/1) joined by `;`, `_` for empty: the existing directories
file             `dir:dotted` | `dir:plain`
contents         `dir:dotted(0/1):<pairs>` joined by `;`, `_` for none; a file of the tree that is not
                 listed is unreadable / not TOML
flags            `name=value` joined by `,`, `_` for none; names: verbose quiet check backup unstable
                 files_with_diff (value 1), skip_children error_on_unformatted (0/1),
                 edition style_edition (year), emit color file_lines (x<hex>),
                 config_file (`dir:0|1`) config_dir (`dir`)
inline           <pairs> in the iteration order of the `HashMap`
err:<kind>       notfound | io | invaliddata | panic
-/
namespace RF.Driver.Config
open RF.Proto RF.Config

def encWidths (h : WidthHeuristics) : String :=
  String.intercalate "," (h.toList.map fun p => toString p.2)

def encVal : Val → String
  | .nat n => toString n
  | .bool true => "true"
  | .bool false => "false"
  | .str s => "x" ++ encStr s

def decVal (s : String) : Option Val :=
  if s == "true" then some (.bool true)
  else if s == "false" then some (.bool false)
  else match s.toList with
    | 'x' :: r => (decStr (String.ofList r)).map .str
    | _ => (s.toNat?).map .nat

def decPair (s : String) : Option (String × Val) :=
  match s.splitOn "=" with
  | [k, v] => (decVal v).map fun v => (k, v)
  | _ => none

def decPairs (s : String) : Option (List (String × Val)) :=
  if s == "_" then some [] else (s.splitOn ",").mapM decPair

def bit (b : Bool) : String := if b then "1" else "0"

def decBit (s : String) : Option Bool :=
  if s == "1" then some true else if s == "0" then some false else none

def encField (c : Config) (k : String) : String :=
  let e := getE c k
  s!"{k}={encVal e.val}:{bit e.wasSet}:{bit e.wasSetCli}"

def reportKeys : List String :=
  ["max_width", "use_small_heuristics"] ++ widthKeys ++
  ["imports_granularity", "fn_params_layout", "show_parse_errors", "style_edition"]

def encFields (keys : List String) (c : Config) : String :=
  String.intercalate ";" (keys.map (encField c))

inductive Tok where
  | op (o : Op)
  | chan (nightly : Bool)
  | restart (se : StyleEdition)

def decTok (s : String) : Option Tok :=
  if s == "stable" then some (.chan false)
  else if s == "nightly" then some (.chan true)
  else match s.splitOn ":" with
    | ["file", ps] => (decPairs ps).map fun p => .op (.file p)
    | ["toml", ps] => (decPairs ps).map fun p => .op (.toml p)
    | ["override", p] => (decPair p).map fun kv => .op (.override kv.1 kv.2)
    | ["set", p] => (decPair p).map fun kv => .op (.set kv.1 kv.2)
    | ["setcli", p] => (decPair p).map fun kv => .op (.setCli kv.1 kv.2)
    | ["edition", y] => (StyleEdition.ofStr? y).map .restart
    | _ => none

def runToks : List Tok → Env → Config → Option Config
  | [], _, c => some c
  | .chan n :: r, _, c => runToks r ⟨n⟩ c
  | .restart se :: r, env, _ => runToks r env (defaultWithStyleEdition se)
  | .op o :: r, env, c =>
    match runOp env c o with
    | some c' => runToks r env c'
    | none => none

def apply (keys : List String) (args : List String) : Option String :=
  match args.mapM decTok with
  | none => none
  | some toks =>
    match runToks toks ⟨true⟩ (defaultWithStyleEdition .e2015) with
    | some c => some (encFields keys c)
    | none => some "err"

/-- Oracle of `explicit_width_clamped`: index (0-based) of the first width that was set and exceeds
`max_width`. -/
def clampedAux (mw : Nat) : List (Nat × Bool) → Nat → String
  | [], _ => "ok"
  | (v, ws) :: r, i => if ws && v > mw then s!"bad:{i}" else clampedAux mw r (i + 1)

def decWidthBit (s : String) : Option (Nat × Bool) :=
  match s.splitOn ":" with
  | [v, b] => do
    let v ← v.toNat?
    let b ← decBit b
    pure (v, b)
  | _ => none

def decDir (s : String) : Option (List String) :=
  if s == "/" then some [] else
  match s.splitOn "/" with
  | "" :: comps => comps.mapM decStr
  | _ => none

def encDir (d : List String) : String :=
  if d.isEmpty then "/" else String.join (d.map fun c => "/" ++ encStr c)

def decOptDir (s : String) : Option (Option (List String)) :=
  if s == "-" then some none else (decDir s).map some

def decTree (s : String) : Option (Tree String) :=
  if s == "_" then some [] else
  (s.splitOn ";").mapM fun e =>
    match e.splitOn ":" with
    | [d, a, b] => do
      let d ← decDir d
      let a ← decBit a
      let b ← decBit b
      pure (d, a, b)
    | _ => none

def encFile (f : ConfigFile String) : String :=
  encDir f.dir ++ (if f.dotted then ":dotted" else ":plain")

def encOptFile : Option (ConfigFile String) → String
  | some f => encFile f
  | none => "none"

def encErr : LoadErr → String
  | .notFound => "err:notfound"
  | .io => "err:io"
  | .invalidData => "err:invaliddata"
  | .panic => "err:panic"

def decContents (s : String) : Option (List (ConfigFile String × List (String × Val))) :=
  if s == "_" then some [] else
  (s.splitOn ";").mapM fun e =>
    match e.splitOn ":" with
    | [d, dotted, ps] => do
      let d ← decDir d
      let dotted ← decBit dotted
      let ps ← decPairs ps
      pure (⟨d, dotted⟩, ps)
    | _ => none

def readOf (cs : List (ConfigFile String × List (String × Val))) (f : ConfigFile String) :
    Option (List (String × Val)) :=
  match cs.find? (fun e => e.1 = f) with
  | some e => some e.2
  | none => none

def decStrX (s : String) : Option String :=
  match s.toList with
  | 'x' :: r => decStr (String.ofList r)
  | _ => none

def applyFlag (o : CliOptions String) (name value : String) : Option (CliOptions String) :=
  if name == "verbose" then some { o with verbose := true }
  else if name == "quiet" then some { o with quiet := true }
  else if name == "check" then some { o with check := true }
  else if name == "backup" then some { o with backup := true }
  else if name == "unstable" then some { o with unstableFeatures := true }
  else if name == "files_with_diff" then some { o with printMisformattedFileNames := true }
  else if name == "skip_children" then (decBit value).map fun b => { o with skipChildren := some b }
  else if name == "error_on_unformatted" then
    (decBit value).map fun b => { o with errorOnUnformatted := some b }
  else if name == "edition" then (Edition.ofStr? value).map fun e => { o with edition := some e }
  else if name == "style_edition" then
    (StyleEdition.ofStr? value).map fun e => { o with styleEdition := some e }
  else if name == "emit" then (decStrX value).map fun s => { o with emitMode := some s }
  else if name == "color" then (decStrX value).map fun s => { o with color := some s }
  else if name == "file_lines" then (decStrX value).map fun s => { o with fileLines := some s }
  else none

def decFlagsAux : List String → CliOptions String → Option (CliOptions String)
  | [], o => some o
  | f :: r, o =>
    match f.splitOn "=" with
    | ["config_file", v] =>
      match v.splitOn ":" with
      | [d, b] =>
        match decDir d, decBit b with
        | some d, some b => decFlagsAux r { o with configPath := some (.file ⟨d, b⟩) }
        | _, _ => none
      | _ => none
    | ["config_dir", v] =>
      match decDir v with
      | some d => decFlagsAux r { o with configPath := some (.dir d) }
      | none => none
    | [n, v] =>
      match applyFlag o n v with
      | some o' => decFlagsAux r o'
      | none => none
    | _ => none

def decFlags (s : String) : Option (CliOptions String) :=
  if s == "_" then some {} else decFlagsAux (s.splitOn ",") {}

def encVals (l : List (String × Val)) : String :=
  String.intercalate ";" (l.map fun kv => s!"{kv.1}={encVal kv.2}")

/-- The eight arguments of the `cfg.load*` family, `load_config`, and a printer for its result. -/
def withLoad (args : List String) (k : Config → Option (ConfigFile String) → String) :
    Option String :=
  match args with
  | [nightly, t, home, cfg, fp, contents, flags, inl] => do
    let nightly ← decBit nightly
    let t ← decTree t
    let home ← decOptDir home
    let cfg ← decOptDir cfg
    let fp ← decOptDir fp
    let cs ← decContents contents
    let o ← decFlags flags
    let inl ← decPairs inl
    let o := { o with inlineConfig := inl }
    match loadConfig ⟨nightly⟩ ⟨t, home, cfg, "rustfmt", readOf cs⟩ fp (some o) with
    | .ok (c, p) => pure (k c p)
    | .error e => pure (encErr e)
  | _ => none

def handle (op : String) (args : List String) : Option String :=
  match op, args with
  | "cfg.scaled", [mw] => mw.toNat?.map fun mw => encWidths (WidthHeuristics.scaled mw)
  | "cfg.scaledf32", [mw] => mw.toNat?.map fun mw => encWidths (WidthHeuristics.scaledF32 mw)
  | "cfg.set", [mw] => mw.toNat?.map fun mw => encWidths (WidthHeuristics.set mw)
  | "cfg.null", [] => some (encWidths WidthHeuristics.null)
  | "cfg.apply", ops => apply reportKeys ops
  | "cfg.applyget", keys :: ops => apply (if keys == "*" then optionNames else keys.splitOn ",") ops
  | "cfg.roundtrip", ops =>
    match ops.mapM decTok with
    | none => none
    | some toks =>
      match runToks toks ⟨true⟩ (defaultWithStyleEdition .e2015) with
      | none => some "err"
      | some c =>
        match toToml c with
        | none => some "unprintable"
        | some l =>
          match fromToml ⟨true⟩ l none none none with
          | none => some "rejected"
          | some c2 =>
            match valueDiff c c2 with
            | [] => some "same"
            | ks => some ("diff:" ++ String.intercalate "," ks)
  | "cfg.clamped", [mw, ws] => do
    let mw ← mw.toNat?
    let ws ← (ws.splitOn ",").mapM decWidthBit
    pure (clampedAux mw ws 0)
  | "cfg.gettoml", [t, d] => do
    let t ← decTree t
    let d ← decDir d
    pure (encOptFile (getTomlPath t d))
  | "cfg.resolve", t :: d :: rest => do
    let t ← decTree t
    let d ← decDir d
    let home ← match rest with
      | h :: _ => decOptDir h
      | [] => some none
    let cfg ← match rest with
      | [_, c] => decOptDir c
      | [] | [_] => some none
      | _ => none
    match resolveProjectFile ⟨t, home, cfg, "rustfmt", fun _ => none⟩ d with
    | .ok f => pure (encOptFile f)
    | .error _ => pure "err"
  | "cfg.edition", [se, ver, ed] => do
    let se ← if se == "-" then some none else (StyleEdition.ofStr? se).map some
    let ver ← if ver == "-" then some none else (Version.ofStr? ver).map some
    let ed ← if ed == "-" then some none else (Edition.ofStr? ed).map some
    let c := defaultForPossibleStyleEdition se ed ver
    let field := match (getE c "style_edition").val with
      | .str s => s
      | _ => "?"
    pure s!"{(chosenStyleEdition se ed ver).toStr}:{field}"
  | "cfg.load", args => withLoad args fun c p => encOptFile p ++ ";" ++ encFields reportKeys c
  | "cfg.loadall", args => withLoad args fun c p => encOptFile p ++ ";" ++ encFields optionNames c
  | "cfg.loadpath", args => withLoad args fun _ p => encOptFile p
  | "cfg.loadvals", keys :: args => withLoad args fun c _ => encVals ((keys.splitOn ",").map fun k => (k, (getE c k).val))
  | "cfg.loadtoml", args => withLoad args fun c _ =>
    match toToml c with
    | some l => encVals l
    | none => "unprintable"
  | _, _ => none

end RF.Driver.Config
