#!/usr/bin/env python3
"""Writes /verif/MANIFEST.json from checks/table.json + checks/manifest_meta.json (kept valid at all times)."""
import json, os
V = os.path.dirname(os.path.dirname(os.path.abspath(__file__)))
table = json.load(open(os.path.join(V, "checks", "table.json")))
meta = json.load(open(os.path.join(V, "checks", "manifest_meta.json")))
ids = [json.loads(l)["id"] for l in open(os.path.join(V, "properties.jsonl"))]
import subprocess
try:
    meta['hooks']['source_commits'] = subprocess.run(['git','-C','/repo','log','--reverse','--format=%h %s','--grep=^verif-hooks:'],capture_output=True,text=True).stdout.strip().splitlines()
except Exception:
    pass
checks = []
for pid in ids:
    if pid in table and pid in meta["checks"]:
        m = meta["checks"][pid]
        checks.append({
            "property_id": pid,
            "quick_cmd": f"./check {pid} --tier quick",
            "thorough_cmd": f"./check {pid} --tier thorough",
            "evidence_file": f"/verif/evidence/{pid}.json",
            "replay_cmd_template": f"./check {pid} --replay {{path}}",
            "engine": "lean4+correspondence",
            "level_claimed": {"category": m["category"], "text": m["text"], "design_ref": m.get("design_ref", f"DESIGN.md section 5, {pid}")},
            "level_note": m["note"],
            "technique": m["technique"],
        })
na = [{"property_id": pid, "reason": meta["not_applicable"].get(pid, "check not built yet (work in progress; DESIGN.md section 8 gives the build order)")} for pid in ids if not (pid in table and pid in meta["checks"])]
man = {
    "version": 1,
    "setup_cmd": "./setup.sh",
    "hooks": meta["hooks"],
    "engines": [{"name": "lean4+correspondence", "path": "/verif/check", "serves_properties": [c["property_id"] for c in checks],
                 "kind_free_text": "Lean 4 theorems over executable models (lean/RF), tied to /repo on every run by source->Lean translators (translate/) and by a differential correspondence harness (harness/) that also evaluates the Lean oracles on the real code's output"}],
    "checks": checks,
    "notes": meta.get("notes", ""),
    "not_applicable": na,
}
json.dump(man, open(os.path.join(V, "MANIFEST.json"), "w"), indent=1)
print(f"{len(checks)} checks, {len(na)} not yet claimed")
