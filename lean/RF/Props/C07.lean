import RF.Lemmas.CharClasses
import RF.Lemmas.FormatLines

/-!
# C07  Line-width and trailing-whitespace diagnostics are exact

Theorems about `RF.Model.FormatLines` (the model of `format_lines` / `FormatLines`,
`formatting.rs:474-631`, of `FormatReport::track_errors`, `lib.rs:217-244`, and of the exit
formulas of `bin/main.rs`) against the line-based specification `RF.Model.FormatLinesSpec`.

Quantification: every tagged text `tagged : List (Kind × Char)` (so in particular the output of
the `CharClasses` model on every text, `scan_eq_spec_text`, but the theorems do not depend on how
characters are classified), every configuration `(max_width, tab_spaces, error_on_line_overflow,
error_on_unformatted)`, every `skipped_range` list and every `file_lines` predicate.

Vocabulary (all from `RF.FormatLines.Spec`, none of it mentions the scanner):
`lines tagged` are the `'\n'`-terminated lines; for a line `l`
`width tab l` = Σ over its characters ≠ `'\r'` of (`tab` for a tab, else 1),
`endsBlank l` = its last character ≠ `'\r'` is `char::is_whitespace`,
`commentLine l` = the kind of its `'\n'` is a comment kind,
`stringLine l` = one of its characters ≠ `'\r'` has a string kind,
`reportedWidth tab l` = `width tab l`, minus one when `endsBlank l`.

The scanner returns `none` where the Rust code panics; `scan_lineLen_never_underflows` shows
this needs `tab_spaces = 0`.
-/
namespace RF.Props.C07
open RF.CharClasses (Kind classes)
open RF.FormatLines RF.FormatLines.Spec

/-- A small tagged text used for the non-vacuity examples: line 1 `abcd ` (too wide for
`max_width = 3`, ends blank), line 2 `// ` (a comment line that ends blank), line 3 `x`, line 4
empty. -/
def ex : List (Kind × Char) :=
  classes ['a', 'b', 'c', 'd', ' ', '\n', '/', '/', ' ', '\n', 'x', '\n', '\n']

def exAll : Nat → Bool := fun _ => true

/-- Result of scanning `ex` (all lines selected); `default` only if the scan panicked. -/
def exR (cfg : Config) (skipped : List (Nat × Nat)) : Result :=
  (formatLinesOn cfg skipped exAll ex).getD default

/-- The `i`-th (0-based) terminated line of `ex`. -/
def exL (i : Nat) : Line := ((lines ex)[i]?).getD default

/-! ## The scanner computes the specification -/

/-- **scan_eq_spec.**  For every tagged text, configuration, skipped-range list and selection
predicate, `format_lines` (errors appended to the report *and* buffer after truncation, panics
included) is the line-based specification: the entries are, line by line in order,
`[Trailing | endsBlank ∧ eligible] ++ [Overflow(w', max) | w' > max ∧ error_on_line_overflow ∧
eligible]` with `eligible = selected ∧ ¬skipped ∧ (error_on_unformatted ∨ ¬(commentLine ∨
stringLine))` and `w'` the width minus one when the line ends blank; the text loses all but one
of its trailing newlines. -/
theorem scan_eq_spec (cfg : Config) (skipped : List (Nat × Nat)) (selected : Nat → Bool)
    (tagged : List (Kind × Char)) :
    formatLinesOn cfg skipped selected tagged = Spec.result cfg skipped selected tagged :=
  RF.Lemmas.FormatLines.formatLinesOn_eq_spec cfg skipped selected tagged

/-- The same for a text classified by the `CharClasses` model. -/
theorem scan_eq_spec_text (cfg : Config) (skipped : List (Nat × Nat)) (selected : Nat → Bool)
    (text : List Char) :
    formatLines cfg skipped selected text = Spec.result cfg skipped selected (classes text) :=
  RF.Lemmas.FormatLines.formatLinesOn_eq_spec cfg skipped selected (classes text)

/-- Unfolded form: when the scan does not panic, an entry is in the report exactly when it is a
specified diagnostic of some terminated line under that line's number, the entries come in line
order (trailing-blank entry before the width entry of the same line), and the text is the
specified truncation. -/
theorem scan_eq_spec_lines {cfg : Config} {skipped : List (Nat × Nat)} {selected : Nat → Bool}
    {tagged : List (Kind × Char)} {r : Result}
    (h : formatLinesOn cfg skipped selected tagged = some r) :
    errorsFrom cfg skipped selected 1 (lines tagged) = some r.errors ∧
    r.text = truncated (tagged.map (·.2)) ∧
    ∀ e, e ∈ r.errors ↔
      ∃ i l, (lines tagged)[i]? = some l ∧ e ∈ lineErrors cfg skipped selected (i + 1) l :=
  ⟨(RF.Lemmas.FormatLines.spec_of_scan h).1, (RF.Lemmas.FormatLines.spec_of_scan h).2,
    RF.Lemmas.FormatLines.mem_errors_iff h⟩

example :
    formatLinesOn ⟨3, 4, true, true⟩ [] exAll ex =
      some ⟨[⟨1, .trailingWhitespace, false, false, ['a', 'b', 'c', 'd', ' ']⟩,
             ⟨1, .lineOverflow 4 3, false, false, ['a', 'b', 'c', 'd', ' ']⟩,
             ⟨2, .trailingWhitespace, true, false, ['/', '/', ' ']⟩],
            ['a', 'b', 'c', 'd', ' ', '\n', '/', '/', ' ', '\n', 'x', '\n']⟩ := by decide

/-- The specification judges every character of a text that ends in `'\n'` (as the buffer given
to `format_lines` always does: `format_file` appends one): the terminated lines, glued back with
their newlines, are the whole text. -/
theorem lines_cover (tagged : List (Kind × Char)) (k : Kind) :
    (lines (tagged ++ [(k, '\n')])).flatMap (fun l => l.body ++ [(l.nl, '\n')]) =
      tagged ++ [(k, '\n')] := by
  have h := RF.Lemmas.FormatLines.splitLines_join (tagged ++ [(k, '\n')]) []
  rw [RF.Lemmas.FormatLines.splitLines_snd_of_ends_nl] at h
  simpa [lines] using h

/-- Corner of the scanner (not reachable from `format_file`): an unterminated last line is never
checked — appending newline-free text changes no entry. -/
theorem unterminated_last_line_unchecked (cfg : Config) (skipped : List (Nat × Nat))
    (selected : Nat → Bool) (tagged tail : List (Kind × Char)) (h : ∀ p ∈ tail, p.2 ≠ '\n') :
    (formatLinesOn cfg skipped selected (tagged ++ tail)).map (·.errors) =
      (formatLinesOn cfg skipped selected tagged).map (·.errors) := by
  simp only [scan_eq_spec, Spec.result, Spec.errors, lines, Option.map_map]
  rw [RF.Lemmas.FormatLines.splitLines_append_no_nl tagged [] tail h]
  rfl

example : (formatLinesOn ⟨3, 4, true, true⟩ [] exAll (classes ['a', 'b', 'c', 'd', ' '])).map
    (·.errors) = some [] := by decide

/-! ## One corollary per sentence of the property -/

/-- **reported_iff.**  With `error_on_line_overflow` and `error_on_unformatted` on, line `i + 1`
has an entry in the report if and only if it is selected, not skipped, and is wider than
`max_width` (tab = `tab_spaces` columns) or ends in a blank. -/
theorem reported_iff {cfg : Config} {skipped : List (Nat × Nat)} {selected : Nat → Bool}
    {tagged : List (Kind × Char)} {r : Result}
    (hov : cfg.errorOnLineOverflow = true) (hun : cfg.errorOnUnformatted = true)
    (h : formatLinesOn cfg skipped selected tagged = some r)
    {i : Nat} {l : Line} (hl : (lines tagged)[i]? = some l) :
    (∃ e ∈ r.errors, e.line = i + 1) ↔
      selected (i + 1) = true ∧ inSkipped skipped (i + 1) = false ∧
        (cfg.maxWidth < width cfg.tabSpaces l ∨ endsBlank l = true) := by
  rw [RF.Lemmas.FormatLines.line_reported_iff h hl]
  have hw := RF.Lemmas.FormatLines.reportedWidth_le cfg.tabSpaces l
  simp only [eligible, allowed, hun, hov, Bool.true_or, Bool.and_true, Bool.and_eq_true,
    Bool.not_eq_true', true_and]
  constructor
  · rintro ⟨⟨hs, hk⟩, hb | hw'⟩
    · exact ⟨hs, hk, Or.inr hb⟩
    · exact ⟨hs, hk, Or.inl (by omega)⟩
  · rintro ⟨hs, hk, hw' | hb⟩
    · refine ⟨⟨hs, hk⟩, ?_⟩
      cases hb : endsBlank l with
      | true => exact Or.inl rfl
      | false => exact Or.inr (by simpa [reportedWidth, hb] using hw')
    · exact ⟨⟨hs, hk⟩, Or.inl hb⟩

example :
    formatLinesOn ⟨3, 4, true, true⟩ [(3, 3)] exAll ex = some (exR ⟨3, 4, true, true⟩ [(3, 3)]) ∧
    (lines ex)[0]? = some (exL 0) ∧
    (∃ e ∈ (exR ⟨3, 4, true, true⟩ [(3, 3)]).errors, e.line = 1) := by decide

/-! ## The corner: which *kind* of entry a wide line gets

`reported_iff` speaks of "an entry".  Read kind by kind, the sentence "every line wider than
`max_width` is reported as too wide" is false of the code: `new_line` subtracts one column from a
line that ends blank before it compares with `max_width` (and puts the reduced number into the
entry), so a line that is too wide by exactly its last blank only gets the
`TrailingWhitespace` entry. -/

/-- A `LineOverflow` entry for line `i + 1` exists iff the line is eligible,
`error_on_line_overflow` is on and the *reported* width exceeds `max_width`. -/
theorem overflow_entry_iff {cfg : Config} {skipped : List (Nat × Nat)} {selected : Nat → Bool}
    {tagged : List (Kind × Char)} {r : Result}
    (h : formatLinesOn cfg skipped selected tagged = some r)
    {i : Nat} {l : Line} (hl : (lines tagged)[i]? = some l) :
    (∃ e ∈ r.errors, e.line = i + 1 ∧ ∃ f m, e.kind = .lineOverflow f m) ↔
      eligible cfg skipped selected (i + 1) l = true ∧ cfg.errorOnLineOverflow = true ∧
        cfg.maxWidth < reportedWidth cfg.tabSpaces l := by
  constructor
  · rintro ⟨e, he, hline, f, m, hk⟩
    obtain ⟨j, l', hl', hm⟩ := (RF.Lemmas.FormatLines.mem_errors_iff h e).mp he
    have hj : j = i := by have := RF.Lemmas.FormatLines.line_of_mem_lineErrors hm; omega
    subst hj
    rw [hl] at hl'; cases hl'
    rcases (RF.Lemmas.FormatLines.mem_lineErrors cfg skipped selected _ l e).mp hm with
      ⟨hel, ⟨_, rfl⟩ | ⟨ho, hw, _⟩⟩
    · simp at hk
    · exact ⟨hel, ho, hw⟩
  · rintro ⟨hel, ho, hw⟩
    exact ⟨_, (RF.Lemmas.FormatLines.mem_errors_iff h _).mpr ⟨i, l, hl,
      (RF.Lemmas.FormatLines.mem_lineErrors cfg skipped selected _ l _).mpr
        ⟨hel, Or.inr ⟨ho, hw, rfl⟩⟩⟩, rfl, _, _, rfl⟩

/-- The clean statement "with both flags on, a selected, non-skipped line wider than `max_width`
gets a `LineOverflow` entry". -/
def WideLineGetsOverflowEntry : Prop :=
  ∀ (cfg : Config) (skipped : List (Nat × Nat)) (selected : Nat → Bool)
    (tagged : List (Kind × Char)) (r : Result) (i : Nat) (l : Line),
    cfg.errorOnLineOverflow = true → cfg.errorOnUnformatted = true →
    formatLinesOn cfg skipped selected tagged = some r → (lines tagged)[i]? = some l →
    selected (i + 1) = true → inSkipped skipped (i + 1) = false →
    cfg.maxWidth < width cfg.tabSpaces l →
    ∃ e ∈ r.errors, e.line = i + 1 ∧ ∃ f m, e.kind = .lineOverflow f m

/-- It is false: `abcd␠` at `max_width = 4` is five columns wide and is reported only as ending
in a blank. -/
theorem wide_line_gets_overflow_entry_counterexample : ¬ WideLineGetsOverflowEntry := by
  intro hall
  obtain ⟨e, he, _, f, m, hk⟩ := hall ⟨4, 4, true, true⟩ [] exAll ex (exR ⟨4, 4, true, true⟩ []) 0
    (exL 0) rfl rfl (by decide) (by decide) rfl (by decide) (by decide)
  have hes : (exR ⟨4, 4, true, true⟩ []).errors =
      [⟨1, .trailingWhitespace, false, false, ['a', 'b', 'c', 'd', ' ']⟩,
       ⟨2, .trailingWhitespace, true, false, ['/', '/', ' ']⟩] := by decide
  rw [hes] at he
  simp only [List.mem_cons, List.not_mem_nil, or_false] at he
  rcases he with rfl | rfl <;> simp at hk

/-- What does hold: a wide line that does not end blank gets its `LineOverflow` entry, carrying
its exact width; one that ends blank gets it iff it is wide even without one column. -/
theorem wide_line_gets_overflow_entry_partial {cfg : Config} {skipped : List (Nat × Nat)}
    {selected : Nat → Bool} {tagged : List (Kind × Char)} {r : Result}
    (hov : cfg.errorOnLineOverflow = true) (hun : cfg.errorOnUnformatted = true)
    (h : formatLinesOn cfg skipped selected tagged = some r)
    {i : Nat} {l : Line} (hl : (lines tagged)[i]? = some l)
    (hsel : selected (i + 1) = true) (hsk : inSkipped skipped (i + 1) = false)
    (hw : cfg.maxWidth < width cfg.tabSpaces l) (hb : endsBlank l = false) :
    (⟨i + 1, .lineOverflow (width cfg.tabSpaces l) cfg.maxWidth, commentLine l, stringLine l,
      lineText l⟩ : FormattingError) ∈ r.errors := by
  have hrw : reportedWidth cfg.tabSpaces l = width cfg.tabSpaces l := by simp [reportedWidth, hb]
  refine (RF.Lemmas.FormatLines.mem_errors_iff h _).mpr ⟨i, l, hl,
    (RF.Lemmas.FormatLines.mem_lineErrors cfg skipped selected _ l _).mpr
      ⟨by simp [eligible, allowed, hsel, hsk, hun], Or.inr ⟨hov, by omega, by rw [hrw]⟩⟩⟩

example :
    formatLinesOn ⟨3, 4, true, true⟩ [] exAll (classes ['a', 'b', 'c', 'd', '\n']) =
      some ⟨[⟨1, .lineOverflow 4 3, false, false, ['a', 'b', 'c', 'd']⟩],
        ['a', 'b', 'c', 'd', '\n']⟩ := by decide

/-! ## What "comment line" and "string line" mean for the real classifier

Two concrete consequences of the definitions (`commentLine` looks only at the kind of the
`'\n'`; `stringLine` at the kinds `CharClasses` hands out), stated so that the reader of the
property sees them. -/

/-- The last line of a block comment is not a comment line (its `'\n'` comes after `*/`), so with
`error_on_unformatted` off it is still reported, while the first line of the same comment is
exempt. -/
theorem block_comment_last_line_not_exempt :
    (formatLines ⟨3, 4, true, false⟩ [] (fun _ => true)
      ['/', '*', 'a', 'a', 'a', '\n', 'b', 'b', 'b', '*', '/', '\n']).map (·.errors) =
      some [⟨2, .lineOverflow 5 3, false, false, ['b', 'b', 'b', '*', '/']⟩] := by decide

/-- A raw identifier makes its line a "string line" (`r#` starts `RawStringPrefix`, whose
"unreachable" arm is reached by the `t`): with `error_on_unformatted` off the line is exempt. -/
theorem raw_identifier_line_exempt :
    (formatLines ⟨3, 4, true, false⟩ [] (fun _ => true)
      ['r', '#', 't', 'y', 'p', 'e', ' ', '\n']).map (·.errors) = some [] ∧
    (formatLines ⟨3, 4, true, false⟩ [] (fun _ => true)
      ['t', 'y', 'p', 'e', 'e', 'e', ' ', '\n']).map (·.errors) =
      some [⟨1, .trailingWhitespace, false, false, ['t', 'y', 'p', 'e', 'e', 'e', ' ']⟩,
            ⟨1, .lineOverflow 6 3, false, false, ['t', 'y', 'p', 'e', 'e', 'e', ' ']⟩] := by
  decide

/-- **no_spurious.**  Under every setting, every entry of the report names an existing
terminated line that is selected, not skipped and not exempted, carries that line's text, and is
justified: a `TrailingWhitespace` entry only for a line that ends blank, a `LineOverflow(found,
max)` entry only with `error_on_line_overflow`, `max = max_width`, `found` = the reported width of
that line, and `max_width < found ≤ width` — the line really is too wide. -/
theorem no_spurious {cfg : Config} {skipped : List (Nat × Nat)} {selected : Nat → Bool}
    {tagged : List (Kind × Char)} {r : Result}
    (h : formatLinesOn cfg skipped selected tagged = some r) :
    ∀ e ∈ r.errors, ∃ l, 1 ≤ e.line ∧ (lines tagged)[e.line - 1]? = some l ∧
      selected e.line = true ∧ inSkipped skipped e.line = false ∧ allowed cfg l = true ∧
      e.lineBuffer = lineText l ∧ e.isComment = commentLine l ∧
      ((e.kind = .trailingWhitespace ∧ endsBlank l = true ∧ e.isString = l.nl.isString) ∨
       (e.kind = .lineOverflow (reportedWidth cfg.tabSpaces l) cfg.maxWidth ∧
          cfg.errorOnLineOverflow = true ∧ cfg.maxWidth < reportedWidth cfg.tabSpaces l ∧
          reportedWidth cfg.tabSpaces l ≤ width cfg.tabSpaces l ∧ e.isString = stringLine l)) := by
  intro e he
  obtain ⟨i, l, hl, hm⟩ := (RF.Lemmas.FormatLines.mem_errors_iff h e).mp he
  have hline := RF.Lemmas.FormatLines.line_of_mem_lineErrors hm
  have hw := RF.Lemmas.FormatLines.reportedWidth_le cfg.tabSpaces l
  obtain ⟨hel, hcase⟩ := (RF.Lemmas.FormatLines.mem_lineErrors cfg skipped selected _ l e).mp hm
  simp only [eligible, Bool.and_eq_true, Bool.not_eq_true'] at hel
  refine ⟨l, by omega, by simpa [hline] using hl, by simpa [hline] using hel.1.1,
    by simpa [hline] using hel.1.2, hel.2, ?_⟩
  rcases hcase with ⟨hb, rfl⟩ | ⟨ho, hgt, rfl⟩
  · exact ⟨rfl, rfl, Or.inl ⟨rfl, hb, rfl⟩⟩
  · exact ⟨rfl, rfl, Or.inr ⟨rfl, ho, hgt, hw, rfl⟩⟩

/-- **line_numbers_one_based.**  The number carried by an entry is the 1-based line number in the
usual sense: the reported line is preceded in the text by exactly `e.line - 1` newline
characters, is terminated by a `'\n'` and contains none; so the first line is line 1.  Entries
come in non-decreasing line order. -/
theorem line_numbers_one_based {cfg : Config} {skipped : List (Nat × Nat)} {selected : Nat → Bool}
    {tagged : List (Kind × Char)} {r : Result}
    (h : formatLinesOn cfg skipped selected tagged = some r) :
    (∀ e ∈ r.errors, ∃ l pre post, e ∈ lineErrors cfg skipped selected e.line l ∧
      tagged = pre ++ l.body ++ [(l.nl, '\n')] ++ post ∧
      (pre.map (·.2)).count '\n' + 1 = e.line ∧ ∀ p ∈ l.body, p.2 ≠ '\n') ∧
    r.errors.Pairwise (fun a b => a.line ≤ b.line) := by
  constructor
  · intro e he
    obtain ⟨i, l, hl, hm⟩ := (RF.Lemmas.FormatLines.mem_errors_iff h e).mp he
    have hline := RF.Lemmas.FormatLines.line_of_mem_lineErrors hm
    obtain ⟨pre, post, hd, hc, hb⟩ :=
      RF.Lemmas.FormatLines.splitLines_decomp tagged [] i l (by simp) hl
    exact ⟨l, pre, post, by simpa [hline] using hm, by simpa using hd, by omega, hb⟩
  · exact RF.Lemmas.FormatLines.errorsFrom_sorted cfg skipped selected _ _ _
      (RF.Lemmas.FormatLines.spec_of_scan h).1

/-- **unformatted_off_exemptions.**  Switching `error_on_unformatted` off removes from a line's
diagnostics exactly this: everything if the line is a comment line or a string line, nothing
otherwise. -/
theorem unformatted_off_exemptions (cfg : Config) (skipped : List (Nat × Nat))
    (selected : Nat → Bool) (n : Nat) (l : Line) :
    lineErrors { cfg with errorOnUnformatted := false } skipped selected n l =
      if commentLine l || stringLine l then []
      else lineErrors { cfg with errorOnUnformatted := true } skipped selected n l := by
  cases hc : commentLine l <;> cases hs : stringLine l <;>
    simp [lineErrors, eligible, allowed, hc, hs]

/-- … and at the level of a whole report: with `error_on_unformatted` off, line `i + 1` has an
entry iff it is selected, not skipped, neither a comment line nor a string line, and ends blank
or (with `error_on_line_overflow`) is reported too wide. -/
theorem unformatted_off_reported_iff {cfg : Config} {skipped : List (Nat × Nat)}
    {selected : Nat → Bool} {tagged : List (Kind × Char)} {r : Result}
    (hun : cfg.errorOnUnformatted = false)
    (h : formatLinesOn cfg skipped selected tagged = some r)
    {i : Nat} {l : Line} (hl : (lines tagged)[i]? = some l) :
    (∃ e ∈ r.errors, e.line = i + 1) ↔
      selected (i + 1) = true ∧ inSkipped skipped (i + 1) = false ∧
        commentLine l = false ∧ stringLine l = false ∧
        (endsBlank l = true ∨
          (cfg.errorOnLineOverflow = true ∧ cfg.maxWidth < reportedWidth cfg.tabSpaces l)) := by
  rw [RF.Lemmas.FormatLines.line_reported_iff h hl]
  simp only [eligible, allowed, hun, Bool.false_or, Bool.and_eq_true, Bool.not_eq_true',
    Bool.or_eq_false_iff]
  constructor
  · rintro ⟨⟨⟨a, b⟩, c, d⟩, e⟩; exact ⟨a, b, c, d, e⟩
  · rintro ⟨a, b, c, d, e⟩; exact ⟨⟨⟨a, b⟩, c, d⟩, e⟩

example :
    formatLinesOn ⟨3, 4, true, false⟩ [] exAll ex = some (exR ⟨3, 4, true, false⟩ []) ∧
    (lines ex)[1]? = some (exL 1) ∧ commentLine (exL 1) = true ∧ endsBlank (exL 1) = true ∧
    ¬ ∃ e ∈ (exR ⟨3, 4, true, false⟩ []).errors, e.line = 2 := by decide

/-- **trailing_blank_always_reported.**  A selected, non-skipped line that ends blank and is
neither a comment line nor a string line gets its `TrailingWhitespace` entry under every
setting of `error_on_line_overflow` and `error_on_unformatted` (and a comment or string line
does too once `error_on_unformatted` is on). -/
theorem trailing_blank_always_reported {cfg : Config} {skipped : List (Nat × Nat)}
    {selected : Nat → Bool} {tagged : List (Kind × Char)} {r : Result}
    (h : formatLinesOn cfg skipped selected tagged = some r)
    {i : Nat} {l : Line} (hl : (lines tagged)[i]? = some l)
    (hsel : selected (i + 1) = true) (hsk : inSkipped skipped (i + 1) = false)
    (hb : endsBlank l = true)
    (hex : cfg.errorOnUnformatted = true ∨ (commentLine l = false ∧ stringLine l = false)) :
    (⟨i + 1, .trailingWhitespace, commentLine l, l.nl.isString, lineText l⟩ : FormattingError)
      ∈ r.errors := by
  refine (RF.Lemmas.FormatLines.mem_errors_iff h _).mpr ⟨i, l, hl,
    (RF.Lemmas.FormatLines.mem_lineErrors cfg skipped selected _ l _).mpr ⟨?_, Or.inl ⟨hb, rfl⟩⟩⟩
  rcases hex with hu | ⟨hc, hs⟩
  · simp [eligible, allowed, hsel, hsk, hu]
  · simp [eligible, allowed, hsel, hsk, hc, hs]

example :
    formatLinesOn ⟨100, 4, false, false⟩ [(2, 9)] exAll ex =
      some (exR ⟨100, 4, false, false⟩ [(2, 9)]) ∧
    (lines ex)[0]? = some (exL 0) ∧ inSkipped [(2, 9)] 1 = false ∧ endsBlank (exL 0) = true ∧
    commentLine (exL 0) = false ∧ stringLine (exL 0) = false := by decide

/-- **trailing_blank_exit_1.**  … and then the run exits with 1, on files (with or without
`--check`) and on standard input, whatever else the report and the session already contain:
`track_errors` sets `has_operational_errors`, `Session` merges it, the exit formulas test it. -/
theorem trailing_blank_exit_1 {cfg : Config} {skipped : List (Nat × Nat)}
    {selected : Nat → Bool} {tagged : List (Kind × Char)} {r : Result}
    (h : formatLinesOn cfg skipped selected tagged = some r)
    {i : Nat} {l : Line} (hl : (lines tagged)[i]? = some l)
    (hsel : selected (i + 1) = true) (hsk : inSkipped skipped (i + 1) = false)
    (hb : endsBlank l = true)
    (hex : cfg.errorOnUnformatted = true ∨ (commentLine l = false ∧ stringLine l = false))
    (report session : ReportedErrors) (check : Bool) :
    let report' := trackErrors report (r.errors.map (·.kind))
    report'.hasOperationalErrors = true ∧ report'.hasFormattingErrors = true ∧
    exitCodeFiles (session.add report') check = 1 ∧ exitCodeStdin (session.add report') = 1 := by
  have hm := trailing_blank_always_reported h hl hsel hsk hb hex
  have hk : ErrorKind.trailingWhitespace ∈ r.errors.map (·.kind) :=
    List.mem_map.mpr ⟨_, hm, rfl⟩
  have hop := RF.Lemmas.FormatLines.trackErrors_op report _ _ hk rfl
  have hfm := RF.Lemmas.FormatLines.trackErrors_formatting report _ (List.ne_nil_of_mem hk)
  exact ⟨hop, hfm, RF.Lemmas.FormatLines.exit_of_op session _ check hop⟩

/-- Every entry `format_lines` produces (either kind) makes the run exit with 1. -/
theorem any_entry_exit_1 {cfg : Config} {skipped : List (Nat × Nat)}
    {selected : Nat → Bool} {tagged : List (Kind × Char)} {r : Result}
    (h : formatLinesOn cfg skipped selected tagged = some r) (hne : r.errors ≠ [])
    (report session : ReportedErrors) (check : Bool) :
    exitCodeFiles (session.add (trackErrors report (r.errors.map (·.kind)))) check = 1 ∧
    exitCodeStdin (session.add (trackErrors report (r.errors.map (·.kind)))) = 1 := by
  obtain ⟨e, he⟩ := List.exists_mem_of_ne_nil _ hne
  obtain ⟨l, _, _, _, _, _, _, _, hk⟩ := no_spurious h e he
  have hk' : RF.Lemmas.FormatLines.setsOperational e.kind = true := by
    rcases hk with ⟨hk, _⟩ | ⟨hk, _⟩ <;> rw [hk] <;> rfl
  exact RF.Lemmas.FormatLines.exit_of_op session _ check
    (RF.Lemmas.FormatLines.trackErrors_op report _ _ (List.mem_map.mpr ⟨e, he, rfl⟩) hk')

/-- … and a report without entries leaves the flags of `track_errors` untouched. -/
theorem no_entry_no_flag (report : ReportedErrors) : trackErrors report [] = report := by
  simp [trackErrors]

/-- **scan_lineLen_never_underflows.**  With `tab_spaces ≥ 1` the subtraction `line_len -= 1`
never goes below zero (nor does `text.len() - newline_count`, and the truncation falls on a
character boundary): `format_lines` does not panic. -/
theorem scan_lineLen_never_underflows (cfg : Config) (skipped : List (Nat × Nat))
    (selected : Nat → Bool) (tagged : List (Kind × Char)) (ht : 1 ≤ cfg.tabSpaces) :
    (formatLinesOn cfg skipped selected tagged).isSome :=
  RF.Lemmas.FormatLines.scan_isSome ht

example : (1 : Nat) ≤ (⟨3, 4, true, true⟩ : Config).tabSpaces := by decide

/-- The hypothesis is needed: with `tab_spaces = 0` a selected line consisting of a tab panics
(`0 - 1` on a `usize`, builds with overflow checks). -/
theorem scan_lineLen_underflow_counterexample :
    formatLines ⟨100, 0, true, true⟩ [] (fun _ => true) ['\t', '\n'] = none := by decide

/-- `CharClasses::next` itself never panics on any text (its assertions and `u32`
subtractions are unreachable from the initial status), so `classes` is its faithful total form. -/
theorem charClasses_never_panics (text : List Char) :
    RF.CharClasses.classes? text = some (classes text) :=
  RF.Lemmas.CharClasses.classes?_eq text

/-- The classifier returns the characters of the text unchanged: the tagged text the scanner
walks over *is* the text. -/
theorem classes_text (text : List Char) : (classes text).map (·.2) = text :=
  RF.Lemmas.CharClasses.classes_map_snd text

end RF.Props.C07
