import RF.Model.Comment
import RF.Lemmas.CharClasses
/-!
Lemmas about the comment model (`RF.Comment`): the slice iterators partition their input, the
`_ => panic!()` arm of `UngroupedCommentCodeSlices` and the `&subslice[..2]` of `CommentCodeSlices`
are never reached, `CommentReducer` depends only on the stripped lines of a comment, the safety net.
-/
namespace RF.Lemmas.Comment
open RF.CharClasses RF.Comment RF.Lemmas.CharClasses

/-! ## `takeCode` / `takeComment` split their input -/

theorem takeCode_split : ∀ l : List (Kind × Char),
    (takeCode l).1 ++ (takeCode l).2.map (·.2) = l.map (·.2)
  | [] => rfl
  | (k, c) :: rest => by
    unfold takeCode
    split
    · simp
    · simp [takeCode_split rest]

theorem takeComment_split : ∀ l : List (Kind × Char),
    (takeComment l).1 ++ (takeComment l).2.map (·.2) = l.map (·.2)
  | [] => rfl
  | (k, c) :: rest => by
    unfold takeComment
    split
    · simp [takeComment_split rest]
    · simp

theorem takeCode_length : ∀ l : List (Kind × Char), (takeCode l).2.length ≤ l.length
  | [] => by simp [takeCode]
  | (k, c) :: rest => by
    unfold takeCode
    split
    · simp
    · have := takeCode_length rest
      simp; omega

theorem takeComment_length : ∀ l : List (Kind × Char), (takeComment l).2.length ≤ l.length
  | [] => by simp [takeComment]
  | (k, c) :: rest => by
    unfold takeComment
    split
    · have := takeComment_length rest
      simp; omega
    · simp

/-- With enough fuel, the slices `ungroupedGo` returns concatenate to the characters it was given. -/
theorem ungroupedGo_concat : ∀ (fuel off : Nat) (l : List (Kind × Char)) (items : List Slice),
    l.length ≤ fuel → ungroupedGo fuel off l = some items →
    items.flatMap (·.text) = l.map (·.2)
  | 0, _, l, items, hl, h => by
    have : l = [] := List.length_eq_zero_iff.mp (by omega)
    subst this
    simp [ungroupedGo] at h
    subst h; rfl
  | fuel + 1, off, [], items, _, h => by
    simp [ungroupedGo] at h
    subst h; rfl
  | fuel + 1, off, (k, c) :: rest, items, hl, h => by
    simp only [List.length_cons] at hl
    have code : ∀ kind, (ungroupedGo fuel (off + utf8Len (c :: (takeCode rest).1)) (takeCode rest).2).map
        (⟨kind, off, c :: (takeCode rest).1⟩ :: ·) = some items →
        items.flatMap (·.text) = ((k, c) :: rest).map (·.2) := by
      intro kind h
      simp only [Option.map_eq_some_iff] at h
      obtain ⟨tl, htl, rfl⟩ := h
      have h1 := takeCode_length rest
      have h2 := takeCode_split rest
      have ih := ungroupedGo_concat fuel _ _ tl (by omega) htl
      simp only [List.flatMap_cons, ih, List.map_cons, List.cons_append]
      rw [h2]
    cases k with
    | normal => exact code _ (by simpa [ungroupedGo] using h)
    | inString => exact code _ (by simpa [ungroupedGo] using h)
    | startComment =>
      simp only [ungroupedGo, Option.map_eq_some_iff] at h
      obtain ⟨tl, htl, rfl⟩ := h
      have h1 := takeComment_length rest
      have h2 := takeComment_split rest
      have ih := ungroupedGo_concat fuel _ _ tl (by omega) htl
      simp only [List.flatMap_cons, ih, List.map_cons, List.cons_append]
      rw [h2]
    | _ => simp [ungroupedGo] at h

/-! ## The kind sequence `CharClasses` emits

Code characters (`Normal`, `InString`) until a `StartComment`, then characters inside the comment
until an `EndComment` (or the end of the text), and so on: the regular language below.  This is
what keeps `UngroupedCommentCodeSlices::next` away from its `_ => panic!()` arm. -/

/-- `KindsOk inComment ks`: `ks` is a suffix of such a sequence (`inComment` = a comment is open). -/
def KindsOk : Bool → List Kind → Prop
  | _, [] => True
  | false, k :: ks =>
    (k = .normal ∨ k = .inString) ∧ KindsOk false ks ∨ k = .startComment ∧ KindsOk true ks
  | true, k :: ks =>
    (k = .inComment ∨ k = .inStringCommented) ∧ KindsOk true ks ∨ k = .endComment ∧ KindsOk false ks

/-- The states in which a comment is open. -/
def commentState : Status → Bool
  | .blockComment _ | .stringInBlockComment _ | .blockCommentOpening _
  | .blockCommentClosing _ | .lineComment => true
  | _ => false

theorem step_kind (st : Status) (c : Char) (rest : List Char) (h : Ok st (c :: rest)) :
    Ok (step st c rest).1 rest ∧
    (commentState st = false →
      ((step st c rest).2 = .normal ∨ (step st c rest).2 = .inString) ∧
        commentState (step st c rest).1 = false ∨
      (step st c rest).2 = .startComment ∧ commentState (step st c rest).1 = true) ∧
    (commentState st = true →
      ((step st c rest).2 = .inComment ∨ (step st c rest).2 = .inStringCommented) ∧
        commentState (step st c rest).1 = true ∨
      (step st c rest).2 = .endComment ∧ commentState (step st c rest).1 = false) := by
  cases st <;> simp only [Ok, List.head?_cons, Option.some.injEq] at h <;>
    simp only [step, step?, commentState] <;> (repeat' split) <;> simp_all [Ok] <;> omega

theorem run_kindsOk : ∀ (s : List Char) (st : Status), Ok st s →
    KindsOk (commentState st) ((run st s).map (·.1))
  | [], _, _ => by simp [run, KindsOk]
  | c :: rest, st, h => by
    obtain ⟨hok, h1, h2⟩ := step_kind st c rest h
    have ih := run_kindsOk rest (step st c rest).1 hok
    simp only [run, List.map_cons]
    cases hs : commentState st
    · rcases h1 hs with ⟨hk, hn⟩ | ⟨hk, hn⟩
      · rw [hn] at ih; exact Or.inl ⟨hk, ih⟩
      · rw [hn] at ih; exact Or.inr ⟨hk, ih⟩
    · rcases h2 hs with ⟨hk, hn⟩ | ⟨hk, hn⟩
      · rw [hn] at ih; exact Or.inl ⟨hk, ih⟩
      · rw [hn] at ih; exact Or.inr ⟨hk, ih⟩

theorem classes_kindsOk (s : List Char) : KindsOk false ((classes s).map (·.1)) :=
  run_kindsOk s .normal trivial

/-! ## `UngroupedCommentCodeSlices` never reaches `panic!()` -/

theorem takeCode_kinds : ∀ l : List (Kind × Char), KindsOk false (l.map (·.1)) →
    (takeCode l).2 = [] ∨
      ∃ c rest, (takeCode l).2 = (.startComment, c) :: rest ∧ KindsOk true (rest.map (·.1))
  | [], _ => Or.inl rfl
  | (k, c) :: rest, h => by
    simp only [List.map_cons, KindsOk] at h
    rcases h with ⟨hk, hr⟩ | ⟨hk, hr⟩
    · have : k.isComment = false := by rcases hk with rfl | rfl <;> rfl
      simp only [takeCode, this]
      exact takeCode_kinds rest hr
    · subst hk
      exact Or.inr ⟨c, rest, by simp [takeCode, Kind.isComment], hr⟩

theorem takeComment_kinds : ∀ l : List (Kind × Char), KindsOk true (l.map (·.1)) →
    KindsOk false ((takeComment l).2.map (·.1))
  | [], _ => by simp [takeComment, KindsOk]
  | (k, c) :: rest, h => by
    simp only [List.map_cons, KindsOk] at h
    rcases h with ⟨hk, hr⟩ | ⟨hk, hr⟩
    · have : k.insideComment = true := by rcases hk with rfl | rfl <;> rfl
      simp only [takeComment, this]
      exact takeComment_kinds rest hr
    · subst hk
      simpa [takeComment, Kind.insideComment] using hr

theorem ungroupedGo_isSome : ∀ (fuel off : Nat) (l : List (Kind × Char)),
    KindsOk false (l.map (·.1)) → (ungroupedGo fuel off l).isSome
  | 0, _, _, _ => rfl
  | _ + 1, _, [], _ => rfl
  | fuel + 1, off, (k, c) :: rest, h => by
    simp only [List.map_cons, KindsOk] at h
    have code : KindsOk false (rest.map (·.1)) →
        ((ungroupedGo fuel (off + utf8Len (c :: (takeCode rest).1)) (takeCode rest).2).map
          (⟨.normal, off, c :: (takeCode rest).1⟩ :: ·)).isSome := by
      intro hr
      rcases takeCode_kinds rest hr with h0 | ⟨c', r', h1, h2⟩
      · simp [h0, ungroupedGo_isSome fuel _ [] (by simp [KindsOk])]
      · rw [h1]
        have := ungroupedGo_isSome fuel (off + utf8Len (c :: (takeCode rest).1))
          ((.startComment, c') :: r') (by simpa [KindsOk] using h2)
        simpa using this
    rcases h with ⟨hk, hr⟩ | ⟨hk, hr⟩
    · rcases hk with rfl | rfl <;> simpa [ungroupedGo] using code hr
    · subst hk
      have := ungroupedGo_isSome fuel (off + utf8Len (c :: (takeComment rest).1))
        (takeComment rest).2 (takeComment_kinds rest hr)
      simpa [ungroupedGo] using this

/-- `UngroupedCommentCodeSlices` returns slices for every text (no panic) … -/
theorem ungrouped_isSome (s : List Char) : (ungrouped? s).isSome :=
  ungroupedGo_isSome _ _ _ (classes_kindsOk s)

/-- … and they concatenate to the text. -/
theorem ungrouped_concat (s : List Char) (items : List Slice) (h : ungrouped? s = some items) :
    items.flatMap (·.text) = s := by
  have := ungroupedGo_concat s.length 0 (classes s) items (by simp [classes_length]) h
  simpa [classes_map_snd] using this

/-! ## `CommentCodeSlices` -/

/-- A text that begins with a comment opener. -/
def Opener (rest : List Char) : Prop :=
  ∃ c2 t, rest = '/' :: c2 :: t ∧ (c2 = '/' ∨ c2 = '*')

theorem step_startComment (st : Status) (c : Char) (rest : List Char)
    (h : (step st c rest).2 = .startComment) : Opener (c :: rest) := by
  cases st <;> simp only [step, step?] at h <;> (repeat' split at h) <;>
    simp_all [Opener]

/-- The first comment character after a run of code characters is a `StartComment`, and the text
has a comment opener there. -/
theorem run_first_comment : ∀ (s : List Char) (st : Status) (pre : List (Kind × Char))
    (k0 : Kind) (c0 : Char) (post : List (Kind × Char)),
    Ok st s → commentState st = false → run st s = pre ++ (k0, c0) :: post →
    (∀ x ∈ pre, x.1.isComment = false) → k0.isComment = true →
    Opener (s.drop pre.length)
  | [], _, pre, _, _, _, _, _, h, _, _ => by
    simp [run] at h
  | c :: rest, st, [], k0, c0, post, hok, hcs, h, _, hk => by
    simp only [run, List.nil_append, List.cons.injEq, Prod.mk.injEq] at h
    obtain ⟨hok', h1, _⟩ := step_kind st c rest hok
    rcases h1 hcs with ⟨hk', _⟩ | ⟨hk', _⟩
    · rw [h.1.1] at hk'
      rcases hk' with rfl | rfl <;> simp [Kind.isComment] at hk
    · simpa using step_startComment st c rest hk'
  | c :: rest, st, (k, c') :: pre, k0, c0, post, hok, hcs, h, hpre, hk => by
    simp only [run, List.cons_append, List.cons.injEq, Prod.mk.injEq] at h
    obtain ⟨hok', h1, _⟩ := step_kind st c rest hok
    have hkc : k.isComment = false := hpre (k, c') (by simp)
    rcases h1 hcs with ⟨_, hn⟩ | ⟨hk', _⟩
    · have := run_first_comment rest _ pre k0 c0 post hok' hn h.2
        (fun x hx => hpre x (by simp [hx])) hk
      simpa using this
    · rw [h.1.1] at hk'
      subst hk'
      simp [Kind.isComment] at hkc

/-- The `for` loop when a Normal slice is sought (`last_slice_kind == Comment`): no connector, so
it stops at the first comment character. -/
theorem ccsScan_comment : ∀ (l : List (Kind × Char)) (i : Nat),
    (∃ pre k0 c0 post, l = pre ++ (k0, c0) :: post ∧ (∀ x ∈ pre, x.1.isComment = false) ∧
      k0.isComment = true ∧
      ccsScan .comment false i none l = .broke (i + pre.length) none (!post.isEmpty)) ∨
    ((∀ x ∈ l, x.1.isComment = false) ∧ ccsScan .comment false i none l = .finished none)
  | [], i => Or.inr ⟨by simp, rfl⟩
  | (k, c) :: rest, i => by
    cases hk : k.isComment
    · rcases ccsScan_comment rest (i + 1) with ⟨pre, k0, c0, post, h1, h2, h3, h4⟩ | ⟨h1, h2⟩
      · refine Or.inl ⟨(k, c) :: pre, k0, c0, post, by simp [h1], ?_, h3, ?_⟩
        · intro x hx
          rcases List.mem_cons.mp hx with rfl | hx
          · exact hk
          · exact h2 x hx
        · simp only [ccsScan, Kind.toCodeCharKind, hk]
          simp [h4]; omega
      · refine Or.inr ⟨?_, ?_⟩
        · intro x hx
          rcases List.mem_cons.mp hx with rfl | hx
          · exact hk
          · exact h1 x hx
        · simp only [ccsScan, Kind.toCodeCharKind, hk]
          simp [h2]
    · refine Or.inl ⟨[], k, c, rest, rfl, by simp, hk, ?_⟩
      simp [ccsScan, Kind.toCodeCharKind, hk]


theorem ccsNext_comment (rest : List Char) :
    ∃ n, ccsNext? .comment rest = some n ∧ (rest.drop n = [] ∨ Opener (rest.drop n)) := by
  have hne : (CodeCharKind.comment == CodeCharKind.normal) = false := by decide
  rcases ccsScan_comment (classes rest) 0 with ⟨pre, k0, c0, post, h1, h2, h3, h4⟩ | ⟨_, h2⟩
  · have hop : Opener (rest.drop pre.length) :=
      run_first_comment rest .normal pre k0 c0 post trivial rfl h1 h2 h3
    unfold ccsNext?
    simp only [hne, Bool.false_eq_true, if_false, h4, Nat.zero_add, Option.getD_none]
    by_cases hz : (pre.length == 0 && !!post.isEmpty) = true
    · exact ⟨rest.length, by rw [if_pos hz], Or.inl (by simp)⟩
    · exact ⟨pre.length, by rw [if_neg hz], Or.inr hop⟩
  · refine ⟨rest.length, ?_, Or.inl (by simp)⟩
    unfold ccsNext?
    simp only [hne, Bool.false_eq_true, if_false, h2]

/-- Lower bound on the indices the `for` loop returns. -/
def ScanGe (lo : Nat) : Scan → Prop
  | .broke k fw _ => lo ≤ k ∧ ∀ j, fw = some j → lo ≤ j
  | .finished fw => ∀ j, fw = some j → lo ≤ j

theorem ccsScan_bounds (lk : CodeCharKind) (ss : Bool) : ∀ (l : List (Kind × Char)) (i : Nat)
    (fw : Option Nat) (lo : Nat), lo ≤ i → (∀ j, fw = some j → lo ≤ j) →
    ScanGe lo (ccsScan lk ss i fw l)
  | [], i, fw, lo, _, hfw => by simpa [ccsScan, ScanGe] using hfw
  | (k, c) :: rest, i, fw, lo, hi, hfw => by
    unfold ccsScan
    generalize (lk == CodeCharKind.normal && ss && (c == ' ' || c == '\t')) = conn
    have hfw1 : ∀ j, (if (conn && fw.isNone) = true then some i else fw) = some j → lo ≤ j := by
      intro j hj
      split at hj
      · simp at hj; omega
      · exact hfw j hj
    simp only []
    split
    · exact ⟨hi, hfw1⟩
    · apply ccsScan_bounds lk ss rest (i + 1) _ lo (by omega)
      intro j hj
      split at hj
      · exact hfw1 j hj
      · simp at hj

theorem ccsNext_normal (rest : List Char) (h : Opener rest) :
    ∃ n, ccsNext? .normal rest = some n ∧ 2 ≤ n := by
  obtain ⟨c2, t, rfl, hc2⟩ := h
  have hss : prefixIsSlashSlash? ('/' :: c2 :: t) = some (c2 == '/') := by
    rcases hc2 with rfl | rfl <;> simp [prefixIsSlashSlash?] <;> decide
  have hcl : ∃ l2, classes ('/' :: c2 :: t) = (.startComment, '/') :: (.inComment, c2) :: l2 := by
    rcases hc2 with rfl | rfl
    · exact ⟨run .lineComment t, by simp [classes, run, step, step?]⟩
    · exact ⟨run (.blockComment 1) t, by simp [classes, run, step, step?]⟩
  obtain ⟨l2, hl2⟩ := hcl
  have hc2b : (c2 == ' ' || c2 == '\t') = false := by rcases hc2 with rfl | rfl <;> decide
  have hscan : ccsScan .normal (c2 == '/') 0 none ((.startComment, '/') :: (.inComment, c2) :: l2)
      = ccsScan .normal (c2 == '/') 2 none l2 := by
    simp [ccsScan, Kind.toCodeCharKind, Kind.isComment, hc2b]
  have hb := ccsScan_bounds .normal (c2 == '/') l2 2 none 2 (by omega) (by simp)
  unfold ccsNext?
  have hnn : (CodeCharKind.normal == CodeCharKind.normal) = true := by decide
  simp only [hnn, if_true, hss, hl2, hscan]
  cases hsc : ccsScan .normal (c2 == '/') 2 none l2 with
  | broke k fw more =>
    rw [hsc] at hb
    have hli : 2 ≤ fw.getD k := by
      cases fw with
      | none => simpa using hb.1
      | some w => simpa using hb.2 w rfl
    have : (fw.getD k == 0 && !more) = false := by
      have : (fw.getD k == 0) = false := by simp; omega
      simp [this]
    exact ⟨fw.getD k, by simp [this], hli⟩
  | finished fw =>
    rw [hsc] at hb
    cases fw with
    | none => exact ⟨_, rfl, by simp⟩
    | some w => exact ⟨w, rfl, hb w rfl⟩


/-- What `CommentCodeSlices` can hold between two calls of `next`: after a Normal slice the rest is
empty or begins with a comment opener. -/
def CcsInv (lk : CodeCharKind) (rest : List Char) : Prop :=
  lk = .normal → rest = [] ∨ Opener rest

/-- Calls of `next` still needed (upper bound). -/
def ccsMeasure (lk : CodeCharKind) (rest : List Char) : Nat :=
  if rest = [] then 0 else 2 * rest.length + (if lk = .comment then 1 else 0)

/-- One `next` from a reachable state: no panic, the invariant is kept, the measure decreases. -/
theorem ccsNext_step (lk : CodeCharKind) (rest : List Char) (hne : rest ≠ []) (hinv : CcsInv lk rest) :
    ∃ n, ccsNext? lk rest = some n ∧ CcsInv (flipKind lk) (rest.drop n) ∧
      ccsMeasure (flipKind lk) (rest.drop n) + 1 ≤ ccsMeasure lk rest := by
  have hpos : 0 < rest.length := List.length_pos_iff.mpr hne
  cases lk with
  | comment =>
    obtain ⟨n, hn, hinv'⟩ := ccsNext_comment rest
    refine ⟨n, hn, fun _ => hinv', ?_⟩
    simp only [ccsMeasure, flipKind, hne, if_false]
    split
    · simp
    · simp only [List.length_drop]
      simp; omega
  | normal =>
    rcases hinv rfl with h | h
    · exact absurd h hne
    · obtain ⟨n, hn, h2⟩ := ccsNext_normal rest h
      refine ⟨n, hn, fun h => by simp [flipKind] at h, ?_⟩
      simp only [ccsMeasure, flipKind, hne, if_false]
      split
      · simp; omega
      · rename_i hd
        have : n < rest.length := by
          by_cases hc : n < rest.length
          · exact hc
          · exact absurd (List.drop_eq_nil_of_le (by omega)) hd
        simp only [List.length_drop]
        simp; omega

/-- Kinds alternate, starting with `k`. -/
def Alternates : CodeCharKind → List Slice → Prop
  | _, [] => True
  | k, s :: t => s.kind = k ∧ Alternates (flipKind k) t

/-- Every slice starts where the previous one ended (byte offsets). -/
def Contiguous : Nat → List Slice → Prop
  | _, [] => True
  | off, s :: t => s.start = off ∧ Contiguous (off + utf8Len s.text) t

theorem ccsGo_spec : ∀ (fuel : Nat) (lk : CodeCharKind) (off : Nat) (rest : List Char),
    CcsInv lk rest → ccsMeasure lk rest ≤ fuel →
    ∃ items, ccsGo fuel lk off rest = some items ∧ items.flatMap (·.text) = rest ∧
      Alternates (flipKind lk) items ∧ Contiguous off items
  | 0, lk, off, rest, _, hm => by
    have : rest = [] := by
      by_cases hne : rest = []
      · exact hne
      · have : 0 < rest.length := List.length_pos_iff.mpr hne
        simp [ccsMeasure, hne] at hm
        omega
    subst this
    exact ⟨[], rfl, rfl, trivial, trivial⟩
  | fuel + 1, lk, off, rest, hinv, hm => by
    by_cases hne : rest = []
    · subst hne
      exact ⟨[], rfl, rfl, trivial, trivial⟩
    · obtain ⟨n, hn, hinv', hdec⟩ := ccsNext_step lk rest hne hinv
      obtain ⟨tl, htl, hcat, halt, hcont⟩ :=
        ccsGo_spec fuel (flipKind lk) (off + utf8Len (rest.take n)) (rest.drop n) hinv' (by omega)
      refine ⟨⟨flipKind lk, off, rest.take n⟩ :: tl, ?_, ?_, ⟨rfl, halt⟩, ⟨rfl, hcont⟩⟩
      · have : rest.isEmpty = false := by simpa using hne
        simp [ccsGo, this, hn, htl]
      · simp [hcat]


/-- `CommentCodeSlices::new(s)` collected: no panic, the slices concatenate to `s`, their kinds
alternate starting with `Normal`, and each starts at the byte where the previous one ended. -/
theorem slices_spec (s : List Char) :
    ∃ items, commentCodeSlices? s = some items ∧ items.flatMap (·.text) = s ∧
      Alternates .normal items ∧ Contiguous 0 items := by
  apply ccsGo_spec (2 * s.length + 2) .comment 0 s (fun h => by simp at h)
  simp only [ccsMeasure]
  split <;> simp <;> omega

theorem ungroupedGo_contiguous : ∀ (fuel off : Nat) (l : List (Kind × Char)) (items : List Slice),
    ungroupedGo fuel off l = some items → Contiguous off items
  | 0, _, _, items, h => by
    simp [ungroupedGo] at h; subst h; trivial
  | _ + 1, _, [], items, h => by
    simp [ungroupedGo] at h; subst h; trivial
  | fuel + 1, off, (k, c) :: rest, items, h => by
    cases k <;> simp only [ungroupedGo, Option.map_eq_some_iff, reduceCtorEq] at h
    all_goals
      obtain ⟨tl, htl, rfl⟩ := h
      exact ⟨rfl, ungroupedGo_contiguous fuel _ _ tl htl⟩


end RF.Lemmas.Comment
