//! C01: formatting preserves the meaning of the program.  Translation validation: the Lean validator
//! `tok.equiv` (proved sound for hard tokens) judges every (input, output) pair the real formatter
//! produces over the same fixed, measured universe of cases as C02; the output must also parse
//! (it is formatted once more and must not be reported as a parse error).
use std::collections::{HashMap, HashSet};
use std::path::Path;
use std::time::Duration;

use serde_json::json;

use crate::c02::{family_of, universe, Case};
use crate::corpus;
use crate::gen::*;
use crate::pool::{self, Job, Status};
use crate::toks::encode_tokens;
use crate::util::*;

/// validator configuration from the rustfmt options of a case
pub fn validator_cfg(cfg: &[(String, String)]) -> String {
    let b = |k: &str, d: bool| cfg_get(cfg, k).map(|v| v.eq_ignore_ascii_case("true")).unwrap_or(d);
    let mut gran = cfg_get(cfg, "imports_granularity").unwrap_or("Preserve").to_string();
    if b("merge_imports", false) {
        gran = "Crate".into();
    }
    let grp = cfg_get(cfg, "group_imports").unwrap_or("Preserve");
    let imports = b("reorder_imports", true) || b("reorder_modules", true) || gran != "Preserve" || grp != "Preserve";
    let reflow = b("normalize_comments", false) || b("wrap_comments", false) || b("format_code_in_doc_comments", false);
    let hex = match cfg_get(cfg, "hex_literal_case") { Some("Upper") => "U", Some("Lower") => "L", _ => "P" };
    let fz = match cfg_get(cfg, "float_literal_trailing_zero") { Some("Always") => "A", Some("IfNoPostfix") => "I", Some("Never") => "N", _ => "P" };
    format!(
        "try={},fis={},imports={},derive={},docattr={},abi={},parens={},wild={},strings={},reflow={},doccode={},hex={},fz={}",
        b("use_try_shorthand", false) as u8, b("use_field_init_shorthand", false) as u8, imports as u8, b("merge_derives", true) as u8, b("normalize_doc_attributes", false) as u8,
        b("force_explicit_abi", true) as u8, b("remove_nested_parens", true) as u8, b("condense_wildcard_suffixes", false) as u8, b("format_strings", false) as u8, reflow as u8,
        b("format_code_in_doc_comments", false) as u8, hex, fz
    )
}

/// corpus/c01_dirty.txt: element -> id of the known finding it shows (`?` = not examined yet)
pub fn load_dirty() -> HashMap<String, String> {
    let text = std::fs::read_to_string("corpus/c01_dirty.txt").or_else(|_| std::fs::read_to_string("/verif/corpus/c01_dirty.txt")).unwrap_or_default();
    let mut m = HashMap::new();
    for l in text.lines() {
        if l.trim().is_empty() || l.starts_with('#') {
            continue;
        }
        let cols: Vec<&str> = l.split('\t').collect();
        let id = cols.first().map(|s| s.trim().to_string()).unwrap_or_default();
        let class = cols.get(2).map(|s| s.trim().to_string()).filter(|s| !s.is_empty()).unwrap_or_else(|| "?".to_string());
        m.insert(id, class);
    }
    m
}

struct Judged {
    id: String,
    verdict: &'static str, // ok | not-equivalent | output-does-not-parse | skipped
    detail: String,
    request: String,
    nontrivial: bool,
    /// the two parse oracles (format the output once more / rustc_parse directly) give different answers
    oracles_disagree: bool,
}

/// a run inside the property's quantifier: nothing was REPORTED (an internal macro-rewrite failure - the macro call is
/// copied verbatim, nothing is printed, the exit status is 0 - is not a report)
fn accepted(r: &pool::FmtOut) -> bool {
    r.status == Status::Ok && !(r.flags[0] || r.flags[1] || r.flags[2] || r.flags[4] || r.flags[5] || r.flags[6])
}

/// formats every case, validates clean outputs with the Lean validator, re-parses them
fn judge(cases: &[Case], timeout: Duration) -> Vec<Judged> {
    let jobs1: Vec<Job> = cases.iter().map(|c| Job { src: c.src.clone(), cfg: c.cfg.clone(), file_lines: None }).collect();
    let r1 = pool::run_jobs(&jobs1, jobs(), timeout);
    let mut idx = vec![];
    let mut reqs = vec![];
    let mut jobs2 = vec![];
    for (i, r) in r1.iter().enumerate() {
        if accepted(r) && !r.out.is_empty() {
            idx.push(i);
            reqs.push(format!("tok.equiv {} {} {}", validator_cfg(&cases[i].cfg), encode_tokens(&cases[i].src, false), encode_tokens(&r.out, false)));
            jobs2.push(Job { src: r.out.clone(), cfg: cases[i].cfg.clone(), file_lines: None });
        }
    }
    let answers = run_model(&reqs, jobs());
    let r2 = pool::run_jobs(&jobs2, jobs(), timeout);
    // second, independent parse oracle: the compiler's parser run directly (not through rustfmt) on input and output
    let ed = |c: &Case| cfg_get(&c.cfg, "edition").unwrap_or("2015").to_string();
    let mut texts: Vec<(String, String)> = vec![];
    for &i in &idx {
        texts.push((cases[i].src.clone(), ed(&cases[i])));
        texts.push((r1[i].out.clone(), ed(&cases[i])));
    }
    let parsed = crate::astpp::parse_ok_batch(&texts, jobs());
    let mut res: Vec<Judged> = cases.iter().map(|c| Judged { id: c.id.clone(), verdict: "skipped", detail: String::new(), request: String::new(), nontrivial: false, oracles_disagree: false }).collect();
    for (k, &i) in idx.iter().enumerate() {
        let a = &answers[k];
        let parses = match &r2[k].status { Status::Ok => !r2[k].flags[1], Status::Timeout | Status::Infra(_) => true, _ => false };
        let (in_ok, out_ok) = (parsed[2 * k], parsed[2 * k + 1]);
        let (v, d) = if a != "ok" {
            ("not-equivalent", a.clone())
        } else if !parses {
            ("output-does-not-parse", format!("{:?}", r2[k].status))
        } else if in_ok && !out_ok {
            ("output-does-not-parse", "rustc_parse accepts the input and rejects the output".to_string())
        } else {
            ("ok", String::new())
        };
        res[i] = Judged { id: cases[i].id.clone(), verdict: v, detail: d, request: reqs[k].clone(), nontrivial: r1[i].out != cases[i].src, oracles_disagree: in_ok && (parses != out_ok) };
    }
    res
}

fn show_diff(d: &str) -> String {
    // diff:<index>:<tokA>:<tokB> with tok = class:hex | -
    let p: Vec<&str> = d.split(':').collect();
    let dec = |c: &str, h: &str| format!("{}:{}", c, dec_str(h).unwrap_or_default());
    match p.as_slice() {
        ["diff", i, ca, ha, cb, hb] => format!("token {}: input `{}` vs output `{}`", i, dec(ca, ha), dec(cb, hb)),
        ["diff", i, "-", cb, hb] => format!("token {}: input ended vs output `{}`", i, dec(cb, hb)),
        ["diff", i, ca, ha, "-"] => format!("token {}: input `{}` vs output ended", i, dec(ca, ha)),
        _ => d.chars().take(120).collect(),
    }
    .replace('\n', "\\n")
    .replace('\t', "\\t")
    .chars()
    .take(240)
    .collect()
}

/// fixtures on which EVERY variant is rejected for one known reason: excluded from the universe and
/// run once (base variant) as an enumerated probe
const EXCLUDED: &[(&str, &str)] = &[
    ("tests/source/issue_5027.rs", "F12"),
    ("tests/source/5131_one.rs", "F6-C01"),
    ("tests/source/configs/reorder_impl_items/true.rs", "C01-reorder-impl-items"),
    ("tests/source/issue-2863.rs", "C01-reorder-impl-items"),
];

fn excluded(id: &str) -> Option<&'static str> {
    let fx = id.split('|').next().unwrap_or("");
    EXCLUDED.iter().find(|(f, _)| *f == fx).map(|(_, p)| *p)
}

/// the top-level items of a source text (cut after every `;` or `}` at bracket depth 0; attributes and comments stay
/// with the item that follows them)
fn top_level_items(src: &str) -> Vec<String> {
    use rustc_lexer::TokenKind as K;
    let mut items = vec![];
    let mut depth = 0i32;
    let mut start = 0usize;
    let mut pos = 0usize;
    for t in rustc_lexer::tokenize(src) {
        pos += t.len as usize;
        match t.kind {
            K::OpenBrace | K::OpenParen | K::OpenBracket => depth += 1,
            K::CloseBrace | K::CloseParen | K::CloseBracket => {
                depth -= 1;
                if depth == 0 && t.kind == K::CloseBrace {
                    items.push(src[start..pos].to_string());
                    start = pos;
                }
            }
            K::Semi if depth == 0 => {
                items.push(src[start..pos].to_string());
                start = pos;
            }
            _ => {}
        }
    }
    if !src[start..].trim().is_empty() {
        items.push(src[start..].to_string());
    }
    items
}

/// the smallest top-level item (or, inside it, the smallest item of a `mod` / `impl` / `trait` / fn body) on which the
/// case still fails with the same verdict
fn shrink(c: &Case, verdict: &str, timeout: Duration) -> Option<String> {
    let mut best: Option<String> = None;
    let mut cur = c.src.clone();
    for _round in 0..3 {
        let parts: Vec<String> = if best.is_none() {
            top_level_items(&cur)
        } else {
            // go one level down: the text between the first `{` and the last `}`
            match (cur.find('{'), cur.rfind('}')) {
                (Some(a), Some(b)) if a < b => top_level_items(&cur[a + 1..b]),
                _ => vec![],
            }
        };
        if parts.len() < 2 && best.is_none() {
            return None;
        }
        let cases: Vec<Case> = parts.iter().enumerate().map(|(k, p)| Case { id: format!("{}#{}", c.id, k), src: format!("{}\n", p.trim()), cfg: c.cfg.clone() }).collect();
        if cases.is_empty() {
            break;
        }
        let js = judge(&cases, timeout);
        let failing: Vec<&Case> = cases.iter().zip(js.iter()).filter(|(_, j)| j.verdict == verdict).map(|(c, _)| c).collect();
        match failing.iter().min_by_key(|c| c.src.len()) {
            Some(f) => {
                best = Some(f.src.clone());
                cur = f.src.clone();
            }
            None => break,
        }
    }
    best
}

fn fam_of(id: &str) -> String {
    if id.starts_with("gen:") { "generated".into() } else if id.starts_with("fit:") { "fit".into() } else if id.starts_with("nm:") { "near-miss".into() } else if id.starts_with("hdr:") { "headers".into() } else { family_of(id) }
}

fn all_with_excluded_ids(progs: &[corpus::Program]) -> Vec<Case> {
    universe(progs)
}

pub fn run(tier: &str, seed: u64, out: &Path) -> i32 {
    let mut o = Outcome::new("C01", tier, seed);
    let progs = corpus::programs(&["tests/target", "tests/source"]);
    let all_with_excluded = universe(&progs);
    let excluded_base: Vec<Case> = all_with_excluded.iter().filter(|c| excluded(&c.id).is_some() && c.id.ends_with("|base")).cloned().collect();
    let all: Vec<Case> = all_with_excluded.into_iter().filter(|c| excluded(&c.id).is_none()).collect();
    let dirty = load_dirty();
    o.count_n("universe", all.len() as u64);
    o.count_n("universe_dirty_listed", dirty.len() as u64);
    o.count_n("universe_dirty_unexamined", dirty.values().filter(|c| *c == "?").count() as u64);
    let timeout = Duration::from_secs(if tier == "quick" { 10 } else { 30 });
    if tier == "sweep" {
        // C01_SWEEP = fix (fixture universe, default) | gen (generated family) | all
        let which = std::env::var("C01_SWEEP").unwrap_or_else(|_| "fix".into());
        let mut cases: Vec<Case> = vec![];
        if which == "fix" || which == "all" {
            cases.extend(all.iter().cloned());
        }
        if which == "gen" || which == "all" {
            cases.extend(crate::c01gen::universe());
        }
        if which == "fit" || which == "all" {
            cases.extend(crate::c01gen::fit_universe());
        }
        if which == "nm" || which == "all" {
            cases.extend(crate::c01gen::nm_universe());
        }
        if which == "hdr" || which == "all" {
            cases.extend(crate::c01gen::hdr_universe());
        }
        let mut n_ok = 0usize;
        let mut n_skip = 0usize;
        for chunk in cases.chunks(20000) {
            for j in judge(chunk, Duration::from_secs(30)) {
                if j.oracles_disagree {
                    eprintln!("parse-oracles-disagree\t{}\t{}", j.id, j.verdict);
                }
                match j.verdict {
                    "not-equivalent" | "output-does-not-parse" => println!("{}\t{}\t{}", j.id, j.verdict, show_diff(&j.detail)),
                    "ok" => n_ok += 1,
                    _ => n_skip += 1,
                }
            }
        }
        eprintln!("sweep {}: {} cases, {} ok, {} skipped", which, cases.len(), n_ok, n_skip);
        return 0;
    }
    if tier == "show" {
        // C01_SHOW=<element id>[;<element id>…]: writes input, output and configuration of the elements to <out>/ and prints the verdicts
        let want: Vec<String> = std::env::var("C01_SHOW").unwrap_or_default().split(';').map(|s| s.trim().to_string()).filter(|s| !s.is_empty()).collect();
        let sel: Vec<Case> = all_with_excluded_ids(&progs).into_iter().chain(crate::c01gen::universe()).chain(crate::c01gen::fit_universe()).chain(crate::c01gen::nm_universe()).chain(crate::c01gen::hdr_universe()).filter(|c| want.iter().any(|w| *w == c.id)).collect();
        let jobs1: Vec<Job> = sel.iter().map(|c| Job { src: c.src.clone(), cfg: c.cfg.clone(), file_lines: None }).collect();
        let r1 = pool::run_jobs(&jobs1, jobs(), Duration::from_secs(30));
        let js = judge(&sel, Duration::from_secs(30));
        let _ = std::fs::create_dir_all(out);
        for (k, c) in sel.iter().enumerate() {
            let stem = c.id.replace('/', "_").replace('|', "__");
            let _ = std::fs::write(out.join(format!("{}.in.rs", stem)), &c.src);
            let _ = std::fs::write(out.join(format!("{}.out.rs", stem)), &r1[k].out);
            let _ = std::fs::write(out.join(format!("{}.toml", stem)), cfg_text(&c.cfg));
            println!("{}\t{}\t{}\t[{}]\tstatus={:?} flags={:?}", c.id, js[k].verdict, show_diff(&js[k].detail), validator_cfg(&c.cfg), r1[k].status, r1[k].flags);
        }
        return 0;
    }
    let mut rng = Rng::new(seed ^ 0xc01);
    let gen_all = crate::c01gen::universe();
    o.count_n("universe_generated", gen_all.len() as u64);
    let fit_all = crate::c01gen::fit_universe();
    o.count_n("universe_fit", fit_all.len() as u64);
    let fit_clean: Vec<&Case> = fit_all.iter().filter(|c| !dirty.contains_key(&c.id)).collect();
    let nm_all = crate::c01gen::nm_universe();
    o.count_n("universe_near_miss", nm_all.len() as u64);
    let nm_clean: Vec<&Case> = nm_all.iter().filter(|c| !dirty.contains_key(&c.id)).collect();
    let hdr_all = crate::c01gen::hdr_universe();
    o.count_n("universe_headers", hdr_all.len() as u64);
    let hdr_clean: Vec<&Case> = hdr_all.iter().filter(|c| !dirty.contains_key(&c.id)).collect();
    let clean: Vec<&Case> = all.iter().filter(|c| !dirty.contains_key(&c.id)).collect();
    let gen_clean: Vec<&Case> = gen_all.iter().filter(|c| !dirty.contains_key(&c.id)).collect();
    let chosen: Vec<Case> = if tier == "thorough" {
        clean.iter().chain(gen_clean.iter()).chain(fit_clean.iter()).chain(nm_clean.iter()).chain(hdr_clean.iter()).map(|c| (*c).clone()).collect()
    } else {
        let mut v: Vec<Case> = clean.iter().filter(|c| c.id.ends_with("|base")).map(|c| (*c).clone()).collect();
        let rest: Vec<&&Case> = clean.iter().filter(|c| !c.id.ends_with("|base")).collect();
        for _ in 0..8000usize.min(rest.len()) {
            v.push((**rng.pick(&rest)).clone());
        }
        for _ in 0..24000usize.min(gen_clean.len()) {
            v.push((**rng.pick(&gen_clean)).clone());
        }
        for _ in 0..40000usize.min(fit_clean.len()) {
            v.push((**rng.pick(&fit_clean)).clone());
        }
        // the near-miss family is small: all of it
        v.extend(nm_clean.iter().map(|c| (*c).clone()));
        // so is the header family
        v.extend(hdr_clean.iter().map(|c| (*c).clone()));
        v
    };
    let res = judge(&chosen, timeout);
    let mut programs = 0u64;
    let mut distinct = HashSet::new();
    for (c, j) in chosen.iter().zip(res.iter()) {
        o.count(&format!("{}:{}", fam_of(&c.id), j.verdict));
        if j.oracles_disagree {
            o.count("parse-oracles-disagree");
        }
        match j.verdict {
            "ok" => {
                programs += 1;
                o.direct_evals += 1;
                if j.nontrivial && distinct.insert(c.id.clone()) {
                    o.direct_distinct += 1;
                }
            }
            "not-equivalent" | "output-does-not-parse" => {
                programs += 1;
                o.direct_evals += 1;
                // the first few failures are shrunk to the smallest item that still fails
                let shrunk = if o.direct_failures.len() < 4 { shrink(c, j.verdict, timeout) } else { None };
                o.direct_failures.push(json!({"sig": format!("c01:{}:{}", j.verdict, c.id), "what": format!("{}: {}", j.verdict, show_diff(&j.detail)), "case": c.id, "config": cfg_text(&c.cfg), "shrunk_src": shrunk, "src": c.src, "request": j.request}));
            }
            _ => {}
        }
    }
    // the enumerated dirty elements: probes grouped by the id of the defect they show
    let dirty_cases: Vec<Case> = all.iter().chain(gen_all.iter()).chain(fit_all.iter()).chain(nm_all.iter()).chain(hdr_all.iter()).filter(|c| dirty.contains_key(&c.id)).cloned().collect();
    let dres = judge(&dirty_cases, timeout);
    let mut by_family: std::collections::BTreeMap<String, (usize, usize, String)> = Default::default();
    for (c, j) in dirty_cases.iter().zip(dres.iter()) {
        let pid = dirty.get(&c.id).cloned().unwrap_or_else(|| "?".into());
        if pid == "?" {
            o.count(&format!("excluded-unclassified:{}", j.verdict));
            continue;
        }
        let e = by_family.entry(pid).or_insert((0, 0, String::new()));
        e.0 += 1;
        if j.verdict == "not-equivalent" || j.verdict == "output-does-not-parse" {
            e.1 += 1;
            if e.2.is_empty() {
                e.2 = format!("{} [{}]: {}", c.id, j.verdict, show_diff(&j.detail));
            }
        }
    }
    for (fam, (n, bad, ex)) in by_family {
        o.probes.push(json!({"id": fam, "fails": bad > 0, "what": format!("{} of {} enumerated elements rejected, e.g. {}", bad, n, ex)}));
    }
    // fixtures excluded wholesale: one probe per known reason
    let eres = judge(&excluded_base, timeout);
    let mut by_probe: std::collections::BTreeMap<&'static str, (usize, usize, String)> = Default::default();
    for (c, j) in excluded_base.iter().zip(eres.iter()) {
        let e = by_probe.entry(excluded(&c.id).unwrap()).or_insert((0, 0, String::new()));
        e.0 += 1;
        if j.verdict == "not-equivalent" || j.verdict == "output-does-not-parse" {
            e.1 += 1;
            if e.2.is_empty() {
                e.2 = format!("{}: {}", c.id, show_diff(&j.detail));
            }
        }
    }
    for (pid, (n, bad, ex)) in by_probe {
        o.probes.push(json!({"id": pid, "fails": bad > 0, "what": format!("{} of {} excluded fixtures rejected by the validator, e.g. {}", bad, n, ex)}));
    }
    o.count_n("programs_validated", programs);
    if let Some(c) = chosen.get(1) {
        o.sample(json!({"case": c.id, "config": cfg_text(&c.cfg), "validator_cfg": validator_cfg(&c.cfg), "src_bytes": c.src.len()}));
    }
    if let Some(c) = chosen.last() {
        o.sample(json!({"case": c.id, "config": cfg_text(&c.cfg), "validator_cfg": validator_cfg(&c.cfg), "src_bytes": c.src.len()}));
    }
    // the mechanism part: the literal rewriters against their Lean model (RF/Model/Literal.lean, RF/Props/C01lit.lean)
    let mut rng_lit = Rng::new(seed ^ 0xc0111);
    crate::c01lit::part(&mut o, &mut rng_lit, tier == "thorough");
    o.exhaustive = tier == "thorough";
    o.notes.push("universe as in C02 (fixtures x {base, 7 widths, every option single, 3 name-seeded re-layouts}); a program = one (source, configuration) whose first pass reported nothing; non-trivial = the output differs from the input".into());
    // the list machinery and the string re-breaker (models RF/Model/Lists*, StringFmt): correspondence and Lean oracles
    {
        let th = tier == "thorough";
        let mut r = Rng::new(seed ^ 0x1157);
        crate::lists_corr::cases(&mut o, &mut r, th);
        crate::lists_corr::struct_lit_cases(&mut o, &mut r, th);
        crate::strings_corr::cases_c01(&mut o, &mut r, th);
        crate::macros_corr::cases(&mut o, &mut r, th);
        // the opt-in rewrite decisions (model RF/Model/OptRewrites.lean, theorems RF/Props/OptRewrites.lean)
        let mut r2 = Rng::new(seed ^ 0x0971);
        crate::optin_corr::cases(&mut o, &mut r2, th);
        crate::vertical_corr::cases(&mut o, &mut r2, th);
        crate::attrs_corr::cases(&mut o, &mut r2, th);
        // the composition logic of src/types.rs and the brace decisions of match arms and closures
        let mut r3 = Rng::new(seed ^ 0x7e9e5);
        crate::types_corr::cases(&mut o, &mut r3, th);
        crate::braces_corr::cases(&mut o, &mut r3, th);
    }
    o.finish(out, jobs())
}
