-- Root of the RF library: imports every property file (kept current by hand).
import RF.Props.C04
import RF.Props.C05
import RF.Props.C06
import RF.Props.C07
import RF.Props.C08
import RF.Props.C09
import RF.Props.C11
import RF.Props.C12
import RF.Props.C13
import RF.Props.C15
import RF.Props.C16shape
import RF.Props.C17
import RF.Props.C18
import RF.Props.C19
import RF.Props.C19cur
import RF.Props.C20
