import RF.Model.Imports
import RF.Model.Newline
/-!
The link between two consecutive runs of the modelled stages (property C02).

Nothing here models a Rust function.  A second run of rustfmt reads the text the first run wrote; for the
stages modelled in `RF/Model/Imports.lean` and `RF/Model/Newline.lean` that text is determined by the value
the stage returned, up to the rendering (`UseTree::rewrite_top_level`, imports.rs:332-374, and
`rewrite_nested_use_tree`, imports.rs:1012-1087) and the parser.  What the rendering does to the *shape* of
a tree is one thing only: a tree with an empty path is written as the empty string (imports.rs:343-349 for a
top-level tree — no `use …;` at all —, and `write_list` skips an empty element of a nested list), so the
parser of the second run never sees it.  `reparse*` is that erasure; everything else is read back as it was
written (observed on the pinned binary: `use a::{b::{}, c};` was written `use a::{ c};`, read back as
`a::{c}`; since fix 343f709 `normalize` removes such an element itself and `RF.Lemmas.Idem.normPath_ne`
proves that no result of `normalize` on a tree as the parser builds it contains one, so on those trees the
erasure only drops top-level items with an empty path).
-/
namespace RF.Idem
open RF.Imports

/- Erase every nested tree with an empty path (at any depth); an emptied list stays as `{}`. -/
mutual
def reparseSeg : Seg → Seg
  | .list ts => .list (reparseTrees ts)
  | s => s
def reparsePath : List Seg → List Seg
  | [] => []
  | s :: r => reparseSeg s :: reparsePath r
def reparseTrees : List Tree → List Tree
  | [] => []
  | .mk p :: r => if p.isEmpty then reparseTrees r else .mk (reparsePath p) :: reparseTrees r
end

def reparseTree (t : Tree) : Tree := .mk (reparsePath t.path)

/-- The `use` items the second run parses out of what the first run wrote for `its`: items with an empty
path are not written at all.  Visibility, attributes and the comment flag are read back unchanged. -/
def reparseItems (its : List Item) : List Item :=
  (its.filter fun it => !it.tree.path.isEmpty).map fun it => { it with tree := reparseTree it.tree }

/-- Two runs of the `use` arm (`rewriteUseRun`): the second on the items read back from the output of the
first, all groups in one run (groups are separated by one blank line; with `group_imports` other than
`Preserve` a blank line does not end a run, with `Preserve` there is one group). -/
def runTwice (cmp : Tree → Tree → Ordering) (g : Granularity) (gt : GroupTactic) (reorder : Bool)
    (items : List Item) : Except Err (List (List Item) × List (List Item)) :=
  match rewriteUseRun cmp g gt reorder items with
  | .error e => .error e
  | .ok first =>
    match rewriteUseRun cmp g gt reorder (reparseItems first.flatten) with
    | .error e => .error e
    | .ok second => .ok ((first.map reparseItems).filter (fun grp => !grp.isEmpty), second)

end RF.Idem
