import RF.Model.Proto
import RF.Model.OptRewrites
import RF.Gen.Keywords
/-!
Line-protocol operations for the opt-in rewrite decisions (`RF/Model/OptRewrites.lean`).

Encodings
  string    hex of UTF-8, `-` for the empty string (RF.Proto);  bool `0` / `1`;  `~` = none
  wrappers  the unary constructors of `Init` from the outside in, joined by `,` (`_` = none):
            `r` paren, `f:<name>` field access, `a:<attr>`, `c:<type>` cast, `d` `&`, `q` `?`, `n` `-`, `k` call
  base      `l:<text>` literal | `m:<name>` macro call | `p:<global>:<seg>;<seg>…` path, seg = `<ident>/<args or ~>`
  fpat      `b:<byRef><refMut><mut>:<name>:<sub or ~>` | `o:<text>`
  args      top-level pieces of a macro's tokens joined by `,` (`_` = none): `e:<text>:<lowPrec><hasAttrs>:<toks>`
            (toks: strings joined by `+`, `_` = none), `c` comma, `j:<text>` a stray token
  items     `<text>:<hasComment>` joined by `,` (`_` = none);   strs: strings joined by `+` (`_` = none)
  levels    `<attrs>:<pre>:<post>` joined by `,` (outermost first)
  vis       `p` | `i` | `r:<global>:<strs>`;     ext  `n` | `i` | `e:<abi>`
  attr      `d:<strs>` derive | `D` derive without a list | `c:<text>` doc comment | `v:<inner>:<value>` doc attribute |
            `x:<text>`;   attrs: `<attr>/<newlines>/<slash>[/<comment behind it on its line>]` joined by `,`
  kind      `l` `i` `m` `0` | `e<c>` | `s<c>`, c = `j` jump, `w` loop, `o` other

Operations (model of the function named)
  opt.field <opt> <exprOk> <name> <short> <wrappers> <base> <attrs> <sep> -> <fires> <text>      `rewrite_field`
  opt.field.ast <opt> <name> <short> <wrappers> <base>                    -> <fires>             the seeded variant
  opt.patfield <name> <short> <fpat>                    -> <text>                                 `PatField::rewrite`
  opt.try <opt> <path> <args>                           -> none | <parens> <text>                 `convert_try_mac`
  opt.tuple <opt> <items>                               -> <suffix> <fires> <strs>   `count_wildcard_suffix_len`, `rewrite_tuple_pat`
  opt.paren <opt> <levels> <atom>                       -> <text>                                 `rewrite_paren`
  opt.vis <vis>                                         -> <text>                                 `format_visibility`
  opt.extern <ext> <explicit>                           -> <text>                                 `format_extern`
  opt.extern.arms <ext> <explicit>                      -> <text>       the GENERATED arms of `format_extern`, first match
  kw.table                                              -> <fn>:<variant>:<text>;…                the GENERATED keyword tables
  opt.attrs <merge> <skip> <normdoc> <attrs>            -> fail | <out>,…   out: `docs:<strs>` `d:<strs>` `t:<text>` `s:<attr>`
  opt.attrs.flat <merge> <skip> <normdoc> <attrs>       -> fail | the same, doc comments one unit per line: `c:<text>` `d:<strs>` <attr>
  opt.attrs.run <d|c> <attrs>                           -> <n>                                    `take_while_with_pred`
  opt.doctext <inner> <value>                           -> <text>                                 `DocCommentFormatter`
  opt.pipe <N|A|P> <has>                                -> <text>
  opt.armcomma <trailing_comma=Never> <match_block_trailing_comma> <b|u|e> <last>  -> <bool>      `arm_comma`
  opt.semi.expr <trailing_semicolon> <macro_def> <c>    -> <bool>                                 `semicolon_for_expr`
  opt.semi.stmt <trailing_semicolon> <kind> <is_last_expr>  -> <bool>                             `semicolon_for_stmt`
  opt.lastexpr <is_last> <kind>                         -> <bool>                                 `Stmt::is_last_expr`
  opt.outsemi <trailing_semicolon> <macro_def> <is_last> <kind>  -> <bool>      `format_stmt` + the tail of `visit_block`
  lit.dot <fz> <symbol> <suffix>                        -> <bool> | panic                         `float_lit_ends_in_dot`
  lit.lexrest <text>                                    -> <text>                  rustc_lexer `number` + suffix: the rest
ORACLES (judge what the real formatter printed)
  opt.field.den <name> <short> <wrappers> <base> <outname> <outvalue: strs or ~ for a shorthand>  -> ok | diff
  opt.try.judge <opt> <path> <args> <in toks: strs> <out toks: strs>   -> ok | diff:<expected>
        the printed tokens are the model's `TryOut.toks`, or the input's when the model declines
  opt.tuple.same <n> <in: strs> <out: strs>             -> ok | diff      where `tupleDen n in` is defined, `tupleDen n out` is the same
  opt.paren.hard <levels> <atom> <out levels> <out atom> -> ok | diff     `hard` of both, and the outer pair is kept
  opt.extern.read <ext> <text>                          -> ok | diff      `readExtern text` selects the ABI of `ext`
  opt.derive.same <attrs in> <attrs out>                -> ok | diff      `deriveSeqIn` of both
  opt.docvalue <value> <text>                           -> ok | diff      `docValue text = value`
  opt.alts <in toks: strs> <out toks: strs>             -> ok | diff      `readAlts` of both
  lit.relex <literal> <following text>                  -> ok | diff      the literal is the first token of the two together
-/
namespace RF.Driver.OptRewrites
open RF.Proto RF.Opt RF.Lit

def decBool : String → Option Bool
  | "0" => some false | "1" => some true | _ => none
def encBool (b : Bool) : String := if b then "1" else "0"

def decOptS (s : String) : Option (Option Str) :=
  if s == "~" then some none else (decChars s).map some

def decStrs (s : String) : Option (List Str) :=
  if s == "_" then some [] else (s.splitOn "+").mapM decChars
def encStrs (xs : List Str) : String :=
  if xs.isEmpty then "_" else String.intercalate "+" (xs.map encChars)

def decSeg (s : String) : Option Seg :=
  match s.splitOn "/" with
  | [i, a] => do pure ⟨← decChars i, ← decOptS a⟩
  | _ => none

def decBase (s : String) : Option Init :=
  match s.splitOn ":" with
  | ["l", t] => (decChars t).map .lit
  | ["m", t] => (decChars t).map .mac
  | ["p", g, segs] => do
    let g ← decBool g
    let segs ← if segs == "_" then some [] else (segs.splitOn ";").mapM decSeg
    pure (.path g segs)
  | _ => none

def applyWrapper (w : String) (e : Init) : Option Init :=
  match w.splitOn ":" with
  | ["r"] => some (.paren e)
  | ["d"] => some (.addrOf e)
  | ["q"] => some (.try_ e)
  | ["n"] => some (.neg e)
  | ["k"] => some (.call e)
  | ["f", x] => (decChars x).map (.field e)
  | ["a", x] => (decChars x).map (fun a => .attr a e)
  | ["c", x] => (decChars x).map (.cast e)
  | _ => none

def decInit (wrappers base : String) : Option Init := do
  let b ← decBase base
  let ws := if wrappers == "_" then [] else wrappers.splitOn ","
  ws.foldrM (fun w e => applyWrapper w e) b

def decFPat (s : String) : Option FPat :=
  match s.splitOn ":" with
  | ["b", flags, name, sub] =>
    match flags.toList with
    | [a, b, c] => do
      let a ← decBool (String.singleton a)
      let b ← decBool (String.singleton b)
      let c ← decBool (String.singleton c)
      pure (.bind a b c (← decChars name) (← decOptS sub))
    | _ => none
  | ["o", t] => (decChars t).map .other
  | _ => none

def decArg (s : String) : Option ArgTok :=
  match s.splitOn ":" with
  | ["c"] => some .comma
  | ["j", t] => (decChars t).map .junk
  | ["e", t, flags, toks] =>
    match flags.toList with
    | [a, b] => do
      let a ← decBool (String.singleton a)
      let b ← decBool (String.singleton b)
      pure (.expr ⟨← decChars t, ← decStrs toks, a, b⟩)
    | _ => none
  | _ => none

def decArgs (s : String) : Option (List ArgTok) :=
  if s == "_" then some [] else (s.splitOn ",").mapM decArg

def decItem (s : String) : Option TItem :=
  match s.splitOn ":" with
  | [t, c] => do pure ⟨← decChars t, ← decBool c⟩
  | _ => none

def decItems (s : String) : Option (List TItem) :=
  if s == "_" then some [] else (s.splitOn ",").mapM decItem

def decLevel (s : String) : Option (Str × Str × Str) :=
  match s.splitOn ":" with
  | [a, p, q] => do pure (← decChars a, ← decChars p, ← decChars q)
  | _ => none

def decPExpr (levels atom : String) : Option PExpr := do
  let a ← decChars atom
  let ls ← if levels == "_" then some [] else (levels.splitOn ",").mapM decLevel
  pure (ls.foldr (fun l e => .paren l.1 l.2.1 l.2.2 e) (.atom a))

def decVis (s : String) : Option Vis :=
  match s.splitOn ":" with
  | ["p"] => some .pub_
  | ["i"] => some .inherited
  | ["r", g, segs] => do pure (.restricted (← decBool g) (← decStrs segs))
  | _ => none

def decExt (s : String) : Option Ext :=
  match s.splitOn ":" with
  | ["n"] => some .none
  | ["i"] => some .implicit
  | ["e", a] => (decChars a).map .explicit
  | _ => none

def decAttr (s : String) : Option Attr :=
  match s.splitOn ":" with
  | ["D"] => some (.derive none)
  | ["d", ps] => (decStrs ps).map (fun p => .derive (some p))
  | ["c", t] => (decChars t).map .docComment
  | ["v", i, v] => do pure (.docAttr (← decBool i) (← decChars v))
  | ["x", t] => (decChars t).map .other
  | _ => none

def encAttr : Attr → String
  | .derive none => "D"
  | .derive (some ps) => "d:" ++ encStrs ps
  | .docComment t => "c:" ++ encChars t
  | .docAttr i v => "v:" ++ encBool i ++ ":" ++ encChars v
  | .other t => "x:" ++ encChars t

def decAttrIn (s : String) : Option AttrIn :=
  match s.splitOn "/" with
  | [a, n, sl, lc] => do pure ⟨← decAttr a, ← n.toNat?, ← decBool sl, ← decBool lc⟩
  | [a, n, sl] => do pure ⟨← decAttr a, ← n.toNat?, ← decBool sl, false⟩
  | _ => none

def decAttrs (s : String) : Option (List AttrIn) :=
  if s == "_" then some [] else (s.splitOn ",").mapM decAttrIn

def encAttrOut : AttrOut → String
  | .docs ts => "docs:" ++ encStrs ts
  | .derive ps => "d:" ++ encStrs ps
  | .docFromAttr t => "t:" ++ encChars t
  | .single a => "s:" ++ encAttr a

/-- the units of a rewritten attribute list, doc comments line by line -/
def flatOut : AttrOut → List String
  | .docs ts => ts.map (fun t => "c:" ++ encChars t)
  | .derive ps => ["d:" ++ encStrs ps]
  | .docFromAttr t => (splitLF t).map (fun l => "c:" ++ encChars l)
  | .single a => [encAttr a]

def decClass : Char → Option ExprClass
  | 'j' => some .jump | 'w' => some .loop_ | 'o' => some .other | _ => none

def decKind (s : String) : Option StmtKind :=
  match s.toList with
  | ['l'] => some .let_ | ['i'] => some .item | ['m'] => some .mac | ['0'] => some .empty
  | ['e', c] => (decClass c).map .expr
  | ['s', c] => (decClass c).map .semi
  | _ => none

def decFz : String → Option TrailingZero
  | "P" => some .preserve | "A" => some .always | "I" => some .ifNoPostfix | "N" => some .never | _ => none

def decPipe : String → Option LeadingPipe
  | "N" => some .never | "A" => some .always | "P" => some .preserve | _ => none

def decBody : String → Option BodyClass
  | "b" => some .block | "u" => some .unsafeBlock | "e" => some .expr | _ => none

def kwTable : String :=
  String.intercalate ";" (RF.Gen.Keywords.kwFns.flatMap (fun f =>
    f.arms.map (fun a => String.ofList f.name ++ ":" ++ String.ofList a.1 ++ ":" ++ encChars a.2)))

def ok (b : Bool) : String := if b then "ok" else "diff"

def handle (op : String) (args : List String) : Option String :=
  match op, args with
  | "opt.field", [opt, exprOk, name, short, ws, base, attrs, sep] => some <| (do
      let f : FieldIn := ⟨← decChars name, ← decBool short, ← decInit ws base, ← decChars attrs, ← decChars sep⟩
      let opt ← decBool opt
      let eo ← decBool exprOk
      pure (encBool (fieldFires opt eo f) ++ " " ++ encChars (rewriteField opt eo f))).getD "err"
  | "opt.field.ast", [opt, name, short, ws, base] => some <| (do
      let f : FieldIn := ⟨← decChars name, ← decBool short, ← decInit ws base, [], []⟩
      pure (encBool (fieldFiresAst (← decBool opt) f))).getD "err"
  | "opt.field.den", [name, short, ws, base, oname, ovalue] => some <| (do
      let f : FieldIn := ⟨← decChars name, ← decBool short, ← decInit ws base, [], []⟩
      let on ← decChars oname
      let ov ← if ovalue == "~" then some [on] else decStrs ovalue
      pure (ok (f.den == (⟨on, ov⟩ : FieldDen)))).getD "err"
  | "opt.patfield", [name, short, pat] => some <| (do
      pure (encChars (rewritePatField ⟨← decChars name, ← decBool short, ← decFPat pat⟩))).getD "err"
  | "opt.try", [opt, path, as] => some <| (do
      match convertTry (← decBool opt) (← decChars path) (← decArgs as) with
      | none => pure "none"
      | some o => pure (encBool o.parens ++ " " ++ encChars o.render)).getD "err"
  | "opt.try.judge", [opt, path, as, inp, out] => some <| (do
      let path ← decChars path
      let as ← decArgs as
      let inp ← decStrs inp
      let out ← decStrs out
      let want := match convertTry (← decBool opt) path as with
        | none => inp
        | some o => o.toks
      pure (if out == want then "ok" else "diff:" ++ encStrs want)).getD "err"
  | "opt.tuple", [opt, items] => some <| (do
      let opt ← decBool opt
      let items ← decItems items
      pure (toString (countWildcardSuffixLen items) ++ " " ++ encBool (condenseFires opt items) ++ " " ++
        encStrs (condense opt items))).getD "err"
  | "opt.tuple.same", [n, a, b] => some <| (do
      let n ← n.toNat?
      let a ← decStrs a
      let b ← decStrs b
      pure (ok (match tupleDen n a with
        | none => true
        | some d => tupleDen n b == some d))).getD "err"
  | "opt.paren", [opt, levels, atom] => some <| (do
      pure (encChars ((← decPExpr levels atom).norm (← decBool opt)).render)).getD "err"
  | "opt.paren.hard", [l1, a1, l2, a2] => some <| (do
      let e1 ← decPExpr l1 a1
      let e2 ← decPExpr l2 a2
      pure (ok (e1.hard == e2.hard && (e1.depth == 0 || e2.depth ≥ 1)))).getD "err"
  | "opt.vis", [v] => some <| (do pure (encChars (formatVisibility (← decVis v)))).getD "err"
  | "opt.extern", [e, b] => some <| (do pure (encChars (formatExtern (← decExt e) (← decBool b)))).getD "err"
  | "opt.extern.arms", [e, b] => some <| (do
      match externFromArms RF.Gen.Keywords.externArms (← decExt e) (← decBool b) with
      | some t => pure (encChars t)
      | none => pure "nomatch").getD "err"
  | "opt.extern.read", [e, t] => some <| (do
      let e ← decExt e
      pure (ok ((readExtern (← decChars t)).map Ext.den == some e.den))).getD "err"
  | "kw.table", [] => some kwTable
  | "opt.attrs", [m, s, n, attrs] => some <| (do
      match rewriteAttrs (← decBool m) (← decBool s) (← decBool n) (← decAttrs attrs) with
      | none => pure "fail"
      | some out => pure (if out.isEmpty then "_" else String.intercalate "," (out.map encAttrOut))).getD "err"
  | "opt.attrs.flat", [m, s, n, attrs] => some <| (do
      match rewriteAttrs (← decBool m) (← decBool s) (← decBool n) (← decAttrs attrs) with
      | none => pure "fail"
      | some out => pure (String.intercalate "," (out.flatMap flatOut))).getD "err"
  | "opt.attrs.run", [p, attrs] => some <| (do
      let attrs ← decAttrs attrs
      let pred ← if p == "d" then some Attr.isDerive else if p == "c" then some Attr.isDocComment else none
      pure (toString (takeRun pred attrs))).getD "err"
  | "opt.derive.same", [a, b] => some <| (do
      pure (ok (deriveSeqIn (← decAttrs a) == deriveSeqIn (← decAttrs b)))).getD "err"
  | "opt.doctext", [i, v] => some <| (do pure (encChars (docCommentText (← decBool i) (← decChars v)))).getD "err"
  | "opt.docvalue", [v, t] => some <| (do pure (ok (docValue (← decChars t) == (← decChars v)))).getD "err"
  | "opt.pipe", [p, h] => some <| (do pure (encChars (pipeStr (← decPipe p) (← decBool h)))).getD "err"
  | "opt.alts", [a, b] => some <| (do pure (ok (readAlts (← decStrs a) == readAlts (← decStrs b)))).getD "err"
  | "opt.armcomma", [never, mbtc, body, last] => some <| (do
      pure (encBool (armComma (← decBool never) (← decBool mbtc) (← decBody body) (← decBool last)))).getD "err"
  | "opt.semi.expr", [ts, md, c] => some <| (do
      match c.toList with
      | [c] => pure (encBool (semicolonForExpr (← decBool ts) (← decBool md) (← decClass c)))
      | _ => none).getD "err"
  | "opt.semi.stmt", [ts, k, l] => some <| (do
      pure (encBool (semicolonForStmt (← decBool ts) (← decKind k) (← decBool l)))).getD "err"
  | "opt.lastexpr", [l, k] => some <| (do pure (encBool (isLastExpr (← decBool l) (← decKind k)))).getD "err"
  | "opt.outsemi", [ts, md, l, k] => some <| (do
      pure (encBool (outSemi (← decBool ts) (← decBool md) (← decBool l) (← decKind k)))).getD "err"
  | "lit.dot", [fz, sym, suf] => some <| (do
      match floatLitEndsInDot (← decFz fz) (← decChars sym) (← decChars suf) with
      | some b => pure (encBool b)
      | none => pure "panic").getD "err"
  | "lit.lexrest", [t] => some <| (do pure (encChars (lexNumberRest (← decChars t)))).getD "err"
  | "lit.relex", [l, n] => some <| (do
      let l ← decChars l
      pure (ok (lexNumberTok (l ++ (← decChars n)) == l))).getD "err"
  | _, _ => none

end RF.Driver.OptRewrites
