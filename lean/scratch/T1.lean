import RF.Model.TokEquiv
namespace RF.Tok

/-- tokens outside the class `S` -/
def outside (S : Tok → Bool) (ts : List Tok) : List Tok := ts.filter (fun t => !S t)

@[simp] theorem outside_nil (S) : outside S [] = [] := rfl
theorem outside_cons (S t ts) : outside S (t :: ts) = if S t then outside S ts else t :: outside S ts := by
  unfold outside; by_cases h : S t <;> simp [h]
theorem outside_append (S a b) : outside S (a ++ b) = outside S a ++ outside S b := by
  simp [outside]

structure ActLocal (S : Tok → Bool) (t : Tok) (a : Act) : Prop where
  out : outside S a.out = outside S [t]
  close : ∀ o, a.close = some o → outside S o = [] ∧ ∀ c : Tok, c.isClose = true → S c = true
  comma : (a.commaAfter = true ∨ a.skipComma = true) → S (mkP ',') = true

def RuleLocal (S : Tok → Bool) (f : Rule) : Prop :=
  ∀ enc lo p2 p1 t rest a, f enc lo p2 p1 t rest = some a → ActLocal S t a

structure FrameOk (S : Tok → Bool) (fr : Frame) : Prop where
  close : ∀ o, fr.close = some o → outside S o = [] ∧ ∀ c : Tok, c.isClose = true → S c = true
  comma : (fr.commaAfter = true ∨ fr.skipComma = true) → S (mkP ',') = true

theorem isP_eq {t : Tok} {c : Char} (h : t.isP c = true) : t = mkP c := by
  cases t with | mk cls text =>
  simp [Tok.isP, mkP] at h ⊢
  exact h

theorem closeOut_outside (S) (fr : Frame) (hfr : FrameOk S fr) (t lo : Tok) (ht : t.isClose = true) :
    outside S (closeOut fr t lo) = outside S [t] := by
  unfold closeOut
  have hc := hfr.close
  have hm := hfr.comma
  cases hcl : fr.close with
  | none =>
    simp only []
    split
    · rename_i h
      have : S (mkP ',') = true := hm (Or.inl (by simp at h; exact h.1))
      simp [outside_append, outside_cons, this]
    · rfl
  | some o =>
    have ⟨h1, h2⟩ := hc o hcl
    have h3 := h2 t ht
    simp only []
    split
    · rename_i h
      have : S (mkP ',') = true := hm (Or.inl (by simp at h; exact h.1))
      simp [outside_append, outside_cons, this, h1, h3]
    · simp [outside_cons, h1, h3]

theorem bpass_outside (S : Tok → Bool) (f : Rule) (hf : RuleLocal S f) :
    ∀ (ts : List Tok) (p2 p1 lo : Tok) (skip : Bool) (st : List Frame),
      (∀ fr ∈ st, FrameOk S fr) → (skip = true → S (mkP ',') = true) →
      outside S (bpass f p2 p1 lo skip st ts) = outside S ts := by
  intro ts
  induction ts with
  | nil => intros; simp [bpass]
  | cons t ts ih =>
    intro p2 p1 lo skip st hst hskip
    unfold bpass
    split
    · rename_i h
      simp at h
      have := isP_eq h.2
      subst this
      rw [ih _ _ _ _ _ hst (by simp), outside_cons, hskip h.1]; simp
    · split
      · split
        · rename_i a ha
          have hl := hf _ _ _ _ _ _ _ ha
          rw [outside_append, ih _ _ _ _ _ (by
            intro fr hfr
            simp at hfr
            rcases hfr with rfl | hfr
            · exact ⟨hl.close, hl.comma⟩
            · exact hst fr hfr) (by simp), hl.out]
          simp [outside_cons]; split <;> rfl
        · rw [outside_cons, outside_cons, ih _ _ _ _ _ (by
            intro fr hfr
            simp at hfr
            rcases hfr with rfl | hfr
            · exact ⟨by simp, by simp⟩
            · exact hst fr hfr) (by simp)]
      · split
        · split
          · rename_i hcl _ fr st'
            have hfr : FrameOk S fr := hst fr (by simp)
            rw [outside_append, closeOut_outside S fr hfr t lo hcl,
              ih _ _ _ _ _ (fun fr' h => hst fr' (by simp [h])) (fun h => hfr.comma (Or.inr h))]
            simp [outside_cons]; split <;> rfl
          · rw [outside_cons, outside_cons, ih _ _ _ _ _ (by simp) (by simp)]
        · split
          · rename_i a ha
            have hl := hf _ _ _ _ _ _ _ ha
            rw [outside_append, ih _ _ _ _ _ hst (by simp), hl.out]
            simp [outside_cons]; split <;> rfl
          · rw [outside_cons, outside_cons, ih _ _ _ _ _ hst (by simp)]

theorem runRule_outside (S f) (hf : RuleLocal S f) (ts) : outside S (runRule f ts) = outside S ts :=
  bpass_outside S f hf ts _ _ _ _ _ (by simp) (by simp)
end RF.Tok
