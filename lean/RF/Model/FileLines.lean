/-
Model of `Range` / `FileLines` (`/repo/src/config/file_lines.rs`), of `lookup_line_range`
(`/repo/src/parse/session.rs:297-320`, trait in `src/source_map.rs:19-26`) and of the guard
`out_of_file_lines_range!` (`/repo/src/utils.rs:359-368`).

Line numbers are `Nat`.  The Rust type is `usize`; the one place where that matters is
`adjacent_to`, which computes `hi + 1` (panics in a build with overflow checks when
`hi = usize::MAX`, wraps to 0 otherwise): see `adjacentToChecked` / `normalizeRangesChecked`.
Import-free on purpose (linked into the native driver).
-/
namespace RF.FileLines

/-- `struct Range { lo, hi }` (file_lines.rs:84-88), inclusive of both ends. -/
structure Range where
  lo : Nat
  hi : Nat
deriving DecidableEq, Repr

namespace Range

/-- A line belongs to a range (`lo <= n <= hi`); this is the closure of `contains_line`
(file_lines.rs:264) and the meaning every theorem refers to. -/
def hasLine (r : Range) (n : Nat) : Bool := decide (r.lo ≤ n) && decide (n ≤ r.hi)

/-- `Range::is_empty` (file_lines.rs:107-109). -/
def isEmpty (r : Range) : Bool := decide (r.lo > r.hi)

/-- `Range::contains` (file_lines.rs:112-118). -/
def contains (self other : Range) : Bool :=
  if other.isEmpty then true
  else !self.isEmpty && decide (self.lo ≤ other.lo) && decide (self.hi ≥ other.hi)

/-- `Range::intersects` (file_lines.rs:120-127). -/
def intersects (self other : Range) : Bool :=
  if self.isEmpty || other.isEmpty then false
  else (decide (self.lo ≤ other.hi) && decide (other.hi ≤ self.hi))
    || (decide (other.lo ≤ self.hi) && decide (self.hi ≤ other.hi))

/-- `Range::adjacent_to` (file_lines.rs:129-135) over unbounded naturals. -/
def adjacentTo (self other : Range) : Bool :=
  if self.isEmpty || other.isEmpty then false
  else self.hi + 1 == other.lo || other.hi + 1 == self.lo

/-- `Range::merge` (file_lines.rs:139-148). -/
def merge (self other : Range) : Option Range :=
  if self.adjacentTo other || self.intersects other then
    some ⟨min self.lo other.lo, max self.hi other.hi⟩
  else none

/-- `usize::MAX` on the 64-bit targets the harness runs on. -/
def usizeMax : Nat := 2 ^ 64 - 1

/-- `adjacent_to` with the dev-profile overflow check on `self.hi + 1` / `other.hi + 1`:
`none` is the panic "attempt to add with overflow".  `||` short-circuits, so `other.hi + 1` is
evaluated only when the first comparison is false. -/
def adjacentToChecked (self other : Range) : Option Bool :=
  if self.isEmpty || other.isEmpty then some false
  else if self.hi ≥ usizeMax then none
  else if self.hi + 1 == other.lo then some true
  else if other.hi ≥ usizeMax then none
  else some (other.hi + 1 == self.lo)

/-- `merge` with the overflow check of `adjacent_to` (which is evaluated first). -/
def mergeChecked (self other : Range) : Option (Option Range) :=
  match self.adjacentToChecked other with
  | none => none
  | some adj =>
    if adj || self.intersects other then
      some (some ⟨min self.lo other.lo, max self.hi other.hi⟩)
    else some none

/-- The derived `Ord` (file_lines.rs:84): lexicographic on `(lo, hi)`. -/
def le (a b : Range) : Bool := decide (a.lo < b.lo) || (decide (a.lo = b.lo) && decide (a.hi ≤ b.hi))

end Range

/-- One step of `ranges.sort()`.  The order is total and two ranges that compare equal are
identical, so every correct sort returns the same list (`Lemmas.FileLines.sorted_perm_unique`);
insertion sort is used because it kernel-reduces. -/
def insertRange (r : Range) : List Range → List Range
  | [] => [r]
  | x :: xs => if r.le x then r :: x :: xs else x :: insertRange r xs

/-- `ranges.sort()` (file_lines.rs:178). -/
def sortRanges : List Range → List Range
  | [] => []
  | r :: rs => insertRange r (sortRanges rs)

/-- The two nested `while let` loops of `normalize_ranges` (file_lines.rs:180-192): `cur` is
`next`, the list is what the peekable iterator still holds.  A successful merge consumes the
peeked range; a failed one pushes `next` and restarts with the peeked range. -/
def mergeLoop (cur : Range) : List Range → List Range
  | [] => [cur]
  | p :: rest =>
    match cur.merge p with
    | some m => mergeLoop m rest
    | none => cur :: mergeLoop p rest

/-- Body of the `for` loop of `normalize_ranges` for one file (file_lines.rs:176-195). -/
def normalizeRanges (rs : List Range) : List Range :=
  match sortRanges rs with
  | [] => []
  | r :: rest => mergeLoop r rest

/-- `mergeLoop` with the overflow check; `none` = panic. -/
def mergeLoopChecked (cur : Range) : List Range → Option (List Range)
  | [] => some [cur]
  | p :: rest =>
    match cur.mergeChecked p with
    | none => none
    | some (some m) => mergeLoopChecked m rest
    | some none =>
      match mergeLoopChecked p rest with
      | some out => some (cur :: out)
      | none => none

/-- `normalize_ranges` for one file in a build with overflow checks; `none` = panic. -/
def normalizeRangesChecked (rs : List Range) : Option (List Range) :=
  match sortRanges rs with
  | [] => some []
  | r :: rest => mergeLoopChecked r rest

/-! ### Queries on the ranges of one file (the closures passed to `file_range_matches`) -/

/-- `ranges.iter().any(|r| r.lo <= line && r.hi >= line)` (file_lines.rs:246, :264). -/
def containsLine (rs : List Range) (n : Nat) : Bool := rs.any (fun r => r.hasLine n)

/-- `ranges.iter().any(|r| r.contains(Range::new(lo, hi)))` (file_lines.rs:246, :269). -/
def containsRange (rs : List Range) (lo hi : Nat) : Bool := rs.any (fun r => r.contains ⟨lo, hi⟩)

/-- `ranges.iter().any(|r| r.intersects(range))` (file_lines.rs:246, :259). -/
def intersectsRange (rs : List Range) (lo hi : Nat) : Bool := rs.any (fun r => r.intersects ⟨lo, hi⟩)

/-! ### Decidable oracles (right-hand sides of the C17 theorems, run on the implementation's output) -/

/-- Every line of `lo..=hi` lies in some range of `rs`; decided without enumerating the interval
(`Lemmas.FileLines.unionRange_iff`). -/
def unionRange (rs : List Range) (lo hi : Nat) : Bool :=
  decide (hi < lo) || containsRange (normalizeRanges (rs.filter fun r => !r.isEmpty)) lo hi

/-- Some line of `lo..=hi` lies in some range of `rs` (`Lemmas.FileLines.unionMeets_iff`). -/
def unionMeets (rs : List Range) (lo hi : Nat) : Bool :=
  rs.any fun r => decide (max r.lo lo ≤ min r.hi hi)

/-- Non-empty ranges, each starting at least two lines after the previous one ends
(`Lemmas.FileLines.sortedDisjoint_iff`). -/
def sortedDisjoint : List Range → Bool
  | [] => true
  | [a] => !a.isEmpty
  | a :: b :: rest => !a.isEmpty && decide (a.hi + 1 < b.lo) && sortedDisjoint (b :: rest)

/-! ### `FileLines` -/

/-- `FileLines(Option<HashMap<FileName, Vec<Range>>>)` (file_lines.rs:157).  The map is an
association list; `from_ranges` receives a `HashMap`, so keys are unique and `lookup` order is
immaterial. -/
inductive FileLines (α : Type) where
  | all
  | map (m : List (α × List Range))

/-- `HashMap::get`. -/
def lookup {α} [DecidableEq α] (m : List (α × List Range)) (f : α) : Option (List Range) :=
  match m with
  | [] => none
  | (k, v) :: rest => if k = f then some v else lookup rest f

/-- `FileLines::is_all` (file_lines.rs:204-206). -/
def FileLines.isAll {α} : FileLines α → Bool
  | .all => true
  | .map _ => false

/-- `FileLines::from_ranges` (file_lines.rs:208-211). -/
def FileLines.fromRanges {α} (m : List (α × List Range)) : FileLines α :=
  .map (m.map fun (f, rs) => (f, normalizeRanges rs))

/-- `FileLines::file_range_matches` (file_lines.rs:235-249).  `canon` is
`canonicalize_path_string` (file_lines.rs:284-289): the file system's answer for real paths
(`none` when the path cannot be canonicalized), the identity for stdin. -/
def FileLines.fileRangeMatches {α} [DecidableEq α] (fl : FileLines α) (canon : α → Option α)
    (file : α) (f : Range → Bool) : Bool :=
  match fl with
  | .all => true
  | .map m =>
    match canon file with
    | none => false
    | some file' =>
      match lookup m file' with
      | some ranges => ranges.any f
      | none => false

/-- `LineRange` (file_lines.rs:15-19). -/
structure LineRange (α : Type) where
  file : α
  lo : Nat
  hi : Nat

/-- `FileLines::contains` (file_lines.rs:253-255). -/
def FileLines.contains {α} [DecidableEq α] (fl : FileLines α) (canon : α → Option α)
    (range : LineRange α) : Bool :=
  fl.fileRangeMatches canon range.file (fun r => r.contains ⟨range.lo, range.hi⟩)

/-- `FileLines::intersects` (file_lines.rs:258-260). -/
def FileLines.intersects {α} [DecidableEq α] (fl : FileLines α) (canon : α → Option α)
    (range : LineRange α) : Bool :=
  fl.fileRangeMatches canon range.file (fun r => r.intersects ⟨range.lo, range.hi⟩)

/-- `FileLines::contains_line` (file_lines.rs:263-265). -/
def FileLines.containsLine {α} [DecidableEq α] (fl : FileLines α) (canon : α → Option α)
    (file : α) (line : Nat) : Bool :=
  fl.fileRangeMatches canon file (fun r => r.hasLine line)

/-- `FileLines::contains_range` (file_lines.rs:268-270). -/
def FileLines.containsRange {α} [DecidableEq α] (fl : FileLines α) (canon : α → Option α)
    (file : α) (lo hi : Nat) : Bool :=
  fl.fileRangeMatches canon file (fun r => r.contains ⟨lo, hi⟩)

/-! ### Spans to line ranges, and the guard -/

/-- `starts_with_newline` (utils.rs:455-457). -/
def startsWithNewline : List Char → Bool
  | '\n' :: _ => true
  | '\r' :: '\n' :: _ => true
  | _ => false

/-- `lookup_line_range` (parse/session.rs:297-320) as a function of what it reads from the source
map: the 0-based line indices of `span.lo()` and `span.hi()` (`lookup_line(..).line`) and whether
the snippet starts with a newline.  The same offset is added to BOTH ends. -/
def lookupLineRange {α} (file : α) (loLine hiLine : Nat) (startsNl : Bool) : LineRange α :=
  let offset := 1 + (if startsNl then 1 else 0)
  ⟨file, loLine + offset, hiLine + offset⟩

/-- `out_of_file_lines_range!` (utils.rs:359-368): "the span does not intersect the selection",
i.e. the item / statement / expression / macro / block tail is copied instead of rewritten. -/
def outOfFileLinesRange {α} [DecidableEq α] (fl : FileLines α) (canon : α → Option α)
    (range : LineRange α) : Bool :=
  !fl.isAll && !fl.intersects canon range

end RF.FileLines
