//! Width-budget arithmetic of function signatures, where clauses, control-flow headers and assignments
//! (`RF/Model/Budgets.lean`, driver `RF/Driver/Budgets.lean`, hooks `verif_hooks::budgets`).
//!
//! corr: each hooked function against the model, exhaustive over small domains (widths / indents /
//! offsets x the enumeration options) plus random large values; a panic of the real code is the answer
//! `panic` (the hook call runs under catch_unwind).
//! oracle (end to end, through `pool::run_jobs`): generated fn signatures whose one-line form is
//! max_width-2 ... max_width+2 wide at nesting 0..3 x brace_style x indent_style x fn_params_layout:
//! the model's `sig_layout` predicts the layout of the output (parameters in a block, return type on
//! its own line, closing parenthesis moved, all on one line, brace on its own line); `if` / `while`
//! headers at exact widths (`rewrite_cond`).
//! direct: fmt(fmt(x)) = fmt(x); the same signature laid out vertically in the source gives the same
//! output (the budgets do not read the source layout); no panic.
use std::time::Duration;

use rustfmt_nightly::verif_hooks::budgets as hb;
use rustfmt_nightly::Config;
use serde_json::json;

use crate::pool::{self, Job, Status};
use crate::util::*;

fn guard<T>(f: impl FnOnce() -> T) -> Option<T> {
    std::panic::catch_unwind(std::panic::AssertUnwindSafe(f)).ok()
}

fn es(x: hb::S) -> String {
    format!("{}:{}:{}:{}", x.0, x.1, x.2, x.3)
}

const IS: [&str; 2] = ["Visual", "Block"];
const BS: [&str; 3] = ["AlwaysNextLine", "PreferSameLine", "SameLineWhere"];
const CBS: [&str; 3] = ["AlwaysSameLine", "ClosingNextLine", "AlwaysNextLine"];
const LAYOUT: [&str; 3] = ["Compressed", "Tall", "Vertical"];

fn cfg(kv: &[(&str, String)]) -> Config {
    let mut c = Config::default();
    for (k, v) in kv {
        c.override_value(k, v);
    }
    c
}

fn req(op: &str, args: &[usize]) -> String {
    let mut r = String::with_capacity(op.len() + args.len() * 4);
    r.push_str(op);
    for a in args {
        r.push(' ');
        r.push_str(&a.to_string());
    }
    r
}

fn big(rng: &mut Rng) -> usize {
    match rng.below(4) {
        0 => rng.below(16),
        1 => rng.below(200),
        2 => rng.below(1 << 20),
        _ => (rng.next() % (1u64 << 40)) as usize,
    }
}

/// compute_budgets_for_params, budget, generics_shape_from_config, shape_from_rhs_tactic, newline_for_brace
fn arithmetic(o: &mut Outcome, rng: &mut Rng, thorough: bool) {
    let mws: Vec<usize> = if thorough { (0..=14).collect() } else { (0..=12).collect() };
    let tss: Vec<usize> = if thorough { (0..=4).collect() } else { vec![0, 1, 4] };
    let blocks: Vec<usize> = if thorough { (0..=9).collect() } else { vec![0, 1, 4, 8] };
    let aligns: Vec<usize> = if thorough { vec![0, 1, 3] } else { vec![0, 3] };
    for &mw in &mws {
        for &ts in &tss {
            for is in 0..2usize {
                let c = cfg(&[("max_width", mw.to_string()), ("tab_spaces", ts.to_string()), ("indent_style", IS[is].into())]);
                hb::with_ctx("", &c, |x| {
                    for used in 0..=14usize {
                        if is == 0 && ts == tss[0] {
                            o.push("corr", "bud.budget", req("bud.budget", &[mw, used]), x.budget(used).to_string(), "exhaustive".into(), true);
                        }
                    }
                    for rl in 0..=6usize {
                        for (rn, force) in [(false, false), (true, false), (false, true)] {
                            if rn && rl == 0 {
                                continue;
                            }
                            for &b in &blocks {
                                for &al in &aligns {
                                    for ret in 0..=4usize {
                                        for br in 0..3usize {
                                            let a = [mw, ts, is, rl, rn as usize, b, al, ret, br, force as usize];
                                            let ans = guard(|| x.compute_budgets_for_params(rl, rn, (b, al), ret, br as u8, force)).map(|(p, q, i)| format!("{}:{}:{}:{}", p, q, i.0, i.1)).unwrap_or_else(|| "panic".into());
                                            o.push("corr", "bud.params", req("bud.params", &a), ans, "exhaustive".into(), !rn && !force);
                                        }
                                    }
                                }
                            }
                        }
                    }
                    for w in 0..=6usize {
                        for &b in &[0usize, 2, 5] {
                            for &al in &aligns {
                                for &off in &[0usize, 2] {
                                    for t in 0..3usize {
                                        if is == 0 {
                                            let a = [mw, ts, w, b, al, off, t];
                                            let ans = guard(|| x.shape_from_rhs_tactic((w, b, al, off), t as u8)).map(|r| r.map(es).unwrap_or_else(|| "none".into())).unwrap_or_else(|| "panic".into());
                                            o.push("corr", "bud.rhs_tactic", req("bud.rhs_tactic", &a), ans, "exhaustive".into(), true);
                                        }
                                    }
                                    for d in 0..=3usize {
                                        let a = [mw, ts, is, w, b, al, off, d];
                                        let ans = match guard(|| hb::generics_shape_from_config(&c, (w, b, al, off), d)) {
                                            Some(Ok(s)) => es(s),
                                            Some(Err(e)) => format!("err:{}", e),
                                            None => "panic".into(),
                                        };
                                        o.push("corr", "bud.generics", req("bud.generics", &a), ans, "exhaustive".into(), true);
                                    }
                                }
                            }
                        }
                    }
                });
            }
        }
    }
    // newline_for_brace: the where clause of a parsed fn
    for bs in 0..3usize {
        for wsl in 0..2usize {
            for preds in 0..=3usize {
                let c = cfg(&[("brace_style", BS[bs].into()), ("where_single_line", (wsl == 1).to_string())]);
                let wh: Vec<String> = (0..preds).map(|i| format!("T{}: Copy", i)).collect();
                let src = format!("fn f<T0, T1, T2>() {} {{}}\n", if preds == 0 { String::new() } else { format!("where {}", wh.join(", ")) });
                let ans = hb::with_ctx(&src, &c, |x| x.newline_for_brace()).flatten().map(|v| v.to_string()).unwrap_or_else(|| "noparse".into());
                o.push("corr", "bud.brace", req("bud.brace", &[bs, wsl, preds]), ans, "exhaustive".into(), true);
            }
        }
    }
    // random large values (one context per draw)
    for _ in 0..(if thorough { 4000 } else { 400 }) {
        let (mw, ts, is) = (big(rng), rng.below(9), rng.below(2));
        let c = cfg(&[("max_width", mw.to_string()), ("tab_spaces", ts.to_string()), ("indent_style", IS[is].into())]);
        hb::with_ctx("", &c, |x| {
            for _ in 0..8 {
                let (b, al) = (big(rng), if rng.chance(1, 2) { 0 } else { big(rng) });
                let rl = if rng.chance(1, 2) { rng.below(40) } else { rng.below(5000) };
                let ret = if rng.chance(1, 3) { 0 } else { rng.below(60) };
                // near the edge: indent + result + ret + overhead around max_width
                let (b, al) = if rng.chance(1, 2) { (mw.saturating_sub(rl + ret + rng.below(9)), 0) } else { (b, al) };
                let (rn, force, br) = (rng.chance(1, 6) && rl > 0, rng.chance(1, 6), rng.below(3));
                let a = [mw, ts, is, rl, rn as usize, b, al, ret, br, force as usize];
                let ans = guard(|| x.compute_budgets_for_params(rl, rn, (b, al), ret, br as u8, force)).map(|(p, q, i)| format!("{}:{}:{}:{}", p, q, i.0, i.1)).unwrap_or_else(|| "panic".into());
                o.push("corr", "bud.params", req("bud.params", &a), ans, "random".into(), true);
                let used = if rng.chance(1, 2) { mw + rng.below(3) } else { big(rng) };
                o.push("corr", "bud.budget", req("bud.budget", &[mw, used]), x.budget(used).to_string(), "random".into(), true);
                let s = (big(rng), b, al, big(rng));
                let t = rng.below(3);
                let ans = guard(|| x.shape_from_rhs_tactic(s, t as u8)).map(|r| r.map(es).unwrap_or_else(|| "none".into())).unwrap_or_else(|| "panic".into());
                o.push("corr", "bud.rhs_tactic", req("bud.rhs_tactic", &[mw, ts, s.0, s.1, s.2, s.3, t]), ans, "random".into(), true);
                let d = big(rng);
                let ans = match guard(|| hb::generics_shape_from_config(&c, s, d)) {
                    Some(Ok(s)) => es(s),
                    Some(Err(e)) => format!("err:{}", e),
                    None => "panic".into(),
                };
                o.push("corr", "bud.generics", req("bud.generics", &[mw, ts, is, s.0, s.1, s.2, s.3, d]), ans, "random".into(), true);
            }
        });
    }
    // last_line_used_width on measured strings
    for body in ["", "a", "abc", "ab\n", "ab\ncd", "\n", "a\n\nxyz", "é\u{3000}x", "ab\né"] {
        for off in [0usize, 1, 7] {
            let llw = hb::last_line_width(body);
            let a = [llw, body.contains('\n') as usize, off];
            o.push("corr", "bud.llused", req("bud.llused", &a), hb::last_line_used_width(body, off).to_string(), "exhaustive".into(), true);
        }
    }
}

/// rewrite_assign_rhs_expr / choose_rhs over a probe rewriter
fn assign_rhs(o: &mut Outcome, rng: &mut Rng, thorough: bool) {
    let place = |r: &Option<String>, n_seen: usize| -> &'static str {
        match r {
            None => "err",
            Some(s) if s.is_empty() => "empty",
            Some(s) if s.starts_with('\n') => "next",
            Some(_) if n_seen == 3 => "overflow",
            Some(_) => "same",
        }
    };
    let one = |o: &mut Outcome, x: &hb::Ctx<'_, '_>, mw: usize, ts: usize, s: hb::S, t: usize, lhs: &str, orig: Option<usize>, new: Option<usize>, inf: bool, desc: &str| {
        let so = orig.map(|n| "y".repeat(n));
        let sn = new.map(|n| "z".repeat(n));
        let si = if inf { Some("w".to_string()) } else { None };
        let answers = [so.as_deref(), sn.as_deref(), si.as_deref()];
        let ans = match guard(|| x.rewrite_assign_rhs_expr(lhs, s, t as u8, &answers)) {
            None => "panic".to_string(),
            Some((seen, r)) => {
                let mut parts = vec![place(&r, seen.len()).to_string()];
                parts.extend(seen.iter().map(|x| es(*x)));
                parts.join(";")
            }
        };
        let llw = hb::last_line_width(lhs);
        let a = [mw, ts, s.0, s.1, s.2, s.3, t, llw, lhs.contains('\n') as usize, orig.map_or(0, |n| n + 1), new.map_or(0, |n| n + 1), inf as usize];
        o.push("corr", "bud.rhs", req("bud.rhs", &a), ans, desc.into(), true);
    };
    let lhss = ["", "a =", "let abc =", "x\n  yy =", "x\nyyyyyy ="];
    let opts = [None, Some(0usize), Some(1), Some(3), Some(6), Some(9)];
    let mws: Vec<usize> = if thorough { (0..=16).collect() } else { vec![0, 3, 6, 9, 12, 16] };
    for &mw in &mws {
        for ts in [0usize, 2, 4] {
            let c = cfg(&[("max_width", mw.to_string()), ("tab_spaces", ts.to_string())]);
            hb::with_ctx("", &c, |x| {
                for w in [0usize, 2, 5, 8, 12] {
                    for b in [0usize, 4] {
                        for al in [0usize, 2] {
                            for off in [0usize, 3] {
                                for t in 0..3usize {
                                    for lhs in lhss {
                                        for orig in opts {
                                            for new in opts {
                                                if !thorough && orig.is_some() && new.is_some() && (orig.unwrap() + new.unwrap()) % 2 == 1 {
                                                    continue;
                                                }
                                                one(o, x, mw, ts, (w, b, al, off), t, lhs, orig, new, (w + b + t) % 2 == 0, "exhaustive");
                                            }
                                        }
                                    }
                                }
                            }
                        }
                    }
                }
            });
        }
    }
    for _ in 0..(if thorough { 3000 } else { 300 }) {
        let (mw, ts) = (if rng.chance(1, 2) { rng.below(200) } else { big(rng) }, rng.below(9));
        let c = cfg(&[("max_width", mw.to_string()), ("tab_spaces", ts.to_string())]);
        hb::with_ctx("", &c, |x| {
            for _ in 0..8 {
                let s = (if rng.chance(1, 2) { rng.below(120) } else { big(rng) }, rng.below(60), if rng.chance(1, 2) { 0 } else { rng.below(30) }, rng.below(60));
                let lhs = match rng.below(3) { 0 => "x".repeat(rng.below(30)), 1 => format!("ab\n{}", "x".repeat(rng.below(80))), _ => format!("{} =", "x".repeat(rng.below(100))) };
                let opt = |rng: &mut Rng| if rng.chance(1, 4) { None } else { Some(rng.below(150)) };
                let (orig, new) = (opt(rng), opt(rng));
                one(o, x, mw, ts, s, rng.below(3), &lhs, orig, new, rng.chance(1, 2), "random");
            }
        });
    }
}

/// ControlFlow::rewrite_cond on `if x` / `while x`
fn cond(o: &mut Outcome, rng: &mut Rng, thorough: bool) {
    let one = |o: &mut Outcome, x: &hb::Ctx<'_, '_>, mw: usize, ts: usize, cb: usize, s: hb::S, nested: bool, is_if: bool, len: usize, desc: &str| {
        let ans = match guard(|| x.rewrite_cond(nested, s)) {
            None => "panic".to_string(),
            Some(None) => "nocf".to_string(),
            Some(Some(Err(()))) => "err".to_string(),
            Some(Some(Ok((text, used)))) => {
                let kw = if is_if { 2 } else { 5 };
                let body = &text[kw..];
                let brace = body.ends_with('\n');
                let inner = if brace { &body[..body.len() - 1] } else { &body[..body.len() - 1] };
                format!("{}:{}:{}", inner.contains('\n') as usize, brace as usize, used)
            }
        };
        let a = [mw, ts, cb, s.0, s.1, s.2, s.3, nested as usize, is_if as usize, len];
        o.push("corr", "bud.cond", req("bud.cond", &a), ans, desc.into(), true);
    };
    let lens: Vec<usize> = if thorough { vec![1, 2, 3, 5, 8, 11] } else { vec![1, 3, 6] };
    let mws: Vec<usize> = if thorough { (0..=22).collect() } else { (4..=20).step_by(2).collect() };
    for &len in &lens {
        for is_if in [true, false] {
            let src = format!("fn f() {{ {} {} {{ x(); }} }}\n", if is_if { "if" } else { "while" }, "q".repeat(len));
            for &mw in &mws {
                for ts in [0usize, 2, 4] {
                    for cb in 0..3usize {
                        let c = cfg(&[("max_width", mw.to_string()), ("tab_spaces", ts.to_string()), ("control_brace_style", CBS[cb].into())]);
                        hb::with_ctx(&src, &c, |x| {
                            for b in 0..=14usize {
                                for al in [0usize, 2] {
                                    for off in [0usize, 1, 5] {
                                        for nested in [false, true] {
                                            if nested && !is_if {
                                                continue;
                                            }
                                            one(o, x, mw, ts, cb, ((b + off) % 7, b, al, off), nested, is_if, len, "exhaustive");
                                        }
                                    }
                                }
                            }
                        });
                    }
                }
            }
        }
    }
    for _ in 0..(if thorough { 2000 } else { 300 }) {
        let len = 1 + rng.below(40);
        let is_if = rng.chance(1, 2);
        let src = format!("fn f() {{ {} {} {{ x(); }} }}\n", if is_if { "if" } else { "while" }, "q".repeat(len));
        let (mw, ts, cb) = (rng.below(130), rng.below(9), rng.below(3));
        let c = cfg(&[("max_width", mw.to_string()), ("tab_spaces", ts.to_string()), ("control_brace_style", CBS[cb].into())]);
        hb::with_ctx(&src, &c, |x| {
            for _ in 0..6 {
                let b = if rng.chance(1, 2) { mw.saturating_sub(len + rng.below(14)) } else { rng.below(150) };
                let s = (rng.below(200), b, if rng.chance(1, 2) { 0 } else { rng.below(20) }, rng.below(12));
                one(o, x, mw, ts, cb, s, is_if && rng.chance(1, 3), is_if, len, "random");
            }
        });
    }
}

// ---------------------------------------------------------------- end to end

#[derive(Clone, Debug)]
struct SigCase {
    job: Job,
    /// the same item with the signature laid out vertically in the source
    alt: Job,
    name: String,
    has_body: bool,
    /// bud.sig arguments
    args: Vec<usize>,
    fam: String,
}

fn ident(rng: &mut Rng, n: usize) -> String {
    let mut s = String::new();
    for i in 0..n {
        let c = if i == 0 { b'a' + rng.below(26) as u8 } else if rng.chance(1, 8) { b'_' } else { b'a' + rng.below(26) as u8 };
        s.push(c as char);
    }
    s
}

fn gen_sig(rng: &mut Rng, level: usize, bs: usize, is: usize, layout: usize, kind: usize, d: i64) -> Option<SigCase> {
    let ts = if rng.chance(1, 4) { 2 } else { 4 };
    let mw = 40 + rng.below(61);
    // types that render on one line whatever the width (no generics, no tuples)
    let tys = ["u8", "u32", "String", "usize", "&str", "&mut Foo", "bool", "Self"];
    let n = rng.below(5);
    let params: Vec<String> = (0..n).map(|i| if i == 0 && kind == 1 && rng.chance(1, 2) { ["self", "&self", "&mut self"][rng.below(3)].to_string() } else { { let k = 1 + rng.below(5); format!("{}: {}", ident(rng, k), rng.pick(&tys)) } }).collect();
    let ret = if rng.chance(2, 3) { format!("-> {}", rng.pick(&tys)) } else { String::new() };
    let preds = if (n > 0 || !ret.is_empty()) && rng.chance(1, 6) { 1 + rng.below(2) } else { 0 };
    let generics = if preds > 0 { "<T, U>" } else if (n > 0 || !ret.is_empty()) && rng.chance(1, 4) { "<T>" } else { "" };
    // kind: 0 free fn, 1 method, 2 trait method without body, 3 foreign fn
    let kind = if level == 0 { 0 } else { kind };
    let (preds, generics) = if kind == 3 { (0, "") } else { (preds, generics) };
    let has_body = kind < 2;
    let quals = match kind { 0 => *rng.pick(&["", "pub ", "pub(crate) ", "const ", "unsafe ", "pub extern \"C\" "]), 1 => *rng.pick(&["", "pub "]), _ => "" };
    let indent = level * ts;
    let ptotal: usize = params.iter().map(|p| p.len()).sum::<usize>() + 2 * n.saturating_sub(1);
    // one-line width: indent + quals + "fn " + name + generics + "(" + params + ")" + [" " + ret] + (" {" | ";")
    let fixed = indent + quals.len() + 3 + generics.len() + 2 + ptotal + if ret.is_empty() { 0 } else { 1 + ret.len() } + if has_body { 2 } else { 1 };
    let target = (mw as i64 + d) as usize;
    // a name of one column makes `snuggle_angle_bracket` true (the last line of the generics text is one
    // column wide): outside the model's Sig, kept away from
    if target < fixed + 2 {
        return None;
    }
    let name = ident(rng, target - fixed);
    if name == "as" || name == "do" || name == "fn" || name == "if" || name == "in" || name.len() > 1 && ["for", "let", "mod", "mut", "pub", "ref", "use", "dyn", "box", "try", "gen", "impl", "self", "else", "enum", "loop", "move", "true", "type", "priv"].contains(&name.as_str()) {
        return None;
    }
    let name = if name == "_" { "z".to_string() } else { name };
    // the generics must fit behind the name (rewrite_generics: one line), else `prefix` is not one line
    if !generics.is_empty() && indent + quals.len() + 3 + name.len() + generics.len() + 4 > mw {
        return None;
    }
    let wh = if preds == 0 { String::new() } else { format!(" where {}", ["T: Copy", "U: Clone"][..preds].join(", ")) };
    let tail = if has_body { " { x(); }" } else { ";" };
    let line = format!("{}fn {}{}({}){}{}{}{}", quals, name, generics, params.join(", "), if ret.is_empty() { "" } else { " " }, ret, wh, tail);
    let alt_line = format!("{}fn {}{}(\n{}\n)\n{}\n{}{}", quals, name, generics, params.iter().map(|p| format!("{},", p)).collect::<Vec<_>>().join("\n"), ret, wh.trim_start(), tail);
    let alt_line = if n == 0 { format!("{}fn {}{}(\n)\n{}\n{}{}", quals, name, generics, ret, wh.trim_start(), tail) } else { alt_line };
    let wrap = |item: &str| -> String {
        let mut open = String::new();
        let mut close = String::new();
        let inner = match kind { 1 => "impl S {", 2 => "trait Tr {", 3 => "extern \"C\" {", _ => "mod m {" };
        for l in 0..level {
            let h = if l + 1 == level { inner } else { "mod m {" };
            open.push_str(&format!("{}{}\n", " ".repeat(l * ts), h));
            close = format!("{}}}\n{}", " ".repeat(l * ts), close);
        }
        format!("{}{}{}\n{}", open, " ".repeat(indent), item, close)
    };
    let cfgv: Vec<(String, String)> = vec![
        ("max_width".into(), mw.to_string()),
        ("tab_spaces".into(), ts.to_string()),
        ("brace_style".into(), BS[bs].into()),
        ("indent_style".into(), IS[is].into()),
        ("fn_params_layout".into(), LAYOUT[layout].into()),
        ("style_edition".into(), ["2015", "2021", "2024"][rng.below(3)].into()),
    ];
    let prefix = quals.len() + 3 + name.len() + generics.len();
    let mut args = vec![mw, ts, is, layout, bs, indent, 0, prefix, ret.len(), preds, has_body as usize];
    args.extend(params.iter().map(|p| p.len()));
    Some(SigCase {
        job: Job { src: wrap(&line), cfg: cfgv.clone(), file_lines: None },
        alt: Job { src: wrap(&alt_line), cfg: cfgv, file_lines: None },
        name,
        has_body,
        args,
        fam: format!("sig:k{}:{}:{}:{}:d{}", kind, IS[is], BS[bs], LAYOUT[layout], d),
    })
}

/// the layout features of the signature of `fn <name>` in `out`: (line of `fn` ends with `(`,
/// ret_own_line, unused, one_line, brace_on_next_line)
fn observe(out: &str, name: &str, has_body: bool) -> Option<[bool; 5]> {
    let lines: Vec<&str> = out.lines().collect();
    let key = format!("fn {}", name);
    let start = lines.iter().position(|l| l.contains(&key))?;
    let term = if has_body { "{" } else { ";" };
    let end = (start..lines.len()).find(|&i| lines[i].trim_end().ends_with(term))?;
    let region = &lines[start..=end];
    let brace_next = has_body && region.last()?.trim() == "{";
    let sig: &[&str] = if brace_next { &region[..region.len() - 1] } else { region };
    let pib = region[0].trim_end().ends_with('(');
    let ret_own = sig.iter().skip(1).any(|l| l.trim_start().starts_with("->"));
    Some([pib, ret_own, false, sig.len() == 1, brace_next])
}

fn e2e_sigs(o: &mut Outcome, rng: &mut Rng, thorough: bool) {
    let per = if thorough { 8 } else { 1 };
    let mut all: Vec<SigCase> = vec![];
    for level in 0..4usize {
        for bs in 0..3usize {
            for is in 0..2usize {
                for layout in 0..3usize {
                    for kind in 0..4usize {
                        for d in -2..=2i64 {
                            let mut made = 0;
                            let mut tries = 0;
                            while made < per && tries < 40 {
                                tries += 1;
                                if let Some(c) = gen_sig(rng, level, bs, is, layout, kind, d) {
                                    all.push(c);
                                    made += 1;
                                }
                            }
                        }
                    }
                }
            }
        }
    }
    let mut jobs: Vec<Job> = all.iter().map(|c| c.job.clone()).collect();
    jobs.extend(all.iter().map(|c| c.alt.clone()));
    let res = pool::run_jobs(&jobs, jobs_n(), Duration::from_secs(20));
    let n = all.len();
    let reqs: Vec<String> = all.iter().map(|c| req("bud.sig", &c.args)).collect();
    let preds = run_model(&reqs, jobs_n());
    let mut second: Vec<(usize, Job)> = vec![];
    for (i, c) in all.iter().enumerate() {
        let (r, ra) = (&res[i], &res[n + i]);
        o.count(&format!("e2e:{}", &c.fam[..c.fam.rfind(":d").unwrap_or(c.fam.len())]));
        for (which, r, job) in [("one-line source", r, &c.job), ("vertical source", ra, &c.alt)] {
            if let Status::Panic(m) = &r.status {
                o.direct_failures.push(json!({"sig": "budgets-e2e-panic", "src": job.src, "cfg": format!("{:?}", job.cfg), "panic": m, "layout": which}));
            }
        }
        if !r.clean() {
            o.count("e2e:sig:inconclusive");
            continue;
        }
        second.push((i, Job { src: r.out.clone(), cfg: c.job.cfg.clone(), file_lines: None }));
        // the budgets do not read the layout of the source
        o.direct_evals += 1;
        if ra.clean() && ra.out != r.out {
            o.direct_failures.push(json!({"sig": "budgets-layout-dependent", "src": c.job.src, "alt": c.alt.src, "cfg": format!("{:?}", c.job.cfg), "out": r.out, "alt_out": ra.out}));
        }
        let obs = match observe(&r.out, &c.name, c.has_body) {
            Some(x) => x,
            None => {
                o.direct_failures.push(json!({"sig": "budgets-e2e-unreadable", "src": c.job.src, "out": r.out}));
                continue;
            }
        };
        let p: Vec<&str> = preds[i].split(':').collect();
        if p.len() != 8 {
            o.push("oracle", "bud.sig", reqs[i].clone(), "<8 fields>".into(), c.fam.clone(), true);
            continue;
        }
        let b = |x: bool| if x { "1" } else { "0" };
        // the visual style with a mixed (Compressed) list may or may not break the list: not predicted
        let unknown = c.args[2] == 0 && p[1] == "m";
        let expect = if unknown {
            o.count("e2e:sig:not-predicted(visual,mixed)");
            preds[i].clone()
        } else {
            [p[0], p[1], b(obs[0]), b(obs[1]), p[4], p[5], b(obs[3]), if p[7] == "?" || !c.has_body { p[7] } else { b(obs[4]) }].join(":")
        };
        if obs[3] { o.count("e2e:sig:observed-one-line"); } else { o.count("e2e:sig:observed-multi-line"); }
        if obs[1] { o.count("e2e:sig:observed-ret-own-line"); }
        if obs[0] { o.count("e2e:sig:observed-params-in-block"); }
        o.push("oracle", "bud.sig", reqs[i].clone(), expect, format!("{} | {:?} | {:?}", c.fam, c.job.src, r.out), true);
        if i % 97 == 0 {
            o.sample(json!({"kind": "e2e", "src": c.job.src, "cfg": format!("{:?}", c.job.cfg), "out": r.out, "model": preds[i]}));
        }
    }
    let jobs2: Vec<Job> = second.iter().map(|x| x.1.clone()).collect();
    let res2 = pool::run_jobs(&jobs2, jobs_n(), Duration::from_secs(20));
    for ((i, j), r2) in second.iter().zip(res2.iter()) {
        o.direct_evals += 1;
        if let Status::Panic(m) = &r2.status {
            o.direct_failures.push(json!({"sig": "budgets-e2e-panic", "src": j.src, "cfg": format!("{:?}", j.cfg), "panic": m, "layout": "second pass"}));
        } else if r2.clean() && r2.out != j.src {
            o.direct_failures.push(json!({"sig": "budgets-not-idempotent", "src": all[*i].job.src, "cfg": format!("{:?}", j.cfg), "first": j.src, "second": r2.out}));
        }
    }
    o.direct_distinct += second.len() as u64;
}

/// `if` / `while` headers at exact widths, nested: brace placement against `bud.cond`; deep nesting x
/// narrow pages for the subtractions (no panic).
fn e2e_cond(o: &mut Outcome, rng: &mut Rng, thorough: bool) {
    struct C { job: Job, args: Vec<usize>, key: String }
    let mut all: Vec<C> = vec![];
    for level in 0..5usize {
        for cb in 0..3usize {
            for is_if in [true, false] {
                for d in -3..=3i64 {
                    for _ in 0..(if thorough { 4 } else { 1 }) {
                        let ts = *rng.pick(&[2usize, 4]);
                        let mw = 18 + rng.below(50);
                        let indent = (level + 1) * ts;
                        let kw = if is_if { 2 } else { 5 };
                        // indent + kw + " " + ident + " {" = mw + d
                        let fixed = indent + kw + 3;
                        let target = (mw as i64 + d) as usize;
                        if target < fixed + 2 {
                            continue;
                        }
                        let id = format!("q{}", ident(rng, target - fixed - 1));
                        let mut src = String::new();
                        for l in 0..level {
                            src.push_str(&format!("{}mod m {{\n", " ".repeat(l * ts)));
                        }
                        src.push_str(&format!("{}fn f() {{\n{}{} {} {{\n{}x();\n{}}}\n{}}}\n", " ".repeat(level * ts), " ".repeat(indent), if is_if { "if " } else { "while " }, id, " ".repeat(indent + ts), " ".repeat(indent), " ".repeat(level * ts)));
                        for l in (0..level).rev() {
                            src.push_str(&format!("{}}}\n", " ".repeat(l * ts)));
                        }
                        let cfgv = vec![("max_width".to_string(), mw.to_string()), ("tab_spaces".to_string(), ts.to_string()), ("control_brace_style".to_string(), CBS[cb].to_string())];
                        all.push(C { job: Job { src, cfg: cfgv, file_lines: None }, args: vec![mw, ts, cb, mw - indent, indent, 0, 0, 0, is_if as usize, id.len()], key: format!("{} {}", if is_if { "if" } else { "while" }, id) });
                    }
                }
            }
        }
    }
    // deep nesting x narrow page: where clauses (visual), tab_spaces = 0, if / while / let chains
    let mut narrow: Vec<Job> = vec![];
    let items = [
        "fn f<T>() where T: Copy {}",
        "fn g<T>(a: T) -> T where T: Copy { a }",
        "struct A<T>(T) where T: Copy;",
        "struct Aaaa<Tttttttttt, Uuuuuuuuuu>(T) where T: Copy;",
        "trait Aaaaaaaaaaaaaa<Tttttttttttttttttttttt, Uuuuuuuuuuuuuuuuuuuuuu> where T: Copy {}",
        "enum E<T> where T: Copy { A(T) }",
        "impl<T> S<T> where T: Copy { fn f(&self) -> u32 { 1 } }",
        "type X<T> where T: Copy = Vec<T>;",
        "fn h() { if aaaaaaaa { x(); } else if bbbbbbbbb { y(); } while cccccccc { z(); } }",
        "fn k() { let aaaaaaaaaaaa = bbbbbbbbbbbbbbbb + cccccccccccc; let Some(x) = yyyyyyyyyy else { return; }; }",
        "fn m(aaaaaaaa: u32, bbbbbbbb: u32) -> Resultttttttt<u32> { 1 }",
        "fn n() { if a { x(); } while b { y(); } if c { x(); } else if d { y(); } }",
    ];
    for item in items {
        for level in 0..7usize {
            for (mw, ts) in [(20usize, 4usize), (30, 4), (40, 0), (30, 0), (45, 8), (12, 2)] {
                for is in 0..2usize {
                    let mut src = String::new();
                    for _ in 0..level { src.push_str("mod m {\n"); }
                    src.push_str(item);
                    src.push('\n');
                    for _ in 0..level { src.push_str("}\n"); }
                    let mut cfgv = vec![("max_width".to_string(), mw.to_string()), ("tab_spaces".to_string(), ts.to_string()), ("indent_style".to_string(), IS[is].to_string())];
                    if level % 2 == 1 { cfgv.push(("where_single_line".into(), "true".into())); cfgv.push(("comment_width".into(), "10".into())); }
                    narrow.push(Job { src, cfg: cfgv, file_lines: None });
                }
            }
        }
    }
    let mut jobs: Vec<Job> = all.iter().map(|c| c.job.clone()).collect();
    let n = jobs.len();
    jobs.extend(narrow.iter().cloned());
    let res = pool::run_jobs(&jobs, jobs_n(), Duration::from_secs(20));
    for (i, c) in all.iter().enumerate() {
        let r = &res[i];
        o.count("e2e:cond:inputs");
        if let Status::Panic(m) = &r.status {
            o.direct_failures.push(json!({"sig": "budgets-e2e-panic", "src": c.job.src, "cfg": format!("{:?}", c.job.cfg), "panic": m}));
            continue;
        }
        if !r.clean() {
            o.count("e2e:cond:inconclusive");
            continue;
        }
        let lines: Vec<&str> = r.out.lines().collect();
        let kwd = c.key.split(' ').next().unwrap();
        if lines.iter().any(|l| l.trim_start().starts_with(&format!("{}  ", kwd))) {
            // left as written: the rewrite failed
            o.push("oracle", "bud.cond", req("bud.cond", &c.args), "err".into(), "e2e: left as written".into(), true);
            continue;
        }
        let Some(k) = lines.iter().position(|l| l.trim_start().starts_with(&c.key)) else {
            // the condition moved or the statement was left alone: the model must say so
            let kw_only = lines.iter().any(|l| l.trim() == c.key.split(' ').next().unwrap());
            let expect = if kw_only { format!("1:1:{}", c.args[4] + c.args[1] + c.args[9]) } else { "?".to_string() };
            o.push("oracle", "bud.cond", req("bud.cond", &c.args), expect, "e2e: header not found".into(), true);
            continue;
        };
        let same_line = lines[k].trim_end().ends_with('{');
        // expect = the model's own used_width with the observed brace placement
        let used = c.key.len() + 1;
        o.push("oracle", "bud.cond", req("bud.cond", &c.args), format!("0:{}:{}", (!same_line) as usize, used), "e2e".into(), true);
    }
    for (j, r) in narrow.iter().zip(res[n..].iter()) {
        o.count("e2e:narrow:inputs");
        o.direct_evals += 1;
        if let Status::Panic(m) = &r.status {
            o.direct_failures.push(json!({"sig": "budgets-e2e-panic", "src": j.src, "cfg": format!("{:?}", j.cfg), "panic": m}));
        }
    }
}

fn jobs_n() -> usize {
    jobs().min(6)
}

pub fn cases(o: &mut Outcome, rng: &mut Rng, thorough: bool) {
    arithmetic(o, rng, thorough);
    assign_rhs(o, rng, thorough);
    cond(o, rng, thorough);
    e2e_sigs(o, rng, thorough);
    e2e_cond(o, rng, thorough);
}

/// C16: the arithmetic against the model (a panic of the code must be the model's `panic`) and the
/// narrow-page / deep-nesting programs.
pub fn cases_c16(o: &mut Outcome, rng: &mut Rng, thorough: bool) {
    arithmetic(o, rng, thorough);
    assign_rhs(o, rng, thorough);
    cond(o, rng, thorough);
    e2e_cond(o, rng, thorough);
}

/// C09: layouts at exact widths (signatures and control-flow headers) as the model predicts them.
pub fn cases_c09(o: &mut Outcome, rng: &mut Rng, thorough: bool) {
    e2e_sigs(o, rng, thorough);
    e2e_cond(o, rng, thorough);
}

/// C02: fmt(fmt(x)) = fmt(x) on signatures at exact widths, and the same output from another source layout.
pub fn cases_c02(o: &mut Outcome, rng: &mut Rng, thorough: bool) {
    e2e_sigs(o, rng, thorough);
}

pub fn run(tier: &str, seed: u64, out: &std::path::Path) -> i32 {
    let thorough = tier == "thorough";
    let mut o = Outcome::new("BUDGETS", tier, seed);
    let mut rng = Rng::new(seed ^ 0xb0d6e7);
    if std::env::var_os("BUDGETS_SHOW_PANICS").is_none() {
        std::panic::set_hook(Box::new(|_| {}));
    }
    cases(&mut o, &mut rng, thorough);
    o.finish(out, jobs())
}
