import RF.Model.Braces
import RF.Props.OptRewrites
/-!
The brace decisions of `src/matches.rs` and `src/closures.rs` (model `RF/Model/Braces.lean`): part of C01 ("block-versus-
expression bodies of match arms and closures; redundant semicolons") and of C02 (the decision on the output is the
decision on the input).  Every theorem holds for ALL trees, option values and answers of the oracles.
-/
namespace RF.Braces
open RF.Opt

/-! ### what is removed is a plain single-expression block -/

/-- one layer `flatten_arm_body` peels is a plain block around one expression -/
theorem canBeFlattened_plain (im : Bool) (h : Hdr) (e : Expr) (rest : List NStmt)
    (hc : canBeFlattened im (.blockE h e rest) = true) :
    h.plain = true ∧ rest = [] ∧ im = false := by
  simp only [canBeFlattened, Expr.hdr?, Expr.isSimpleBlock, Hdr.attrs, Hdr.plain, Bool.and_eq_true, Bool.not_eq_true',
    List.isEmpty_iff, beq_iff_eq, Option.isNone_iff_eq_none] at hc ⊢
  obtain ⟨⟨⟨⟨hl, hu⟩, him⟩, ⟨⟨hr, hcm⟩, ha⟩⟩, _⟩ := hc
  have : h.outer = 0 ∧ h.inner = 0 := by omega
  simp [hl, hu, him, hr, hcm, this.1, this.2]

/-- `flatten_arm_body` changes nothing but redundant braces -/
theorem flatten_strip (fmb im cond : Bool) (body : Expr) :
    strip (flattenArmBody fmb im cond body).2 = strip body := by
  fun_induction flattenArmBody fmb im cond body with
  | case1 cond h e rest hc hb ha ih =>
    obtain ⟨hp, hr, _⟩ := canBeFlattened_plain im h e rest hc
    rw [ih]; simp [strip, hp, hr]
  | case2 => rfl
  | case3 => rfl
  | case4 cond h e rest hc hb hcond =>
    obtain ⟨hp, hr, _⟩ := canBeFlattened_plain im h e rest hc
    simp [strip, hp, hr]
  | case5 => rfl
  | case6 => rfl

/-- the block `combine_next_line_body` adds stands for the body it is put around -/
theorem strip_wrapArm (c : ArmCfg) (e : Expr) (he : e.isBlock = false) : strip (wrapArm c e) = strip e := by
  unfold wrapArm
  split
  · rename_i hs
    have hj : e.isJump = true := by
      simp only [Bool.and_eq_true] at hs
      have := hs.2
      simp only [Expr.isJump]
      cases hcl : e.cls <;> simp_all [semicolonForExpr]
    cases e <;> simp_all [strip, plainHdr, Hdr.plain, Expr.isBlock]
  · simp [strip, plainHdr, Hdr.plain]

/-- **arm_body_unwrap_sound** (and wrap): whatever `rewrite_match_body` prints denotes the body it was given: braces are
removed only from plain single-expression blocks (no attribute on the block, no comment in it, not `unsafe`, no label;
a `const` block is not a block expression) and added only as a plain block around the whole body. -/
theorem arm_body_unwrap_sound (wc : ArmCfg → Bool → Bool) (c : ArmCfg) (x : ArmCtx) (o : ArmOrc) (body : Expr)
    (out : ArmOut) (h : rewriteMatchBodyWith wc c x o body = some out) :
    strip out.tree = strip body := by
  have hf := flatten_strip c.forceMultilineBlocks c.insideMacro (o.shapeOk && o.condMulti body) body
  generalize hfl : flattenArmBody c.forceMultilineBlocks c.insideMacro (o.shapeOk && o.condMulti body) body = fl at hf
  simp only [rewriteMatchBodyWith, hfl] at h
  by_cases hb : fl.2.isBlock = true
  · -- a block is never wrapped
    simp only [hb, Bool.true_or, if_true] at h
    split at h <;> (try split at h) <;> simp_all <;> (subst h; exact hf)
  · have hb' : fl.2.isBlock = false := by simpa using hb
    have hw := strip_wrapArm c fl.2 hb'
    simp only [hb'] at h
    split at h
    · repeat' split at h
      all_goals (first | (simp at h; subst h; first | exact hf | (rw [← hf]; exact hw) | (simp; exact hf) | (simp; rw [← hf]; exact hw)) | simp at h)
    · repeat' split at h
      all_goals (first | (simp at h; subst h; first | exact hf | (rw [← hf]; exact hw) | (simp; exact hf) | (simp; rw [← hf]; exact hw)) | simp at h)


example : strip (.blockE plainHdr (.blockE plainHdr (.leaf .other 0) []) []) = .leaf .other 0 := by decide
example : rewriteMatchBody ⟨true, false, false, true, false, false, false, false⟩ ⟨false, false, false⟩
    ⟨fun _ => false, true, fun _ => .ok false true true, fun _ => true, fun _ => false⟩
    (.blockE plainHdr (.leaf .other 0) []) = some ⟨.sameLine, .leaf .other 0, true, false⟩ := by decide

/-- **arm_body_wrap_sound**: braces are added only by `combine_next_line_body`, only under `match_arm_blocks` outside
macros, only around a body that is not a block, and they wrap exactly the (flattened) old body: one plain block whose
only statement is that body - with a `;` behind a `return` / `break` / `continue` under the 2024 style edition. -/
theorem arm_body_wrap_sound (wc : ArmCfg → Bool → Bool) (c : ArmCfg) (x : ArmCtx) (o : ArmOrc) (body : Expr)
    (out : ArmOut) (h : rewriteMatchBodyWith wc c x o body = some out) :
    (out.branch = .nextLineBlock →
        out.tree = wrapArm c (flattenArmBody c.forceMultilineBlocks c.insideMacro (o.shapeOk && o.condMulti body) body).2 ∧
        (flattenArmBody c.forceMultilineBlocks c.insideMacro (o.shapeOk && o.condMulti body) body).2.isBlock = false ∧
        c.matchArmBlocks = true ∧ c.insideMacro = false) ∧
    (out.branch ≠ .nextLineBlock →
        out.tree = (flattenArmBody c.forceMultilineBlocks c.insideMacro (o.shapeOk && o.condMulti body) body).2) := by
  simp only [rewriteMatchBodyWith] at h
  generalize flattenArmBody c.forceMultilineBlocks c.insideMacro (o.shapeOk && o.condMulti body) body = fl at h ⊢
  by_cases hb : fl.2.isBlock = true
  · simp only [hb, Bool.true_or, if_true] at h
    split at h <;> (try split at h) <;> simp_all <;> (subst h; simp)
  · have hb' : fl.2.isBlock = false := by simpa using hb
    simp only [hb'] at h
    by_cases hm : (c.matchArmBlocks && !c.insideMacro) = true
    · have hm' : c.matchArmBlocks = true ∧ c.insideMacro = false := by simpa using hm
      simp only [hm, if_true] at h
      split at h
      · repeat' split at h
        all_goals (first | (simp at h; subst h; simp [hb', hm'.1, hm'.2]) | simp at h)
      · repeat' split at h
        all_goals (first | (simp at h; subst h; simp [hb', hm'.1, hm'.2]) | simp at h)
    · simp only [hm] at h
      split at h
      · repeat' split at h
        all_goals (first | (simp at h; subst h; simp) | simp at h)
      · repeat' split at h
        all_goals (first | (simp at h; subst h; simp) | simp at h)

example : (rewriteMatchBody ⟨true, false, true, true, false, false, false, false⟩ ⟨false, false, false⟩
    ⟨fun _ => false, true, fun _ => .ok true false false, fun _ => true, fun _ => false⟩
    (.leaf .ret 0)).map (·.tree) = some (.blockS plainHdr (.leaf .ret 0) []) := by decide

/-! ### the comma behind the body -/

/-- **arm_comma_consistent**: the `,` printed behind the body is the one `arm_comma` (OptRewrites §7, `arm_comma_exact`)
gives the body AS PRINTED - so the next pass decides the same - except when the body goes on a line of its own without
braces (`match_arm_blocks = false` or inside a macro): there a `,` is printed always. -/
theorem arm_comma_consistent (c : ArmCfg) (x : ArmCtx) (o : ArmOrc) (body : Expr) (out : ArmOut)
    (h : rewriteMatchBody c x o body = some out) :
    out.comma = armCommaOf c out.tree x.isLast ∨
      (out.branch = .nextLine ∧ out.tree.isBlock = false ∧ out.comma = true) := by
  simp only [rewriteMatchBody, rewriteMatchBodyWith] at h
  generalize flattenArmBody c.forceMultilineBlocks c.insideMacro (o.shapeOk && o.condMulti body) body = fl at h
  have hw : armCommaOf c (wrapArm c fl.2) x.isLast = wrapComma c x.isLast := by
    unfold wrapArm armCommaOf wrapComma
    split <;> simp [Expr.bodyClass, plainHdr]
  by_cases hb : fl.2.isBlock = true
  · simp only [hb, Bool.true_or, if_true] at h
    split at h <;> (try split at h) <;> simp_all <;> (subst h; simp)
  · have hb' : fl.2.isBlock = false := by simpa using hb
    simp only [hb'] at h
    split at h
    · repeat' split at h
      all_goals (first | (simp at h; subst h; simp [hw, hb']) | simp at h)
    · repeat' split at h
      all_goals (first | (simp at h; subst h; simp [hw, hb']) | simp at h)

/-- the exception is real: the last arm under `trailing_comma = Never`, its body moved to the next line without braces,
gets a `,` that `arm_comma` would not give (an optional trailing separator: C01 allows it; the next pass takes the same
path and prints it again) -/
theorem arm_comma_nextline_counterexample :
    ∃ out, rewriteMatchBody ⟨false, false, false, true, false, false, true, false⟩ ⟨false, false, true⟩
      ⟨fun _ => false, true, fun _ => .ok true false false, fun _ => true, fun _ => false⟩ (.leaf .other 0) = some out ∧
      out.comma = true ∧ armCommaOf ⟨false, false, false, true, false, false, true, false⟩ out.tree true = false := by
  exact ⟨_, rfl, by decide, by decide⟩

/-- with `match_arm_blocks` outside macros there is no exception -/
theorem arm_comma_consistent_partial (c : ArmCfg) (x : ArmCtx) (o : ArmOrc) (body : Expr) (out : ArmOut)
    (hc : (c.matchArmBlocks && !c.insideMacro) = true)
    (h : rewriteMatchBody c x o body = some out) :
    out.comma = armCommaOf c out.tree x.isLast := by
  simp only [rewriteMatchBody, rewriteMatchBodyWith] at h
  generalize flattenArmBody c.forceMultilineBlocks c.insideMacro (o.shapeOk && o.condMulti body) body = fl at h
  have hw : armCommaOf c (wrapArm c fl.2) x.isLast = wrapComma c x.isLast := by
    unfold wrapArm armCommaOf wrapComma
    split <;> simp [Expr.bodyClass, plainHdr]
  by_cases hb : fl.2.isBlock = true
  · simp only [hb, Bool.true_or, if_true] at h
    split at h <;> (try split at h) <;> simp_all <;> (subst h; simp)
  · have hb' : fl.2.isBlock = false := by simpa using hb
    simp only [hb', hc, if_true] at h
    split at h
    · repeat' split at h
      all_goals (first | (simp at h; subst h; simp [hw]) | simp at h)
    · repeat' split at h
      all_goals (first | (simp at h; subst h; simp [hw]) | simp at h)

example : (true && !false) = true := by decide

/-- the PINNED tree (before `fix: the block added around a match arm body gets the comma arm_comma gives a block`):
the last arm under `trailing_comma = Never` with `match_block_trailing_comma` got `},` behind an added block, and the
next pass, seeing a block, printed `}` -/
theorem arm_comma_pinned_counterexample :
    ∃ out, rewriteMatchBodyPinned ⟨true, false, false, true, false, false, true, true⟩ ⟨false, false, true⟩
      ⟨fun _ => false, true, fun _ => .ok true false false, fun _ => true, fun _ => false⟩ (.leaf .if_ 0) = some out ∧
      out.comma = true ∧ armCommaOf ⟨true, false, false, true, false, false, true, true⟩ out.tree true = false := by
  exact ⟨_, rfl, by decide, by decide⟩

/-! ### the width kept behind the pattern (the budget of pattern and guard) does not depend on how the body is written -/

/-- the PINNED tree (before `fix: the pattern of a match arm is laid out for the body as it is printed`): the budget
was taken from the body as written; `=> { 'a: { .. } }` is printed as `=> 'a: {` and the next pass took 4 columns more
off the pattern's shape -/
theorem guard_budget_pinned_counterexample :
    let body := Expr.blockE plainHdr (.blockO ⟨false, some 2, false, 0, 0⟩ [.opaque, .opaque]) []
    (flattenArmBody false false false body).2 = .blockO ⟨false, some 2, false, 0, 0⟩ [.opaque, .opaque] ∧
    patShapeOverhead body = 5 ∧ patShapeOverhead (flattenArmBody false false false body).2 = 9 := by
  decide

/-- C02 mechanism, arms: the block `combine_next_line_body` adds is, at the next pass, either removed again (and the
same body is decided on as before) or kept as it is: no second layer, no other block. -/
theorem rewrap_stable (c : ArmCfg) (fmb im cond : Bool) (e : Expr) (he : e.isBlock = false) :
    (flattenArmBody fmb im cond (wrapArm c e)).2 = e ∨ (flattenArmBody fmb im cond (wrapArm c e)).2 = wrapArm c e := by
  unfold wrapArm
  split
  · right; simp [flattenArmBody]
  · rw [flattenArmBody]
    split
    · simp only [he, Bool.false_eq_true, if_false]
      split
      · right; rfl
      · left; rfl
    · right; rfl

/-- what `flatten_arm_body` returns is not flattened further at the next pass unless the condition oracle changes its
answer: a body that is not a block stays as it is -/
theorem flatten_nonblock_fixed (fmb im cond : Bool) (e : Expr) (he : e.isBlock = false) :
    flattenArmBody fmb im cond e = (canExtend fmb e, e) := by
  cases e <;> simp_all [flattenArmBody, Expr.isBlock]

theorem flatten_fst_nonblock (fmb im cond : Bool) (body : Expr)
    (hnb : (flattenArmBody fmb im cond body).2.isBlock = false) :
    (flattenArmBody fmb im cond body).1 = canExtend fmb (flattenArmBody fmb im cond body).2 := by
  fun_induction flattenArmBody fmb im cond body with
  | case1 cond h e rest hc hb ha ih => exact ih hnb
  | case2 => simp [Expr.isBlock] at hnb
  | case3 => simp [Expr.isBlock] at hnb
  | case4 => rfl
  | case5 => simp [Expr.isBlock] at hnb
  | case6 => rfl

/-- **braces_decision_stable** (C02 mechanism): when what is printed is not a block (the braces were removed, or there
were none and none were added), the next pass - the same oracles asked about the same expression - takes the same
decision and prints the same thing: same branch, same body, same comma, same line.  (For a printed BLOCK the tree is
stable by `rewrap_stable`, the position of an added `{` is not: `braces_layout_counterexample`.) -/
theorem braces_decision_stable (c : ArmCfg) (x : ArmCtx) (o : ArmOrc) (body : Expr) (out : ArmOut)
    (h : rewriteMatchBody c x o body = some out) (hnb : out.tree.isBlock = false) :
    rewriteMatchBody c x o out.tree = some out := by
  have hw := arm_body_wrap_sound wrapComma c x o body out h
  have hbr : out.branch ≠ .nextLineBlock := by
    intro hb
    have := (hw.1 hb).1
    rw [this] at hnb
    unfold wrapArm at hnb
    split at hnb <;> simp [Expr.isBlock] at hnb
  have ht := hw.2 hbr
  have hfst := flatten_fst_nonblock c.forceMultilineBlocks c.insideMacro (o.shapeOk && o.condMulti body) body (ht ▸ hnb)
  have hfix := flatten_nonblock_fixed c.forceMultilineBlocks c.insideMacro (o.shapeOk && o.condMulti out.tree) out.tree hnb
  have key : flattenArmBody c.forceMultilineBlocks c.insideMacro (o.shapeOk && o.condMulti out.tree) out.tree =
      flattenArmBody c.forceMultilineBlocks c.insideMacro (o.shapeOk && o.condMulti body) body := by
    rw [hfix]
    apply Prod.ext
    · simp only; rw [hfst, ← ht]
    · simp only; exact ht
  simp only [rewriteMatchBody, rewriteMatchBodyWith] at h ⊢
  rw [key]
  exact h

example : rewriteMatchBody ⟨true, false, false, true, false, false, false, false⟩ ⟨false, false, false⟩
    ⟨fun _ => false, true, fun _ => .ok false true true, fun _ => true, fun _ => false⟩ (.leaf .other 0) =
    some ⟨.sameLine, .leaf .other 0, true, false⟩ := by decide

/-- **braces_decision_stable, the layout part fails**: `A => #[a] continue` under the 2024 style edition is wrapped as
`=>` newline `{ #[a] continue; }` (the attribute forbids the same line, so the added `{` goes on its own line); the
next pass sees a block body without attributes on the block and puts `{` behind `=>`.  Same tree, other layout
(known finding BRACES-ATTR-BODY-BRACE-LINE; the fixture tests/target/attrib.rs blesses the first form). -/
theorem braces_layout_counterexample :
    let c : ArmCfg := ⟨true, false, true, true, false, false, false, false⟩
    let o : ArmOrc := ⟨fun _ => false, true, fun _ => .ok false true true, fun _ => true, fun _ => false⟩
    ∃ out1 out2, rewriteMatchBody c ⟨false, false, false⟩ o (.leaf .continue_ 1) = some out1 ∧
      rewriteMatchBody c ⟨false, false, false⟩ o out1.tree = some out2 ∧
      out2.tree = out1.tree ∧ out1.ownLine = true ∧ out2.ownLine = false := by
  exact ⟨_, _, rfl, rfl, by decide, by decide, by decide⟩

/-! ### closures -/

/-- what `get_inner_expr` (repaired) peels is a plain single-expression block -/
theorem getInnerExpr_strip (pml : Bool) (e : Expr) : strip (getInnerExpr pml e) = strip e := by
  fun_induction getInnerExpr pml e with
  | case1 h e rest hc ih =>
    simp only [needsBlock, Hdr.attrs, Bool.and_eq_true, beq_iff_eq, Bool.not_eq_true', Bool.or_eq_false_iff,
      decide_eq_false_iff_not, bne_eq_false_iff_eq, Option.isSome_eq_false_iff, Option.isNone_iff_eq_none] at hc
    obtain ⟨ha, ⟨⟨⟨⟨⟨hu, hl⟩, _⟩, hcm⟩, _⟩, hlab⟩⟩ := hc
    have hr : rest = [] := by
      cases rest with
      | nil => rfl
      | cons _ _ => simp at hl
    have : h.outer = 0 ∧ h.inner = 0 := by omega
    rw [ih]; simp [strip, Hdr.plain, hu, hcm, hlab, hr, this.1, this.2]
  | case2 => rfl
  | case3 => rfl

theorem getInnerExpr_idem (pml : Bool) (e : Expr) : getInnerExpr pml (getInnerExpr pml e) = getInnerExpr pml e := by
  fun_induction getInnerExpr pml e with
  | case1 h e rest hc ih => exact ih
  | case2 h e rest hc => rw [getInnerExpr]; simp [hc]
  | case3 x hx => cases x <;> first | rfl | simp_all [getInnerExpr]

/-- **closure_block_sound**: whatever `rewrite_closure` (repaired) prints as the body denotes the body it was given:
braces are removed only from plain single-expression blocks (one expression statement without attributes, no
attribute on the block, no comment, not `unsafe`, no label, a prefix on one line) and added only as a plain block around
the whole expression. -/
theorem closure_block_sound (c : CloCfg) (o : CloOrc) (ret : Bool) (body : Expr) (out : CloOut)
    (h : rewriteClosure c o ret body = some out) : strip out.tree = strip body := by
  have hi := getInnerExpr_strip o.prefixMl body
  have hw : ∀ e, strip (wrapClosure e) = strip e := by intro e; simp [wrapClosure, strip, plainHdr, Hdr.plain]
  simp only [rewriteClosure, rewriteClosureWith] at h
  repeat' split at h
  all_goals (first | (simp at h; subst h; first | rfl | exact hi | (rw [hw]; exact hi) | exact hw _) | simp at h)

/-- a closure with an explicit return type keeps its block exactly as written (the code tries nothing else) -/
theorem closure_ret_keeps_block (inner : Bool → Expr → Expr) (c : CloCfg) (o : CloOrc) (body : Expr) (out : CloOut)
    (hb : body.isBlock = true) (h : rewriteClosureWith inner c o true body = some out) : out.tree = body := by
  simp only [rewriteClosureWith, hb, if_true, Bool.not_true, Bool.false_and, Bool.false_eq_true, if_false] at h
  repeat' split at h
  all_goals (first | (simp at h; subst h; rfl) | simp at h)

/-- the same inside a macro call -/
theorem closure_macro_keeps_block (inner : Bool → Expr → Expr) (c : CloCfg) (o : CloOrc) (ret : Bool) (body : Expr)
    (out : CloOut) (hm : c.insideMacro = true) (hb : body.isBlock = true)
    (h : rewriteClosureWith inner c o ret body = some out) : out.tree = body := by
  simp only [rewriteClosureWith, hb, hm, if_true, Bool.not_true, Bool.and_false, Bool.false_eq_true, if_false] at h
  repeat' split at h
  all_goals (first | (simp at h; subst h; rfl) | simp at h)

example : (rewriteClosure ⟨false, false, false⟩ ⟨false, fun _ => .oneLine, fun _ => true, fun _ => true, fun _ => true⟩ false
    (.blockE plainHdr (.leaf .other 0) [])).map (·.tree) = some (.leaf .other 0) := by decide
example : (rewriteClosure ⟨false, false, false⟩ ⟨false, fun _ => .oneLine, fun _ => true, fun _ => true, fun _ => true⟩ true
    (.blockE plainHdr (.leaf .other 0) [])).map (·.tree) = some (.blockE plainHdr (.leaf .other 0) []) := by decide

/-- **closure_block_pinned_counterexample**: the PINNED tree (before `fix: a closure body block with attributes keeps
its braces`) peeled `|| #[a] { e }` and `|| { #![a] e }` like `|| { e }`: the attribute went with the braces
(`|| #[allow(unused)] { foo() }` became `|| foo()`), which is not a change the property allows. -/
theorem closure_block_pinned_counterexample :
    let o : CloOrc := ⟨false, fun _ => .oneLine, fun _ => true, fun _ => true, fun _ => true⟩
    let outer := Expr.blockE ⟨false, none, false, 1, 0⟩ (.leaf .other 0) []
    let inner := Expr.blockE ⟨false, none, false, 0, 1⟩ (.leaf .other 0) []
    (rewriteClosurePinned ⟨false, false, false⟩ o false outer).map (·.tree) = some (.leaf .other 0) ∧
    (rewriteClosurePinned ⟨false, false, false⟩ o false inner).map (·.tree) = some (.leaf .other 0) ∧
    strip outer ≠ .leaf .other 0 ∧ strip inner ≠ .leaf .other 0 ∧
    (rewriteClosure ⟨false, false, false⟩ o false outer).map (·.tree) = some outer := by
  decide

/-- C02 mechanism, closures: what was peeled is not peeled further, and the block `rewrite_closure_with_block` adds is
peeled to exactly the expression it was put around (or kept when that expression carries attributes / the prefix takes
more than one line) -/
theorem closure_rewrap_stable (pml : Bool) (e : Expr) (he : e.isBlock = false) :
    getInnerExpr pml (wrapClosure e) = e ∨ getInnerExpr pml (wrapClosure e) = wrapClosure e := by
  unfold wrapClosure
  rw [getInnerExpr]
  split
  · left; cases e <;> simp_all [getInnerExpr, Expr.isBlock]
  · right; rfl

end RF.Braces
