/-
C01 (mechanism "literal normalisations touch only the tokens they name"): model of the two literal rewriters of
`src/expr.rs` that re-spell a literal — `rewrite_int_lit` (`hex_literal_case`) and `rewrite_float_lit`
(`float_literal_trailing_zero`) with `parse_float_symbol` / `is_fractional_part_zero`.

A literal token is `symbol ++ suffix` (the split is the lexer's: `token::Lit { symbol, suffix }`).  The functions return
`none` where the code keeps the source snippet (`context.snippet(span)`) and `some text` where it synthesises a new
spelling.  The final `wrap_str(.., max_width, shape)` only accepts or rejects the string (a literal has no line break), it
never alters it, and is not part of this model.

`parseFloatSymbol` is the regex `^([0-9_]+)(?:\.([0-9_]+)?)?([eE][+-]?[0-9_]+)?$` of `parse_float_symbol`.  The character
classes of consecutive pieces are disjoint, so leftmost-first matching never backtracks into a group: the matcher below is
deterministic and total.
-/
namespace RF.Lit

def isDigit (c : Char) : Bool := '0' ≤ c && c ≤ '9'
/-- `[0-9_]` -/
def isDigU (c : Char) : Bool := isDigit c || c == '_'

structure FloatParts where
  integerPart : List Char
  /-- group 2: the digits after the point, `none` when there is no point or nothing after it (`1.`) -/
  fractionalPart : Option (List Char)
  /-- group 3: the exponent including `e`/`E` and the sign -/
  exponent : Option (List Char)
  deriving DecidableEq, Repr

/-- `[+-]?` -/
def splitSign : List Char → List Char × List Char
  | '+' :: u => (['+'], u)
  | '-' :: u => (['-'], u)
  | t => ([], t)

/-- `([eE][+-]?[0-9_]+)?$` on what follows the fractional part -/
def parseExponent (r : List Char) : Option (Option (List Char)) :=
  match r with
  | [] => some none
  | c :: t =>
    if c == 'e' || c == 'E' then
      let st := splitSign t
      let d := st.2.takeWhile isDigU
      if d.isEmpty then none
      else if st.2.dropWhile isDigU == [] then some (some (c :: st.1 ++ d)) else none
    else none

/-- `parse_float_symbol` (`none` = `Err("invalid float literal")`) -/
def parseFloatSymbol (s : List Char) : Option FloatParts :=
  let ip := s.takeWhile isDigU
  if ip.isEmpty then none else
  match s.dropWhile isDigU with
  | '.' :: r =>
    let fp := r.takeWhile isDigU
    match parseExponent (r.dropWhile isDigU) with
    | some ex => some ⟨ip, if fp.isEmpty then none else some fp, ex⟩
    | none => none
  | r =>
    match parseExponent r with
    | some ex => some ⟨ip, none, ex⟩
    | none => none

/-- `is_fractional_part_zero`: no fractional part, or one that matches `^[0_]+$` -/
def FloatParts.isFractionalPartZero (p : FloatParts) : Bool :=
  match p.fractionalPart with
  | none => true
  | some f => !f.isEmpty && f.all (fun c => c == '0' || c == '_')

inductive TrailingZero | preserve | always | ifNoPostfix | never
  deriving DecidableEq, Repr

/-- `rewrite_float_lit`: `none` = the snippet is kept as written -/
def rewriteFloatLit (mode : TrailingZero) (symbol suffix : List Char) : Option (List Char) :=
  match mode with
  | .preserve => none
  | _ =>
    match parseFloatSymbol symbol with
    | none => none
    | some p =>
      let hasPostfix := p.exponent.isSome || !suffix.isEmpty
      let nonzero := !p.isFractionalPartZero
      let (incPeriod, incFrac) := match mode with
        | .always => (true, true)
        | .ifNoPostfix => (nonzero || !hasPostfix, nonzero || !hasPostfix)
        | _ => (nonzero || !hasPostfix, nonzero)
      let period := if incPeriod then ['.'] else []
      let frac := if incFrac then p.fractionalPart.getD ['0'] else []
      some (p.integerPart ++ period ++ frac ++ p.exponent.getD [] ++ suffix)

inductive HexCase | preserve | upper | lower
  deriving DecidableEq, Repr

/-- `char::to_ascii_uppercase`, as a table of the 26 letters -/
def upperAscii (c : Char) : Char :=
  match c with
  | 'a' => 'A'
  | 'b' => 'B'
  | 'c' => 'C'
  | 'd' => 'D'
  | 'e' => 'E'
  | 'f' => 'F'
  | 'g' => 'G'
  | 'h' => 'H'
  | 'i' => 'I'
  | 'j' => 'J'
  | 'k' => 'K'
  | 'l' => 'L'
  | 'm' => 'M'
  | 'n' => 'N'
  | 'o' => 'O'
  | 'p' => 'P'
  | 'q' => 'Q'
  | 'r' => 'R'
  | 's' => 'S'
  | 't' => 'T'
  | 'u' => 'U'
  | 'v' => 'V'
  | 'w' => 'W'
  | 'x' => 'X'
  | 'y' => 'Y'
  | 'z' => 'Z'
  | _ => c

/-- `char::to_ascii_lowercase` -/
def lowerAscii (c : Char) : Char :=
  match c with
  | 'A' => 'a'
  | 'B' => 'b'
  | 'C' => 'c'
  | 'D' => 'd'
  | 'E' => 'e'
  | 'F' => 'f'
  | 'G' => 'g'
  | 'H' => 'h'
  | 'I' => 'i'
  | 'J' => 'j'
  | 'K' => 'k'
  | 'L' => 'l'
  | 'M' => 'm'
  | 'N' => 'n'
  | 'O' => 'o'
  | 'P' => 'p'
  | 'Q' => 'q'
  | 'R' => 'r'
  | 'S' => 's'
  | 'T' => 't'
  | 'U' => 'u'
  | 'V' => 'v'
  | 'W' => 'w'
  | 'X' => 'x'
  | 'Y' => 'y'
  | 'Z' => 'z'
  | _ => c

/-- `token::Lit::is_semantic_float` for an `Integer` token: a suffix that names a float type -/
def isSemanticFloatSuffix (suffix : List Char) : Bool :=
  suffix == ['f','1','6'] || suffix == ['f','3','2'] || suffix == ['f','6','4'] || suffix == ['f','1','2','8']

/-- `rewrite_int_lit` (the `suffix` is `""` when there is none): `none` = the snippet is kept -/
def rewriteIntLit (hex : HexCase) (fz : TrailingZero) (symbol suffix : List Char) : Option (List Char) :=
  if isSemanticFloatSuffix suffix then rewriteFloatLit fz symbol suffix
  else match symbol with
    | '0' :: 'x' :: r =>
      match hex with
      | .preserve => none
      | .upper => some ('0' :: 'x' :: r.map upperAscii ++ suffix)
      | .lower => some ('0' :: 'x' :: r.map lowerAscii ++ suffix)
    | _ => none

/-! ### what a spelling denotes (the declarative side) -/

def stripUnderscores (s : List Char) : List Char := s.filter (· != '_')

/-- drop the trailing zeros of a digit string -/
def dropTrailingZeros (s : List Char) : List Char := (s.reverse.dropWhile (· == '0')).reverse

/-- The denotation of a decimal float spelling: integer digits (as written but for `_`), fractional digits
without `_` and without trailing zeros, exponent text without `_`.  Two spellings with the same denotation (and the same
suffix) are the same number of the same type. -/
structure FloatDen where
  intDigits : List Char
  fracDigits : List Char
  exponent : List Char
  deriving DecidableEq, Repr

def FloatParts.den (p : FloatParts) : FloatDen :=
  ⟨stripUnderscores p.integerPart,
   dropTrailingZeros (stripUnderscores (p.fractionalPart.getD [])),
   stripUnderscores (p.exponent.getD [])⟩

def hexDigitVal (c : Char) : Nat :=
  if isDigit c then c.toNat - 48
  else if 'a' ≤ c && c ≤ 'f' then c.toNat - 87
  else if 'A' ≤ c && c ≤ 'F' then c.toNat - 55
  else 0

/-- value of a string of hex digits and `_` -/
def hexValue (s : List Char) : Nat := (stripUnderscores s).foldl (fun a c => a * 16 + hexDigitVal c) 0

def isHexDigU (c : Char) : Bool :=
  isDigit c || ('a' ≤ c && c ≤ 'f') || ('A' ≤ c && c ≤ 'F') || c == '_'

end RF.Lit
