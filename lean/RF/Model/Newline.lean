/-
Model of the newline / blank-line / trailing-blank discipline of rustfmt (property C08):

  * `src/formatting/newline_style.rs`  `apply_newline_style`, `effective_newline_style`,
    `auto_detect_newline_style`, `native_newline_style`, `convert_to_windows_newlines`,
    `convert_to_unix_newlines`
  * `src/source_file.rs:19-21`         `append_newline`
  * `src/formatting.rs:474-491`        the truncation at the end of `format_lines`, with the
    `newline_count` bookkeeping of `FormatLines::{iterate,new_line,char}` (`formatting.rs:529-589`)
  * `src/missed_spans.rs:116-137`      `push_vertical_spaces`
  * `src/visitor.rs:726-729`           `push_str` and the `line_number` counter
  * `src/utils.rs:527-552`             `remove_trailing_white_spaces`, which needs
  * `src/comment.rs:1189-1506`         `CharClasses` (namespace `RF.Newline.CC`; literal status machine,
    written here only because `remove_trailing_white_spaces` iterates over it)

Texts are `List Char`.  Rust panics (assertion failures, unchecked `u32` subtraction, `String::truncate`
off a char boundary) are `none`.  Import-free.
-/
namespace RF.Newline

/-! ## newline_style.rs -/

/-- `NewlineStyle` (config option) -/
inductive Style where
  | auto | native | windows | unix
  deriving Repr, DecidableEq

/-- `EffectiveNewlineStyle`, newline_style.rs:20-24 -/
inductive Effective where
  | windows | unix
  deriving Repr, DecidableEq

/-- `native_newline_style`, newline_style.rs:58-64; `cfg!(windows)` is false on the platform the
harness runs on. -/
def nativeNewlineStyle : Effective := .unix

/-- `Iterator::position` -/
def position (p : Char → Bool) : List Char → Option Nat
  | [] => none
  | c :: cs => if p c then some 0 else (position p cs).map (· + 1)

/-- `auto_detect_newline_style`, newline_style.rs:43-56.  `first_line_feed_pos.saturating_sub(1)` is
Nat subtraction; `chars().nth(k)` is `raw[k]?`.  (When the text starts with `\n` the char "before" it is
the `\n` itself, hence Unix.) -/
def autoDetect (raw : List Char) : Effective :=
  match position (· == '\n') raw with
  | some pos =>
    match raw[pos - 1]? with
    | some '\r' => .windows
    | _ => .unix
  | none => nativeNewlineStyle

/-- `effective_newline_style`, newline_style.rs:26-36 -/
def effective (style : Style) (raw : List Char) : Effective :=
  match style with
  | .auto => autoDetect raw
  | .native => nativeNewlineStyle
  | .windows => .windows
  | .unix => .unix

/-- `convert_to_windows_newlines`, newline_style.rs:66-78: a char loop with one char of look-ahead
(`peekable`).  The arms are tried in the order of the `match`. -/
def convertToWindows : List Char → List Char
  | [] => []
  | c :: rest =>
    if c = '\n' then '\r' :: '\n' :: convertToWindows rest
    else if c = '\r' ∧ rest.head? = some '\n' then convertToWindows rest
    else c :: convertToWindows rest

/-- `convert_to_unix_newlines`, newline_style.rs:80-82: `str::replace("\r\n", "\n")`, i.e. one
left-to-right pass over non-overlapping matches; the replacement text is never rescanned. -/
def convertToUnix : List Char → List Char
  | [] => []
  | [c] => [c]
  | c :: d :: rest =>
    if c = '\r' ∧ d = '\n' then '\n' :: convertToUnix rest
    else c :: convertToUnix (d :: rest)

/-- `apply_newline_style`, newline_style.rs:9-18 -/
def applyNewlineStyle (style : Style) (formatted raw : List Char) : List Char :=
  match effective style raw with
  | .windows => convertToWindows formatted
  | .unix => convertToUnix formatted

/-! ## append_newline and the truncation at the end of `format_lines` -/

/-- `append_newline`, source_file.rs:19-21 -/
def appendNewline (s : List Char) : List Char := s ++ ['\n']

/-- `FormatLines::newline_count` after `iterate` (formatting.rs:529-541, 576, 583): `\r` is skipped
(`continue`), `\n` increments, every other char resets to 0.  (The `CharClasses` kinds that `iterate`
also receives do not influence this counter.) -/
def newlineCount : Nat → List Char → Nat
  | n, [] => n
  | n, c :: cs =>
    if c = '\r' then newlineCount n cs
    else if c = '\n' then newlineCount (n + 1) cs
    else newlineCount 0 cs

/-- `str::len` -/
def byteLen (t : List Char) : Nat := (t.map Char.utf8Size).sum

/-- `String::truncate(new_len)`: no effect when `new_len ≥ len`; panics (`none`) when `new_len` is not
on a char boundary. -/
def truncateBytes : List Char → Nat → Option (List Char)
  | [], _ => some []
  | c :: cs, n =>
    if n = 0 then some []
    else if n < c.utf8Size then none
    else (truncateBytes cs (n - c.utf8Size)).map (c :: ·)

/-- formatting.rs:484-488.  `text.len() - newline_count + 1` is an unchecked `usize` subtraction: `none`
if it would underflow (proved impossible in `RF.Lemmas.Newline`). -/
def formatLinesTruncate (text : List Char) : Option (List Char) :=
  let nc := newlineCount 0 text
  if nc > 1 then
    if byteLen text < nc then none
    else truncateBytes text (byteLen text - nc + 1)
  else some text

/-- formatting.rs:233-241: `append_newline` then `format_lines` (only its effect on the text). -/
def finalize (buffer : List Char) : Option (List Char) :=
  formatLinesTruncate (appendNewline buffer)

/-! ## push_vertical_spaces, push_str -/

/-- `push_vertical_spaces`, missed_spans.rs:116-137, as a function of
`offset` (number of `\n` at the end of the buffer), the requested `newline_count` and the two
configuration values; returns the number of `\n` pushed.  The inner `else` branches are unchecked
subtractions guarded by the preceding test, so they cannot underflow. -/
def pushVerticalSpaces (offset newlineCount lower upper : Nat) : Nat :=
  let newlineUpperBound := upper + 1
  let newlineLowerBound := lower + 1
  if newlineCount + offset > newlineUpperBound then
    if offset ≥ newlineUpperBound then 0 else newlineUpperBound - offset
  else if newlineCount + offset < newlineLowerBound then
    if offset ≥ newlineLowerBound then 0 else newlineLowerBound - offset
  else newlineCount

/-- `self.buffer.chars().rev().take_while(|c| *c == '\n').count()`, missed_spans.rs:117 -/
def trailingNewlines (buffer : List Char) : Nat :=
  (buffer.reverse.takeWhile (· == '\n')).length

/-- `count_newlines`, utils.rs:338-341 (counting bytes equal to `\n` = counting chars equal to `\n`). -/
def countNewlines (s : List Char) : Nat := s.count '\n'

/-- The two fields of `FmtVisitor` that `push_str` touches. -/
structure Visitor where
  buffer : List Char
  lineNumber : Nat
  deriving Repr, DecidableEq

/-- `FmtVisitor::push_str`, visitor.rs:726-729 -/
def Visitor.pushStr (v : Visitor) (s : List Char) : Visitor :=
  { buffer := v.buffer ++ s, lineNumber := v.lineNumber + countNewlines s }

/-- `FmtVisitor::push_vertical_spaces` on the visitor state, missed_spans.rs:116-137 -/
def Visitor.pushVerticalSpaces (v : Visitor) (newlineCount lower upper : Nat) : Visitor :=
  v.pushStr (List.replicate
    (RF.Newline.pushVerticalSpaces (trailingNewlines v.buffer) newlineCount lower upper) '\n')

/-- Length of the run of `\n` at the end of the buffer after `push_vertical_spaces`. -/
def clampBlank (offset newlineCount lower upper : Nat) : Nat :=
  offset + pushVerticalSpaces offset newlineCount lower upper

/-! ## char::is_whitespace -/

/-- Rust's `char::is_whitespace` (Unicode `White_Space`). -/
def isWhitespace (c : Char) : Bool :=
  let n := c.toNat
  (0x09 ≤ n && n ≤ 0x0D) || n == 0x20 || n == 0x85 || n == 0xA0 || n == 0x1680 ||
  (0x2000 ≤ n && n ≤ 0x200A) || n == 0x2028 || n == 0x2029 || n == 0x202F || n == 0x205F ||
  n == 0x3000

/-! ## CharClasses (comment.rs:1189-1506) -/
namespace CC

/-- `CharClassesStatus`, comment.rs:1214-1240 (`u32` counters are `Nat`; overflow of `+ 1` is out of
scope, underflow of `- 1` is a panic). -/
inductive Status where
  | normal
  | litString
  | litStringEscape
  | litRawString (sharps : Nat)
  | rawStringPrefix (sharps : Nat)
  | rawStringSuffix (sharps : Nat)
  | litChar
  | litCharEscape
  | blockComment (deepness : Nat)
  | stringInBlockComment (deepness : Nat)
  | blockCommentOpening (deepness : Nat)
  | blockCommentClosing (deepness : Nat)
  | lineComment
  deriving Repr, DecidableEq

/-- `FullCodeCharKind`, comment.rs:1252-1274 -/
inductive Kind where
  | normal | startComment | inComment | endComment
  | startStringCommented | endStringCommented | inStringCommented
  | startString | endString | inString
  deriving Repr, DecidableEq

/-- `is_raw_string_suffix`, comment.rs:1332-1344: the next `count` chars (multi-peek) are all `#`. -/
def isRawStringSuffix : List Char → Nat → Bool
  | _, 0 => true
  | [], _ + 1 => false
  | c :: rest, n + 1 => if c = '#' then isRawStringSuffix rest n else false

/-- One call of `CharClasses::next` (comment.rs:1353-1505) on char `chr` with `rest` still in the
iterator.  `none` = panic (`assert_ne!`/`assert_eq!` failure, or `- 1` on a zero `u32`).
`MultiPeek::peek` called twice in a row looks at `rest[0]` and then `rest[1]`. -/
def step (st : Status) (chr : Char) (rest : List Char) : Option (Status × Kind) :=
  match st with
  | .litRawString sharps =>
    if chr = '"' then
      if sharps = 0 then some (.normal, .normal)
      else if isRawStringSuffix rest sharps then some (.rawStringSuffix sharps, .inString)
      else some (.litRawString sharps, .inString)
    else some (.litRawString sharps, .inString)
  | .rawStringPrefix sharps =>
    if chr = '#' then some (.rawStringPrefix (sharps + 1), .inString)
    else if chr = '"' then some (.litRawString sharps, .inString)
    else some (.normal, .inString)
  | .rawStringSuffix sharps =>
    if chr = '#' then
      if sharps = 1 then some (.normal, .normal)
      else if sharps = 0 then none
      else some (.rawStringSuffix (sharps - 1), .inString)
    else some (.normal, .normal)
  | .litString =>
    if chr = '"' then some (.normal, .inString)
    else if chr = '\\' then some (.litStringEscape, .inString)
    else some (.litString, .inString)
  | .litStringEscape => some (.litString, .inString)
  | .litChar =>
    if chr = '\\' then some (.litCharEscape, .normal)
    else if chr = '\'' then some (.normal, .normal)
    else some (.litChar, .normal)
  | .litCharEscape => some (.litChar, .normal)
  | .normal =>
    if chr = 'r' then
      if rest.head? = some '#' ∨ rest.head? = some '"' then some (.rawStringPrefix 0, .inString)
      else some (.normal, .normal)
    else if chr = '"' then some (.litString, .inString)
    else if chr = '\'' then
      if rest.head? = some '\\' then some (.litChar, .normal)
      else if rest[1]? = some '\'' then some (.litChar, .normal)
      else some (.normal, .normal)
    else if chr = '/' then
      if rest.head? = some '*' then some (.blockCommentOpening 1, .startComment)
      else if rest.head? = some '/' then some (.lineComment, .startComment)
      else some (.normal, .normal)
    else some (.normal, .normal)
  | .stringInBlockComment deepness =>
    if chr = '"' then some (.blockComment deepness, .inStringCommented)
    else if chr = '*' ∧ rest.head? = some '/' then
      if deepness = 0 then none else some (.blockCommentClosing (deepness - 1), .inComment)
    else some (.stringInBlockComment deepness, .inStringCommented)
  | .blockComment deepness =>
    if deepness = 0 then none
    else if rest.head? = some '/' ∧ chr = '*' then
      some (.blockCommentClosing (deepness - 1), .inComment)
    else if rest.head? = some '*' ∧ chr = '/' then
      some (.blockCommentOpening (deepness + 1), .inComment)
    else if chr = '"' then some (.stringInBlockComment deepness, .inComment)
    else some (.blockComment deepness, .inComment)
  | .blockCommentOpening deepness =>
    if chr = '*' then some (.blockComment deepness, .inComment) else none
  | .blockCommentClosing deepness =>
    if chr = '/' then
      if deepness = 0 then some (.normal, .endComment)
      else some (.blockComment deepness, .inComment)
    else none
  | .lineComment =>
    if chr = '\n' then some (.normal, .endComment) else some (.lineComment, .inComment)

/-- The whole iterator from status `st`: every `(kind, char)` it yields, `none` if it panics. -/
def run : Status → List Char → Option (List (Kind × Char))
  | _, [] => some []
  | st, c :: rest =>
    match step st c rest with
    | none => none
    | some (st', k) =>
      match run st' rest with
      | none => none
      | some ks => some ((k, c) :: ks)

/-- `CharClasses::new(text.chars()).collect()` -/
def classify (text : List Char) : Option (List (Kind × Char)) := run .normal text

end CC

/-! ## remove_trailing_white_spaces (utils.rs:527-552) -/

/-- The loop of `remove_trailing_white_spaces` over the classified chars.  `sp` is `space_buffer`; the
result is what is appended to `buffer` from here on.  The kinds are carried along in the output (the Rust
code stores chars only; `removeTrailingWhiteSpaces` projects them away) so that statements about "a `\n`
that was inside a string" can be made about the output. -/
def rtwTagged : List (CC.Kind × Char) → List (CC.Kind × Char) → List (CC.Kind × Char)
  | _, [] => []
  | sp, (k, c) :: rest =>
    if c = '\n' then
      (if k = .inString then sp else []) ++ (k, c) :: rtwTagged [] rest
    else if isWhitespace c then rtwTagged (sp ++ [(k, c)]) rest
    else if sp.isEmpty then (k, c) :: rtwTagged [] rest
    else sp ++ (k, c) :: rtwTagged [] rest

/-- `remove_trailing_white_spaces`; `none` only if `CharClasses` panics (it never does, see
`RF.Lemmas.Newline.classify_isSome`). -/
def removeTrailingWhiteSpaces (text : List Char) : Option (List Char) :=
  (CC.classify text).map fun ks => (rtwTagged [] ks).map Prod.snd

/-! ## process_missing_code (missed_spans.rs:322-365) -/

/-- `SnippetStatus`, missed_spans.rs:14-21.  Offsets are *char* offsets into the snippet here (byte
offsets in the code; every offset the code computes comes from `char_indices`, so it is a char boundary,
and slicing by bytes or by chars selects the same chars). -/
structure SnippetStatus where
  line_start : Nat
  last_wspace : Option Nat
  cur_line : Nat
  deriving Repr, DecidableEq

/-- `&s[a..b]`; `none` = the slice panics (`a > b` or `b > len`). -/
def sliceExcl (s : List Char) (a b : Nat) : Option (List Char) :=
  if a ≤ b ∧ b ≤ s.length then some ((s.drop a).take (b - a)) else none

/-- The `for (mut i, c) in subslice.char_indices()` loop of `process_missing_code`
(missed_spans.rs:330-357).  `i` is the offset in `snippet` of the head of the remaining `subslice`;
`containsLine` is `config.file_lines().contains_line(file_name, _)`; `out` collects what `push_str`
receives.  Note the third arm: a blank that follows a blank *clears* `last_wspace`. -/
def pmcLoop (snippet : List Char) (containsLine : Nat → Bool) :
    Nat → List Char → SnippetStatus → List Char → Option (List Char × SnippetStatus)
  | _, [], st, out => some (out, st)
  | i, c :: rest, st, out =>
    if c = '\n' then
      let lw := if !containsLine st.cur_line then none else st.last_wspace
      match lw with
      | some lw =>
        match sliceExcl snippet st.line_start lw with
        | none => none
        | some s =>
          pmcLoop snippet containsLine (i + 1) rest
            { line_start := i + 1, last_wspace := none, cur_line := st.cur_line + 1 }
            (out ++ s ++ ['\n'])
      | none =>
        match sliceExcl snippet st.line_start (i + 1) with
        | none => none
        | some s =>
          pmcLoop snippet containsLine (i + 1) rest
            { line_start := i + 1, last_wspace := none, cur_line := st.cur_line + 1 } (out ++ s)
    else if isWhitespace c ∧ st.last_wspace.isNone then
      pmcLoop snippet containsLine (i + 1) rest { st with last_wspace := some i } out
    else
      pmcLoop snippet containsLine (i + 1) rest { st with last_wspace := none } out

/-- `str::trim` -/
def trim (s : List Char) : List Char :=
  ((s.dropWhile isWhitespace).reverse.dropWhile isWhitespace).reverse

/-- `process_missing_code`, missed_spans.rs:322-365: `subslice = snippet[offset .. offset+len]`,
`indent` is `self.block_indent.to_string(self.config)`.  Returns the pushed text and the new status. -/
def processMissingCode (snippet : List Char) (offset len : Nat) (containsLine : Nat → Bool)
    (indent : List Char) (st : SnippetStatus) : Option (List Char × SnippetStatus) :=
  match sliceExcl snippet offset (offset + len) with
  | none => none
  | some subslice =>
    match pmcLoop snippet containsLine offset subslice st [] with
    | none => none
    | some (out, st1) =>
      match sliceExcl snippet st1.line_start (len + offset) with
      | none => none
      | some rem =>
        let remaining := trim rem
        if !remaining.isEmpty then
          some (out ++ indent ++ remaining, { st1 with line_start := len + offset })
        else some (out, st1)

/-- Decidable hypothesis of the idempotence theorem: classifying the output of
`remove_trailing_white_spaces` gives the kinds the kept chars had in the input. -/
def rtwStable (text : List Char) : Bool :=
  match CC.classify text with
  | some ks => decide (CC.classify ((rtwTagged [] ks).map Prod.snd) = some (rtwTagged [] ks))
  | none => false

/-! ## Decidable oracles over an emitted text -/

/-- Every `\n` is immediately preceded by `\r` (`prev` = the char before the list, if any). -/
def everyLfAfterCr : Option Char → List Char → Bool
  | _, [] => true
  | prev, c :: rest =>
    (if c = '\n' then prev == some '\r' else true) && everyLfAfterCr (some c) rest

/-- The text contains the two-char sequence `\r\n`. -/
def hasCrLf : List Char → Bool
  | [] => false
  | [_] => false
  | c :: d :: rest => (c == '\r' && d == '\n') || hasCrLf (d :: rest)

/-- The text contains `\r\r\n`. -/
def hasCrCrLf : List Char → Bool
  | [] => false
  | [_] => false
  | [_, _] => false
  | c :: d :: e :: rest => (c == '\r' && d == '\r' && e == '\n') || hasCrCrLf (d :: e :: rest)

/-- 1-based number of the first line whose terminator violates the style, `none` if all conform.
Unix: no `\n` preceded by `\r`.  Windows: no `\n` not preceded by `\r`. -/
def firstBadLine (style : Effective) : Nat → Option Char → List Char → Option Nat
  | _, _, [] => none
  | line, prev, c :: rest =>
    if c = '\n' then
      let crBefore := prev == some '\r'
      let ok := match style with | .windows => crBefore | .unix => !crBefore
      if ok then firstBadLine style (line + 1) (some c) rest else some line
    else firstBadLine style line (some c) rest

def styleOk (style : Effective) (t : List Char) : Bool := (firstBadLine style 1 none t).isNone

/-- The emitted text with its final terminator removed (`\r\n` if present, else `\n`), or `none` if it
does not end with `\n`. -/
def stripFinalTerminator (t : List Char) : Option (List Char) :=
  match t.reverse with
  | '\n' :: '\r' :: r => some r.reverse
  | '\n' :: r => some r.reverse
  | _ => none

/-- `t` starts with a blank line: a (possibly empty) run of blanks other than `\n`, then `\n`. -/
def startsWithBlankLine : List Char → Bool
  | [] => false
  | c :: rest => if c = '\n' then true else if isWhitespace c then startsWithBlankLine rest else false

/-- The text ends with exactly one line terminator (`\n` or `\r\n`; what precedes it is non-empty and
does not itself end in `\n`) and does not start with a blank line. -/
def finalOk (t : List Char) : Bool :=
  match stripFinalTerminator t with
  | none => false
  | some body => !body.isEmpty && body.getLast? != some '\n' && !startsWithBlankLine t

/-- No blank other than `\n` stands immediately before a `\n` or at the very end (`prev` as above). -/
def noTrailingBlank : Option Char → List Char → Bool
  | prev, [] => match prev with | some p => p == '\n' || !isWhitespace p | none => true
  | prev, c :: rest =>
    (if c = '\n' then (match prev with | some p => p == '\n' || !isWhitespace p | none => true) else true)
      && noTrailingBlank (some c) rest

/-- Tagged variant: a `\n` whose kind is `InString` may be preceded by blanks. -/
def noTrailingBlankT : Option Char → List (CC.Kind × Char) → Bool
  | prev, [] => match prev with | some p => p == '\n' || !isWhitespace p | none => true
  | prev, (k, c) :: rest =>
    (if c = '\n' ∧ k ≠ .inString then
        (match prev with | some p => p == '\n' || !isWhitespace p | none => true) else true)
      && noTrailingBlankT (some c) rest

/-- `cur` is a reversed line; drop the `\r` that stood last. -/
def dropCrHead (cur : List Char) : List Char :=
  match cur with
  | '\r' :: cur' => cur'
  | _ => cur

/-- Split at `\n`; one trailing `\r` of each piece belongs to the terminator.  The last piece (after the
last `\n`) is kept, also when empty, and keeps a trailing `\r` (it has no terminator). -/
def linesGo : List Char → List Char → List (List Char)
  | cur, [] => [cur.reverse]
  | cur, c :: rest =>
    if c = '\n' then
      (dropCrHead cur).reverse :: linesGo [] rest
    else linesGo (c :: cur) rest

/-- Line contents of a text, terminators (`\n` or `\r\n`) removed. -/
def lines (t : List Char) : List (List Char) := linesGo [] t

end RF.Newline
