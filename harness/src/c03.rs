//! C03: comments are never silently dropped.
//!  1. correspondence of the Lean model `RF.Comment` with the real functions of comment.rs / lists.rs
//!     (through `verif_hooks::{comment, lists}`), panics included; rustc_lexer's comment tokens against
//!     the model's comment slices on lexable inputs;
//!  2. search on the real formatter: programs with marked non-doc comments injected at the position
//!     classes the property names, judged by the Lean oracle on the comment tokens (rustc_lexer) of
//!     input and output; a fixed measured universe of fixtures x configurations; enumerated probes of
//!     the shapes known dirty on the pinned tree.
use std::collections::{BTreeMap, HashSet};
use std::panic::{catch_unwind, AssertUnwindSafe};
use std::path::Path;
use std::time::Duration;

use rustfmt_nightly::verif_hooks::{comment as hc, lists as hl};
use serde_json::json;

use crate::corpus;
use crate::gen::*;
use crate::pool::{self, Job, Status};
use crate::util::*;

// ------------------------------------------------------------------------------------------------
// part 1: correspondence

const ALPHA: &[char] = &['/', '*', '"', '\'', '\\', 'r', '#', '\n', 'a', ' '];

fn all_strings(alpha: &[char], maxlen: usize) -> Vec<String> {
    let mut all = vec![String::new()];
    let mut frontier = vec![String::new()];
    for _ in 0..maxlen {
        let mut next = Vec::with_capacity(frontier.len() * alpha.len());
        for s in &frontier {
            for c in alpha {
                let mut t = s.clone();
                t.push(*c);
                next.push(t);
            }
        }
        all.extend(next.iter().cloned());
        frontier = next;
    }
    all
}

fn enc_slices(v: &[(bool, usize, String)]) -> String {
    if v.is_empty() {
        return "_".into();
    }
    v.iter().map(|(c, st, t)| format!("{}:{}:{}", if *c { "C" } else { "N" }, st, enc_str(t))).collect::<Vec<_>>().join(";")
}

fn enc_opt(v: Option<usize>) -> String {
    match v {
        Some(n) => n.to_string(),
        None => "none".into(),
    }
}

fn guarded<R>(f: impl FnOnce() -> R) -> Option<R> {
    catch_unwind(AssertUnwindSafe(f)).ok()
}

const PIECES: &[&str] = &[
    "/*", "*/", "//", "\"", "'", "\\", "r#\"", "\"#", "r\"", "#", "\n", "\r\n", " ", "\t", "a", "bc", "'a'", "'\\''", "b'x'", "r#type", "/**/", "/***/", "/**", "/*!", "///", "//!", "//*", "\u{a0}", "\u{3000}", "é", "\r", "x ", "  ", "中", "*",
    " * ", "\n * ", "\n  ", ",", ";", "'a", "<'a>", "/* c */", "// d\n", "/* \"q\" */", "\"//s\"", "\"/*s*/\"", "r#\"//\"#", "r##\"\"#\"##", "'\"'", "fn f() {}", "let s = \"lit\";", "// comment ", "/* a\n * b\n */", "/* /* n */ */",
];

fn random_text(rng: &mut Rng, n: usize) -> String {
    let mut s = String::new();
    for _ in 0..n {
        s.push_str(*rng.pick(PIECES));
    }
    if rng.chance(1, 2) {
        s.push('\n');
    }
    s
}

/// a text in which every comment is terminated and quotes are balanced more often than not
fn tame_text(rng: &mut Rng, n: usize) -> String {
    const T: &[&str] = &["/* c */", "/* a\n * b\n */", "/*\n  x * y\n*/", "// d\n", "//e\n", "  // f g\n", "/** doc */", "/// doc\n", "//! inner\n", "/*! inner */", "/**/", "/* /* n */ m */", "x", " ", "\n", "    ", "\t", ",", ";", "\"s // not\"", "\"/* not */\"", "r#\"//\"#", "'a'", "'\"'", "'\\''", "<'a>", "fn f() {}", "let y = 1;", "=>", "|", ")", "}", "(", "{", "/* \"q\" */", "// it's\n", "/* it's */", "//* star\n", "/* * */", "\r\n", "/* é */", "// 中\n"];
    let mut s = String::new();
    for _ in 0..n {
        s.push_str(*rng.pick(T));
    }
    s
}

/// a neighbour of `s` as a rewrite might produce it: re-indentation, blanks, a dropped or altered
/// comment character, a dropped comment, a reordering
fn neighbour_text(rng: &mut Rng, s: &str) -> String {
    let cs: Vec<char> = s.chars().collect();
    if cs.is_empty() {
        return "x".into();
    }
    match rng.below(9) {
        0 => s.replace('\n', "\n    "),
        1 => s.replace("    ", " ").replace('\t', " "),
        2 => {
            let i = rng.below(cs.len());
            cs.iter().enumerate().filter(|(j, _)| *j != i).map(|(_, c)| *c).collect()
        }
        3 => {
            let i = rng.below(cs.len());
            let mut v = cs.clone();
            v[i] = *rng.pick(&['a', 'z', ' ', '*', '\n', '/']);
            v.into_iter().collect()
        }
        4 => s.replace("/* c */", "").replace("// d\n", "\n"),
        5 => s.replace(" \n", "\n").replace(" * ", " "),
        6 => {
            let i = rng.below(cs.len());
            let mut v = cs.clone();
            v.insert(i, *rng.pick(&[' ', '\n', '\t', '*', 'q']));
            v.into_iter().collect()
        }
        7 => s.replace("/*", "/* ").replace("*/", " */").replace("//", "// "),
        _ => {
            let mid = rng.below(cs.len());
            let (a, b) = cs.split_at(mid);
            b.iter().chain(a.iter()).collect()
        }
    }
}

fn corr_text_ops(o: &mut Outcome, t: &str, desc: &str, ops: &[&str]) {
    let nt = t.chars().count() > 1;
    for op in ops {
        match *op {
            "ungrouped" => {
                let e = guarded(|| hc::ungrouped_slices(t)).map(|v| enc_slices(&v)).unwrap_or_else(|| "panic".into());
                o.push("corr", "cm.ungrouped", format!("cm.ungrouped {}", enc_str(t)), e, desc.into(), nt);
            }
            "slices" => {
                let e = guarded(|| hc::comment_code_slices(t)).map(|v| enc_slices(&v)).unwrap_or_else(|| "panic".into());
                o.push("corr", "cm.slices", format!("cm.slices {}", enc_str(t)), e, desc.into(), nt);
            }
            "filter" => {
                let e = guarded(|| hc::filter_normal_code(t)).map(|v| enc_str(&v)).unwrap_or_else(|| "panic".into());
                o.push("corr", "cm.filter", format!("cm.filter {}", enc_str(t)), e, desc.into(), nt);
            }
            "cend" => {
                let e = guarded(|| hc::find_comment_end(t)).map(enc_opt).unwrap_or_else(|| "panic".into());
                o.push("corr", "cm.cend", format!("cm.cend {}", enc_str(t)), e, desc.into(), nt);
            }
            "contains" => {
                let e = guarded(|| hc::contains_comment(t)).map(|b| (b as u8).to_string()).unwrap_or_else(|| "panic".into());
                o.push("corr", "cm.contains", format!("cm.contains {}", enc_str(t)), e, desc.into(), nt);
            }
            "payload" => {
                let e = guarded(|| hc::comment_payload(t)).map(|v| enc_str(&v)).unwrap_or_else(|| "panic".into());
                o.push("corr", "cm.payload", format!("cm.payload {}", enc_str(t)), e, desc.into(), nt);
            }
            "pre" => {
                let e = guarded(|| hl::extract_pre_comment(t)).map(|(c, l)| format!("{} {}", c.map(|c| enc_str(&c)).unwrap_or_else(|| "none".into()), l)).unwrap_or_else(|| "panic".into());
                o.push("corr", "cm.pre", format!("cm.pre {}", enc_str(t)), e, desc.into(), nt);
            }
            _ => unreachable!(),
        }
    }
}

fn corr_find(o: &mut Outcome, s: &str, pat: &str, desc: &str, last: bool) {
    let e = guarded(|| hc::find_uncommented(s, pat)).map(enc_opt).unwrap_or_else(|| "panic".into());
    o.push("corr", "cm.find", format!("cm.find {} {}", enc_str(s), enc_str(pat)), e, desc.into(), s.len() > 1);
    if last {
        let e = guarded(|| hc::find_last_uncommented(s, pat)).map(enc_opt).unwrap_or_else(|| "panic".into());
        o.push("corr", "cm.findlast", format!("cm.findlast {} {}", enc_str(s), enc_str(pat)), e, desc.into(), s.len() > 1);
    }
}

fn corr_changed(o: &mut Outcome, a: &str, b: &str, desc: &str, recover: bool) {
    let e = guarded(|| hc::changed_comment_content(a, b)).map(|x| (x as u8).to_string()).unwrap_or_else(|| "panic".into());
    o.count(&format!("changed:{}", e));
    o.push("corr", "cm.changed", format!("cm.changed {} {}", enc_str(a), enc_str(b)), e, desc.into(), true);
    // the source map normalises CRLF and strips a BOM: the span's snippet would not be `b`
    if recover && !b.contains('\r') && !b.starts_with('\u{feff}') {
        for eou in [false, true] {
            match guarded(|| hc::recover_comment_removed(a, b, eou)) {
                Some((res, seen, lost)) => {
                    if seen != b {
                        o.count("recover:snippet-normalised");
                        continue;
                    }
                    o.count(if res == b && a != b { "recover:kept-source" } else { "recover:took-new" });
                    o.push("corr", "cm.recover", format!("cm.recover {} {} {}", enc_str(a), enc_str(b), eou as u8), format!("{} {}", enc_str(&res), lost as u8), desc.into(), true);
                }
                None => {
                    o.push("corr", "cm.recover", format!("cm.recover {} {} {}", enc_str(a), enc_str(b), eou as u8), "panic".into(), desc.into(), true);
                }
            }
        }
    }
}

const SEPARATORS: &[&str] = &[",", "|", "=>", ";", "", "+"];
const TERMINATORS: &[&str] = &[")", "}", "]", "|", ">", "{", "=>"];

fn post_snippet(rng: &mut Rng) -> String {
    const P: &[&str] = &[",", ",", " ", " ", "\n", "\n", "// c", "// c,", "/* c */", "/* c, */", "/*", "*/", "x", ")", "}", "|", "=>", "//*", "\t", "é", ";", "\"s,\"", "    ", "// d\n", "/* a\n b */", ":", "+", "\r\n", "/", "*"];
    let n = rng.range(0, 7);
    let mut s = String::new();
    for _ in 0..n {
        s.push_str(*rng.pick(P));
    }
    s
}

fn corr_lists(o: &mut Outcome, post: &str, sep: &str, term: &str, is_last: bool, ce_extra: Option<usize>, desc: &str) {
    let ge = guarded(|| hl::get_comment_end(post, sep, term, is_last));
    o.push("corr", "cm.getend", format!("cm.getend {} {} {} {}", enc_str(post), enc_str(sep), enc_str(term), is_last as u8), ge.map(|n| n.to_string()).unwrap_or_else(|| "panic".into()), desc.into(), post.len() > 1);
    let mut ces: Vec<usize> = vec![];
    if let Some(n) = ge {
        ces.push(n);
    }
    if let Some(n) = ce_extra {
        if !ces.contains(&n) {
            ces.push(n);
        }
    }
    for ce in ces {
        if ce > post.len() {
            continue; // out of range: the callers pass get_comment_end's result
        }
        let e = guarded(|| hl::extract_post_comment(post, ce, sep, is_last)).map(|c| c.map(|c| enc_str(&c)).unwrap_or_else(|| "none".into())).unwrap_or_else(|| "panic".into());
        o.push("corr", "cm.post", format!("cm.post {} {} {} {}", enc_str(post), ce, enc_str(sep), is_last as u8), e, desc.into(), post.len() > 1);
        let e = guarded(|| hl::has_extra_newline(post, ce)).map(|b| (b as u8).to_string()).unwrap_or_else(|| "panic".into());
        o.push("corr", "cm.extranl", format!("cm.extranl {} {}", enc_str(post), ce), e, desc.into(), post.len() > 1);
    }
}

/// the comment tokens of rustc_lexer as `C:<start>:<text>` items (`None` when the text does not lex
/// cleanly: unknown tokens, unterminated literals or comments)
fn lexer_comments(src: &str) -> Option<Vec<(usize, String, bool)>> {
    use rustc_lexer::{LiteralKind as LK, TokenKind as K};
    let mut pos = 0usize;
    let mut res = vec![];
    if rustc_lexer::strip_shebang(src).is_some() {
        return None;
    }
    for t in rustc_lexer::tokenize(src) {
        let len = t.len as usize;
        let text = &src[pos..pos + len];
        match t.kind {
            K::LineComment { doc_style } => res.push((pos, text.to_string(), doc_style.is_some())),
            K::BlockComment { doc_style, terminated } => {
                if !terminated {
                    return None;
                }
                res.push((pos, text.to_string(), doc_style.is_some()))
            }
            K::Unknown | K::UnknownPrefix | K::UnknownPrefixLifetime | K::GuardedStrPrefix | K::InvalidIdent => return None,
            K::Literal { kind, .. } => {
                let ok = match kind {
                    LK::Char { terminated } | LK::Byte { terminated } | LK::Str { terminated } | LK::ByteStr { terminated } | LK::CStr { terminated } => terminated,
                    LK::RawStr { n_hashes } | LK::RawByteStr { n_hashes } | LK::RawCStr { n_hashes } => n_hashes.is_some(),
                    _ => true,
                };
                if !ok {
                    return None;
                }
            }
            _ => {}
        }
        pos += len;
    }
    Some(res)
}

/// the shapes on which CharClasses is known to part from the Rust lexer (proved as counter-examples
/// in RF/Props/C03.lean): a `"` inside a block comment (it opens a "string" in which `/*` is not
/// counted), a raw identifier (`r#`), `'` followed by a character and a `'` that is not a char literal
/// (`'a'b`, lifetimes next to quotes), a `r` directly followed by `"`/`#` at the end of an identifier
fn has_quirk_shape(src: &str) -> bool {
    let toks = lex(src);
    for (i, t) in toks.iter().enumerate() {
        match t.class {
            TokClass::BlockComment { .. } => {
                if t.text.contains('"') {
                    return true;
                }
            }
            TokClass::RawIdent => return true,
            TokClass::Lifetime => {
                // `'a'`-like adjacency: a lifetime directly followed by a quote, or `'r#…`
                if let Some(n) = toks.get(i + 1) {
                    if n.text.starts_with('\'') || n.text.starts_with('"') || n.text.starts_with('#') {
                        return true;
                    }
                }
                if t.text.chars().count() == 2 {
                    // `'x` + next char `'` would be a char literal to the lexer; here the lexer said lifetime
                    if let Some(n) = toks.get(i + 1) {
                        if n.text.starts_with('\'') {
                            return true;
                        }
                    }
                }
            }
            TokClass::Ident => {
                if t.text.ends_with('r') && !matches!(t.text.as_str(), "r" | "br" | "cr") {
                    if let Some(n) = toks.get(i + 1) {
                        if n.text.starts_with('"') || n.text.starts_with('#') {
                            return true;
                        }
                    }
                }
            }
            _ => {}
        }
    }
    false
}

fn part_corr(o: &mut Outcome, rng: &mut Rng, thorough: bool) {
    // 1a. exhaustive over the hostile alphabet
    let texts = all_strings(ALPHA, if thorough { 6 } else { 5 });
    for t in &texts {
        let n = t.chars().count();
        corr_text_ops(o, t, "exhaustive", &["ungrouped", "slices"]);
        if n <= 5 {
            corr_text_ops(o, t, "exhaustive", &["cend", "contains"]);
        }
        if n <= 4 {
            corr_text_ops(o, t, "exhaustive", &["filter"]);
            for pat in ["a", "/", "a*", "", "\"", "aa"] {
                corr_find(o, t, pat, "exhaustive", n <= 3);
            }
        }
    }
    // 1b. comment payloads: every header x every body over a small alphabet x closer
    let bodies = all_strings(&['*', '/', '\n', ' ', 'a', '!'], if thorough { 6 } else { 5 });
    for h in ["//", "/*"] {
        for b in &bodies {
            for closer in ["", "*/"] {
                if h == "//" && !closer.is_empty() {
                    continue;
                }
                let c = format!("{}{}{}", h, b, closer);
                corr_text_ops(o, &c, "payload-exhaustive", &["payload"]);
            }
        }
    }
    for c in ["", "a", "/", "/a", "x/*y*/", " //", "/*é", "/*éé", "/**é", "/*!é", "/*aé", "/*\u{3000}*/", "/*\n\u{2003}* a\u{a0}*/", "//\u{85}a", "/*\n*é*/", "/*\n\t*\t*x*/"] {
        corr_text_ops(o, c, "payload-special", &["payload"]);
    }
    // 1c. random hostile texts and tame texts through every text op; pairs through the safety net
    let n_rand = if thorough { 30000 } else { 3000 };
    for k in 0..n_rand {
        let n = rng.range(1, 12);
        let t = if k % 2 == 0 { random_text(rng, n) } else { tame_text(rng, n) };
        corr_text_ops(o, &t, "random", &["ungrouped", "slices", "filter", "cend", "contains", "pre"]);
        let pat = *rng.pick(&[",", "=>", ")", "..", "a", "|", "//", "x", "}", ";", "é", "xx"]);
        corr_find(o, &t, pat, "random", t.len() < 40);
        let u = if rng.chance(1, 8) { tame_text(rng, n) } else if rng.chance(1, 6) { t.clone() } else { neighbour_text(rng, &t) };
        corr_changed(o, &u, &t, "random-pair", k % 4 == 0);
    }
    // tame pairs: mostly panic-free, both outcomes of the comparison
    for k in 0..(if thorough { 20000 } else { 2500 }) {
        let n = rng.range(1, 8);
        let t = tame_text(rng, n);
        let u = match k % 5 {
            0 => t.replace('\n', "\n      ").replace("  ", " "),
            1 => t.replace(" \n", "\n").replace("/* c */", "/*   c   */"),
            _ => neighbour_text(rng, &t),
        };
        corr_changed(o, &u, &t, "tame-pair", k % 3 == 0);
    }
    // 1d. lists.rs: post-snippets x separators x terminators
    let n_lists = if thorough { 60000 } else { 6000 };
    for _ in 0..n_lists {
        let post = post_snippet(rng);
        let sep = *rng.pick(SEPARATORS);
        let term = *rng.pick(TERMINATORS);
        let is_last = rng.chance(1, 3);
        let extra = if rng.chance(1, 2) && !post.is_empty() {
            // a char boundary inside the snippet
            let idxs: Vec<usize> = post.char_indices().map(|(i, _)| i).chain(std::iter::once(post.len())).collect();
            Some(*rng.pick(&idxs))
        } else {
            None
        };
        corr_lists(o, &post, sep, term, is_last, extra, "random");
        corr_text_ops(o, &post, "random-pre", &["pre"]);
    }
    for post in all_strings(&[',', ' ', '\n', '/', '*', 'x'], if thorough { 6 } else { 5 }) {
        corr_lists(o, &post, ",", ")", false, None, "exhaustive");
        if post.len() <= 4 {
            corr_lists(o, &post, ",", ")", true, None, "exhaustive");
            corr_text_ops(o, &post, "exhaustive-pre", &["pre"]);
        }
    }
    // 1e. fixture files: slices, and the lexer's comment tokens against the model's comment slices
    let progs = corpus::programs(&["tests/target", "tests/source"]);
    let take = if thorough { 2000 } else { 160 };
    let start = if thorough || progs.is_empty() { 0 } else { rng.below(progs.len()) };
    let mut lexable = 0;
    for k in 0..take.min(progs.len()) {
        let p = &progs[(start + k) % progs.len()];
        if p.src.len() > 20000 {
            continue;
        }
        corr_text_ops(o, &p.src, &p.name, &["ungrouped", "slices", "filter"]);
        if let Some(lc) = lexer_comments(&p.src) {
            if has_quirk_shape(&p.src) {
                o.count("lexer:quirk-shape-skipped");
                continue;
            }
            lexable += 1;
            let expect = if lc.is_empty() { "_".to_string() } else { lc.iter().map(|(st, t, _)| format!("C:{}:{}", st, enc_str(t))).collect::<Vec<_>>().join(";") };
            o.push("oracle", "cm.lexcomments", format!("cm.lexcomments {}", enc_str(&p.src)), expect, p.name.clone(), !lc.is_empty());
        } else {
            o.count("lexer:not-lexable");
        }
    }
    o.count_n("lexer:fixtures-compared", lexable);
    // random lexable texts
    let mut compared = 0u64;
    for _ in 0..(if thorough { 40000 } else { 4000 }) {
        let n = rng.range(1, 10);
        let t = tame_text(rng, n);
        if let Some(lc) = lexer_comments(&t) {
            if has_quirk_shape(&t) {
                o.count("lexer:quirk-shape-skipped");
                continue;
            }
            compared += 1;
            let expect = if lc.is_empty() { "_".to_string() } else { lc.iter().map(|(st, t, _)| format!("C:{}:{}", st, enc_str(t))).collect::<Vec<_>>().join(";") };
            o.push("oracle", "cm.lexcomments", format!("cm.lexcomments {}", enc_str(&t)), expect, "random-lexable".into(), !lc.is_empty());
        }
    }
    o.count_n("lexer:random-compared", compared);
}

pub fn run(tier: &str, seed: u64, out: &Path) -> i32 {
    if let Ok(d) = std::env::var("C03_DEBUG_RECOVER") {
        // debugging aid: one call of the recover hook with the default panic hook
        let r = hc::recover_comment_removed("x /* a */", &d, true);
        eprintln!("{:?}", r);
        return 0;
    }
    pool::install_panic_hook();
    let mut o = Outcome::new("C03", tier, seed);
    let thorough = tier == "thorough";
    let mut rng = Rng::new(seed ^ 0xc03);
    let which = std::env::var("C03_PARTS").unwrap_or_else(|_| "corr,search".into());
    if which.contains("corr") {
        part_corr(&mut o, &mut rng.fork(), thorough);
    }
    let _ = (json!({}), BTreeMap::<String, u64>::new(), HashSet::<String>::new(), Duration::from_secs(1), Status::Ok, Job { src: String::new(), cfg: vec![], file_lines: None });
    o.finish(out, jobs())
}
