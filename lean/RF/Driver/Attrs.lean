import RF.Model.Proto
import RF.Model.Attrs
/-!
Line-protocol operations for the attribute rewriters (`src/attr.rs`, model `RF/Model/Attrs.lean`).

Encodings (strings as in RF.Proto: hex of UTF-8, `-` for the empty string)
  cfg     `<merge>:<skipDerives>:<normDoc>:<indent columns>:<max_width>:<pinned>`     (booleans 0|1)
          the shape is `Shape::indented(Indent::new(indent, 0), config)`: width = max_width - indent
  toks    meta tokens joined by `.`: `p<hex>` path, `l<hex>` literal, `(`, `)`, `,`, `t` (trailing comma), `=`; `~` = no meta
  attr    `<inner>:<isDoc>:<snippet>:<toks>:<derive>:<docValue>:<unsafe>:<hasComment>:<skip>:<follows>:<gap>:<single>:<dout>`
          derive   `n` not a derive, `~` a derive whose list does not parse, else the element list (hex joined by `,`, `_`)
          docValue `~` none, else hex
          single   `!` = the model's `rewriteAttr`; `~` = Err; else the text the real rewriter returned
          dout     `!` = the model's `formatDeriveOneLine`; `~` = None; else the text `format_derive` returned
  attrs   attrs joined by `;`

Operations
  attrs.meta <toks>                 -> string                `renderMeta`
  attrs.single <cfg> <attr>         -> string | ~ | multi    `Attribute::rewrite_result` (`multi`: a list that does not
                                                             fit on one line, outside the model)
  attrs.derive <cfg> <inner> <list> -> string | ~ | multi    `format_derive`
  attrs.runs <attrs>                -> `<docRun>,<deriveRun>` per position joined by `;`   (`take_while_with_pred`)
  attrs.nl <gap>                    -> `<before><after>`     `has_newlines_before_after_comment`
  attrs.list <cfg> <attrs>          -> string | ~ | multi    `<[Attribute]>::rewrite_result`
ORACLES
  attrs.oracle.exact <cfg> <attrs> <pre> <post> <out>  -> ok | bad    `oracleExact`
  attrs.oracle.inorder <strings> <out>                 -> ok | bad    the squeezed strings occur in `squeeze out`, in order
  attrs.oracle.linedoc <text>                          -> ok | bad    every line is a `///` / `//!` comment (`allLineDoc`)
-/
namespace RF.Driver.Attrs
open RF.Proto RF.Attrs

def decB (s : String) : Option Bool :=
  if s == "1" then some true else if s == "0" then some false else none

def decTok (s : String) : Option MTok :=
  match s.toList with
  | ['('] => some .lp
  | [')'] => some .rp
  | [','] => some .comma
  | ['t'] => some .trail
  | ['='] => some .eq
  | 'p' :: r => (decChars (String.ofList r)).map .path
  | 'l' :: r => (decChars (String.ofList r)).map .lit
  | _ => none

def decToks (s : String) : Option (Option (List MTok)) :=
  if s == "~" then some none else ((s.splitOn ".").mapM decTok).map some

def decStrList (s : String) : Option (List Str) := (decList s).map (·.map String.toList)

inductive Ov where
  | model | err | text (s : Str)

def decOv (s : String) : Option Ov :=
  if s == "!" then some .model else if s == "~" then some .err else (decChars s).map .text

structure AttrX where
  attr : Attr
  single : Ov
  dout : Ov

def decAttr (s : String) : Option AttrX :=
  match s.splitOn ":" with
  | [inner, isDoc, snip, toks, der, dv, uns, hc, sk, fo, gap, single, dout] => do
    let inner ← decB inner
    let isDoc ← decB isDoc
    let snip ← decChars snip
    let toks ← decToks toks
    let der ← (if der == "n" then some none else if der == "~" then some (some none)
               else (decStrList der).map (fun l => some (some l)))
    let dv ← (if dv == "~" then some none else (decChars dv).map some)
    let uns ← decB uns
    let hc ← decB hc
    let sk ← decB sk
    let fo ← decB fo
    let gap ← decChars gap
    let single ← decOv single
    let dout ← decOv dout
    pure ⟨⟨inner, isDoc, snip, toks, der, dv, uns, hc, sk, fo, gap⟩, single, dout⟩
  | _ => none

def decAttrs (s : String) : Option (List AttrX) :=
  if s == "_" then some [] else (s.splitOn ";").mapM decAttr

structure Cfg where
  merge : Bool
  skipDerives : Bool
  normDoc : Bool
  indent : Nat
  maxWidth : Nat
  pinned : Bool

def decCfg (s : String) : Option Cfg :=
  match s.splitOn ":" with
  | [m, sd, nd, ind, mw, p] => do
    pure ⟨← decB m, ← decB sd, ← decB nd, ← ind.toNat?, ← mw.toNat?, ← decB p⟩
  | _ => none

/-- marks a text the model cannot predict (a layout on several lines) -/
def MARK : Char := Char.ofNat 0

def lightCfg (c : Cfg) : RF.Shape.Config := ⟨false, 4, c.maxWidth, 80⟩

def lightRc (c : Cfg) (doc : Bool) (s : Str) : Option Str :=
  let indent : RF.Shape.Indent := ⟨c.indent, 0⟩
  let shape : RF.Shape.Shape := ⟨c.maxWidth - c.indent, indent, 0⟩
  let _ := doc
  RF.Lists.rewriteCommentLight (lightCfg c) s false shape

/-- The one-line form of a meta item when the real rewriter takes it (the bounds of `overflow::rewrite_with_parens`
with `attr_fn_like_width` = 70 for the text between the outermost parentheses), `MARK` otherwise. -/
def metaFit (width : Nat) (a : Attr) (toks : List MTok) : Option Str :=
  let r := renderMeta toks
  let used := (attrPrefix a.inner).length + 1 + (if a.isUnsafe then 7 else 0)
  let isList := toks.any (fun t => t == .lp)
  let path := match toks with
    | .path p :: _ => p.length
    | _ => 0
  let inside := r.length - path - 2
  if !isList then some r
  else if used + r.length + 1 ≤ width && inside ≤ 70 then some r
  else some [MARK]

def mkEnv (c : Cfg) (xs : List AttrX) : Env :=
  { merge := c.merge, skipDerives := c.skipDerives, normDoc := c.normDoc,
    indentStr := List.replicate c.indent ' ', maxWidth := c.maxWidth, width := c.maxWidth - c.indent,
    rdc := lightRc c true, rc := lightRc c false,
    metaRw := fun a toks => metaFit (c.maxWidth - c.indent) a toks,
    fmtDerive := fun run ps =>
      match ((xs.find? (fun x => some x.attr == run.head?)).map AttrX.dout : Option Ov) with
      | some Ov.err => none
      | some (Ov.text t) => some t
      | _ =>
        match formatDeriveOneLine (c.maxWidth - c.indent) ((run.head?.map (·.inner)).getD false) ps with
        | none => none
        | some none => some [MARK]
        | some (some t) => some t }

def singleOf (c : Cfg) (e : Env) (xs : List AttrX) (a : Attr) : Option Str :=
  match ((xs.find? (fun x => x.attr == a)).map AttrX.single : Option Ov) with
  | some Ov.err => none
  | some (Ov.text t) => some t
  | _ => rewriteAttrG c.pinned e a

def encOut (r : Option Str) : String :=
  match r with
  | none => "~"
  | some t => if t.contains MARK then "multi" else encChars t

def okBad (b : Bool) : String := if b then "ok" else "bad"

def handle (op : String) (args : List String) : Option String :=
  match op, args with
  | "attrs.meta", [toks] => some <| (do
      let t ← decToks toks
      let t ← t
      pure (encChars (renderMeta t))).getD "?"
  | "attrs.single", [cfg, attr] => some <| (do
      let c ← decCfg cfg
      let x ← decAttr attr
      let e := mkEnv c [x]
      pure (encOut (rewriteAttrG c.pinned e x.attr))).getD "?"
  | "attrs.derive", [cfg, inner, list] => some <| (do
      let c ← decCfg cfg
      let inner ← decB inner
      let ps ← decStrList list
      pure (match formatDeriveOneLine (c.maxWidth - c.indent) inner ps with
        | none => "~"
        | some none => "multi"
        | some (some t) => encChars t)).getD "?"
  | "attrs.runs", [attrs] => some <| (do
      let xs ← decAttrs attrs
      let as := xs.map AttrX.attr
      let rec go : List Attr → List String
        | [] => []
        | a :: r => s!"{docRun (a :: r)},{deriveRun (a :: r)}" :: go r
      pure (String.intercalate ";" (go as))).getD "?"
  | "attrs.nl", [gap] => some <| (do
      let g ← decChars gap
      let (b, a) := newlinesAround g
      pure ((if b then "1" else "0") ++ (if a then "1" else "0"))).getD "?"
  | "attrs.list", [cfg, attrs] => some <| (do
      let c ← decCfg cfg
      let xs ← decAttrs attrs
      let e := mkEnv c xs
      pure (encOut ((rewriteSegs e (singleOf c e xs) (xs.map AttrX.attr)).map render))).getD "?"
  | "attrs.oracle.exact", [cfg, attrs, pre, post, out] => some <| (do
      let c ← decCfg cfg
      let xs ← decAttrs attrs
      let pre ← decChars pre
      let post ← decChars post
      let out ← decChars out
      let e := mkEnv c xs
      -- the expectation of a single attribute is its source unless it is normalised to a doc comment
      let e := { e with metaRw := fun _ _ => none }
      pure (okBad (oracleExact e (xs.map AttrX.attr) pre post out))).getD "?"
  | "attrs.oracle.inorder", [needles, out] => some <| (do
      let ns ← decStrList needles
      let out ← decChars out
      pure (okBad (occursInOrder (ns.map sq) (sq out)))).getD "?"
  | "attrs.oracle.linedoc", [text] => some <| (do
      let t ← decChars text
      pure (okBad (allLineDoc t))).getD "?"
  | _, _ => none

end RF.Driver.Attrs
