import RF.Model.OptRewrites
import RF.Lemmas.Literal
/-!
Helper lemmas for `RF/Props/OptRewrites.lean` (the opt-in rewrite decisions, model `RF/Model/OptRewrites.lean`).
-/
namespace RF.Lemmas.OptRewrites
open RF.Opt

/-! ### §1 an initialiser whose rendering looks like an identifier -/

theorem all_append_false {p : Char → Bool} {a b : List Char} {c : Char} (hc : p c = false) :
    (a ++ c :: b).all p = false := by
  simp [List.all_append, hc]

theorem identLike_all {s : Str} (h : identLike s = true) : s.all isIdentChar = true := by
  simp [identLike] at h; simpa using h.2

theorem identLike_ne_nil {s : Str} (h : identLike s = true) : s ≠ [] := by
  intro hs; subst hs; simp [identLike] at h

theorem not_identLike_of_mem {s : Str} {c : Char} (hm : c ∈ s) (hc : isIdentChar c = false) :
    identLike s = false := by
  cases h : identLike s with
  | false => rfl
  | true =>
    have := identLike_all h
    rw [List.all_eq_true] at this
    have := this c hm
    simp [hc] at this

theorem renderSegs_cons_cons (s t : Seg) (r : List Seg) :
    renderSegs (s :: t :: r) = s.render ++ [':', ':'] ++ renderSegs (t :: r) := rfl

/-- a path renders to something that looks like an identifier only if it is one plain segment -/
theorem path_identLike {g : Bool} {segs : List Seg} (h : identLike (Init.path g segs).render = true) :
    g = false ∧ ∃ i, segs = [⟨i, none⟩] ∧ (Init.path g segs).render = i := by
  cases g with
  | true =>
    exfalso
    have : identLike (Init.path true segs).render = false :=
      not_identLike_of_mem (c := ':') (by simp [Init.render]) (by decide)
    simp [this] at h
  | false =>
    refine ⟨rfl, ?_⟩
    match segs with
    | [] => simp [Init.render, renderSegs, identLike] at h
    | [⟨i, none⟩] => exact ⟨i, rfl, by simp [Init.render, renderSegs, Seg.render]⟩
    | [⟨i, some a⟩] =>
      exfalso
      have : identLike (Init.path false [⟨i, some a⟩]).render = false :=
        not_identLike_of_mem (c := ':') (by simp [Init.render, renderSegs, Seg.render]) (by decide)
      simp [this] at h
    | s :: t :: r =>
      exfalso
      have : identLike (Init.path false (s :: t :: r)).render = false :=
        not_identLike_of_mem (c := ':') (by simp [Init.render, renderSegs_cons_cons]) (by decide)
      simp [this] at h

/-- **what the text comparison of `rewrite_field` amounts to**: an initialiser that is not a literal and whose rendering
looks like an identifier is the one-segment path of that name, without generic arguments, `::`, parentheses, attributes
or operators -/
theorem render_identLike {e : Init} (hl : e.isLit = false) (h : identLike e.render = true) :
    e = .path false [⟨e.render, none⟩] := by
  cases e with
  | path g segs =>
    obtain ⟨hg, i, hs, hr⟩ := path_identLike h
    subst hg; subst hs; rw [hr]
  | lit t => simp [Init.isLit] at hl
  | paren e =>
    have : identLike (Init.paren e).render = false :=
      not_identLike_of_mem (c := '(') (by simp [Init.render]) (by decide)
    simp [this] at h
  | field e n =>
    have : identLike (Init.field e n).render = false :=
      not_identLike_of_mem (c := '.') (by simp [Init.render]) (by decide)
    simp [this] at h
  | attr a e =>
    have : identLike (Init.attr a e).render = false :=
      not_identLike_of_mem (c := '[') (by simp [Init.render]) (by decide)
    simp [this] at h
  | cast e ty =>
    have : identLike (Init.cast e ty).render = false :=
      not_identLike_of_mem (c := ' ') (by simp [Init.render]) (by decide)
    simp [this] at h
  | addrOf e =>
    have : identLike (Init.addrOf e).render = false :=
      not_identLike_of_mem (c := '&') (by simp [Init.render]) (by decide)
    simp [this] at h
  | try_ e =>
    have : identLike (Init.try_ e).render = false :=
      not_identLike_of_mem (c := '?') (by simp [Init.render]) (by decide)
    simp [this] at h
  | neg e =>
    have : identLike (Init.neg e).render = false :=
      not_identLike_of_mem (c := '-') (by simp [Init.render]) (by decide)
    simp [this] at h
  | call e =>
    have : identLike (Init.call e).render = false :=
      not_identLike_of_mem (c := '(') (by simp [Init.render]) (by decide)
    simp [this] at h
  | mac n =>
    have : identLike (Init.mac n).render = false :=
      not_identLike_of_mem (c := '!') (by simp [Init.render]) (by decide)
    simp [this] at h

/-! ### §3 the wildcard suffix -/

theorem countSuffixRev_le (l : List TItem) : countSuffixRev l ≤ l.length := by
  induction l with
  | nil => simp [countSuffixRev]
  | cons i r ih =>
    simp only [countSuffixRev, List.length_cons]
    split
    · split <;> omega
    · omega

theorem countSuffixRev_wild (l : List TItem) : ∀ i ∈ l.take (countSuffixRev l), i.text = wildText := by
  induction l with
  | nil => simp [countSuffixRev]
  | cons i r ih =>
    simp only [countSuffixRev]
    by_cases hw : (i.text == wildText) = true
    · simp only [hw, if_true]
      by_cases hc : i.hasComment = true
      · simp only [hc, if_true]
        intro j hj
        simp at hj
        subst hj
        simpa using hw
      · have hc' : i.hasComment = false := by simpa using hc
        simp only [hc', Bool.false_eq_true, if_false]
        intro j hj
        have : (1 + countSuffixRev r) = countSuffixRev r + 1 := by omega
        rw [this, List.take_succ_cons] at hj
        simp only [List.mem_cons] at hj
        rcases hj with hj | hj
        · subst hj; simpa using hw
        · exact ih j hj
    · simp [hw]

theorem count_le_length (items : List TItem) : countWildcardSuffixLen items ≤ items.length := by
  have := countSuffixRev_le items.reverse
  simpa [countWildcardSuffixLen] using this

/-- the last `countWildcardSuffixLen items` elements are rendered `_` -/
theorem suffix_is_wild (items : List TItem) :
    (items.drop (items.length - countWildcardSuffixLen items)).map TItem.text =
      List.replicate (countWildcardSuffixLen items) wildText := by
  have hle := count_le_length items
  have hw := countSuffixRev_wild items.reverse
  unfold countWildcardSuffixLen at *
  generalize hcdef : countSuffixRev items.reverse = c at *
  have hrev : items.drop (items.length - c) = (items.reverse.take c).reverse := by
    rw [List.take_reverse]; simp
  rw [hrev]
  apply List.ext_getElem
  · simp [List.length_take]; omega
  · intro n h1 h2
    simp only [List.getElem_map, List.getElem_replicate]
    apply hw
    have : ((List.take c items.reverse).reverse)[n]'(by simpa using h1) ∈ (List.take c items.reverse).reverse :=
      List.getElem_mem _
    simpa using this

theorem takeWhile_append_stop {α : Type} {p : α → Bool} (a : List α) (x : α) (r : List α)
    (ha : ∀ y ∈ a, p y = true) (hx : p x = false) : (a ++ x :: r).takeWhile p = a := by
  induction a with
  | nil => simp [hx]
  | cons y a ih =>
    have hy := ha y (by simp)
    simp only [List.cons_append, List.takeWhile, hy]
    rw [ih (fun z hz => ha z (by simp [hz]))]

theorem dropWhile_append_stop {α : Type} {p : α → Bool} (a : List α) (x : α) (r : List α)
    (ha : ∀ y ∈ a, p y = true) (hx : p x = false) : (a ++ x :: r).dropWhile p = x :: r := by
  induction a with
  | nil => simp [hx]
  | cons y a ih =>
    have hy := ha y (by simp)
    simp only [List.cons_append, List.dropWhile, hy]
    exact ih (fun z hz => ha z (by simp [hz]))

theorem filter_eq_nil_of_not_any {l : List Str} (h : l.any (· == restText) = false) :
    l.filter (· == restText) = [] := by
  rw [List.filter_eq_nil_iff]
  intro a ha
  rw [List.any_eq_false] at h
  exact h a ha

/-! ### §6 attribute runs -/

theorem takeRun_le (pred : Attr → Bool) (l : List AttrIn) : takeRun pred l ≤ l.length := by
  induction l with
  | nil => simp [takeRun]
  | cons a r ih =>
    simp only [takeRun, List.length_cons]
    split
    · split
      · omega
      · split <;> omega
    · omega

theorem takeRun_pos (pred : Attr → Bool) (a : AttrIn) (r : List AttrIn) (h : pred a.attr = true) :
    takeRun pred (a :: r) ≥ 1 := by
  simp only [takeRun, h, if_true]
  split
  · omega
  · split <;> omega

theorem takeRun_pred (pred : Attr → Bool) (l : List AttrIn) :
    ∀ a ∈ l.take (takeRun pred l), pred a.attr = true := by
  induction l with
  | nil => simp [takeRun]
  | cons a r ih =>
    by_cases hp : pred a.attr = true
    · simp only [takeRun, hp, if_true]
      intro x hx
      split at hx
      · simp at hx; subst hx; exact hp
      · split at hx
        · simp at hx; subst hx; exact hp
        · have : (1 + takeRun pred r) = takeRun pred r + 1 := by omega
          rw [this, List.take_succ_cons] at hx
          simp only [List.mem_cons] at hx
          rcases hx with hx | hx
          · subst hx; exact hp
          · exact ih x hx
    · simp [takeRun, hp]

theorem deriveSeqIn_append (xs ys : List AttrIn) : deriveSeqIn (xs ++ ys) = deriveSeqIn xs ++ deriveSeqIn ys := by
  induction xs with
  | nil => simp [deriveSeqIn]
  | cons a r ih =>
    simp only [List.cons_append, deriveSeqIn]
    split <;> simp [ih]

theorem deriveSeqIn_docs (xs : List AttrIn) (h : ∀ a ∈ xs, a.attr.isDocComment = true) :
    deriveSeqIn xs = xs.map (fun _ => none) := by
  induction xs with
  | nil => simp [deriveSeqIn]
  | cons a r ih =>
    have ha := h a (by simp)
    have := ih (fun x hx => h x (by simp [hx]))
    cases hattr : a.attr <;> simp [hattr, Attr.isDocComment] at ha
    simp [deriveSeqIn, hattr, this]

theorem deriveSeqIn_derives (xs : List AttrIn) (ps : List Str) (h : collectPaths xs = some ps) :
    deriveSeqIn xs = ps.map some := by
  induction xs generalizing ps with
  | nil => simp [collectPaths] at h; subst h; simp [deriveSeqIn]
  | cons a r ih =>
    unfold collectPaths at h
    cases hattr : a.attr with
    | derive o =>
      cases o with
      | none => simp [hattr] at h
      | some p =>
        cases hr : collectPaths r with
        | none => simp [hattr, hr] at h
        | some q =>
          simp [hattr, hr] at h
          subst h
          simp [deriveSeqIn, hattr, ih q hr]
    | docComment t => simp [hattr] at h
    | docAttr i v => simp [hattr] at h
    | other t => simp [hattr] at h

/-! ### §6 lines -/

theorem splitLF_ne_nil (s : Str) : splitLF s ≠ [] := by
  cases s with
  | nil => simp [splitLF]
  | cons c r =>
    simp only [splitLF]
    split
    · simp
    · split <;> simp

theorem splitLF_cons_ne (c : Char) (r : Str) (hc : c ≠ '\n') :
    ∃ h t, splitLF r = h :: t ∧ splitLF (c :: r) = (c :: h) :: t := by
  have hne := splitLF_ne_nil r
  cases hr : splitLF r with
  | nil => exact absurd hr hne
  | cons h t =>
    refine ⟨h, t, rfl, ?_⟩
    simp [splitLF, hc, hr]

theorem joinWith_cons_cons (sep x y : Str) (r : List Str) :
    joinWith sep (x :: y :: r) = x ++ sep ++ joinWith sep (y :: r) := rfl

theorem joinWith_cons_ne (sep x : Str) (r : List Str) (h : r ≠ []) :
    joinWith sep (x :: r) = x ++ sep ++ joinWith sep r := by
  cases r with
  | nil => exact absurd rfl h
  | cons y r => rfl

theorem joinWith_splitLF (s : Str) : joinWith ['\n'] (splitLF s) = s := by
  induction s with
  | nil => simp [splitLF, joinWith]
  | cons c r ih =>
    by_cases hc : c = '\n'
    · subst hc
      have : splitLF ('\n' :: r) = [] :: splitLF r := by simp [splitLF]
      rw [this, joinWith_cons_ne _ _ _ (splitLF_ne_nil r), ih]; simp
    · obtain ⟨h, t, hr, hcr⟩ := splitLF_cons_ne c r hc
      rw [hcr]
      rw [hr] at ih
      cases t with
      | nil => simp [joinWith] at ih ⊢; exact ih
      | cons y t' =>
        rw [joinWith_cons_cons] at ih ⊢
        simp at ih ⊢; exact ih

theorem splitLF_no_lf (s : Str) : ∀ l ∈ splitLF s, '\n' ∉ l := by
  induction s with
  | nil => simp [splitLF]
  | cons c r ih =>
    by_cases hc : c = '\n'
    · subst hc
      have : splitLF ('\n' :: r) = [] :: splitLF r := by simp [splitLF]
      rw [this]; intro l hl
      simp only [List.mem_cons] at hl
      rcases hl with hl | hl
      · subst hl; simp
      · exact ih l hl
    · obtain ⟨h, t, hr, hcr⟩ := splitLF_cons_ne c r hc
      rw [hcr]; rw [hr] at ih
      intro l hl
      simp only [List.mem_cons] at hl
      rcases hl with hl | hl
      · subst hl
        have := ih h (by simp)
        simp only [List.mem_cons, not_or]
        exact ⟨fun e => hc e.symm, this⟩
      · exact ih l (by simp [hl])

theorem splitLF_of_no_lf (l : Str) (h : '\n' ∉ l) : splitLF l = [l] := by
  induction l with
  | nil => simp [splitLF]
  | cons c r ih =>
    simp only [List.mem_cons, not_or] at h
    have hc : c ≠ '\n' := fun e => h.1 e.symm
    obtain ⟨hd, t, hr, hcr⟩ := splitLF_cons_ne c r hc
    rw [hcr]
    rw [ih h.2] at hr
    simp at hr
    rw [← hr.1, ← hr.2]

theorem splitLF_append_lf (l rest : Str) (h : '\n' ∉ l) :
    splitLF (l ++ '\n' :: rest) = l :: splitLF rest := by
  induction l with
  | nil => simp [splitLF]
  | cons c r ih =>
    simp only [List.mem_cons, not_or] at h
    have hc : c ≠ '\n' := fun e => h.1 e.symm
    obtain ⟨hd, t, hr, hcr⟩ := splitLF_cons_ne c (r ++ '\n' :: rest) hc
    rw [List.cons_append, hcr]
    rw [ih h.2] at hr
    simp at hr
    rw [← hr.1, ← hr.2]

theorem splitLF_joinWith (ls : List Str) (hne : ls ≠ []) (h : ∀ l ∈ ls, '\n' ∉ l) :
    splitLF (joinWith ['\n'] ls) = ls := by
  induction ls with
  | nil => exact absurd rfl hne
  | cons x r ih =>
    cases r with
    | nil => simp [joinWith]; exact splitLF_of_no_lf x (h x (by simp))
    | cons y r' =>
      rw [joinWith_cons_cons]
      have := ih (by simp) (fun l hl => h l (by simp [hl]))
      simp only [List.append_assoc, List.singleton_append]
      rw [splitLF_append_lf x _ (h x (by simp)), this]

theorem splitLF_length (s : Str) : (splitLF s).length = (s.filter (· == '\n')).length + 1 := by
  induction s with
  | nil => simp [splitLF]
  | cons c r ih =>
    by_cases hc : c = '\n'
    · subst hc
      have : splitLF ('\n' :: r) = [] :: splitLF r := by simp [splitLF]
      rw [this]; simp [ih]
    · obtain ⟨h, t, hr, hcr⟩ := splitLF_cons_ne c r hc
      rw [hcr]; rw [hr] at ih
      have hb : (c == '\n') = false := by simp [hc]
      simp only [List.filter, hb, List.length_cons] at ih ⊢
      exact ih

/-- the last piece is empty exactly for the empty text and a text that ends in a line feed -/
theorem splitLF_getLast (s : Str) :
    (splitLF s).getLast? = some [] ↔ (s = [] ∨ s.getLast? = some '\n') := by
  induction s with
  | nil => simp [splitLF]
  | cons c r ih =>
    by_cases hc : c = '\n'
    · subst hc
      have : splitLF ('\n' :: r) = [] :: splitLF r := by simp [splitLF]
      rw [this]
      have hne := splitLF_ne_nil r
      rw [List.getLast?_cons_of_ne_nil hne] <;> try exact hne
      rw [ih]
      cases r with
      | nil => simp
      | cons d r' => simp [List.getLast?_cons_cons]
    · obtain ⟨h, t, hr, hcr⟩ := splitLF_cons_ne c r hc
      rw [hcr]
      cases t with
      | nil =>
        -- one piece: no line feed in `r`
        have hlen := splitLF_length r
        rw [hr] at hlen
        have hfil : r.filter (· == '\n') = [] := by
          cases hf : r.filter (· == '\n') with
          | nil => rfl
          | cons _ _ => rw [hf] at hlen; simp at hlen
        have hnot : '\n' ∉ r := by
          intro hm
          have : '\n' ∈ r.filter (· == '\n') := by simp [hm]
          rw [hfil] at this; simp at this
        simp only [List.getLast?_singleton, Option.some.injEq, List.cons_ne_nil, false_or, false_iff]
        intro hl
        cases r with
        | nil => simp at hl; exact hc hl
        | cons d r' =>
          rw [List.getLast?_cons_cons] at hl
          exact hnot (List.mem_of_getLast? hl)
      | cons y t' =>
        rw [hr] at ih
        simp only [List.getLast?_cons_cons] at ih ⊢
        rw [ih]
        cases r with
        | nil => simp [splitLF] at hr
        | cons d r' => simp [List.getLast?_cons_cons]

theorem mem_joinWith {c : Char} (sep : Str) (ls : List Str) (l : Str) (hl : l ∈ ls) (hc : c ∈ l) :
    c ∈ joinWith sep ls := by
  induction ls with
  | nil => simp at hl
  | cons x r ih =>
    cases r with
    | nil => simp at hl; subst hl; simpa [joinWith] using hc
    | cons y r' =>
      rw [joinWith_cons_cons]
      simp only [List.mem_cons] at hl
      rcases hl with hl | hl
      · subst hl; simp [hc]
      · have := ih (by simpa using hl); simp [this]

theorem mem_of_mem_dropLast' {α : Type} {a : α} {l : List α} (h : a ∈ l.dropLast) : a ∈ l := by
  rw [List.dropLast_eq_take] at h
  exact List.mem_of_mem_take h

theorem dropLast_append_last {α : Type} (l : List α) (x : α) (h : l.getLast? = some x) : l.dropLast ++ [x] = l := by
  induction l with
  | nil => simp at h
  | cons a r ih =>
    cases r with
    | nil => simp at h; subst h; simp
    | cons b r' =>
      rw [List.getLast?_cons_cons] at h
      simp only [List.dropLast_cons_cons, List.cons_append]
      rw [ih h]

/-! ### §8 rustc_lexer's `number` and what follows the token -/

/-- a character that no phase of `number` / `eat_literal_suffix` consumes or looks for -/
structure Stop (c : Char) : Prop where
  dec : isDecU c = false
  hex : isHexU c = false
  ids : isIdStartA c = false
  idc : isIdContinueA c = false
  dig : ('0' ≤ c && c ≤ '9') = false
  plus : c ≠ '+'
  minus : c ≠ '-'
  e : c ≠ 'e'
  E : c ≠ 'E'
  b : c ≠ 'b'
  o : c ≠ 'o'
  x : c ≠ 'x'

theorem stop_space : Stop ' ' := by constructor <;> decide
theorem stop_dot : Stop '.' := by constructor <;> decide

theorem dropWhile_append_stop' {p : Char → Bool} (s : Str) (c : Char) (rest : Str) (hc : p c = false) :
    (s ++ c :: rest).dropWhile p = s.dropWhile p ++ c :: rest := by
  induction s with
  | nil => simp [hc]
  | cons a r ih =>
    by_cases ha : p a = true
    · simp [List.dropWhile, ha, ih]
    · have : p a = false := by simpa using ha
      simp [List.dropWhile, this]

theorem takeWhile_append_stop' {p : Char → Bool} (s : Str) (c : Char) (rest : Str) (hc : p c = false) :
    (s ++ c :: rest).takeWhile p = s.takeWhile p := by
  induction s with
  | nil => simp [hc]
  | cons a r ih =>
    by_cases ha : p a = true
    · simp [List.takeWhile, ha, ih]
    · have : p a = false := by simpa using ha
      simp [List.takeWhile, this]

theorem eatExponent_append (s : Str) (c : Char) (rest : Str) (h : Stop c) :
    eatExponent (s ++ c :: rest) = eatExponent s ++ c :: rest := by
  match s with
  | [] =>
    have h1 : (c == '+') = false := by simp [h.plus]
    have h2 : (c == '-') = false := by simp [h.minus]
    simp [eatExponent, h1, h2, List.dropWhile, h.dec]
  | a :: u =>
    by_cases hp : (a == '+' || a == '-') = true
    · simp [eatExponent, hp, dropWhile_append_stop' u c rest h.dec]
    · have hp' : (a == '+' || a == '-') = false := by simpa using hp
      simp only [List.cons_append, eatExponent, hp', Bool.false_eq_true, if_false]
      exact dropWhile_append_stop' (a :: u) c rest h.dec

theorem eatSuffix_append (s : Str) (c : Char) (rest : Str) (h : Stop c) :
    eatSuffix (s ++ c :: rest) = eatSuffix s ++ c :: rest := by
  match s with
  | [] => simp [eatSuffix, h.ids]
  | a :: u =>
    by_cases ha : isIdStartA a = true
    · simp [eatSuffix, ha, dropWhile_append_stop' u c rest h.idc]
    · have : isIdStartA a = false := by simpa using ha
      simp [eatSuffix, this]

theorem afterFraction_append (s : Str) (c : Char) (rest : Str) (h : Stop c) :
    afterFraction (s ++ c :: rest) = afterFraction s ++ c :: rest := by
  match s with
  | [] =>
    have h1 : (c == 'e') = false := by simp [h.e]
    have h2 : (c == 'E') = false := by simp [h.E]
    simp [afterFraction, h1, h2]
  | y :: r3 =>
    by_cases hy : (y == 'e' || y == 'E') = true
    · simp [afterFraction, hy, eatExponent_append r3 c rest h]
    · have hy' : (y == 'e' || y == 'E') = false := by simpa using hy
      simp [afterFraction, hy']

/-- `afterDigits` does not look beyond a stop character — except that a `.` directly behind a final `.` makes the
lexer give the first one back (`1...`): excluded by `hs` -/
theorem afterDigits_append (s : Str) (c : Char) (rest : Str) (h : Stop c)
    (hdot : c = '.' → ∃ r, rest = '.' :: r) (hs : c = '.' → s ≠ ['.']) :
    afterDigits (s ++ c :: rest) = afterDigits s ++ c :: rest := by
  have hce : (c == 'e') = false := by simp [h.e]
  have hcE : (c == 'E') = false := by simp [h.E]
  match s with
  | [] =>
    by_cases hc : c = '.'
    · subst hc
      obtain ⟨r, hr⟩ := hdot rfl
      subst hr
      simp [afterDigits]
    · have hc' : (c == '.') = false := by simp [hc]
      simp [afterDigits, hc', hce, hcE]
  | a :: u =>
    by_cases ha : (a == '.') = true
    · match u with
      | [] =>
        have hane : a = '.' := by simpa using ha
        subst hane
        have hc : c ≠ '.' := fun e => hs e rfl
        have hc' : (c == '.') = false := by simp [hc]
        simp [afterDigits, hc', h.ids, h.dig]
      | x :: u' =>
        by_cases hx : (x == '.' || isIdStartA x) = true
        · simp [afterDigits, ha, hx]
        · have hx' : (x == '.' || isIdStartA x) = false := by simpa using hx
          by_cases hd : ('0' ≤ x && x ≤ '9') = true
          · simp only [List.cons_append, afterDigits, ha, if_true, hx', Bool.false_eq_true, if_false, hd]
            have := dropWhile_append_stop' (x :: u') c rest h.dec
            simp only [List.cons_append] at this
            rw [this, afterFraction_append _ c rest h]
          · have hd' : ('0' ≤ x && x ≤ '9') = false := by simpa using hd
            simp [afterDigits, ha, hx', hd']
    · have ha' : (a == '.') = false := by simpa using ha
      by_cases he : (a == 'e' || a == 'E') = true
      · simp [afterDigits, ha', he, eatExponent_append u c rest h]
      · have he' : (a == 'e' || a == 'E') = false := by simpa using he
        simp [afterDigits, ha', he']

theorem dropWhile_singleton_getLast {p : Char → Bool} (t : Str) (x : Char) (h : t.dropWhile p = [x]) :
    t.getLast? = some x := by
  induction t with
  | nil => simp at h
  | cons a r ih =>
    by_cases ha : p a = true
    · simp only [List.dropWhile, ha] at h
      have := ih h
      cases r with
      | nil => simp at h
      | cons b r' => rw [List.getLast?_cons_cons]; exact this
    · have : p a = false := by simpa using ha
      simp only [List.dropWhile, this] at h
      simp at h
      obtain ⟨h1, h2⟩ := h
      subst h1 h2; simp

theorem afterBase_append (p : Char → Bool) (u : Str) (c : Char) (rest : Str) (h : Stop c) (hp : p c = false)
    (hdot : c = '.' → ∃ r, rest = '.' :: r) (hs : c = '.' → u.getLast? ≠ some '.') :
    afterBase p (u ++ c :: rest) = afterBase p u ++ c :: rest := by
  unfold afterBase
  rw [takeWhile_append_stop' u c rest hp, dropWhile_append_stop' u c rest hp]
  have hs' : c = '.' → u.dropWhile p ≠ ['.'] := fun e hh => hs e (dropWhile_singleton_getLast u '.' hh)
  split
  · rw [afterDigits_append _ c rest h hdot hs', eatSuffix_append _ c rest h]
  · rw [eatSuffix_append _ c rest h]

/-- **Appending a stop character behind a text does not change what `number` takes of it**, provided a `.` is not put
directly behind a final `.`. -/
theorem lexNumberRest_append (s : Str) (c : Char) (rest : Str) (hne : s ≠ []) (h : Stop c)
    (hdot : c = '.' → ∃ r, rest = '.' :: r) (hs : c = '.' → s.getLast? ≠ some '.') :
    lexNumberRest (s ++ c :: rest) = lexNumberRest s ++ c :: rest := by
  match s with
  | [] => exact absurd rfl hne
  | d :: t =>
    have hlast : c = '.' → t ≠ [] → t.getLast? ≠ some '.' := by
      intro e hne' hh
      apply hs e
      cases t with
      | nil => exact absurd rfl hne'
      | cons b t' => rw [List.getLast?_cons_cons]; exact hh
    have hdw : ∀ (p : Char → Bool), c = '.' → t.dropWhile p ≠ ['.'] := by
      intro p e hh
      have := dropWhile_singleton_getLast t '.' hh
      have hne' : t ≠ [] := by intro e'; subst e'; simp at hh
      exact hlast e hne' this
    by_cases hd : (d == '0') = true
    · simp only [List.cons_append, lexNumberRest, hd, if_true]
      match t with
      | [] =>
        -- `0` directly followed by the stop character
        have hb : (c == 'b' || c == 'o') = false := by simp [h.b, h.o]
        have hx : (c == 'x') = false := by simp [h.x]
        by_cases hc : c = '.'
        · subst hc
          obtain ⟨r, hr⟩ := hdot rfl
          subst hr
          simp [afterDigits, eatSuffix, isDecU, isIdStartA]
        · have hc' : (c == '.') = false := by simp [hc]
          have he : (c == 'e') = false := by simp [h.e]
          have hE : (c == 'E') = false := by simp [h.E]
          simp [hb, hx, h.dec, hc', he, hE, eatSuffix, h.ids]
      | x :: u =>
        have hu : c = '.' → u.getLast? ≠ some '.' := by
          intro e hh
          have := hlast e (by simp)
          cases u with
          | nil => simp at hh
          | cons b u' => rw [List.getLast?_cons_cons] at this; exact this hh
        simp only [List.cons_append]
        by_cases hb : (x == 'b' || x == 'o') = true
        · simp only [hb, if_true]
          exact afterBase_append isDecU u c rest h h.dec hdot hu
        · have hb' : (x == 'b' || x == 'o') = false := by simpa using hb
          simp only [hb', Bool.false_eq_true, if_false]
          by_cases hx : (x == 'x') = true
          · simp only [hx, if_true]
            exact afterBase_append isHexU u c rest h h.hex hdot hu
          · have hx' : (x == 'x') = false := by simpa using hx
            simp only [hx', Bool.false_eq_true, if_false]
            by_cases hdec : isDecU x = true
            · simp only [hdec, if_true]
              have := dropWhile_append_stop' (x :: u) c rest h.dec
              simp only [List.cons_append] at this
              rw [this, afterDigits_append _ c rest h hdot (hdw isDecU), eatSuffix_append _ c rest h]
            · have hdec' : isDecU x = false := by simpa using hdec
              simp only [hdec', Bool.false_eq_true, if_false]
              by_cases hpt : (x == '.' || x == 'e' || x == 'E') = true
              · simp only [hpt, if_true]
                have hne2 : c = '.' → x :: u ≠ ['.'] := by
                  intro e hh
                  have := hlast e (by simp)
                  rw [hh] at this; simp at this
                have := afterDigits_append (x :: u) c rest h hdot hne2
                simp only [List.cons_append] at this
                rw [this, eatSuffix_append _ c rest h]
              · have hpt' : (x == '.' || x == 'e' || x == 'E') = false := by simpa using hpt
                simp only [hpt', Bool.false_eq_true, if_false]
                have := eatSuffix_append (x :: u) c rest h
                simpa using this
    · have hd' : (d == '0') = false := by simpa using hd
      simp only [List.cons_append, lexNumberRest, hd', Bool.false_eq_true, if_false]
      rw [dropWhile_append_stop' t c rest h.dec, afterDigits_append _ c rest h hdot (hdw isDecU),
          eatSuffix_append _ c rest h]

/-! ### §8 the last character of a printed float literal -/

open RF.Lit RF.Lemmas.Literal

theorem getLast?_append_ne {α : Type} (a b : List α) (h : b ≠ []) : (a ++ b).getLast? = b.getLast? := by
  induction a with
  | nil => simp
  | cons x r ih =>
    have : r ++ b ≠ [] := by simp [h]
    cases hrb : r ++ b with
    | nil => exact absurd hrb this
    | cons y t => rw [List.cons_append, hrb, List.getLast?_cons_cons, ← hrb, ih]

theorem digU_last_ne_dot (l : List Char) (h : l.all isDigU = true) : l.getLast? ≠ some '.' := by
  intro hl
  have hm := List.mem_of_getLast? hl
  rw [List.all_eq_true] at h
  have := h '.' hm
  simp [isDigU, isDigit] at this

theorem expWF_last_ne_dot {e : List Char} (h : ExpWF e) : e.getLast? ≠ some '.' ∧ e ≠ [] := by
  obtain ⟨c, sign, d, rfl, -, -, hd, hne⟩ := h.ex
  refine ⟨?_, by simp⟩
  have : c :: sign ++ d = (c :: sign) ++ d := by simp
  rw [this, getLast?_append_ne _ _ hne]
  exact digU_last_ne_dot d hd

theorem not_mem_last_ne (l : List Char) (h : '.' ∉ l) : l.getLast? ≠ some '.' :=
  fun hl => h (List.mem_of_getLast? hl)

/-- the last character of `ip ++ period ++ frac ++ ex ++ suffix` -/
theorem printed_last (ip frac suffix : List Char) (point : Bool) (ex : Option (List Char))
    (hip : ip.all isDigU = true) (hfr : frac.all isDigU = true) (hex : ∀ e, ex = some e → ExpWF e)
    (hsuf : '.' ∉ suffix) :
    ((ip ++ (if point then ['.'] else []) ++ frac ++ ex.getD [] ++ suffix).getLast? == some '.') =
      (point && frac.isEmpty && ex.isNone && suffix.isEmpty) := by
  by_cases hs : suffix = []
  · subst hs
    simp only [List.append_nil, List.isEmpty_nil, Bool.and_true]
    cases ex with
    | some e =>
      obtain ⟨h1, h2⟩ := expWF_last_ne_dot (hex e rfl)
      simp only [Option.getD_some, Option.isNone_some, Bool.and_false]
      rw [getLast?_append_ne _ _ h2]
      simp [h1]
    | none =>
      simp only [Option.getD_none, List.append_nil, Option.isNone_none, Bool.and_true]
      by_cases hf : frac = []
      · subst hf
        cases point
        · have := digU_last_ne_dot ip hip
          simp [this]
        · simp
      · rw [getLast?_append_ne _ _ hf]
        have := digU_last_ne_dot frac hfr
        cases frac with
        | nil => exact absurd rfl hf
        | cons a r => simp [this]
  · rw [getLast?_append_ne _ _ hs]
    have := not_mem_last_ne suffix hsuf
    cases suffix with
    | nil => exact absurd rfl hs
    | cons a r => simp [this]

end RF.Lemmas.OptRewrites
